(** C06 / sort-argsort refinement, part 1: keys.
    - [sort_keys] on (optional) keys computes [sort_leaves] on the corresponding values;
    - [content_of_keys] rebuilds a layout whose value is the list of keys;
    - [leaf_keys] reads the keys of a valid leaf-level layout: its value is the list of keys.
    Part 2 (Proofs_SortRef2.v): the list action [sort_g], the at-axis refinement and [sort_model]. *)
From Coq Require Import ZArith List Bool Lia ZifyBool Permutation.
From AwkV Require Import Base Layout LayoutInd Valid Types AtAxis Carry Ops_Sort Typing Proofs_Typing Proofs_C11
                         Proofs_Lists Proofs_ToList Proofs_Carry Proofs_AtAxis Proofs_AtAxisOps Proofs_Sort.
Import ListNotations.
Open Scope Z_scope.
Ltac Zify.zify_post_hook ::= Z.to_euclidean_division_equations.

(* ---------------------------------------------------------------- keys as values *)
Definition val_of_okey (o : option key) : value :=
  match o with Some k => value_of_key k | None => VNone end.

Lemma value_of_key_nonone k : value_of_key k <> VNone.
Proof. destruct k; discriminate. Qed.
Lemma key_of_value_of_key k : key_of_value (value_of_key k) = Ok k.
Proof. destruct k; reflexivity. Qed.

(* the two filters of [sort_leaves] against the two [flat_map]s of [sort_keys] *)
Lemma keyed_of_keys (js : list Z) : forall ks : list (option key),
  mapM (fun jv : Z * value => do k <- key_of_value (snd jv); Ok (fst jv, k))
       (filter (fun jv : Z * value => match snd jv with VNone => false | _ => true end) (zip js (map val_of_okey ks)))
  = Ok (flat_map (fun jk : Z * option key => match snd jk with Some k => [(fst jk, k)] | None => [] end) (zip js ks)).
Proof.
  induction js as [|j js IH]; intros [|o ks]; try reflexivity.
  cbn [map zip filter flat_map snd fst]. destruct o as [k|]; cbn [val_of_okey].
  - assert (E : match value_of_key k with VNone => false | _ => true end = true) by (destruct k; reflexivity).
    rewrite E. cbn [mapM snd fst]. rewrite key_of_value_of_key. cbn [bind]. rewrite IH. reflexivity.
  - apply IH.
Qed.
Lemma nones_of_keys (js : list Z) : forall ks : list (option key),
  map fst (filter (fun jv : Z * value => match snd jv with VNone => true | _ => false end) (zip js (map val_of_okey ks)))
  = flat_map (fun jk : Z * option key => match snd jk with None => [fst jk] | Some _ => [] end) (zip js ks).
Proof.
  induction js as [|j js IH]; intros [|o ks]; try reflexivity.
  cbn [map zip filter flat_map snd fst]. destruct o as [k|]; cbn [val_of_okey].
  - assert (E : match value_of_key k with VNone => true | _ => false end = false) by (destruct k; reflexivity).
    rewrite E. apply IH.
  - cbn [map fst app]. f_equal. apply IH.
Qed.

(* the value-level sort of the values of some keys is the key-level sort *)
Lemma sort_leaves_keys asc argsort dt (ks : list (option key)) :
  sort_leaves asc argsort (enumv (map val_of_okey ks)) = Ok (map val_of_okey (sort_keys asc argsort dt ks)).
Proof.
  unfold sort_leaves, enumv, sort_keys. rewrite zlen_map, keyed_of_keys. cbn [bind].
  set (sorted := sort_by _ _).
  set (nonesv := filter _ _).
  assert (Hn : map fst nonesv =
               flat_map (fun jk : Z * option key => match snd jk with None => [fst jk] | Some _ => [] end) (zip (iota (zlen ks)) ks))
    by apply nones_of_keys.
  destruct argsort; rewrite map_app, !map_map; f_equal.
  - rewrite <- Hn, map_map. reflexivity.
  - rewrite <- Hn, !map_map. reflexivity.
Qed.

(* ---------------------------------------------------------------- homogeneous keys *)
Inductive kkind := KKNum | KKBool | KKStr (isstr : bool).
Definition kind_of (k : key) : kkind :=
  match k with KNum _ => KKNum | KBool _ => KKBool | KStr i _ => KKStr i end.
Definition homog (kd : kkind) (ks : list (option key)) : Prop :=
  Forall (fun o : option key => match o with Some k => kind_of k = kd | None => True end) ks.
(* the dtype the keys are written back with *)
Definition compat (kd : kkind) (dt : dtype) : Prop :=
  match kd with KKNum => dt <> DBool | KKBool => dt = DBool | KKStr _ => True end.

Lemma homog_sub kd ks ks' : homog kd ks -> (forall k, In (Some k) ks' -> In (Some k) ks) -> homog kd ks'.
Proof.
  unfold homog. rewrite !Forall_forall. intros H Hs [k|] Ho; [|exact I]. apply (H (Some k)), Hs, Ho.
Qed.
Lemma homog_app kd a b : homog kd a -> homog kd b -> homog kd (a ++ b).
Proof. unfold homog. intros. apply Forall_app. split; assumption. Qed.
Lemma homog_concat kd ls : Forall (homog kd) ls -> homog kd (concat ls).
Proof. induction 1; cbn [concat]; [constructor|apply homog_app; assumption]. Qed.

Lemma valid_pairs_In (js : list Z) : forall (ks : list (option key)) j k,
  In (j, k) (flat_map (fun jk : Z * option key => match snd jk with Some k => [(fst jk, k)] | None => [] end) (zip js ks)) ->
  In (Some k) ks.
Proof.
  intros ks j k H. apply in_flat_map in H as ([j' o] & Hz & Hin). apply zip_In in Hz as [_ Hz].
  cbn [snd fst] in Hin. destruct o as [k'|]; [|contradiction]. destruct Hin as [Hin|[]]. inversion Hin; subst. exact Hz.
Qed.

Lemma sort_keys_homog asc (argsort : bool) dt kd ks :
  homog kd ks -> homog (if argsort then KKNum else kd) (sort_keys asc argsort dt ks).
Proof.
  intros H. unfold sort_keys. destruct argsort.
  - apply Forall_app. split; apply Forall_forall; intros o Ho; apply in_map_iff in Ho as (x & <- & _); reflexivity.
  - apply homog_app.
    + eapply homog_sub; [exact H|]. intros k Hk. apply in_map_iff in Hk as ([j k'] & Hk & Hin). inversion Hk; subst.
      apply (Permutation_in _ (sort_by_perm _ _ _)) in Hin. eapply valid_pairs_In, Hin.
    + apply Forall_forall. intros o Ho. apply in_map_iff in Ho as (x & <- & _). exact I.
Qed.
Lemma sort_keys_compat (argsort : bool) kd dt :
  compat kd dt -> compat (if argsort then KKNum else kd) (if argsort then DInt64 else dt).
Proof. destruct argsort; [discriminate|auto]. Qed.

(* ---------------------------------------------------------------- content_of_keys *)
Definition valid_keys (ks : list (option key)) : list key :=
  flat_map (fun o : option key => match o with Some k => [k] | None => [] end) ks.
Fixpoint okey_index (ks : list (option key)) (n : Z) : list Z :=
  match ks with
  | [] => []
  | Some _ :: r => n :: okey_index r (n + 1)
  | None :: r => -1 :: okey_index r n
  end.
Definition keys_inner (dt : dtype) (valid : list key) : content :=
  if existsb (fun k => match k with KStr _ _ => true | _ => false end) valid then
    let strs := map (fun k => match k with KStr _ s => s | _ => [] end) valid in
    let i := match valid with KStr i _ :: _ => i | _ => true end in
    Par (Some (if i then AString else ABytestring)) None
      (ListOffset I64 (offsets_from 0 (map zlen strs))
         (Par (Some (if i then AChar else AByte)) None
            (Numpy DUInt8 [zlen (concat strs)] (map DZ (concat strs)))))
  else
    Numpy dt [zlen valid]
      (map (fun k => match k with KNum d => d | KBool b => DZ (if b then 1 else 0) | _ => DZ 0 end) valid).
Lemma content_of_keys_eq dt ks :
  content_of_keys dt ks =
  if existsb (fun o : option key => match o with None => true | Some _ => false end) ks
  then IndexedOption I64 (okey_index ks 0) (keys_inner dt (valid_keys ks)) else keys_inner dt (valid_keys ks).
Proof.
  unfold content_of_keys, keys_inner, valid_keys.
  assert (E : forall ks n,
    (fix go (ks : list (option key)) (n : Z) : list Z :=
       match ks with [] => [] | Some _ :: r => n :: go r (n + 1) | None :: r => -1 :: go r n end) ks n = okey_index ks n).
  { clear. induction ks as [|[k|] r IH]; intros n; cbn [okey_index]; try reflexivity; rewrite IH; reflexivity. }
  rewrite E. reflexivity.
Qed.

Lemma to_list_numpy_1d dt (data : list datum) :
  to_list (Numpy dt [zlen data] data) = Ok (map (leaf dt) data).
Proof.
  rewrite to_list_Numpy. cbn [existsb prodZ fold_right]. rewrite Z.mul_1_r.
  pose proof (zlen_nonneg data). destruct (zlen data <? 0) eqn:E; [lia|]. cbn [orb]. rewrite Z.ltb_irrefl. cbn [nest].
  rewrite take_all by lia. reflexivity.
Qed.

Lemma homog_valid kd ks : homog kd ks -> Forall (fun k => kind_of k = kd) (valid_keys ks).
Proof.
  unfold homog, valid_keys. intros H. apply Forall_forall. intros k Hk. apply in_flat_map in Hk as (o & Ho & Hk).
  rewrite Forall_forall in H. specialize (H o Ho). destruct o as [k'|]; [|contradiction]. destruct Hk as [<-|[]]. exact H.
Qed.

Lemma bytes_of_chars_ok s : bytes_of (VList (map (fun z => VNum (DZ z)) s)) = Ok s.
Proof.
  cbn [bytes_of]. rewrite mapM_map. cbv beta iota.
  rewrite (mapM_pure (fun z : Z => z)), map_id. reflexivity.
Qed.

Lemma keys_inner_to_list dt kd valid :
  Forall (fun k => kind_of k = kd) valid -> compat kd dt ->
  to_list (keys_inner dt valid) = Ok (map value_of_key valid).
Proof.
  intros Hk Hc. unfold keys_inner.
  destruct (existsb (fun k => match k with KStr _ _ => true | _ => false end) valid) eqn:Es.
  - (* strings *)
    apply existsb_exists in Es as (k0 & Hk0 & Ek0). destruct k0 as [| |fl s0]; try discriminate.
    rewrite Forall_forall in Hk. pose proof (Hk _ Hk0) as Ekd. cbn [kind_of] in Ekd. subst kd.
    assert (Hall : forall k, In k valid -> exists s, k = KStr fl s).
    { intros k Hin. specialize (Hk k Hin). destruct k; try discriminate. inversion Hk; subst. eauto. }
    assert (Hfl : match valid with KStr i _ :: _ => i | _ => true end = fl).
    { destruct valid as [|k r]; [contradiction|]. destruct (Hall k (or_introl eq_refl)) as [s ->]. reflexivity. }
    rewrite Hfl. clear Hfl.
    set (strs := map (fun k => match k with KStr _ s => s | _ => [] end) valid).
    assert (Hv : map value_of_key valid = map (VStr fl) strs).
    { unfold strs. rewrite map_map. apply map_ext_in. intros k Hin. destruct (Hall k Hin) as [s ->]. reflexivity. }
    rewrite Hv.
    assert (Hin : to_list (Par (Some (if fl then AChar else AByte)) None
                             (Numpy DUInt8 [zlen (concat strs)] (map DZ (concat strs))))
                  = Ok (concat (map (map (fun z => VNum (DZ z))) strs))).
    { rewrite to_list_Par. replace (zlen (concat strs)) with (zlen (map DZ (concat strs))) by apply zlen_map.
      rewrite to_list_numpy_1d. cbn [bind]. rewrite map_map, concat_map.
      destruct fl; reflexivity. }
    rewrite to_list_Par, to_list_ListOffset, Hin. cbn [bind].
    rewrite (cut_concat_lens (map (map (fun z => VNum (DZ z))) strs)).
    2:{ rewrite map_map. apply map_ext. intros s. rewrite zlen_map. reflexivity. }
    cbn [rmap bind].
    assert (G : forall b, mapM (fun v => rmap (VStr b) (bytes_of v)) (map VList (map (map (fun z => VNum (DZ z))) strs))
                          = Ok (map (VStr b) strs)).
    { intros b. rewrite !mapM_map. rewrite (mapM_ext_in _ (fun s => Ok (VStr b s))).
      - apply mapM_pure.
      - intros s _. rewrite bytes_of_chars_ok. reflexivity. }
    destruct fl; apply G.
  - (* numbers / booleans *)
    set (data := map (fun k => match k with KNum d => d | KBool b => DZ (if b then 1 else 0) | _ => DZ 0 end) valid).
    replace (zlen valid) with (zlen data) by apply zlen_map.
    rewrite to_list_numpy_1d. f_equal. unfold data. rewrite map_map. apply map_ext_in. intros k Hin.
    rewrite Forall_forall in Hk. specialize (Hk k Hin).
    destruct k as [d|b|i s]; cbn [kind_of] in Hk; subst kd; cbn [compat value_of_key] in *.
    + destruct dt; try reflexivity. congruence.
    + subst dt. destruct b; reflexivity.
    + exfalso. assert (X : existsb (fun k => match k with KStr _ _ => true | _ => false end) valid = true).
      { apply existsb_exists. exists (KStr i s). split; [exact Hin|reflexivity]. }
      congruence.
Qed.

Lemma okey_index_pick (vals : list value) : forall ks pre,
  vals = map value_of_key (pre ++ valid_keys ks) ->
  mapM (fun i => pick_opt vals (0 <=? i) i) (okey_index ks (zlen pre)) = Ok (map val_of_okey ks).
Proof.
  induction ks as [|[k|] r IH]; intros pre Hv; cbn [okey_index map mapM val_of_okey]; [reflexivity| |].
  - pose proof (zlen_nonneg pre). destruct (0 <=? zlen pre) eqn:E; [|lia]. cbn [pick_opt].
    assert (Hg : get vals (zlen pre) = Ok (value_of_key k)).
    { subst vals. rewrite get_map, get_app2 by lia. rewrite Z.sub_diag. reflexivity. }
    rewrite Hg. cbn [bind].
    specialize (IH (pre ++ [k])). rewrite zlen_app in IH. change (zlen [k]) with 1 in IH.
    rewrite IH; [reflexivity|]. rewrite <- app_assoc. exact Hv.
  - cbn [pick_opt Z.leb Z.compare]. cbn [bind]. rewrite (IH pre Hv). reflexivity.
Qed.

Lemma nonone_keys ks :
  existsb (fun o : option key => match o with None => true | Some _ => false end) ks = false ->
  map val_of_okey ks = map value_of_key (valid_keys ks).
Proof.
  induction ks as [|[k|] r IH]; cbn [existsb map valid_keys flat_map app orb val_of_okey]; intros H;
    [reflexivity| |discriminate].
  f_equal. apply IH, H.
Qed.

Theorem content_of_keys_to_list dt kd ks :
  homog kd ks -> compat kd dt -> to_list (content_of_keys dt ks) = Ok (map val_of_okey ks).
Proof.
  intros Hh Hc. rewrite content_of_keys_eq.
  pose proof (keys_inner_to_list dt kd (valid_keys ks) (homog_valid kd ks Hh) Hc) as Hin.
  destruct (existsb _ ks) eqn:En.
  - rewrite to_list_IndexedOption, Hin. cbn [bind]. apply (okey_index_pick _ ks []). reflexivity.
  - rewrite Hin, (nonone_keys ks En). reflexivity.
Qed.

(* ---------------------------------------------------------------- leaf_keys *)
(* types whose layouts [leaf_keys] can read: [is_leaf_ty] and the unknown type of EmptyArray *)
Fixpoint leafish (t : ty) : bool :=
  match t with
  | TNum _ | TUnk => true
  | TList _ (Some _) _ => true
  | TOpt t' => leafish t'
  | _ => false
  end.

Lemma leaf_dtype_Indexed w ix c : leaf_dtype (Indexed w ix c) = leaf_dtype c. Proof. reflexivity. Qed.
Lemma leaf_dtype_IndexedOption w ix c : leaf_dtype (IndexedOption w ix c) = leaf_dtype c. Proof. reflexivity. Qed.
Lemma leaf_dtype_ByteMasked m vw c : leaf_dtype (ByteMasked m vw c) = leaf_dtype c. Proof. reflexivity. Qed.
Lemma leaf_dtype_BitMasked m vw lsb n c : leaf_dtype (BitMasked m vw lsb n c) = leaf_dtype c. Proof. reflexivity. Qed.
Lemma leaf_dtype_Unmasked c : leaf_dtype (Unmasked c) = leaf_dtype c. Proof. reflexivity. Qed.
Lemma leaf_dtype_Par a r c : leaf_dtype (Par a r c) = leaf_dtype c. Proof. reflexivity. Qed.

Definition keys_of (c : content) (vs : list value) (ks : list (option key)) : Prop :=
  vs = map val_of_okey ks /\ exists kd, homog kd ks /\ compat kd (leaf_dtype c).

(* 1-d NumpyArray: needs only that the buffer has a value (so it also serves for character buffers,
   which validity does not inspect) *)
Lemma leaf_keys_numpy p dt n data vs :
  to_list (Numpy dt [n] data) = Ok vs ->
  exists ks, leaf_keys p (Numpy dt [n] data) = Ok ks /\ keys_of (Numpy dt [n] data) vs ks.
Proof.
  intros Hl. apply to_list_Numpy_inv in Hl as (n' & dims & E & Hs & Hd & Hn). inversion E; subst n' dims.
  cbn [prodZ fold_right] in Hn, Hd. rewrite Z.mul_1_r in Hn, Hd. cbn [nest] in Hn. inversion Hn; subst vs.
  eexists. split; [reflexivity|]. cbn [clen]. split.
  - rewrite map_map. apply map_ext. intros d. destruct dt; try reflexivity. destruct d; reflexivity.
  - exists (match dt with DBool => KKBool | _ => KKNum end). split.
    + apply Forall_forall. intros o Ho. apply in_map_iff in Ho as (d & <- & _). destruct dt; reflexivity.
    + change (leaf_dtype (Numpy dt [n] data)) with dt. destruct dt; cbn [compat]; congruence.
Qed.

Lemma mapM_rel {A B C} (P : A -> res B) (Q : A -> res C) (h : C -> B) l vs :
  (forall x v, In x l -> P x = Ok v -> exists w, Q x = Ok w /\ v = h w) ->
  mapM P l = Ok vs -> exists ws, mapM Q l = Ok ws /\ vs = map h ws.
Proof.
  revert vs. induction l as [|x l IH]; intros vs H Hp; cbn [mapM] in Hp.
  - inversion Hp; subst. exists []. split; reflexivity.
  - apply bind_Ok in Hp as (v & Hv & Hp). apply bind_Ok in Hp as (vs' & Hvs' & Hp). inversion Hp; subst.
    destruct (H x v (or_introl eq_refl) Hv) as (w & Hq & ->).
    destruct (IH vs') as (ws & Hqs & ->); [intros y u Hy; apply H; right; exact Hy|exact Hvs'|].
    exists (w :: ws). cbn [mapM]. rewrite Hq, Hqs. split; reflexivity.
Qed.

Lemma slice_take {A} (d : list A) n a b : b <= n -> n <= zlen d -> a <> b -> slice (take n d) a b = slice d a b.
Proof.
  intros Hb Hn Hab. unfold slice.
  destruct (0 <=? a) eqn:E1; [|reflexivity]. destruct (a <=? b) eqn:E2; [|reflexivity]. cbn [andb].
  assert (H0 : 0 <= n <= zlen d) by lia.
  rewrite (zlen_take d n H0).
  destruct (b <=? n) eqn:E3; [|lia]. destruct (b <=? zlen d) eqn:E4; [|lia]. f_equal.
  assert (Z1 : zlen (drop a (take n d)) = n - a) by (rewrite zlen_drop; rewrite ?zlen_take; lia).
  assert (Z2 : zlen (drop a d) = zlen d - a) by (rewrite zlen_drop; lia).
  apply get_ext.
  - rewrite !zlen_take by lia. reflexivity.
  - intros i Hi. rewrite zlen_take in Hi by lia.
    rewrite !get_take by lia. rewrite !get_drop by lia. apply get_take. lia.
Qed.

(* string / bytestring node: one key per string *)
Lemma leaf_keys_string p c rn vs :
  is_strk p = true -> Valid p c -> to_list (Par p rn c) = Ok vs ->
  exists ks, leaf_keys p c = Ok ks /\ keys_of c vs ks.
Proof.
  intros Es HV Hl.
  assert (Hp : ParamOk p c) by (inversion HV; subst; try assumption; discriminate).
  destruct (ParamOk_str p c Hp Es) as (cc & k & rn' & n & dd & Hcc & Hccdef & Hk).
  rewrite to_list_Par in Hl. apply bind_Ok in Hl as (raw & Hraw & Hl).
  assert (Hcook : exists b, strflag p = Some b /\ mapM (fun v => rmap (VStr b) (bytes_of v)) raw = Ok vs).
  { destruct p as [[]|]; try discriminate; eexists; split; try reflexivity; exact Hl. }
  destruct Hcook as (b & Hb & Hcook). clear Hl.
  destruct (list_bounds_spec c cc raw Hcc Hraw) as (bs & vs0 & ls & Hbs & Hl0 & Hcut & ->).
  assert (Hnum : to_list (Numpy DUInt8 [n] dd) = Ok vs0).
  { subst cc. rewrite to_list_Par in Hl0. apply bind_Ok in Hl0 as (x & Hx & Hl0).
    destruct Hk as [-> | ->]; inversion Hl0; subst; exact Hx. }
  apply to_list_Numpy_inv in Hnum as (n' & dims & E & Hs & Hd & Hn). inversion E; subst n' dims.
  cbn [prodZ fold_right] in Hn, Hd. rewrite Z.mul_1_r in Hn, Hd. cbn [nest] in Hn. inversion Hn; subst vs0. clear Hn E.
  inversion Hs as [|? ? Hn0 _]; subst.
  assert (HLK : leaf_keys p c =
                mapM (fun ab : Z * Z =>
                        do ds <- (if fst ab =? snd ab then Ok [] else slice dd (fst ab) (snd ab));
                        do bs <- mapM (fun d => match d with DZ z => Ok z | _ => Err EValue end) ds;
                        Ok (Some (KStr b bs))) bs).
  { destruct c; try discriminate; cbn [list_content] in Hcc; inversion Hcc; subst; cbn [leaf_keys];
      rewrite Hb, Hbs; reflexivity. }
  rewrite HLK.
  rewrite mapM_map in Hcook. rewrite (mapM_mapM _ _ _ _ Hcut) in Hcook.
  set (Q := fun ab : Z * Z =>
              do ds <- (if fst ab =? snd ab then Ok [] else slice dd (fst ab) (snd ab));
              do bs <- mapM (fun d => match d with DZ z => Ok z | _ => Err EValue end) ds;
              Ok (Some (KStr b bs))).
  assert (HR : exists ks, mapM Q bs = Ok ks /\ vs = map val_of_okey ks); [eapply mapM_rel; [|exact Hcook]|destruct HR as (ks & Hks & ->)].
  - intros [a e] v _ Hv. unfold Q. cbn [fst snd]. apply bind_Ok in Hv as (l & Hl & Hv). apply rmap_Ok in Hv as (s & Hs' & ->).
    assert (Hds : exists ds, (if a =? e then Ok [] else slice dd a e) = Ok ds /\ l = map (leaf DUInt8) ds).
    { unfold cut1 in Hl. destruct (a =? e) eqn:Eae.
      - inversion Hl; subst. exists []. split; reflexivity.
      - pose proof (slice_inv _ _ _ _ Hl) as (H1 & H2 & H3 & _). rewrite zlen_map, zlen_take in H3 by lia.
        rewrite slice_map, slice_take in Hl by lia. apply rmap_Ok in Hl as (ds & Hds & ->). eauto. }
    destruct Hds as (ds & -> & ->). cbn [bind].
    cbn [bytes_of] in Hs'. rewrite mapM_map in Hs'.
    rewrite (mapM_ext_in _ (fun d => match d with DZ z => Ok z | _ => Err EValue end)) in Hs'
      by (intros d _; destruct d; reflexivity).
    rewrite Hs'. cbn [bind]. eexists. split; reflexivity.
  - exists ks. split; [exact Hks|]. split; [reflexivity|]. exists (KKStr b). split; [|exact I].
    apply Forall_forall. intros o Ho. destruct (mapM_In_inv _ _ _ _ Hks Ho) as (ab & _ & Hab).
    unfold Q in Hab. apply bind_Ok in Hab as (ds & _ & Hab). apply bind_Ok in Hab as (bs' & _ & Hab). inversion Hab. reflexivity.
Qed.

Lemma to_list_Par_None rn c : to_list (Par None rn c) = to_list c.
Proof. rewrite to_list_Par. destruct (to_list c); reflexivity. Qed.

Lemma keys_of_gather c c' vs0 ks0 ks :
  leaf_dtype c' = leaf_dtype c -> keys_of c vs0 ks0 -> (forall k, In (Some k) ks -> In (Some k) ks0) ->
  keys_of c' (map val_of_okey ks) ks.
Proof.
  intros Hd (_ & kd & Hh & Hc) Hs. split; [reflexivity|]. exists kd. rewrite Hd. split; [|exact Hc].
  eapply homog_sub; eassumption.
Qed.

Lemma pick_keys ks0 (i : Z) (b : bool) :
  pick_opt (map val_of_okey ks0) b i = rmap val_of_okey (if b then get ks0 i else Ok None).
Proof. unfold pick_opt. destruct b; [apply get_map|reflexivity]. Qed.

Definition leaf_keys_at (c : content) : Prop :=
  forall p vs, Valid p c -> leafish (type_of_p p c) = true -> to_list (Par p None c) = Ok vs ->
  exists ks, leaf_keys p c = Ok ks /\ keys_of c vs ks.

(* the option nodes: keys of the content picked by the (normalised) index *)
Lemma leaf_keys_option c c' (idx : list Z) vs0 ks0 vs :
  leaf_dtype c = leaf_dtype c' -> keys_of c' vs0 ks0 ->
  mapM (fun i => pick_opt vs0 (0 <=? i) i) idx = Ok vs ->
  exists ks, mapM (fun i => if i <? 0 then Ok None else get ks0 i) idx = Ok ks /\ keys_of c vs ks.
Proof.
  intros Hd Hk Hm. pose proof Hk as (-> & _).
  rewrite (mapM_ext_in _ (fun i => rmap val_of_okey (if i <? 0 then Ok None else get ks0 i))) in Hm.
  2:{ intros i _. rewrite pick_keys. destruct (0 <=? i) eqn:E1, (i <? 0) eqn:E2; try reflexivity; lia. }
  rewrite mapM_rmap in Hm. apply rmap_Ok in Hm as (ks & Hks & ->).
  exists ks. split; [exact Hks|]. eapply keys_of_gather; [exact Hd|exact Hk|].
  intros k Hin. destruct (mapM_In_inv _ _ _ _ Hks Hin) as (i & _ & Hi).
  destruct (i <? 0); [discriminate|]. eapply get_In, Hi.
Qed.

Theorem leaf_keys_all c : leaf_keys_at c.
Proof.
  induction c as [dt shape data| |w o c IHc|w s e c IHc|c size zl IHc|w ix c IHc|w ix c IHc|m vw c IHc
                 |m vw lsb n c IHc|c IHc|w t ix cs IHcs|cs ks n IHcs|arr rn c IHc] using content_ind';
    intros p vs HV Hlf Hl; pose proof HV as HV0; inversion HV; subst;
    try (match goal with Hp : ParamOk p _ |- _ => pose proof (ParamOk_nonlist _ _ Hp eq_refl); subst p end);
    try rewrite to_list_Par_None in Hl.
  - (* Numpy *)
    cbn [type_of_p] in Hlf. destruct shape as [|n [|d ds]]; [congruence| |discriminate].
    apply leaf_keys_numpy, Hl.
  - (* Empty *)
    inversion Hl; subst. exists []. split; [reflexivity|]. split; [reflexivity|]. exists KKNum. split; [constructor|discriminate].
  - (* ListOffset *)
    cbn [type_of_p leafish] in Hlf. destruct (strflag p) eqn:Es; [|discriminate].
    eapply leaf_keys_string; [destruct p as [[]|]; try discriminate; reflexivity|exact HV0|exact Hl].
  - (* ListA *)
    cbn [type_of_p leafish] in Hlf. destruct (strflag p) eqn:Es; [|discriminate].
    eapply leaf_keys_string; [destruct p as [[]|]; try discriminate; reflexivity|exact HV0|exact Hl].
  - (* Regular *)
    cbn [type_of_p leafish] in Hlf. destruct (strflag p) eqn:Es; [|discriminate].
    eapply leaf_keys_string; [destruct p as [[]|]; try discriminate; reflexivity|exact HV0|exact Hl].
  - (* Indexed *)
    cbn [type_of_p] in Hlf. rewrite to_list_Indexed in Hl. apply bind_Ok in Hl as (vs0 & Hl0 & Hl).
    destruct (IHc None vs0) as (ks0 & Hk0 & Hko); [assumption|exact Hlf|rewrite to_list_Par_None; exact Hl0|].
    pose proof Hko as (-> & _). rewrite gather_map in Hl. apply rmap_Ok in Hl as (ks & Hks & ->).
    exists ks. cbn [leaf_keys]. rewrite Hk0. cbn [bind]. split; [exact Hks|].
    eapply keys_of_gather; [apply leaf_dtype_Indexed|exact Hko|].
    intros k Hin. destruct (mapM_In_inv _ _ _ _ Hks Hin) as (i & _ & Hi). eapply get_In, Hi.
  - (* IndexedOption *)
    cbn [type_of_p leafish] in Hlf. rewrite to_list_IndexedOption in Hl. apply bind_Ok in Hl as (vs0 & Hl0 & Hl).
    destruct (IHc None vs0) as (ks0 & Hk0 & Hko); [assumption|exact Hlf|rewrite to_list_Par_None; exact Hl0|].
    cbn [leaf_keys option_index bind fst]. rewrite Hk0. cbn [bind]. rewrite mapM_map.
    destruct (leaf_keys_option (IndexedOption w ix c) c ix vs0 ks0 vs (leaf_dtype_IndexedOption w ix c) Hko Hl)
      as (ks & Hks & Hkeys).
    exists ks. split; [|exact Hkeys]. rewrite <- Hks. apply mapM_ext_in. intros i _.
    destruct (i <? 0) eqn:E; [reflexivity|]. rewrite E. reflexivity.
  - (* ByteMasked *)
    cbn [type_of_p leafish] in Hlf. rewrite to_list_ByteMasked in Hl. apply bind_Ok in Hl as (vs0 & Hl0 & Hl).
    destruct (IHc None vs0) as (ks0 & Hk0 & Hko); [assumption|exact Hlf|rewrite to_list_Par_None; exact Hl0|].
    cbn [leaf_keys option_index bind fst]. rewrite Hk0. cbn [bind]. rewrite mapM_map.
    set (sel := fun im : Z * Z => let (i, b) := im in if Bool.eqb (negb (b =? 0)) vw then i else -1).
    assert (Hl' : mapM (fun i => pick_opt vs0 (0 <=? i) i) (map sel (zip (iota (zlen m)) m)) = Ok vs).
    { rewrite mapM_map, <- Hl. apply mapM_ext_in. intros [i b] Hin. apply zip_In in Hin as [Hin _]. apply iota_In' in Hin.
      unfold sel. destruct (Bool.eqb (negb (b =? 0)) vw); [|reflexivity]. destruct (0 <=? i) eqn:E; [reflexivity|lia]. }
    destruct (leaf_keys_option (ByteMasked m vw c) c _ vs0 ks0 vs (leaf_dtype_ByteMasked m vw c) Hko Hl')
      as (ks' & Hks & Hkeys).
    exists ks'. split; [|exact Hkeys]. rewrite mapM_map in Hks. exact Hks.
  - (* BitMasked *)
    cbn [type_of_p leafish] in Hlf. rewrite to_list_BitMasked in Hl. apply bind_Ok in Hl as (vs0 & Hl0 & Hl).
    destruct (n <? 0) eqn:En; [discriminate|].
    destruct (IHc None vs0) as (ks0 & Hk0 & Hko); [assumption|exact Hlf|rewrite to_list_Par_None; exact Hl0|].
    assert (Hbits : forall i, In i (iota n) -> exists b, bit_at m lsb i = Ok b).
    { intros i Hi. destruct (mapM_Ok_In _ _ _ _ Hl Hi) as (y & Hy & _). destruct (bit_at m lsb i); [eauto|discriminate]. }
    destruct (mapM_total (fun i => do b <- bit_at m lsb i; Ok (if Bool.eqb b vw then i else -1)) (iota n)) as [idx Hidx].
    { intros i Hi. destruct (Hbits i Hi) as [b ->]. cbn [bind]. eauto. }
    cbn [leaf_keys option_index]. rewrite Hidx. cbn [bind fst]. rewrite Hk0. cbn [bind].
    assert (Hl' : mapM (fun i => pick_opt vs0 (0 <=? i) i) idx = Ok vs).
    { rewrite (mapM_mapM _ _ _ _ Hidx), <- Hl. apply mapM_ext_in. intros i Hi. destruct (Hbits i Hi) as [b ->]. cbn [bind].
      apply iota_In' in Hi. destruct (Bool.eqb b vw); [|reflexivity]. destruct (0 <=? i) eqn:E; [reflexivity|lia]. }
    destruct (leaf_keys_option (BitMasked m vw lsb n c) c idx vs0 ks0 vs (leaf_dtype_BitMasked m vw lsb n c) Hko Hl')
      as (ks' & Hks & Hkeys).
    exists ks'. split; assumption.
  - (* Unmasked *)
    cbn [type_of_p leafish] in Hlf. rewrite to_list_Unmasked in Hl.
    destruct (IHc None vs) as (ks0 & Hk0 & Hko); [assumption|exact Hlf|rewrite to_list_Par_None; exact Hl|].
    cbn [leaf_keys option_index bind fst]. rewrite Hk0. cbn [bind].
    pose proof Hko as (Hvs & kd & Hh & Hc).
    assert (Hz : clen c = zlen ks0) by (rewrite <- (to_list_len _ _ Hl), Hvs; apply zlen_map).
    exists ks0. split.
    + rewrite Hz. transitivity (mapM (get ks0) (iota (zlen ks0))); [|apply gather_all]. apply mapM_ext_in. intros i Hi. apply iota_In' in Hi.
      destruct (i <? 0) eqn:E; [lia|reflexivity].
    + split; [exact Hvs|]. exists kd. rewrite leaf_dtype_Unmasked. split; assumption.
  - discriminate.
  - cbn [type_of_p leafish] in Hlf. destruct ks; discriminate.
  - (* Par *)
    cbn [type_of_p] in Hlf. cbn [leaf_keys].
    destruct (IHc arr vs) as (ks' & Hk' & Hko); [assumption|exact Hlf| |].
    { rewrite to_list_Par in Hl |- *. exact Hl. }
    exists ks'. split; [exact Hk'|]. destruct Hko as (Hvs & kd & Hh & Hc). split; [exact Hvs|]. exists kd.
    rewrite leaf_dtype_Par. split; assumption.
Qed.

Corollary leaf_keys_spec c vs :
  Valid None c -> leafish (type_of c) = true -> to_list c = Ok vs ->
  exists ks, leaf_keys None c = Ok ks /\ keys_of c vs ks.
Proof. intros HV Hlf Hl. apply (leaf_keys_all c None vs HV Hlf). rewrite to_list_Par_None. exact Hl. Qed.

(* where the type is not a leaf type the key reader refuses *)
Lemma leaf_keys_refuses c : forall p, Valid p c -> leafish (type_of_p p c) = false -> leaf_keys p c = Err EValue.
Proof.
  induction c as [dt shape data| |w o c IHc|w s e c IHc|c size zl IHc|w ix c IHc|w ix c IHc|m vw c IHc
                 |m vw lsb n c IHc|c IHc|w t ix cs IHcs|cs ks n IHcs|arr rn c IHc] using content_ind';
    intros p HV Hlf; inversion HV; subst; cbn [type_of_p leafish] in Hlf; try discriminate.
  - destruct shape as [|n [|d ds]]; [congruence|discriminate|reflexivity].
  - cbn [leaf_keys]. destruct (strflag p); [discriminate|reflexivity].
  - cbn [leaf_keys]. destruct (strflag p); [discriminate|reflexivity].
  - cbn [leaf_keys]. destruct (strflag p); [discriminate|reflexivity].
  - cbn [leaf_keys]. rewrite (IHc None) by assumption. reflexivity.
  - cbn [leaf_keys option_index bind]. rewrite (IHc None) by assumption. reflexivity.
  - cbn [leaf_keys option_index bind]. rewrite (IHc None) by assumption. reflexivity.
  - cbn [leaf_keys option_index].
    destruct (mapM (fun i => do b <- bit_at m lsb i; Ok (if Bool.eqb b vw then i else -1)) (iota n)) as [idx|e] eqn:E.
    + cbn [bind]. rewrite (IHc None) by assumption. reflexivity.
    + exfalso. apply mapM_Err in E as (i & Hi & Hb). apply iota_In' in Hi. unfold bit_at in Hb.
      destruct (get_ok m (i / 8)) as [byte Hbyte]; [lia|]. rewrite Hbyte in Hb. discriminate.
  - cbn [leaf_keys option_index bind]. rewrite (IHc None) by assumption. reflexivity.
  - reflexivity.
  - reflexivity.
  - cbn [leaf_keys]. apply IHc; assumption.
Qed.
