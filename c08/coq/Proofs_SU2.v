(** C08: simplify_uniontype, continued:
    (A) a single remaining alternative (the C++ carries it / wraps a RecordArray in an IndexedArray64);
    (B0) merge = true when no alternative is mergeable with an earlier one: same as merge = false. *)
From Coq Require Import ZArith List Bool Lia ZifyBool.
From AwkV Require Import Base Layout LayoutInd Valid Types Carry Proofs_C11 Proofs_Carry Proofs_CarryValid.
From AwkMerge Require Import Merge Lemmas_C08 Proofs_C08 Proofs_MM Proofs_Simplify Proofs_SU.
Import ListNotations.
Open Scope Z_scope.

(* ---------------------------------------------------------------- validity of the flattened alternatives *)
Lemma forallb_Forall_true {A} (f : A -> bool) l : forallb f l = true -> Forall (fun x => f x = true) l.
Proof. induction l as [|x xs IH]; cbn; intros H; constructor; apply andb_true_iff in H; tauto. Qed.

Lemma valid_union_alts x w t i cs : valid_b x = true -> body x = Union w t i cs -> Forall (fun y => valid_b y = true) cs.
Proof.
  unfold valid_b. intros Hv Hb.
  assert (H : forall p, validb p (Union w t i cs) = true -> Forall (fun y => validb None y = true) cs).
  { intros p Hp. cbn [validb] in Hp. rewrite all_fix_forallb in Hp.
    apply andb_true_iff in Hp. destruct Hp as [_ Hp]. apply forallb_Forall_true. exact Hp. }
  destruct x; cbn [body] in Hb; try discriminate.
  - inversion Hb; subst. eapply H; eauto.
  - subst x. cbn [validb] in Hv. eapply H; eauto.
Qed.

Lemma flat_alts_valid cs0 :
  Forall (fun x => valid_b x = true) cs0 -> Forall (fun y => valid_b y = true) (flat_alts cs0).
Proof.
  induction 1 as [|x xs Hx _ IH]; unfold flat_alts; cbn; [constructor|]. apply Forall_app. split; [|exact IH].
  unfold flat1. destruct (body x) eqn:Eb; try (constructor; [exact Hx|constructor]).
  eapply valid_union_alts; eauto.
Qed.

(* ---------------------------------------------------------------- the loop with merge = false, packaged *)
Lemma su_false_inv mb w tags index cs0 vs cs s :
  to_list (Union w tags index cs0) = Ok vs ->
  Forall (fun x => valid_b x = true) cs0 ->
  su_loop false mb tags index 0 cs0 [] (map (fun _ => None) tags) = Ok (cs, s) ->
  cs = flat_alts cs0 /\ zlen tags <= zlen index /\ zlen vs = zlen tags /\
  (forall p t ix v, row tags index vs p t ix v -> 0 <= t < zlen cs0) /\
  InvG tags index vs (fun t _ => t <? zlen cs0) cs s.
Proof.
  intros Ht Hval Hloop.
  destruct (union_rows _ _ _ _ _ Ht) as (Htl0 & Hli & Hlv & Hrows).
  assert (Horig : forall p t ix v, row tags index vs p t ix v -> lk (map vals cs0) t ix = Ok v).
  { intros p t ix v (Hpt & Hpi & Hpv). destruct (Hrows _ _ _ Hpt Hpi) as (v' & Hv' & Hlk). congruence. }
  assert (Hrange : forall p t ix v, row tags index vs p t ix v -> 0 <= t < zlen cs0).
  { intros p t ix v Hr. pose proof (Horig _ _ _ _ Hr) as Hlk0. unfold lk in Hlk0. apply bind_ok in Hlk0.
    destruct Hlk0 as (l0 & Hl0 & _). apply get_lt in Hl0. rewrite zlen_map in Hl0. exact Hl0. }
  assert (Hinv0 : InvG tags index vs (fun t _ => t <? zlen (@nil content)) [] (map (fun _ => None) tags)).
  { split; [apply zlen_map|split; [constructor|]]. intros p t ix v Hr. change (zlen (@nil content)) with 0.
    pose proof (Hrange _ _ _ _ Hr). destruct Hr as (Hpt & _ & _).
    split; [intros; lia|]. intros _.
    apply (get_map (fun _ : Z => @None (Z * Z))) in Hpt. exact Hpt. }
  destruct (outer_steps tags index vs cs0 mb Hli Horig Htl0 Hval cs0 [] [] _ _ eq_refl Hinv0 Hloop) as [Hfin Hcont].
  cbn [fst snd app] in Hfin, Hcont. split; [exact Hcont|]. split; [exact Hli|]. split; [exact Hlv|]. split; [exact Hrange|exact Hfin].
Qed.

(* every position of the final state is written, and points at the value it had *)
Lemma final_rows tags index vs n (cs : list content) (s : st) ti :
  zlen tags <= zlen index -> zlen vs = zlen tags ->
  (forall p t ix v, row tags index vs p t ix v -> 0 <= t < n) ->
  InvG tags index vs (fun t _ => t <? n) cs s ->
  mapM (fun o : option (Z * Z) => match o with Some p => Ok p | None => Err EOob end) s = Ok ti ->
  zlen ti = zlen vs /\
  forall p k j, get ti p = Ok (k, j) -> exists v, get vs p = Ok v /\ lk (map vals cs) k j = Ok v.
Proof.
  intros Hli Hlv Hrange (Hsl & _ & Hfin) Hti.
  pose proof (mapM_zlen _ _ _ Hti) as Hlti. split; [lia|].
  intros p k j Hp.
  destruct (get_mapM_inv _ _ _ _ _ Hti Hp) as (o & Ho & Hunw).
  destruct o as [kj|]; [|discriminate]. inversion Hunw; subst kj.
  pose proof (get_lt _ _ _ Hp) as Hr0.
  destruct (get_in_range tags p) as [t Hpt]; [lia|].
  destruct (get_in_range index p) as [ix Hpi]; [lia|].
  destruct (get_in_range vs p) as [v Hpv]; [lia|].
  assert (Hr : row tags index vs p t ix v) by (repeat split; assumption).
  exists v. split; [exact Hpv|].
  destruct (Hfin _ _ _ _ Hr) as [Hd _]. pose proof (Hrange _ _ _ _ Hr).
  destruct Hd as (k' & j' & Hk' & Hlk'); [lia|].
  assert (E : Some (k, j) = Some (k', j')) by congruence. inversion E; subst. exact Hlk'.
Qed.

Lemma lk_single (l : list value) k j v : lk [l] k j = Ok v -> k = 0 /\ get l j = Ok v.
Proof.
  unfold lk. intros H. apply bind_ok in H. destruct H as (l0 & Hl0 & H).
  pose proof (get_lt _ _ _ Hl0) as Hr. change (zlen [l]) with 1 in Hr. assert (k = 0) by lia. subst k.
  cbn in Hl0. inversion Hl0; subst. auto.
Qed.

(* ---------------------------------------------------------------- lazy_carry of a valid layout *)
Lemma strip_body_valid c : valid_b c = true -> strip c = body c.
Proof.
  unfold valid_b. destruct c; try reflexivity. cbn [validb strip body]. destruct c; try reflexivity. discriminate.
Qed.

Lemma lazy_carry_spec only ix vs c' :
  valid_b only = true -> to_list only = Ok (vals only) ->
  mapM (get (vals only)) ix = Ok vs ->
  lazy_carry only ix = Ok c' ->
  to_list c' = Ok vs /\ valid_b c' = true /\ clen c' = zlen ix.
Proof.
  intros Hv Ht Hg Hc.
  assert (HV : Valid None only) by (apply validity_exact_gen; exact Hv).
  assert (Hix : Forall (fun i => 0 <= i < clen only) ix).
  { apply Forall_forall. intros i Hi. apply mapM_ok_Forall2 in Hg.
    assert (exists v, get (vals only) i = Ok v) as [v Hgv].
    { clear -Hg Hi. induction Hg; [destruct Hi|]. destruct Hi as [<-|Hi]; eauto. }
    apply get_lt in Hgv. rewrite <- (to_list_len _ _ Ht). exact Hgv. }
  assert (Hcarry : carry only ix = Ok c' -> to_list c' = Ok vs /\ valid_b c' = true /\ clen c' = zlen ix).
  { intros Hc'. destruct (carry_spec only (vals only) ix HV Ht Hix) as (c'' & Hc'' & Hl'' & Hn'').
    rewrite Hc' in Hc''. inversion Hc''; subst c''. split; [congruence|]. split; [|exact Hn''].
    apply validity_exact_gen. eapply carry_valid; eauto. }
  unfold lazy_carry in Hc. destruct (body only) eqn:Eb; try (apply Hcarry; exact Hc).
  (* RecordArray: wrapped in an IndexedArray64 *)
  inversion Hc; subst c'. clear Hc Hcarry. split; [|split].
  - cbn [to_list]. rewrite Ht. cbn [bind]. exact Hg.
  - unfold valid_b. cbn [validb paramcheck]. fold (valid_b only). rewrite Hv, andb_true_r.
    unfold optionlike. rewrite (strip_body_valid _ Hv), Eb. cbn [negb]. rewrite andb_true_r.
    cbn [andb]. apply forallb_forall. intros i Hi. eapply Forall_forall in Hix; eauto. cbn beta in Hix. lia.
  - reflexivity.
Qed.

(* ---------------------------------------------------------------- (A) one alternative after flattening *)
(* [simplify_union] of a union with a single alternative after flattening (merge = false; the nested unions
   may be any valid unions): the result is that alternative carried by the rewritten index — a RecordArray is
   wrapped in an IndexedArray64, every other class is carried eagerly —, it is valid, has the union's length and
   no value changes. *)
Theorem simplify_union_single_pf : forall mb c w tags index cs0 only vs c',
  body c = Union w tags index cs0 -> is_strk (fst (params c)) = false ->
  Forall (fun x => valid_b x = true) cs0 -> flat_alts cs0 = [only] ->
  to_list c = Ok vs -> simplify_union false mb c = Ok c' ->
  to_list c' = Ok vs /\ valid_b c' = true /\ clen c' = zlen tags /\
  exists ix, lazy_carry only ix = Ok c'.
Proof.
  intros mb c w tags index cs0 only vs c' Hb Hns Hval Hone Ht Hs.
  rewrite (to_list_nostr _ Hns), Hb in Ht.
  unfold simplify_union in Hs. rewrite Hb in Hs.
  destruct (zlen index <? zlen tags) eqn:E; [discriminate|].
  apply bind_ok in Hs. destruct Hs as ([cs s] & Hloop & Hs).
  destruct (su_false_inv _ _ _ _ _ _ _ _ Ht Hval Hloop) as (-> & Hli & Hlv & Hrange & Hinv).
  destruct (127 <? zlen (flat_alts cs0)) eqn:E127; [discriminate|].
  apply bind_ok in Hs. destruct Hs as (ti & Hti & Hs).
  destruct (final_rows _ _ _ _ _ _ _ Hli Hlv Hrange Hinv Hti) as [Hlti Hfin].
  rewrite Hone in Hs, Hfin, Hinv.
  pose proof (flat_alts_valid _ Hval) as Hvf. rewrite Hone in Hvf. pose proof (Forall_inv Hvf) as Hvo.
  destruct Hinv as (_ & Htlc & _). pose proof (tl_ok_vals _ (Forall_inv Htlc)) as Hto.
  assert (Hg : mapM (get (vals only)) (map snd ti) = Ok vs).
  { apply mapM_pointwise; [rewrite zlen_map; lia|].
    intros p j Hp. destruct (get_in_range ti p) as [[k j'] Hkj]; [apply get_lt in Hp; rewrite zlen_map in Hp; lia|].
    pose proof (get_map snd _ _ _ Hkj) as Hp'. rewrite Hp in Hp'. inversion Hp'; subst j. cbn [snd].
    destruct (Hfin _ _ _ Hkj) as (v & Hv & Hlk). cbn [map] in Hlk. apply lk_single in Hlk. destruct Hlk as [_ Hlk].
    exists v. split; assumption. }
  destruct (lazy_carry_spec _ _ _ _ Hvo Hto Hg Hs) as (H1 & H2 & H3).
  repeat split; auto.
  - rewrite H3, zlen_map. lia.
  - eexists; exact Hs.
Qed.

(* non-vacuity: union of a nested union (one alternative: option of lists) -> carried; and of a record -> lazy *)
Example simplify_union_single_example :
  let lst := IndexedOption I32 [1; -1; 0] (ListOffset I64 [0; 1; 3] (Numpy DInt64 [3] [DZ 1; DZ 2; DZ 3])) in
  let inner := Union I32 [0; 0; 0] [2; 1; 0] [lst] in
  let c := Union I64 [0; 0] [2; 0] [inner] in
  let r := Record [Numpy DBool [2] [DZ 1; DZ 0]] (Some [[97]]) 2 in
  let cr := Union I32 [0; 0; 0] [1; 0; 1] [r] in
  flat_alts [inner] = [lst] /\ valid_b inner = true /\
  to_list c = Ok [VList [VNum (DZ 2); VNum (DZ 3)]; VList [VNum (DZ 1)]] /\
  rmap to_list (simplify_union false true c) = Ok (Ok [VList [VNum (DZ 2); VNum (DZ 3)]; VList [VNum (DZ 1)]]) /\
  simplify_union false true cr = Ok (Indexed I64 [1; 0; 1] r) /\
  to_list cr = Ok [VRec [([97], VBool false)]; VRec [([97], VBool true)]; VRec [([97], VBool false)]] /\
  rmap to_list (simplify_union false true cr) = Ok (to_list cr).
Proof. vm_compute. repeat split. Qed.

(* ---------------------------------------------------------------- (B0) merge = true, nothing mergeable *)
(* no alternative of [l] is mergeable with an alternative kept before it ([pre] = those already kept) *)
Fixpoint nomerge (mb : bool) (pre l : list content) {struct l} : bool :=
  match l with
  | [] => true
  | x :: xs => match find_merge mb 0 pre x with None => nomerge mb (pre ++ [x]) xs | Some _ => false end
  end.

Lemma nomerge_app mb : forall l1 l2 pre, nomerge mb pre (l1 ++ l2) = nomerge mb pre l1 && nomerge mb (pre ++ l1) l2.
Proof.
  induction l1 as [|x xs IH]; intros l2 pre; cbn [app nomerge].
  - now rewrite app_nil_r.
  - destruct (find_merge mb 0 pre x); [reflexivity|]. rewrite IH, <- app_assoc. reflexivity.
Qed.

Lemma place_nomerge mb contents x : find_merge mb 0 contents x = None ->
  place true mb contents x = place false mb contents x.
Proof. intros H. unfold place. rewrite H. reflexivity. Qed.

Lemma su_inner_nomerge mb otags oindex itags iindex i : forall il j contents s,
  nomerge mb contents il = true ->
  su_inner true mb otags oindex itags iindex i j il contents s
  = su_inner false mb otags oindex itags iindex i j il contents s.
Proof.
  induction il as [|y ys IH]; intros j contents s H; [reflexivity|].
  cbn [nomerge] in H. destruct (find_merge mb 0 contents y) eqn:E; [discriminate|].
  cbn [su_inner]. rewrite (place_nomerge _ _ _ E), place_false. cbn [bind].
  destruct (simp_in s otags oindex itags iindex (zlen contents) j i 0); [|reflexivity]. cbn [bind].
  apply IH. exact H.
Qed.

Lemma su_inner_false_contents mb otags oindex itags iindex i : forall il j contents s r,
  su_inner false mb otags oindex itags iindex i j il contents s = Ok r -> fst r = contents ++ il.
Proof.
  induction il as [|y ys IH]; intros j contents s r H.
  - cbn in H. inversion H; subst. cbn. now rewrite app_nil_r.
  - cbn [su_inner] in H. rewrite place_false in H. cbn [bind] in H.
    apply bind_ok in H. destruct H as (s' & _ & H). apply IH in H. rewrite H, <- app_assoc. reflexivity.
Qed.

Lemma su_loop_nomerge mb otags oindex : forall l i contents s,
  nomerge mb contents (flat_alts l) = true ->
  su_loop true mb otags oindex i l contents s = su_loop false mb otags oindex i l contents s.
Proof.
  induction l as [|x xs IH]; intros i contents s H; [reflexivity|].
  unfold flat_alts in H. cbn [map concat] in H. fold (flat_alts xs) in H.
  rewrite nomerge_app in H. apply andb_true_iff in H. destruct H as [H1 H2].
  cbn [su_loop]. unfold flat1 in H1, H2.
  destruct (body x) as [| | | | | | | | | |w' itags iindex ics| |] eqn:Eb;
    try (cbn [nomerge] in H1; destruct (find_merge mb 0 contents x) eqn:E; [discriminate|];
         rewrite (place_nomerge _ _ _ E), place_false; cbn [bind]; apply IH; exact H2).
  (* nested union *)
  rewrite (su_inner_nomerge _ _ _ _ _ _ _ _ _ _ H1).
  destruct (su_inner false mb otags oindex itags iindex i 0 ics contents s) as [r|e] eqn:Er; [|reflexivity].
  cbn [bind]. apply IH. rewrite (su_inner_false_contents _ _ _ _ _ _ _ _ _ _ _ Er). exact H2.
Qed.

Lemma simplify_union_nomerge mb c w tags index cs0 :
  body c = Union w tags index cs0 -> nomerge mb [] (flat_alts cs0) = true ->
  simplify_union true mb c = simplify_union false mb c.
Proof.
  intros Hb H. unfold simplify_union. rewrite Hb. rewrite (su_loop_nomerge _ _ _ _ _ _ _ H). reflexivity.
Qed.

(* merge = true on a union none of whose (flattened) alternatives is mergeable with an earlier one: exactly the
   merge = false result, hence no value changes (>= 2 alternatives: a flat union; 1 alternative: carried) *)
Theorem simplify_union_merge_distinct_pf : forall mb c w tags index cs0 vs c',
  body c = Union w tags index cs0 -> is_strk (fst (params c)) = false ->
  Forall (fun x => valid_b x = true) cs0 -> nomerge mb [] (flat_alts cs0) = true ->
  to_list c = Ok vs -> simplify_union true mb c = Ok c' ->
  simplify_union false mb c = Ok c' /\ to_list c' = Ok vs /\
  ((2 <= length (flat_alts cs0))%nat -> exists t' i', body c' = Union I64 t' i' (flat_alts cs0)) /\
  (forall only, flat_alts cs0 = [only] -> valid_b c' = true /\ exists ix, lazy_carry only ix = Ok c').
Proof.
  intros mb c w tags index cs0 vs c' Hb Hns Hval Hnm Ht Hs.
  rewrite (simplify_union_nomerge _ _ _ _ _ _ Hb Hnm) in Hs. split; [exact Hs|].
  destruct (flat_alts cs0) as [|a1 [|a2 rest]] eqn:Efl.
  - (* no alternative: the model refuses *)
    exfalso. rewrite (to_list_nostr _ Hns), Hb in Ht.
    unfold simplify_union in Hs. rewrite Hb in Hs.
    destruct (zlen index <? zlen tags); [discriminate|].
    apply bind_ok in Hs. destruct Hs as ([cs s] & Hloop & Hs).
    destruct (su_false_inv _ _ _ _ _ _ _ _ Ht Hval Hloop) as (-> & _). rewrite Efl in Hs.
    destruct (127 <? zlen (@nil content)); [discriminate|].
    apply bind_ok in Hs. destruct Hs as (ti & _ & Hs). discriminate.
  - destruct (simplify_union_single_pf mb c w tags index cs0 a1 vs c' Hb Hns Hval Efl Ht Hs) as (H1 & H2 & _ & H4).
    split; [exact H1|]. split; [cbn; lia|]. intros only Ho. inversion Ho; subst. auto.
  - assert (Hn : (2 <= length (flat_alts cs0))%nat) by (rewrite Efl; cbn; lia).
    destruct (simplify_union_value_pf mb c w tags index cs0 vs c' Hb Hns Hval Hn Ht Hs) as (H1 & t' & i' & H2 & _).
    split; [exact H1|]. split; [intros _; rewrite <- Efl; eauto|]. intros only Ho. discriminate.
Qed.

Example simplify_union_merge_distinct_example :
  let inner := Union I32 [1; 0] [0; 0]
                 [IndexedOption I64 [0; -1] (ListOffset I64 [0; 1] (Numpy DBool [1] [DZ 1])); Numpy DBool [1] [DZ 1]] in
  let alts := [inner; ListOffset I64 [0; 1] (ListOffset I64 [0; 2] (Numpy DInt64 [2] [DZ 3; DZ 4]))] in
  let c := Union I64 [0; 1; 0] [1; 0; 0] alts in
  nomerge true [] (flat_alts alts) = true /\
  to_list c = Ok [VList [VBool true]; VList [VList [VNum (DZ 3); VNum (DZ 4)]]; VBool true] /\
  rmap to_list (simplify_union true true c) = Ok (to_list c).
Proof. vm_compute. repeat split. Qed.
