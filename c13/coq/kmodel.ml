
(** val negb : bool -> bool **)

let negb = function
| true -> false
| false -> true

type nat =
| O
| S of nat

(** val fst : ('a1 * 'a2) -> 'a1 **)

let fst = function
| (x, _) -> x

(** val snd : ('a1 * 'a2) -> 'a2 **)

let snd = function
| (_, y) -> y

(** val length : 'a1 list -> nat **)

let rec length = function
| [] -> O
| _ :: l' -> S (length l')

type comparison =
| Eq
| Lt
| Gt

(** val compOpp : comparison -> comparison **)

let compOpp = function
| Eq -> Eq
| Lt -> Gt
| Gt -> Lt

module Coq__1 = struct
 (** val add : nat -> nat -> nat **)
 let rec add n m =
   match n with
   | O -> m
   | S p -> S (add p m)
end
include Coq__1

type positive =
| XI of positive
| XO of positive
| XH

type z =
| Z0
| Zpos of positive
| Zneg of positive

(** val eqb : bool -> bool -> bool **)

let eqb b1 b2 =
  if b1 then b2 else if b2 then false else true

module Pos =
 struct
  (** val succ : positive -> positive **)

  let rec succ = function
  | XI p -> XO (succ p)
  | XO p -> XI p
  | XH -> XO XH

  (** val add : positive -> positive -> positive **)

  let rec add x y =
    match x with
    | XI p ->
      (match y with
       | XI q -> XO (add_carry p q)
       | XO q -> XI (add p q)
       | XH -> XO (succ p))
    | XO p ->
      (match y with
       | XI q -> XI (add p q)
       | XO q -> XO (add p q)
       | XH -> XI p)
    | XH -> (match y with
             | XI q -> XO (succ q)
             | XO q -> XI q
             | XH -> XO XH)

  (** val add_carry : positive -> positive -> positive **)

  and add_carry x y =
    match x with
    | XI p ->
      (match y with
       | XI q -> XI (add_carry p q)
       | XO q -> XO (add_carry p q)
       | XH -> XI (succ p))
    | XO p ->
      (match y with
       | XI q -> XO (add_carry p q)
       | XO q -> XI (add p q)
       | XH -> XO (succ p))
    | XH ->
      (match y with
       | XI q -> XI (succ q)
       | XO q -> XO (succ q)
       | XH -> XI XH)

  (** val pred_double : positive -> positive **)

  let rec pred_double = function
  | XI p -> XI (XO p)
  | XO p -> XI (pred_double p)
  | XH -> XH

  (** val mul : positive -> positive -> positive **)

  let rec mul x y =
    match x with
    | XI p -> add y (XO (mul p y))
    | XO p -> XO (mul p y)
    | XH -> y

  (** val iter : ('a1 -> 'a1) -> 'a1 -> positive -> 'a1 **)

  let rec iter f x = function
  | XI n' -> f (iter f (iter f x n') n')
  | XO n' -> iter f (iter f x n') n'
  | XH -> f x

  (** val compare_cont : comparison -> positive -> positive -> comparison **)

  let rec compare_cont r x y =
    match x with
    | XI p ->
      (match y with
       | XI q -> compare_cont r p q
       | XO q -> compare_cont Gt p q
       | XH -> Gt)
    | XO p ->
      (match y with
       | XI q -> compare_cont Lt p q
       | XO q -> compare_cont r p q
       | XH -> Gt)
    | XH -> (match y with
             | XH -> r
             | _ -> Lt)

  (** val compare : positive -> positive -> comparison **)

  let compare =
    compare_cont Eq

  (** val eqb : positive -> positive -> bool **)

  let rec eqb p q =
    match p with
    | XI p0 -> (match q with
                | XI q0 -> eqb p0 q0
                | _ -> false)
    | XO p0 -> (match q with
                | XO q0 -> eqb p0 q0
                | _ -> false)
    | XH -> (match q with
             | XH -> true
             | _ -> false)

  (** val iter_op : ('a1 -> 'a1 -> 'a1) -> positive -> 'a1 -> 'a1 **)

  let rec iter_op op p a =
    match p with
    | XI p0 -> op a (iter_op op p0 (op a a))
    | XO p0 -> iter_op op p0 (op a a)
    | XH -> a

  (** val to_nat : positive -> nat **)

  let to_nat x =
    iter_op Coq__1.add x (S O)

  (** val of_succ_nat : nat -> positive **)

  let rec of_succ_nat = function
  | O -> XH
  | S x -> succ (of_succ_nat x)
 end

module Z =
 struct
  (** val double : z -> z **)

  let double = function
  | Z0 -> Z0
  | Zpos p -> Zpos (XO p)
  | Zneg p -> Zneg (XO p)

  (** val succ_double : z -> z **)

  let succ_double = function
  | Z0 -> Zpos XH
  | Zpos p -> Zpos (XI p)
  | Zneg p -> Zneg (Pos.pred_double p)

  (** val pred_double : z -> z **)

  let pred_double = function
  | Z0 -> Zneg XH
  | Zpos p -> Zpos (Pos.pred_double p)
  | Zneg p -> Zneg (XI p)

  (** val pos_sub : positive -> positive -> z **)

  let rec pos_sub x y =
    match x with
    | XI p ->
      (match y with
       | XI q -> double (pos_sub p q)
       | XO q -> succ_double (pos_sub p q)
       | XH -> Zpos (XO p))
    | XO p ->
      (match y with
       | XI q -> pred_double (pos_sub p q)
       | XO q -> double (pos_sub p q)
       | XH -> Zpos (Pos.pred_double p))
    | XH ->
      (match y with
       | XI q -> Zneg (XO q)
       | XO q -> Zneg (Pos.pred_double q)
       | XH -> Z0)

  (** val add : z -> z -> z **)

  let add x y =
    match x with
    | Z0 -> y
    | Zpos x' ->
      (match y with
       | Z0 -> x
       | Zpos y' -> Zpos (Pos.add x' y')
       | Zneg y' -> pos_sub x' y')
    | Zneg x' ->
      (match y with
       | Z0 -> x
       | Zpos y' -> pos_sub y' x'
       | Zneg y' -> Zneg (Pos.add x' y'))

  (** val opp : z -> z **)

  let opp = function
  | Z0 -> Z0
  | Zpos x0 -> Zneg x0
  | Zneg x0 -> Zpos x0

  (** val sub : z -> z -> z **)

  let sub m n =
    add m (opp n)

  (** val mul : z -> z -> z **)

  let mul x y =
    match x with
    | Z0 -> Z0
    | Zpos x' ->
      (match y with
       | Z0 -> Z0
       | Zpos y' -> Zpos (Pos.mul x' y')
       | Zneg y' -> Zneg (Pos.mul x' y'))
    | Zneg x' ->
      (match y with
       | Z0 -> Z0
       | Zpos y' -> Zneg (Pos.mul x' y')
       | Zneg y' -> Zpos (Pos.mul x' y'))

  (** val pow_pos : z -> positive -> z **)

  let pow_pos z0 =
    Pos.iter (mul z0) (Zpos XH)

  (** val pow : z -> z -> z **)

  let pow x = function
  | Z0 -> Zpos XH
  | Zpos p -> pow_pos x p
  | Zneg _ -> Z0

  (** val compare : z -> z -> comparison **)

  let compare x y =
    match x with
    | Z0 -> (match y with
             | Z0 -> Eq
             | Zpos _ -> Lt
             | Zneg _ -> Gt)
    | Zpos x' -> (match y with
                  | Zpos y' -> Pos.compare x' y'
                  | _ -> Gt)
    | Zneg x' ->
      (match y with
       | Zneg y' -> compOpp (Pos.compare x' y')
       | _ -> Lt)

  (** val leb : z -> z -> bool **)

  let leb x y =
    match compare x y with
    | Gt -> false
    | _ -> true

  (** val ltb : z -> z -> bool **)

  let ltb x y =
    match compare x y with
    | Lt -> true
    | _ -> false

  (** val eqb : z -> z -> bool **)

  let eqb x y =
    match x with
    | Z0 -> (match y with
             | Z0 -> true
             | _ -> false)
    | Zpos p -> (match y with
                 | Zpos q -> Pos.eqb p q
                 | _ -> false)
    | Zneg p -> (match y with
                 | Zneg q -> Pos.eqb p q
                 | _ -> false)

  (** val abs : z -> z **)

  let abs = function
  | Zneg p -> Zpos p
  | x -> x

  (** val to_nat : z -> nat **)

  let to_nat = function
  | Zpos p -> Pos.to_nat p
  | _ -> O

  (** val of_nat : nat -> z **)

  let of_nat = function
  | O -> Z0
  | S n0 -> Zpos (Pos.of_succ_nat n0)

  (** val pos_div_eucl : positive -> z -> z * z **)

  let rec pos_div_eucl a b =
    match a with
    | XI a' ->
      let (q, r) = pos_div_eucl a' b in
      let r' = add (mul (Zpos (XO XH)) r) (Zpos XH) in
      if ltb r' b
      then ((mul (Zpos (XO XH)) q), r')
      else ((add (mul (Zpos (XO XH)) q) (Zpos XH)), (sub r' b))
    | XO a' ->
      let (q, r) = pos_div_eucl a' b in
      let r' = mul (Zpos (XO XH)) r in
      if ltb r' b
      then ((mul (Zpos (XO XH)) q), r')
      else ((add (mul (Zpos (XO XH)) q) (Zpos XH)), (sub r' b))
    | XH -> if leb (Zpos (XO XH)) b then (Z0, (Zpos XH)) else ((Zpos XH), Z0)

  (** val div_eucl : z -> z -> z * z **)

  let div_eucl a b =
    match a with
    | Z0 -> (Z0, Z0)
    | Zpos a' ->
      (match b with
       | Z0 -> (Z0, a)
       | Zpos _ -> pos_div_eucl a' b
       | Zneg b' ->
         let (q, r) = pos_div_eucl a' (Zpos b') in
         (match r with
          | Z0 -> ((opp q), Z0)
          | _ -> ((opp (add q (Zpos XH))), (add b r))))
    | Zneg a' ->
      (match b with
       | Z0 -> (Z0, a)
       | Zpos _ ->
         let (q, r) = pos_div_eucl a' b in
         (match r with
          | Z0 -> ((opp q), Z0)
          | _ -> ((opp (add q (Zpos XH))), (sub b r)))
       | Zneg b' -> let (q, r) = pos_div_eucl a' (Zpos b') in (q, (opp r)))

  (** val div : z -> z -> z **)

  let div a b =
    let (q, _) = div_eucl a b in q

  (** val modulo : z -> z -> z **)

  let modulo a b =
    let (_, r) = div_eucl a b in r

  (** val odd : z -> bool **)

  let odd = function
  | Z0 -> false
  | Zpos p -> (match p with
               | XO _ -> false
               | _ -> true)
  | Zneg p -> (match p with
               | XO _ -> false
               | _ -> true)
 end

(** val nth : nat -> 'a1 list -> 'a1 -> 'a1 **)

let rec nth n l default =
  match n with
  | O -> (match l with
          | [] -> default
          | x :: _ -> x)
  | S m -> (match l with
            | [] -> default
            | _ :: t -> nth m t default)

(** val nth_error : 'a1 list -> nat -> 'a1 option **)

let rec nth_error l = function
| O -> (match l with
        | [] -> None
        | x :: _ -> Some x)
| S n0 -> (match l with
           | [] -> None
           | _ :: l0 -> nth_error l0 n0)

(** val fold_left : ('a1 -> 'a2 -> 'a1) -> 'a2 list -> 'a1 -> 'a1 **)

let rec fold_left f l a0 =
  match l with
  | [] -> a0
  | b :: t -> fold_left f t (f a0 b)

type err =
| EValue
| EOob
| EFuel

type 'a res =
| Ok of 'a
| Err of err

(** val zlen : 'a1 list -> z **)

let zlen l =
  Z.of_nat (length l)

(** val get : 'a1 list -> z -> 'a1 res **)

let get l i =
  if Z.ltb i Z0
  then Err EOob
  else (match nth_error l (Z.to_nat i) with
        | Some x -> Ok x
        | None -> Err EOob)

(** val iota_nat : z -> nat -> z list **)

let rec iota_nat start = function
| O -> []
| S n' -> start :: (iota_nat (Z.add start (Zpos XH)) n')

(** val iota : z -> z list **)

let iota n =
  iota_nat Z0 (Z.to_nat n)

type msg =
| MIndexOutOfRange
| MStopsLtStarts
| MStopsGtLen
| MOffsetsNotMonotone
| MCannotBroadcast
| MStartGtStop
| MStartLt0
| MStopGtLen
| MIndexLt0
| MIndexGeLen
| MTagsLt0
| MTagsGeLen
| MIndexGeLenTag
| MFlatteningOffset
| MFuel
| MBadArgs

type 'a kres =
| KOk of 'a
| KErr of msg
| KOob

(** val kbind : 'a1 kres -> ('a1 -> 'a2 kres) -> 'a2 kres **)

let kbind r f =
  match r with
  | KOk a -> f a
  | KErr m -> KErr m
  | KOob -> KOob

(** val kmap : ('a1 -> 'a2) -> 'a1 kres -> 'a2 kres **)

let kmap f = function
| KOk a -> KOk (f a)
| KErr m -> KErr m
| KOob -> KOob

(** val kcheck : bool -> msg -> unit kres **)

let kcheck b m =
  if b then KErr m else KOk ()

(** val kget : z list -> z -> z kres **)

let kget l i =
  match get l i with
  | Ok x -> KOk x
  | Err _ -> KOob

(** val set_nth : z list -> nat -> z -> z list **)

let rec set_nth l n v =
  match l with
  | [] -> []
  | h :: t -> (match n with
               | O -> v :: t
               | S n' -> h :: (set_nth t n' v))

(** val kupd : z list -> z -> z -> z list kres **)

let kupd l i v =
  if (&&) (Z.leb Z0 i) (Z.ltb i (zlen l))
  then KOk (set_nth l (Z.to_nat i) v)
  else KOob

type ity =
| TB
| TI of z
| TU of z
| TIdeal

(** val wrap : ity -> z -> z **)

let wrap t v =
  match t with
  | TB -> if Z.eqb v Z0 then Z0 else Zpos XH
  | TI b ->
    Z.sub
      (Z.modulo (Z.add v (Z.pow (Zpos (XO XH)) (Z.sub b (Zpos XH))))
        (Z.pow (Zpos (XO XH)) b)) (Z.pow (Zpos (XO XH)) (Z.sub b (Zpos XH)))
  | TU b -> Z.modulo v (Z.pow (Zpos (XO XH)) b)
  | TIdeal -> v

(** val i64 : ity **)

let i64 =
  TI (Zpos (XO (XO (XO (XO (XO (XO XH)))))))

(** val kfor_nat : nat -> z -> (z -> 'a1 -> 'a1 kres) -> 'a1 -> 'a1 kres **)

let rec kfor_nat n i body s =
  match n with
  | O -> KOk s
  | S n' ->
    kbind (body i s) (fun s' -> kfor_nat n' (Z.add i (Zpos XH)) body s')

(** val kfor : z -> z -> (z -> 'a1 -> 'a1 kres) -> 'a1 -> 'a1 kres **)

let kfor lo hi body s =
  kfor_nat (Z.to_nat (Z.sub hi lo)) lo body s

(** val kwhile :
    nat -> ('a1 -> bool) -> ('a1 -> 'a1 kres) -> 'a1 -> 'a1 kres **)

let rec kwhile fuel cond body s =
  match fuel with
  | O -> if cond s then KErr MFuel else KOk s
  | S f ->
    if cond s then kbind (body s) (fun s' -> kwhile f cond body s') else KOk s

(** val kfill : z -> z -> (z -> z kres) -> z list -> z list kres **)

let kfill off n f out =
  kfor Z0 n (fun i out0 -> kbind (f i) (fun v -> kupd out0 (Z.add off i) v))
    out

(** val kchecks : z -> (z -> unit kres) -> unit kres **)

let kchecks n check =
  kfor Z0 n (fun i _ -> check i) ()

(** val kpush : (z list * z) -> z -> (z list * z) kres **)

let kpush st v =
  let (out, k) = st in
  kbind (kupd out k v) (fun out' -> KOk (out', (Z.add k (Zpos XH))))

(** val listArray_num :
    ity -> ity -> z list -> z list -> z list -> z -> z list kres **)

let listArray_num tT tC tonum starts stops length0 =
  kfill Z0 length0 (fun i ->
    kbind (kget starts i) (fun start ->
      kbind (kget stops i) (fun stop -> KOk
        (wrap tT (wrap tC (Z.sub stop start)))))) tonum

(** val regularArray_num : ity -> z list -> z -> z -> z list kres **)

let regularArray_num tT tonum size length0 =
  kfill Z0 length0 (fun _ -> KOk (wrap tT size)) tonum

(** val listOffsetArray_flatten_offsets :
    ity -> z list -> z list -> z -> z list -> z list kres **)

let listOffsetArray_flatten_offsets tT tooffsets outer outerlen inner =
  kfill Z0 outerlen (fun i ->
    kbind (kget outer i) (fun o ->
      kbind (kget inner o) (fun v -> KOk (wrap tT v)))) tooffsets

(** val listArray_compact_offsets :
    ity -> ity -> z list -> z list -> z list -> z -> z list kres **)

let listArray_compact_offsets tT tC tooffsets starts stops length0 =
  kbind (kupd tooffsets Z0 Z0) (fun out0 ->
    kfor Z0 length0 (fun i out ->
      kbind (kget starts i) (fun start ->
        kbind (kget stops i) (fun stop ->
          kbind (kcheck (Z.ltb stop start) MStopsLtStarts) (fun _ ->
            kbind (kget out i) (fun prev ->
              kupd out (Z.add i (Zpos XH))
                (wrap tT (Z.add prev (wrap tC (Z.sub stop start))))))))) out0)

(** val listOffsetArray_compact_offsets :
    ity -> z list -> z list -> z -> z list kres **)

let listOffsetArray_compact_offsets tT tooffsets fromoffsets length0 =
  kbind (kget fromoffsets Z0) (fun diff ->
    kbind (kupd tooffsets Z0 Z0) (fun out0 ->
      kfill (Zpos XH) length0 (fun i ->
        kbind (kget fromoffsets (Z.add i (Zpos XH))) (fun o -> KOk
          (wrap tT (Z.sub o diff)))) out0))

(** val regularArray_compact_offsets :
    ity -> z list -> z -> z -> z list kres **)

let regularArray_compact_offsets tT tooffsets length0 size =
  kbind (kupd tooffsets Z0 Z0) (fun out0 ->
    kfill (Zpos XH) length0 (fun i -> KOk
      (wrap tT (Z.mul (Z.add i (Zpos XH)) size))) out0)

(** val listArray_broadcast_tooffsets :
    ity -> z list -> z list -> z -> z list -> z list -> z -> z list kres **)

let listArray_broadcast_tooffsets tT tocarry fromoffsets offsetslength starts stops lencontent =
  kbind
    (kfor Z0 (Z.sub offsetslength (Zpos XH)) (fun i st ->
      kbind (kget starts i) (fun start ->
        kbind (kget stops i) (fun stop ->
          kbind
            (kcheck ((&&) (negb (Z.eqb start stop)) (Z.ltb lencontent stop))
              MStopsGtLen) (fun _ ->
            kbind (kget fromoffsets (Z.add i (Zpos XH))) (fun o3 ->
              kbind (kget fromoffsets i) (fun o4 ->
                let count = wrap tT (Z.sub o3 o4) in
                kbind (kcheck (Z.ltb count Z0) MOffsetsNotMonotone) (fun _ ->
                  kbind
                    (kcheck (negb (Z.eqb (Z.sub stop start) count))
                      MCannotBroadcast) (fun _ ->
                    kfor start stop (fun j st0 -> kpush st0 (wrap tT j)) st))))))))
      (tocarry, Z0)) (fun r -> KOk (fst r))

(** val regularArray_broadcast_tooffsets :
    ity -> z list -> z -> z -> unit kres **)

let regularArray_broadcast_tooffsets tT fromoffsets offsetslength size =
  kchecks (Z.sub offsetslength (Zpos XH)) (fun i ->
    kbind (kget fromoffsets (Z.add i (Zpos XH))) (fun o3 ->
      kbind (kget fromoffsets i) (fun o4 ->
        let count = wrap tT (Z.sub o3 o4) in
        kbind (kcheck (Z.ltb count Z0) MOffsetsNotMonotone) (fun _ ->
          kcheck (negb (Z.eqb size count)) MCannotBroadcast))))

(** val regularArray_broadcast_tooffsets_size1 :
    ity -> z list -> z list -> z -> z list kres **)

let regularArray_broadcast_tooffsets_size1 tT tocarry fromoffsets offsetslength =
  kbind
    (kfor Z0 (Z.sub offsetslength (Zpos XH)) (fun i st ->
      kbind (kget fromoffsets (Z.add i (Zpos XH))) (fun o3 ->
        kbind (kget fromoffsets i) (fun o4 ->
          let count = wrap tT (Z.sub o3 o4) in
          kbind (kcheck (Z.ltb count Z0) MOffsetsNotMonotone) (fun _ ->
            kfor Z0 count (fun _ st0 -> kpush st0 (wrap tT i)) st))))
      (tocarry, Z0)) (fun r -> KOk (fst r))

(** val listArray_validity : z list -> z list -> z -> z -> unit kres **)

let listArray_validity starts stops length0 lencontent =
  kchecks length0 (fun i ->
    kbind (kget starts i) (fun start ->
      kbind (kget stops i) (fun stop ->
        if Z.eqb start stop
        then KOk ()
        else kbind (kcheck (Z.ltb stop start) MStartGtStop) (fun _ ->
               kbind (kcheck (Z.ltb start Z0) MStartLt0) (fun _ ->
                 kcheck (Z.ltb lencontent stop) MStopGtLen)))))

(** val indexedArray_validity : z list -> z -> z -> bool -> unit kres **)

let indexedArray_validity index length0 lencontent isoption =
  kchecks length0 (fun i ->
    kbind (kget index i) (fun idx ->
      kbind (kcheck ((&&) (negb isoption) (Z.ltb idx Z0)) MIndexLt0)
        (fun _ -> kcheck (Z.leb lencontent idx) MIndexGeLen)))

(** val unionArray_validity :
    z list -> z list -> z -> z -> z list -> unit kres **)

let unionArray_validity tags index length0 numcontents lencontents =
  kchecks length0 (fun i ->
    kbind (kget tags i) (fun tag ->
      kbind (kget index i) (fun idx ->
        kbind (kcheck (Z.ltb tag Z0) MTagsLt0) (fun _ ->
          kbind (kcheck (Z.ltb idx Z0) MIndexLt0) (fun _ ->
            kbind (kcheck (Z.leb numcontents tag) MTagsGeLen) (fun _ ->
              kbind (kget lencontents tag) (fun lencontent ->
                kcheck (Z.leb lencontent idx) MIndexGeLenTag)))))))

(** val regularize_rangeslice :
    z -> z -> bool -> bool -> bool -> z -> z * z **)

let regularize_rangeslice start stop posstep hasstart hasstop length0 =
  if posstep
  then let s =
         if negb hasstart
         then Z0
         else if Z.ltb start Z0 then Z.add start length0 else start
       in
       let s0 = if Z.ltb s Z0 then Z0 else s in
       let s1 = if Z.ltb length0 s0 then length0 else s0 in
       let e =
         if negb hasstop
         then length0
         else if Z.ltb stop Z0 then Z.add stop length0 else stop
       in
       let e0 = if Z.ltb e Z0 then Z0 else e in
       let e1 = if Z.ltb length0 e0 then length0 else e0 in
       let e2 = if Z.ltb e1 s1 then s1 else e1 in (s1, e2)
  else let s =
         if negb hasstart
         then Z.sub length0 (Zpos XH)
         else if Z.ltb start Z0 then Z.add start length0 else start
       in
       let s0 = if Z.ltb s (Zneg XH) then Zneg XH else s in
       let s1 =
         if Z.ltb (Z.sub length0 (Zpos XH)) s0
         then Z.sub length0 (Zpos XH)
         else s0
       in
       let e =
         if negb hasstop
         then Zneg XH
         else if Z.ltb stop Z0 then Z.add stop length0 else stop
       in
       let e0 = if Z.ltb e (Zneg XH) then Zneg XH else e in
       let e1 =
         if Z.ltb (Z.sub length0 (Zpos XH)) e0
         then Z.sub length0 (Zpos XH)
         else e0
       in
       let e2 = if Z.ltb s1 e1 then s1 else e1 in (s1, e2)

(** val kSliceNone : z **)

let kSliceNone =
  Zpos (XI (XI (XI (XI (XI (XI (XI (XI (XI (XI (XI (XI (XI (XI (XI (XI (XI
    (XI (XI (XI (XI (XI (XI (XI (XI (XI (XI (XI (XI (XI (XI (XI (XI (XI (XI
    (XI (XI (XI (XI (XI (XI (XI (XI (XI (XI (XI (XI (XI (XI (XI (XI (XI (XI
    (XI (XI (XI (XI (XI (XI (XI (XI (XI
    XH))))))))))))))))))))))))))))))))))))))))))))))))))))))))))))))

(** val regularize_arrayslice : ity -> z list -> z -> z -> z list kres **)

let regularize_arrayslice tT flathead lenflathead length0 =
  kfor Z0 lenflathead (fun i buf ->
    kbind (kget buf i) (fun x ->
      kbind
        (if Z.ltb x Z0
         then kupd buf i (wrap tT (Z.add x length0))
         else KOk buf) (fun buf0 ->
        kbind (kget buf0 i) (fun y ->
          kbind
            (kcheck ((||) (Z.ltb y Z0) (Z.leb length0 y)) MIndexOutOfRange)
            (fun _ -> KOk buf0))))) flathead

(** val listArray_getitem_next_at :
    ity -> ity -> z list -> z list -> z list -> z -> z -> z list kres **)

let listArray_getitem_next_at tT tC tocarry starts stops lenstarts at_ =
  kfill Z0 lenstarts (fun i ->
    kbind (kget starts i) (fun start ->
      kbind (kget stops i) (fun stop ->
        let length0 = wrap tC (Z.sub stop start) in
        let ra = if Z.ltb at_ Z0 then Z.add at_ length0 else at_ in
        kbind
          (kcheck (negb ((&&) (Z.leb Z0 ra) (Z.ltb ra length0)))
            MIndexOutOfRange) (fun _ -> KOk (wrap tT (Z.add start ra))))))
    tocarry

(** val range_fuel : z -> z -> nat **)

let range_fuel s e =
  Z.to_nat (Z.abs (Z.sub e s))

(** val listArray_getitem_next_range :
    ity -> ity -> z list -> z list -> z list -> z list -> z -> z -> z -> z ->
    (z list * z list) kres **)

let listArray_getitem_next_range tC tT tooffsets tocarry starts stops lenstarts start stop step =
  kbind (kupd tooffsets Z0 Z0) (fun off0 ->
    kbind
      (kfor Z0 lenstarts (fun i st ->
        let (off, ck) = st in
        kbind (kget starts i) (fun fstart ->
          kbind (kget stops i) (fun fstop ->
            let length0 = wrap tC (Z.sub fstop fstart) in
            let (rs, re) =
              regularize_rangeslice start stop (Z.ltb Z0 step)
                (negb (Z.eqb start kSliceNone))
                (negb (Z.eqb stop kSliceNone)) length0
            in
            kbind
              (kwhile (range_fuel rs re) (fun s ->
                if Z.ltb Z0 step then Z.ltb (snd s) re else Z.ltb re (snd s))
                (fun s ->
                let (ck0, j) = s in
                kbind (kpush ck0 (wrap tT (Z.add fstart j))) (fun ck' -> KOk
                  (ck', (Z.add j step)))) (ck, rs)) (fun r ->
              let ck' = fst r in
              kbind (kupd off (Z.add i (Zpos XH)) (wrap tC (snd ck')))
                (fun off' -> KOk (off', ck')))))) (off0, (tocarry, Z0)))
      (fun r -> KOk ((fst r), (fst (snd r)))))

(** val listArray_getitem_next_range_carrylength :
    ity -> z list -> z list -> z list -> z -> z -> z -> z -> z list kres **)

let listArray_getitem_next_range_carrylength tC carrylength starts stops lenstarts start stop step =
  kbind (kupd carrylength Z0 Z0) (fun c0 ->
    kfor Z0 lenstarts (fun i cl ->
      kbind (kget starts i) (fun fstart ->
        kbind (kget stops i) (fun fstop ->
          let length0 = wrap tC (Z.sub fstop fstart) in
          let (rs, re) =
            regularize_rangeslice start stop (Z.ltb Z0 step)
              (negb (Z.eqb start kSliceNone)) (negb (Z.eqb stop kSliceNone))
              length0
          in
          kbind
            (kwhile (range_fuel rs re) (fun s ->
              if Z.ltb Z0 step then Z.ltb (snd s) re else Z.ltb re (snd s))
              (fun s ->
              let (cl0, j) = s in
              kbind (kget cl0 Z0) (fun c ->
                kbind (kupd cl0 Z0 (Z.add c (Zpos XH))) (fun cl' -> KOk (cl',
                  (Z.add j step))))) (cl, rs)) (fun r -> KOk (fst r))))) c0)

(** val listArray_getitem_next_range_counts :
    ity -> z list -> z list -> z -> z list kres **)

let listArray_getitem_next_range_counts _ total fromoffsets lenstarts =
  kbind (kupd total Z0 Z0) (fun t0 ->
    kfor Z0 lenstarts (fun i t ->
      kbind (kget fromoffsets (Z.add i (Zpos XH))) (fun o3 ->
        kbind (kget fromoffsets i) (fun o4 ->
          kbind (kget t Z0) (fun c ->
            kupd t Z0 (wrap i64 (Z.sub (Z.add c o3) o4)))))) t0)

(** val listArray_getitem_next_range_spreadadvanced :
    ity -> z list -> z list -> z list -> z -> z list kres **)

let listArray_getitem_next_range_spreadadvanced tC toadvanced fromadvanced fromoffsets lenstarts =
  kfor Z0 lenstarts (fun i out ->
    kbind (kget fromoffsets (Z.add i (Zpos XH))) (fun o3 ->
      kbind (kget fromoffsets i) (fun o4 ->
        let count = wrap tC (Z.sub o3 o4) in
        kbind (kget fromadvanced i) (fun a ->
          kfor Z0 count (fun j out0 -> kupd out0 (Z.add o4 j) a) out))))
    toadvanced

(** val listArray_getitem_next_array :
    z list -> z list -> z list -> z list -> z list -> z -> z -> z -> (z
    list * z list) kres **)

let listArray_getitem_next_array tocarry toadvanced starts stops fromarray lenstarts lenarray lencontent =
  kfor Z0 lenstarts (fun i st ->
    kbind (kget starts i) (fun start ->
      kbind (kget stops i) (fun stop ->
        kbind (kcheck (Z.ltb stop start) MStopsLtStarts) (fun _ ->
          kbind
            (kcheck ((&&) (negb (Z.eqb start stop)) (Z.ltb lencontent stop))
              MStopsGtLen) (fun _ ->
            let length0 = Z.sub stop start in
            kfor Z0 lenarray (fun j st0 ->
              let (tc, ta) = st0 in
              kbind (kget fromarray j) (fun a ->
                let ra = if Z.ltb a Z0 then Z.add a length0 else a in
                kbind
                  (kcheck (negb ((&&) (Z.leb Z0 ra) (Z.ltb ra length0)))
                    MIndexOutOfRange) (fun _ ->
                  kbind
                    (kupd tc (Z.add (Z.mul i lenarray) j) (Z.add start ra))
                    (fun tc' ->
                    kbind (kupd ta (Z.add (Z.mul i lenarray) j) j)
                      (fun ta' -> KOk (tc', ta')))))) st))))) (tocarry,
    toadvanced)

(** val listArray_getitem_next_array_advanced :
    z list -> z list -> z list -> z list -> z list -> z list -> z -> z -> z
    -> (z list * z list) kres **)

let listArray_getitem_next_array_advanced tocarry toadvanced starts stops fromarray fromadvanced lenstarts _ lencontent =
  kfor Z0 lenstarts (fun i st ->
    let (tc, ta) = st in
    kbind (kget starts i) (fun start ->
      kbind (kget stops i) (fun stop ->
        kbind (kcheck (Z.ltb stop start) MStopsLtStarts) (fun _ ->
          kbind
            (kcheck ((&&) (negb (Z.eqb start stop)) (Z.ltb lencontent stop))
              MStopsGtLen) (fun _ ->
            let length0 = Z.sub stop start in
            kbind (kget fromadvanced i) (fun adv ->
              kbind (kget fromarray adv) (fun a ->
                let ra = if Z.ltb a Z0 then Z.add a length0 else a in
                kbind
                  (kcheck (negb ((&&) (Z.leb Z0 ra) (Z.ltb ra length0)))
                    MIndexOutOfRange) (fun _ ->
                  kbind (kupd tc i (Z.add start ra)) (fun tc' ->
                    kbind (kupd ta i i) (fun ta' -> KOk (tc', ta')))))))))))
    (tocarry, toadvanced)

(** val listArray_getitem_carry :
    ity -> z list -> z list -> z list -> z list -> z list -> z -> z -> (z
    list * z list) kres **)

let listArray_getitem_carry tC tostarts tostops starts stops fromcarry lenstarts lencarry =
  kfor Z0 lencarry (fun i st ->
    let (ts, tp) = st in
    kbind (kget fromcarry i) (fun c ->
      kbind (kcheck (Z.leb lenstarts c) MIndexOutOfRange) (fun _ ->
        kbind (kget starts c) (fun a ->
          kbind (kget stops c) (fun b ->
            kbind (kupd ts i (wrap tC a)) (fun ts' ->
              kbind (kupd tp i (wrap tC b)) (fun tp' -> KOk (ts', tp'))))))))
    (tostarts, tostops)

(** val regularArray_getitem_next_at :
    z list -> z -> z -> z -> z list kres **)

let regularArray_getitem_next_at tocarry at_ length0 size =
  let ra = if Z.ltb at_ Z0 then Z.add at_ size else at_ in
  kbind (kcheck (negb ((&&) (Z.leb Z0 ra) (Z.ltb ra size))) MIndexOutOfRange)
    (fun _ ->
    kfill Z0 length0 (fun i -> KOk (Z.add (Z.mul i size) ra)) tocarry)

(** val regularArray_getitem_next_range :
    z list -> z -> z -> z -> z -> z -> z list kres **)

let regularArray_getitem_next_range tocarry regular_start step length0 size nextsize =
  kfor Z0 length0 (fun i out ->
    kfor Z0 nextsize (fun j out0 ->
      kupd out0 (Z.add (Z.mul i nextsize) j)
        (Z.add (Z.add (Z.mul i size) regular_start) (Z.mul j step))) out)
    tocarry

(** val regularArray_getitem_next_range_spreadadvanced :
    z list -> z list -> z -> z -> z list kres **)

let regularArray_getitem_next_range_spreadadvanced toadvanced fromadvanced length0 nextsize =
  kfor Z0 length0 (fun i out ->
    kbind (kget fromadvanced i) (fun a ->
      kfor Z0 nextsize (fun j out0 ->
        kupd out0 (Z.add (Z.mul i nextsize) j) a) out)) toadvanced

(** val regularArray_getitem_next_array :
    z list -> z list -> z list -> z -> z -> z -> (z list * z list) kres **)

let regularArray_getitem_next_array tocarry toadvanced fromarray length0 lenarray size =
  kfor Z0 length0 (fun i st ->
    kfor Z0 lenarray (fun j st0 ->
      let (tc, ta) = st0 in
      kbind (kget fromarray j) (fun a ->
        kbind (kupd tc (Z.add (Z.mul i lenarray) j) (Z.add (Z.mul i size) a))
          (fun tc' ->
          kbind (kupd ta (Z.add (Z.mul i lenarray) j) j) (fun ta' -> KOk
            (tc', ta'))))) st) (tocarry, toadvanced)

(** val regularArray_getitem_next_array_advanced :
    z list -> z list -> z list -> z list -> z -> z -> z -> (z list * z list)
    kres **)

let regularArray_getitem_next_array_advanced tocarry toadvanced fromadvanced fromarray length0 _ size =
  kfor Z0 length0 (fun i st ->
    let (tc, ta) = st in
    kbind (kget fromadvanced i) (fun adv ->
      kbind (kget fromarray adv) (fun a ->
        kbind (kupd tc i (Z.add (Z.mul i size) a)) (fun tc' ->
          kbind (kupd ta i i) (fun ta' -> KOk (tc', ta')))))) (tocarry,
    toadvanced)

(** val regularArray_getitem_next_array_regularize :
    z list -> z list -> z -> z -> z list kres **)

let regularArray_getitem_next_array_regularize toarray fromarray lenarray size =
  kfor Z0 lenarray (fun j out ->
    kbind (kget fromarray j) (fun a ->
      kbind (kupd out j a) (fun out0 ->
        kbind (if Z.ltb a Z0 then kupd out0 j (Z.add a size) else KOk out0)
          (fun out1 ->
          kbind (kget out1 j) (fun y ->
            kbind
              (kcheck (negb ((&&) (Z.leb Z0 y) (Z.ltb y size)))
                MIndexOutOfRange) (fun _ -> KOk out1)))))) toarray

(** val regularArray_getitem_carry :
    z list -> z list -> z -> z -> z list kres **)

let regularArray_getitem_carry tocarry fromcarry lencarry size =
  kfor Z0 lencarry (fun i out ->
    kbind (kget fromcarry i) (fun c ->
      kfor Z0 size (fun j out0 ->
        kupd out0 (Z.add (Z.mul i size) j) (Z.add (Z.mul c size) j)) out))
    tocarry

(** val indexedArray_getitem_nextcarry :
    z list -> z list -> z -> z -> z list kres **)

let indexedArray_getitem_nextcarry tocarry fromindex lenindex lencontent =
  kbind
    (kfor Z0 lenindex (fun i st ->
      kbind (kget fromindex i) (fun j ->
        kbind
          (kcheck ((||) (Z.ltb j Z0) (Z.leb lencontent j)) MIndexOutOfRange)
          (fun _ -> kpush st j))) (tocarry, Z0)) (fun r -> KOk (fst r))

(** val indexedArray_getitem_nextcarry_outindex :
    ity -> z list -> z list -> z list -> z -> z -> (z list * z list) kres **)

let indexedArray_getitem_nextcarry_outindex tC tocarry toindex fromindex lenindex lencontent =
  kbind
    (kfor Z0 lenindex (fun i st ->
      let (ck, ti) = st in
      kbind (kget fromindex i) (fun j ->
        kbind (kcheck (Z.leb lencontent j) MIndexOutOfRange) (fun _ ->
          if Z.ltb j Z0
          then kbind (kupd ti i (wrap tC (Zneg XH))) (fun ti' -> KOk (ck,
                 ti'))
          else kbind (kpush ck j) (fun ck' ->
                 kbind (kupd ti i (wrap tC (snd ck))) (fun ti' -> KOk (ck',
                   ti')))))) ((tocarry, Z0), toindex)) (fun r -> KOk
    ((fst (fst r)), (snd r)))

(** val indexedArray_flatten_nextcarry :
    z list -> z list -> z -> z -> z list kres **)

let indexedArray_flatten_nextcarry tocarry fromindex lenindex lencontent =
  kbind
    (kfor Z0 lenindex (fun i st ->
      kbind (kget fromindex i) (fun j ->
        kbind (kcheck (Z.leb lencontent j) MIndexOutOfRange) (fun _ ->
          if Z.leb Z0 j then kpush st j else KOk st))) (tocarry, Z0))
    (fun r -> KOk (fst r))

(** val indexedArray_flatten_none2empty :
    ity -> z list -> z list -> z -> z list -> z -> z list kres **)

let indexedArray_flatten_none2empty tT outoffsets outindex outindexlength offsets offsetslength =
  kbind (kget offsets Z0) (fun o3 ->
    kbind (kupd outoffsets Z0 (wrap tT o3)) (fun out0 ->
      kbind
        (kfor Z0 outindexlength (fun i st ->
          let (out, k) = st in
          kbind (kget outindex i) (fun idx ->
            if Z.ltb idx Z0
            then kbind (kget out (Z.sub k (Zpos XH))) (fun prev ->
                   kbind (kupd out k prev) (fun out' -> KOk (out',
                     (Z.add k (Zpos XH)))))
            else kbind
                   (kcheck (Z.leb offsetslength (Z.add idx (Zpos XH)))
                     MFlatteningOffset) (fun _ ->
                   kbind (kget offsets (Z.add idx (Zpos XH))) (fun a ->
                     kbind (kget offsets idx) (fun b ->
                       let count = wrap tT (Z.sub a b) in
                       kbind (kget out (Z.sub k (Zpos XH))) (fun prev ->
                         kbind (kupd out k (wrap tT (Z.add prev count)))
                           (fun out' -> KOk (out', (Z.add k (Zpos XH))))))))))
          (out0, (Zpos XH))) (fun r -> KOk (fst r))))

(** val indexedArray_numnull : z list -> z list -> z -> z list kres **)

let indexedArray_numnull numnull fromindex lenindex =
  kbind (kupd numnull Z0 Z0) (fun n0 ->
    kfor Z0 lenindex (fun i n ->
      kbind (kget fromindex i) (fun x ->
        if Z.ltb x Z0
        then kbind (kget n Z0) (fun c -> kupd n Z0 (Z.add c (Zpos XH)))
        else KOk n)) n0)

(** val byteMaskedArray_getitem_nextcarry :
    z list -> z list -> z -> bool -> z list kres **)

let byteMaskedArray_getitem_nextcarry tocarry mask length0 validwhen =
  kbind
    (kfor Z0 length0 (fun i st ->
      kbind (kget mask i) (fun m ->
        if eqb (negb (Z.eqb m Z0)) validwhen then kpush st i else KOk st))
      (tocarry, Z0)) (fun r -> KOk (fst r))

(** val byteMaskedArray_getitem_nextcarry_outindex :
    z list -> z list -> z list -> z -> bool -> (z list * z list) kres **)

let byteMaskedArray_getitem_nextcarry_outindex tocarry outindex mask length0 validwhen =
  kbind
    (kfor Z0 length0 (fun i st ->
      let (ck, oi) = st in
      kbind (kget mask i) (fun m ->
        if eqb (negb (Z.eqb m Z0)) validwhen
        then kbind (kpush ck i) (fun ck' ->
               kbind (kupd oi i (snd ck)) (fun oi' -> KOk (ck', oi')))
        else kbind (kupd oi i (Zneg XH)) (fun oi' -> KOk (ck, oi'))))
      ((tocarry, Z0), outindex)) (fun r -> KOk ((fst (fst r)), (snd r)))

(** val byteMaskedArray_toIndexedOptionArray :
    z list -> z list -> z -> bool -> z list kres **)

let byteMaskedArray_toIndexedOptionArray toindex mask length0 validwhen =
  kfill Z0 length0 (fun i ->
    kbind (kget mask i) (fun m -> KOk
      (if eqb (negb (Z.eqb m Z0)) validwhen then i else Zneg XH))) toindex

(** val bit : z -> z -> bool **)

let bit byte k =
  Z.odd (Z.div byte (Z.pow (Zpos (XO XH)) k))

(** val bitMaskedArray_to_ByteMaskedArray :
    z list -> z list -> z -> bool -> bool -> z list kres **)

let bitMaskedArray_to_ByteMaskedArray tobytemask frombitmask bitmasklength validwhen lsb_order =
  kfor Z0 bitmasklength (fun i out ->
    kbind (kget frombitmask i) (fun byte ->
      kfor Z0 (Zpos (XO (XO (XO XH)))) (fun s out0 ->
        let b =
          bit byte (if lsb_order then s else Z.sub (Zpos (XI (XI XH))) s)
        in
        kupd out0 (Z.add (Z.mul i (Zpos (XO (XO (XO XH))))) s)
          (if eqb b validwhen then Z0 else Zpos XH)) out)) tobytemask

(** val bitMaskedArray_to_IndexedOptionArray :
    z list -> z list -> z -> bool -> bool -> z list kres **)

let bitMaskedArray_to_IndexedOptionArray toindex frombitmask bitmasklength validwhen lsb_order =
  kfor Z0 bitmasklength (fun i out ->
    kbind (kget frombitmask i) (fun byte ->
      kfor Z0 (Zpos (XO (XO (XO XH)))) (fun s out0 ->
        let b =
          bit byte (if lsb_order then s else Z.sub (Zpos (XI (XI XH))) s)
        in
        kupd out0 (Z.add (Z.mul i (Zpos (XO (XO (XO XH))))) s)
          (if eqb b validwhen
           then Z.add (Z.mul i (Zpos (XO (XO (XO XH))))) s
           else Zneg XH)) out)) toindex

(** val unionArray_fillna : ity -> z list -> z list -> z -> z list kres **)

let unionArray_fillna tT toindex fromindex length0 =
  kfill Z0 length0 (fun i ->
    kbind (kget fromindex i) (fun x -> KOk
      (wrap tT (if Z.leb Z0 x then x else Z0)))) toindex

(** val indexedArray_local_preparenext :
    z list -> z list -> z list -> z -> z list -> z -> z list kres **)

let indexedArray_local_preparenext tocarry starts parents parentslength nextparents nextlen =
  kbind
    (kfor Z0 parentslength (fun i st ->
      let (out, j) = st in
      kbind (kget parents i) (fun parent ->
        kbind (kget starts parent) (fun _ ->
          if Z.ltb j nextlen
          then kbind (kget nextparents j) (fun np ->
                 if Z.eqb parent np
                 then kbind (kupd out i j) (fun out' -> KOk (out',
                        (Z.add j (Zpos XH))))
                 else kbind (kupd out i (Zneg XH)) (fun out' -> KOk (out', j)))
          else kbind (kupd out i (Zneg XH)) (fun out' -> KOk (out', j)))))
      (tocarry, Z0)) (fun r -> KOk (fst r))

(** val listArray_localindex : z list -> z list -> z -> z list kres **)

let listArray_localindex toindex offsets length0 =
  kfor Z0 length0 (fun i out ->
    kbind (kget offsets i) (fun start ->
      kbind (kget offsets (Z.add i (Zpos XH))) (fun stop ->
        kfor start stop (fun j out0 -> kupd out0 j (Z.sub j start)) out)))
    toindex

(** val localindex : ity -> z list -> z -> z list kres **)

let localindex tT toindex length0 =
  kfill Z0 length0 (fun i -> KOk (wrap tT i)) toindex

(** val regularArray_localindex : z list -> z -> z -> z list kres **)

let regularArray_localindex toindex size length0 =
  kfor Z0 length0 (fun i out ->
    kfor Z0 size (fun j out0 -> kupd out0 (Z.add (Z.mul i size) j) j) out)
    toindex

(** val listArray_min_range :
    ity -> z list -> z list -> z list -> z -> z list kres **)

let listArray_min_range tC tomin starts stops lenstarts =
  kbind (kget starts Z0) (fun s0 ->
    kbind (kget stops Z0) (fun e0 ->
      kbind
        (kfor (Zpos XH) lenstarts (fun i shorter ->
          kbind (kget starts i) (fun s ->
            kbind (kget stops i) (fun e ->
              let rangeval = wrap tC (Z.sub e s) in
              KOk (if Z.ltb shorter rangeval then shorter else rangeval))))
          (wrap tC (Z.sub e0 s0))) (fun shorter -> kupd tomin Z0 shorter)))

(** val listArray_rpad_and_clip_length_axis1 :
    ity -> z list -> z list -> z list -> z -> z -> z list kres **)

let listArray_rpad_and_clip_length_axis1 tC tomin starts stops target lenstarts =
  kbind
    (kfor Z0 lenstarts (fun i length0 ->
      kbind (kget starts i) (fun s ->
        kbind (kget stops i) (fun e ->
          let rangeval = wrap tC (Z.sub e s) in
          KOk
          (Z.add length0 (if Z.ltb rangeval target then target else rangeval)))))
      Z0) (fun length0 -> kupd tomin Z0 (wrap i64 length0))

(** val listArray_rpad_axis1 :
    ity -> z list -> z list -> z list -> z list -> z list -> z -> z -> ((z
    list * z list) * z list) kres **)

let listArray_rpad_axis1 tC toindex starts stops tostarts tostops target length0 =
  kbind
    (kfor Z0 length0 (fun i st ->
      let (y, offset) = st in
      let (y0, tp) = y in
      let (ti, ts) = y0 in
      kbind (kupd ts i (wrap tC offset)) (fun ts' ->
        kbind (kget starts i) (fun s ->
          kbind (kget stops i) (fun e ->
            let rangeval = wrap tC (Z.sub e s) in
            kbind
              (kfor Z0 rangeval (fun j ti0 ->
                kupd ti0 (Z.add offset j) (Z.add s j)) ti) (fun ti1 ->
              kbind
                (kfor rangeval target (fun j ti0 ->
                  kupd ti0 (Z.add offset j) (Zneg XH)) ti1) (fun ti2 ->
                kbind (kget ts' i) (fun b ->
                  let offset' =
                    if Z.ltb rangeval target
                    then Z.add b target
                    else Z.add b rangeval
                  in
                  kbind (kupd tp i (wrap tC offset')) (fun tp' -> KOk (((ti2,
                    ts'), tp'), offset'))))))))) (((toindex, tostarts),
      tostops), Z0)) (fun r ->
    let (p, _) = r in
    let (p0, tp) = p in let (ti, ts) = p0 in KOk ((ti, ts), tp))

(** val listOffsetArray_rpad_length_axis1 :
    ity -> z list -> z list -> z -> z -> z list -> (z list * z list) kres **)

let listOffsetArray_rpad_length_axis1 tC tooffsets fromoffsets fromlength target tolength =
  kbind (kupd tooffsets Z0 Z0) (fun out0 ->
    kbind
      (kfor Z0 fromlength (fun i st ->
        let (out, length0) = st in
        kbind (kget fromoffsets (Z.add i (Zpos XH))) (fun a ->
          kbind (kget fromoffsets i) (fun b ->
            let rangeval = wrap tC (Z.sub a b) in
            let longer = if Z.ltb target rangeval then rangeval else target in
            kbind (kget out i) (fun prev ->
              kbind
                (kupd out (Z.add i (Zpos XH)) (wrap tC (Z.add prev longer)))
                (fun out' -> KOk (out', (Z.add length0 longer))))))) (out0,
        Z0)) (fun r ->
      kbind (kupd tolength Z0 (wrap i64 (snd r))) (fun tl -> KOk ((fst r),
        tl))))

(** val listOffsetArray_rpad_axis1 :
    z list -> z list -> z -> z -> z list kres **)

let listOffsetArray_rpad_axis1 toindex fromoffsets fromlength target =
  kbind
    (kfor Z0 fromlength (fun i st ->
      kbind (kget fromoffsets (Z.add i (Zpos XH))) (fun a ->
        kbind (kget fromoffsets i) (fun b ->
          let rangeval = Z.sub a b in
          kbind (kfor Z0 rangeval (fun j st0 -> kpush st0 (Z.add b j)) st)
            (fun st1 ->
            kfor rangeval target (fun _ st0 -> kpush st0 (Zneg XH)) st1))))
      (toindex, Z0)) (fun r -> KOk (fst r))

(** val listOffsetArray_rpad_and_clip_axis1 :
    z list -> z list -> z -> z -> z list kres **)

let listOffsetArray_rpad_and_clip_axis1 toindex fromoffsets length0 target =
  kfor Z0 length0 (fun i out ->
    kbind (kget fromoffsets (Z.add i (Zpos XH))) (fun a ->
      kbind (kget fromoffsets i) (fun b ->
        let rangeval = Z.sub a b in
        let shorter = if Z.ltb target rangeval then target else rangeval in
        kbind
          (kfor Z0 shorter (fun j out0 ->
            kupd out0 (Z.add (Z.mul i target) j) (Z.add b j)) out)
          (fun out1 ->
          kfor shorter target (fun j out0 ->
            kupd out0 (Z.add (Z.mul i target) j) (Zneg XH)) out1)))) toindex

(** val regularArray_rpad_and_clip_axis1 :
    z list -> z -> z -> z -> z list kres **)

let regularArray_rpad_and_clip_axis1 toindex target size length0 =
  let shorter = if Z.ltb target size then target else size in
  kfor Z0 length0 (fun i out ->
    kbind
      (kfor Z0 shorter (fun j out0 ->
        kupd out0 (Z.add (Z.mul i target) j) (Z.add (Z.mul i size) j)) out)
      (fun out1 ->
      kfor shorter target (fun j out0 ->
        kupd out0 (Z.add (Z.mul i target) j) (Zneg XH)) out1)) toindex

(** val index_rpad_and_clip_axis0 : z list -> z -> z -> z list kres **)

let index_rpad_and_clip_axis0 toindex target length0 =
  let shorter = if Z.ltb target length0 then target else length0 in
  kbind (kfor Z0 shorter (fun i out -> kupd out i i) toindex) (fun out1 ->
    kfor shorter target (fun i out -> kupd out i (Zneg XH)) out1)

(** val index_rpad_and_clip_axis1 :
    z list -> z list -> z -> z -> (z list * z list) kres **)

let index_rpad_and_clip_axis1 tostarts tostops target length0 =
  kbind
    (kfor Z0 length0 (fun i st ->
      let (y, offset) = st in
      let (ts, tp) = y in
      kbind (kupd ts i offset) (fun ts' ->
        kbind (kupd tp i (Z.add offset target)) (fun tp' -> KOk ((ts', tp'),
          (Z.add offset target))))) ((tostarts, tostops), Z0)) (fun r -> KOk
    (fst r))

(** val combinations_count : z -> z -> z **)

let combinations_count n size =
  if Z.ltb size n
  then Z0
  else if Z.eqb n size
       then Zpos XH
       else let thisn =
              if Z.ltb size (Z.mul n (Zpos (XO XH))) then Z.sub size n else n
            in
            fst
              (fold_left (fun acc _ ->
                let (c, j) = acc in
                ((Z.div (Z.mul c (Z.add (Z.sub size j) (Zpos XH))) j),
                (Z.add j (Zpos XH)))) (iota (Z.sub thisn (Zpos XH))) (size,
                (Zpos (XO XH))))

(** val listArray_combinations_length :
    ity -> z list -> z list -> z -> bool -> z list -> z list -> z -> (z
    list * z list) kres **)

let listArray_combinations_length tC totallen tooffsets n replacement starts stops length0 =
  kbind (kupd totallen Z0 Z0) (fun tl0 ->
    kbind (kupd tooffsets Z0 Z0) (fun to0 ->
      kfor Z0 length0 (fun i st ->
        let (tl, to1) = st in
        kbind (kget starts i) (fun s ->
          kbind (kget stops i) (fun e ->
            let size = wrap tC (Z.sub e s) in
            let size0 =
              if replacement then Z.add size (Z.sub n (Zpos XH)) else size
            in
            let c = combinations_count n size0 in
            kbind (kget tl Z0) (fun t ->
              kbind (kupd tl Z0 (Z.add t c)) (fun tl' ->
                kbind (kget to1 i) (fun prev ->
                  kbind (kupd to1 (Z.add i (Zpos XH)) (Z.add prev c))
                    (fun to' -> KOk (tl', to')))))))) (tl0, to0)))

type cstate = (z list list * z list) * z list

(** val set_row : z list list -> nat -> z list -> z list list **)

let rec set_row rows k r =
  match rows with
  | [] -> []
  | h :: t -> (match k with
               | O -> r :: t
               | S k' -> h :: (set_row t k' r))

(** val krow : z list list -> z -> z list kres **)

let krow rows k =
  if Z.ltb k Z0
  then KOob
  else (match nth_error rows (Z.to_nat k) with
        | Some r -> KOk r
        | None -> KOob)

(** val comb_emit : z -> cstate -> cstate kres **)

let comb_emit n st =
  kfor Z0 n (fun k st0 ->
    let (y, fi) = st0 in
    let (tc, ti) = y in
    kbind (krow tc k) (fun row ->
      kbind (kget ti k) (fun pos ->
        kbind (kget fi k) (fun v ->
          kbind (kupd row pos v) (fun row' ->
            kbind (kupd ti k (Z.add pos (Zpos XH))) (fun ti' -> KOk
              (((set_row tc (Z.to_nat k) row'), ti'), fi))))))) st

(** val comb_step :
    nat -> nat -> z -> z -> z -> bool -> cstate -> cstate kres **)

let rec comb_step depth fuel j stop n replacement st =
  match depth with
  | O -> KErr MFuel
  | S depth' ->
    kwhile fuel (fun s ->
      let (_, fi) = s in
      (match kget fi j with
       | KOk x -> Z.ltb x stop
       | _ -> true)) (fun s ->
      let (p, fi) = s in
      kbind (kget fi j) (fun x ->
        kbind
          (kfor (Z.add j (Zpos XH)) n (fun k fi0 ->
            kupd fi0 k (if replacement then x else Z.add x (Z.sub k j))) fi)
          (fun fi1 ->
          kbind
            (if Z.eqb (Z.add j (Zpos XH)) n
             then comb_emit n (p, fi1)
             else comb_step depth' fuel (Z.add j (Zpos XH)) stop n
                    replacement (p, fi1)) (fun st1 ->
            let (p0, fi2) = st1 in
            let (tc2, ti2) = p0 in
            kbind (kget fi2 j) (fun y ->
              kbind (kupd fi2 j (Z.add y (Zpos XH))) (fun fi3 -> KOk ((tc2,
                ti2), fi3))))))) st

(** val listArray_combinations :
    z list list -> z list -> z list -> z -> bool -> z list -> z list -> z ->
    cstate kres **)

let listArray_combinations tocarry toindex fromindex n replacement starts stops length0 =
  kbind (kfor Z0 n (fun j ti -> kupd ti j Z0) toindex) (fun ti0 ->
    kfor Z0 length0 (fun i st ->
      let (y, fi) = st in
      kbind (kget starts i) (fun start ->
        kbind (kget stops i) (fun stop ->
          kbind (kupd fi Z0 start) (fun fi' ->
            comb_step (S (Z.to_nat n)) (S (Z.to_nat (Z.sub stop start))) Z0
              stop n replacement (y, fi'))))) ((tocarry, ti0), fromindex))

(** val regularArray_combinations :
    z list list -> z list -> z list -> z -> bool -> z -> z -> cstate kres **)

let regularArray_combinations tocarry toindex fromindex n replacement size length0 =
  kbind (kfor Z0 n (fun j ti -> kupd ti j Z0) toindex) (fun ti0 ->
    kfor Z0 length0 (fun i st ->
      let (y, fi) = st in
      let start = Z.mul size i in
      let stop = Z.add start size in
      kbind (kupd fi Z0 start) (fun fi' ->
        comb_step (S (Z.to_nat n)) (S (Z.to_nat size)) Z0 stop n replacement
          (y, fi'))) ((tocarry, ti0), fromindex))

(** val reduce_local_nextparents : z list -> z list -> z -> z list kres **)

let reduce_local_nextparents nextparents offsets length0 =
  kbind (kget offsets Z0) (fun o3 ->
    kfor Z0 length0 (fun i out ->
      kbind (kget offsets i) (fun a ->
        kbind (kget offsets (Z.add i (Zpos XH))) (fun b ->
          kfor (Z.sub a o3) (Z.sub b o3) (fun j out0 -> kupd out0 j i) out)))
      nextparents)

(** val reduce_local_outoffsets :
    z list -> z list -> z -> z -> z list kres **)

let reduce_local_outoffsets outoffsets parents lenparents outlength =
  kbind
    (kfor Z0 lenparents (fun i st ->
      kbind (kget parents i) (fun p ->
        kwhile (Z.to_nat (Z.add p (Zpos XH))) (fun s ->
          let (_, last) = s in Z.ltb last p) (fun s ->
          let (p0, last) = s in
          let (out, k) = p0 in
          kbind (kupd out k i) (fun out' -> KOk ((out', (Z.add k (Zpos XH))),
            (Z.add last (Zpos XH))))) st)) ((outoffsets, Z0), (Zneg XH)))
    (fun r ->
    let (p, _) = r in
    let (out, k) = p in
    kfor k (Z.add outlength (Zpos XH)) (fun k0 out0 ->
      kupd out0 k0 lenparents) out)

(** val reduce_nonlocal_maxcount_offsetscopy :
    z list -> z list -> z list -> z -> (z list * z list) kres **)

let reduce_nonlocal_maxcount_offsetscopy maxcount offsetscopy offsets length0 =
  kbind (kupd maxcount Z0 Z0) (fun m0 ->
    kbind (kget offsets Z0) (fun o3 ->
      kbind (kupd offsetscopy Z0 o3) (fun c0 ->
        kfor Z0 length0 (fun i st ->
          let (m, c) = st in
          kbind (kget offsets (Z.add i (Zpos XH))) (fun a ->
            kbind (kget offsets i) (fun b ->
              let count = Z.sub a b in
              kbind (kget m Z0) (fun cur ->
                kbind (if Z.ltb cur count then kupd m Z0 count else KOk m)
                  (fun m' ->
                  kbind (kupd c (Z.add i (Zpos XH)) a) (fun c' -> KOk (m',
                    c'))))))) (m0, c0))))

(** val reduce_nonlocal_preparenext :
    z list -> z list -> z -> z list -> z list -> z -> z list -> z list -> z
    -> z list -> z -> ((((z list * z list) * z list) * z list) * z list) kres **)

let reduce_nonlocal_preparenext nextcarry nextparents nextlen maxnextparents distincts distinctslen offsetscopy offsets length0 parents maxcount =
  kbind (kupd maxnextparents Z0 Z0) (fun mx0 ->
    kbind (kfor Z0 distinctslen (fun i d -> kupd d i (Zneg XH)) distincts)
      (fun d0 ->
      kbind
        (kwhile (Z.to_nat nextlen) (fun s -> Z.ltb (snd s) nextlen) (fun s ->
          kbind
            (kfor Z0 length0 (fun i st ->
              let (y, j) = st in
              let (y0, k) = y in
              let (y1, oc) = y0 in
              let (y2, d) = y1 in
              let (y3, mx) = y2 in
              let (nc, np) = y3 in
              kbind (kget oc i) (fun c ->
                kbind (kget offsets (Z.add i (Zpos XH))) (fun o3 ->
                  if Z.ltb c o3
                  then kbind (kget offsets i) (fun o4 ->
                         let diff = Z.sub c o4 in
                         kbind (kget parents i) (fun parent ->
                           kbind (kupd nc k c) (fun nc' ->
                             let v = Z.add (Z.mul parent maxcount) diff in
                             kbind (kupd np k v) (fun np' ->
                               kbind (kget mx Z0) (fun curmx ->
                                 kbind
                                   (if Z.ltb curmx v
                                    then kupd mx Z0 v
                                    else KOk mx) (fun mx' ->
                                   kbind (kget d v) (fun dv ->
                                     kbind
                                       (if Z.eqb dv (Zneg XH)
                                        then kbind (kupd d v j) (fun d' ->
                                               KOk (d', (Z.add j (Zpos XH))))
                                        else KOk (d, j)) (fun dj ->
                                       kbind (kupd oc i (Z.add c (Zpos XH)))
                                         (fun oc' -> KOk ((((((nc', np'),
                                         mx'), (fst dj)), oc'),
                                         (Z.add k (Zpos XH))), (snd dj)))))))))))
                  else KOk st))) (((fst s), (snd s)), Z0)) (fun r ->
            let (p, _) = r in
            let (p0, k) = p in
            let (p1, oc) = p0 in
            let (p2, d) = p1 in
            let (p3, mx) = p2 in
            let (nc, np) = p3 in KOk (((((nc, np), mx), d), oc), k)))
          (((((nextcarry, nextparents), mx0), d0), offsetscopy), Z0))
        (fun r -> KOk (fst r))))

(** val reduce_nonlocal_nextstarts : z list -> z list -> z -> z list kres **)

let reduce_nonlocal_nextstarts nextstarts nextparents nextlen =
  kbind
    (kfor Z0 nextlen (fun i st ->
      let (out, last) = st in
      kbind (kget nextparents i) (fun p ->
        kbind (if negb (Z.eqb p last) then kupd out p i else KOk out)
          (fun out' -> KOk (out', p)))) (nextstarts, (Zneg XH))) (fun r ->
    KOk (fst r))

(** val reduce_nonlocal_findgaps : z list -> z list -> z -> z list kres **)

let reduce_nonlocal_findgaps gaps parents lenparents =
  kbind
    (kfor Z0 lenparents (fun i st ->
      let (gk, last) = st in
      kbind (kget parents i) (fun parent ->
        if Z.ltb last parent
        then kbind (kpush gk (Z.sub parent last)) (fun gk' -> KOk (gk',
               parent))
        else KOk st)) ((gaps, Z0), (Zneg XH))) (fun r -> KOk (fst (fst r)))

(** val reduce_nonlocal_nextshifts :
    z list -> z list -> z list -> z list -> z -> z list -> z list -> z -> z
    -> z list -> ((z list * z list) * z list) kres **)

let reduce_nonlocal_nextshifts nummissing missing nextshifts offsets length0 starts parents maxcount nextlen nextcarry =
  kbind
    (kfor Z0 length0 (fun i st ->
      let (nm, ms) = st in
      kbind (kget offsets i) (fun start ->
        kbind (kget offsets (Z.add i (Zpos XH))) (fun stop ->
          let count = Z.sub stop start in
          kbind (kget parents i) (fun p ->
            kbind (kget starts p) (fun sp ->
              kbind
                (if Z.eqb sp i
                 then kfor Z0 maxcount (fun k nm0 -> kupd nm0 k Z0) nm
                 else KOk nm) (fun nm1 ->
                kbind
                  (kfor count maxcount (fun k nm0 ->
                    kbind (kget nm0 k) (fun c ->
                      kupd nm0 k (Z.add c (Zpos XH)))) nm1) (fun nm2 ->
                  kbind
                    (kfor Z0 count (fun j ms0 ->
                      kbind (kget nm2 j) (fun c -> kupd ms0 (Z.add start j) c))
                      ms) (fun ms' -> KOk (nm2, ms'))))))))) (nummissing,
      missing)) (fun r ->
    let (nm, ms) = r in
    kbind
      (kfill Z0 nextlen (fun j ->
        kbind (kget nextcarry j) (fun c -> kget ms c)) nextshifts) (fun ns ->
      KOk ((nm, ms), ns)))

(** val sorting_ranges_length : z list -> z list -> z -> z list kres **)

let sorting_ranges_length tolength parents parentslength =
  kbind
    (kfor (Zpos XH) parentslength (fun i length0 ->
      kbind (kget parents (Z.sub i (Zpos XH))) (fun a ->
        kbind (kget parents i) (fun b -> KOk
          (if negb (Z.eqb a b) then Z.add length0 (Zpos XH) else length0))))
      (Zpos (XO XH))) (fun length0 -> kupd tolength Z0 length0)

(** val sorting_ranges : z list -> z -> z list -> z -> z list kres **)

let sorting_ranges toindex tolength parents parentslength =
  kbind (kupd toindex Z0 Z0) (fun out0 ->
    kbind
      (kfor (Zpos XH) parentslength (fun i st ->
        let (y, k) = st in
        let (out, j) = y in
        kbind (kget parents (Z.sub i (Zpos XH))) (fun a ->
          kbind (kget parents i) (fun b ->
            kbind
              (if negb (Z.eqb a b)
               then kbind (kupd out j k) (fun out' -> KOk (out',
                      (Z.add j (Zpos XH))))
               else KOk (out, j)) (fun st' -> KOk (((fst st'), (snd st')),
              (Z.add k (Zpos XH))))))) ((out0, (Zpos XH)), (Zpos XH)))
      (fun r ->
      let (p, _) = r in
      let (out, _) = p in kupd out (Z.sub tolength (Zpos XH)) parentslength))

(** val reduce_generic :
    ity -> z -> (z -> z -> z -> z) -> z list -> z list -> z list -> z -> z ->
    z list kres **)

let reduce_generic tO init step toptr fromptr parents lenparents outlength =
  kbind (kfill Z0 outlength (fun _ -> KOk (wrap tO init)) toptr) (fun out0 ->
    kfor Z0 lenparents (fun i out ->
      kbind (kget parents i) (fun p ->
        kbind (kget fromptr i) (fun x ->
          kbind (kget out p) (fun cur -> kupd out p (wrap tO (step i cur x))))))
      out0)

(** val reduce_count : z list -> z list -> z -> z -> z list kres **)

let reduce_count toptr parents lenparents outlength =
  kbind (kfill Z0 outlength (fun _ -> KOk Z0) toptr) (fun out0 ->
    kfor Z0 lenparents (fun i out ->
      kbind (kget parents i) (fun p ->
        kbind (kget out p) (fun cur -> kupd out p (Z.add cur (Zpos XH)))))
      out0)

(** val reduce_sum :
    ity -> z list -> z list -> z list -> z -> z -> z list kres **)

let reduce_sum tO =
  reduce_generic tO Z0 (fun _ cur x -> Z.add cur (wrap tO x))

(** val reduce_prod :
    ity -> z list -> z list -> z list -> z -> z -> z list kres **)

let reduce_prod tO =
  reduce_generic tO (Zpos XH) (fun _ cur x -> Z.mul cur (wrap tO x))

(** val reduce_countnonzero :
    z list -> z list -> z list -> z -> z -> z list kres **)

let reduce_countnonzero =
  reduce_generic i64 Z0 (fun _ cur x ->
    Z.add cur (if Z.eqb x Z0 then Z0 else Zpos XH))

(** val reduce_sum_bool :
    z list -> z list -> z list -> z -> z -> z list kres **)

let reduce_sum_bool =
  reduce_generic TB Z0 (fun _ cur x ->
    if (&&) (Z.eqb cur Z0) (Z.eqb x Z0) then Z0 else Zpos XH)

(** val reduce_prod_bool :
    z list -> z list -> z list -> z -> z -> z list kres **)

let reduce_prod_bool =
  reduce_generic TB (Zpos XH) (fun _ cur x ->
    if (||) (Z.eqb cur Z0) (Z.eqb x Z0) then Z0 else Zpos XH)

(** val reduce_min :
    ity -> z -> z list -> z list -> z list -> z -> z -> z list kres **)

let reduce_min tO identity =
  reduce_generic tO identity (fun _ cur x -> if Z.ltb x cur then x else cur)

(** val reduce_max :
    ity -> z -> z list -> z list -> z list -> z -> z -> z list kres **)

let reduce_max tO identity =
  reduce_generic tO identity (fun _ cur x -> if Z.ltb cur x then x else cur)

(** val reduce_arg :
    (z -> z -> bool) -> z list -> z list -> z list -> z -> z -> z list kres **)

let reduce_arg better toptr fromptr parents lenparents outlength =
  kbind (kfill Z0 outlength (fun _ -> KOk (Zneg XH)) toptr) (fun out0 ->
    kfor Z0 lenparents (fun i out ->
      kbind (kget parents i) (fun p ->
        kbind (kget out p) (fun cur ->
          if Z.eqb cur (Zneg XH)
          then kupd out p i
          else kbind (kget fromptr i) (fun x ->
                 kbind (kget fromptr cur) (fun y ->
                   if better x y then kupd out p i else KOk out))))) out0)

(** val reduce_argmin :
    z list -> z list -> z list -> z -> z -> z list kres **)

let reduce_argmin =
  reduce_arg Z.ltb

(** val reduce_argmax :
    z list -> z list -> z list -> z -> z -> z list kres **)

let reduce_argmax =
  reduce_arg (fun x y -> Z.ltb y x)

(** val numpyArray_fill : ity -> z list -> z -> z list -> z -> z list kres **)

let numpyArray_fill tTO toptr tooffset fromptr length0 =
  kfill tooffset length0 (fun i ->
    kbind (kget fromptr i) (fun x -> KOk (wrap tTO x))) toptr

(** val indexedArray_fill :
    ity -> z list -> z -> z list -> z -> z -> z list kres **)

let indexedArray_fill tTO toindex toindexoffset fromindex length0 base =
  kfill toindexoffset length0 (fun i ->
    kbind (kget fromindex i) (fun x -> KOk
      (if Z.ltb x Z0 then wrap tTO (Zneg XH) else wrap tTO (Z.add x base))))
    toindex

(** val unionArray_filltags :
    ity -> z list -> z -> z list -> z -> z -> z list kres **)

let unionArray_filltags tTO totags totagsoffset fromtags length0 base =
  kfill totagsoffset length0 (fun i ->
    kbind (kget fromtags i) (fun x -> KOk (wrap tTO (Z.add x base)))) totags

(** val unionArray_fillindex :
    ity -> z list -> z -> z list -> z -> z list kres **)

let unionArray_fillindex tTO toindex toindexoffset fromindex length0 =
  kfill toindexoffset length0 (fun i ->
    kbind (kget fromindex i) (fun x -> KOk (wrap tTO x))) toindex

(** val listArray_fill :
    ity -> z list -> z -> z list -> z -> z list -> z list -> z -> z -> (z
    list * z list) kres **)

let listArray_fill tTO tostarts tostartsoffset tostops tostopsoffset fromstarts fromstops length0 base =
  kfor Z0 length0 (fun i st ->
    let (ts, tp) = st in
    kbind (kget fromstarts i) (fun a ->
      kbind (kget fromstops i) (fun b ->
        kbind (kupd ts (Z.add tostartsoffset i) (wrap tTO (Z.add a base)))
          (fun ts' ->
          kbind (kupd tp (Z.add tostopsoffset i) (wrap tTO (Z.add b base)))
            (fun tp' -> KOk (ts', tp')))))) (tostarts, tostops)

(** val unique : z list -> z -> z list -> (z list * z list) kres **)

let unique toptr length0 tolength =
  kbind
    (kfor (Zpos XH) length0 (fun i st ->
      let (buf, j) = st in
      kbind (kget buf j) (fun a ->
        kbind (kget buf i) (fun b ->
          if negb (Z.eqb a b)
          then kbind (kupd buf (Z.add j (Zpos XH)) b) (fun buf' -> KOk (buf',
                 (Z.add j (Zpos XH))))
          else KOk st))) (toptr, Z0)) (fun r ->
    kbind (kupd tolength Z0 (Z.add (snd r) (Zpos XH))) (fun tl -> KOk
      ((fst r), tl)))

(** val reduce_nonlocal_outstartsstops :
    z list -> z list -> z list -> z -> z -> (z list * z list) kres **)

let reduce_nonlocal_outstartsstops outstarts outstops distincts lendistincts outlength =
  let maxcount =
    if Z.eqb outlength Z0 then Z0 else Z.div lendistincts outlength
  in
  kfor Z0 outlength (fun k st ->
    let (os, op) = st in
    let start = Z.mul k maxcount in
    kbind
      (kwhile (Z.to_nat maxcount) (fun stop ->
        (&&) (Z.ltb stop (Z.add start maxcount))
          (match kget distincts stop with
           | KOk d -> negb (Z.eqb d (Zneg XH))
           | _ -> true)) (fun stop ->
        kbind (kget distincts stop) (fun _ -> KOk (Z.add stop (Zpos XH))))
        start) (fun stop ->
      if Z.eqb stop start
      then let a = Z0 in
           let b = Z0 in
           kbind (kupd os k a) (fun os' ->
             kbind (kupd op k b) (fun op' -> KOk (os', op')))
      else kbind (kupd os k start) (fun os' ->
             kbind (kupd op k stop) (fun op' -> KOk (os', op')))))
    (outstarts, outstops)

(** val numpyArray_copy : z list -> z list -> z -> z list kres **)

let numpyArray_copy toptr fromptr len =
  kfill Z0 len (fun i -> kget fromptr i) toptr

(** val numpyArray_contiguous_copy :
    z list -> z list -> z -> z -> z list -> z list kres **)

let numpyArray_contiguous_copy toptr fromptr len stride pos =
  kfor Z0 len (fun i out ->
    kbind (kget pos i) (fun p ->
      kfor Z0 stride (fun b out0 ->
        kbind (kget fromptr (Z.add p b)) (fun x ->
          kupd out0 (Z.add (Z.mul i stride) b) x)) out)) toptr

(** val numpyArray_getitem_next_null :
    z list -> z list -> z -> z -> z list -> z list kres **)

let numpyArray_getitem_next_null toptr fromptr len stride pos =
  kfor Z0 len (fun i out ->
    kbind (kget pos i) (fun p ->
      kfor Z0 stride (fun b out0 ->
        kbind (kget fromptr (Z.add (Z.mul p stride) b)) (fun x ->
          kupd out0 (Z.add (Z.mul i stride) b) x)) out)) toptr

(** val numpyArray_fill_tocomplex :
    z list -> z -> z list -> z -> z list kres **)

let numpyArray_fill_tocomplex toptr tooffset fromptr length0 =
  kfor Z0 length0 (fun i out ->
    kbind (kget fromptr i) (fun x ->
      kbind (kupd out (Z.add tooffset (Z.mul (Zpos (XO XH)) i)) x)
        (fun out0 ->
        kupd out0 (Z.add (Z.add tooffset (Z.mul (Zpos (XO XH)) i)) (Zpos XH))
          Z0))) toptr

(** val numpyArray_fill_fromcomplex :
    ity -> z list -> z -> z list -> z -> z list kres **)

let numpyArray_fill_fromcomplex tTO toptr tooffset fromptr length0 =
  kfill tooffset length0 (fun i ->
    kbind (kget fromptr (Z.mul i (Zpos (XO XH)))) (fun x -> KOk (wrap tTO x)))
    toptr

(** val numpyArray_rearrange_shifted :
    z list -> z list -> z -> z list -> z -> z list -> z list -> z list kres **)

let numpyArray_rearrange_shifted toptr shifts length0 offsets offsetslength parents starts =
  kbind
    (kfor Z0 (Z.sub offsetslength (Zpos XH)) (fun i st ->
      kbind (kget offsets (Z.add i (Zpos XH))) (fun o3 ->
        kbind (kget offsets i) (fun o4 ->
          kfor Z0 (Z.sub o3 o4) (fun _ st0 ->
            let (out, k) = st0 in
            kbind (kget out k) (fun cur ->
              kbind (kupd out k (Z.add cur o4)) (fun out' -> KOk (out',
                (Z.add k (Zpos XH)))))) st))) (toptr, Z0)) (fun r ->
    kfor Z0 length0 (fun i out ->
      kbind (kget parents i) (fun parent ->
        kbind (kget starts parent) (fun start ->
          kbind (kget out i) (fun cur ->
            kbind (kget shifts cur) (fun sh ->
              kupd out i (Z.sub (Z.add cur sh) start)))))) (fst r))

(** val numpyArray_subrange_equal :
    z list -> z list -> z list -> z -> z list -> z list kres **)

let numpyArray_subrange_equal tmpptr fromstarts fromstops length0 toequal =
  kbind
    (kfor Z0 (Z.sub length0 (Zpos XH)) (fun i differ ->
      kbind (kget fromstarts i) (fun si ->
        kbind (kget fromstops i) (fun ei ->
          let leftlen = Z.sub ei si in
          kfor (Z.add i (Zpos XH)) (Z.sub length0 (Zpos XH))
            (fun ii differ0 ->
            kbind (kget fromstarts ii) (fun sii ->
              kbind (kget fromstops ii) (fun eii ->
                let rightlen = Z.sub eii sii in
                if Z.eqb leftlen rightlen
                then kmap fst
                       (kwhile (Z.to_nat leftlen) (fun s ->
                         (&&) (negb (fst s)) (Z.ltb (snd s) leftlen))
                         (fun s ->
                         let j = snd s in
                         kbind (kget tmpptr (Z.add si j)) (fun a ->
                           kbind (kget tmpptr (Z.add sii j)) (fun b -> KOk
                             ((negb (Z.eqb a b)), (Z.add j (Zpos XH))))))
                         (false, Z0))
                else KOk differ0))) differ))) true) (fun differ ->
    kupd toequal Z0 (if differ then Z0 else Zpos XH))

(** val reduce_sum_complex :
    z list -> z list -> z list -> z -> z -> z list kres **)

let reduce_sum_complex toptr fromptr parents lenparents outlength =
  kbind
    (kfor Z0 outlength (fun i out ->
      kbind (kupd out (Z.mul i (Zpos (XO XH))) Z0) (fun out0 ->
        kupd out0 (Z.add (Z.mul i (Zpos (XO XH))) (Zpos XH)) Z0)) toptr)
    (fun out0 ->
    kfor Z0 lenparents (fun i out ->
      kbind (kget parents i) (fun p ->
        kbind (kget fromptr (Z.mul i (Zpos (XO XH)))) (fun re ->
          kbind (kget fromptr (Z.add (Z.mul i (Zpos (XO XH))) (Zpos XH)))
            (fun im ->
            kbind (kget out (Z.mul p (Zpos (XO XH)))) (fun a ->
              kbind (kupd out (Z.mul p (Zpos (XO XH))) (Z.add a re))
                (fun out1 ->
                kbind (kget out1 (Z.add (Z.mul p (Zpos (XO XH))) (Zpos XH)))
                  (fun b ->
                  kupd out1 (Z.add (Z.mul p (Zpos (XO XH))) (Zpos XH))
                    (Z.add b im)))))))) out0)

(** val reduce_prod_complex :
    z list -> z list -> z list -> z -> z -> z list kres **)

let reduce_prod_complex toptr fromptr parents lenparents outlength =
  kbind
    (kfor Z0 outlength (fun i out ->
      kbind (kupd out (Z.mul i (Zpos (XO XH))) (Zpos XH)) (fun out0 ->
        kupd out0 (Z.add (Z.mul i (Zpos (XO XH))) (Zpos XH)) Z0)) toptr)
    (fun out0 ->
    kfor Z0 lenparents (fun i out ->
      kbind (kget parents i) (fun p ->
        kbind (kget fromptr (Z.mul i (Zpos (XO XH)))) (fun re ->
          kbind (kget fromptr (Z.add (Z.mul i (Zpos (XO XH))) (Zpos XH)))
            (fun im ->
            kbind (kget out (Z.mul p (Zpos (XO XH)))) (fun a ->
              kbind (kget out (Z.add (Z.mul p (Zpos (XO XH))) (Zpos XH)))
                (fun b ->
                kbind
                  (kupd out (Z.mul p (Zpos (XO XH)))
                    (Z.sub (Z.mul a re) (Z.mul b im))) (fun out1 ->
                  kupd out1 (Z.add (Z.mul p (Zpos (XO XH))) (Zpos XH))
                    (Z.add (Z.mul a im) (Z.mul b re))))))))) out0)

(** val reduce_minmax_complex :
    bool -> z -> z list -> z list -> z list -> z -> z -> z list kres **)

let reduce_minmax_complex lt identity toptr fromptr parents lenparents outlength =
  let better = fun x y a b ->
    if lt
    then (||) (Z.ltb x a) ((&&) (Z.eqb x a) (Z.ltb y b))
    else (||) (Z.ltb a x) ((&&) (Z.eqb x a) (Z.ltb b y))
  in
  kbind
    (kfor Z0 outlength (fun i out ->
      kbind (kupd out (Z.mul i (Zpos (XO XH))) identity) (fun out0 ->
        kupd out0 (Z.add (Z.mul i (Zpos (XO XH))) (Zpos XH)) Z0)) toptr)
    (fun out0 ->
    kfor Z0 lenparents (fun i out ->
      kbind (kget parents i) (fun p ->
        kbind (kget fromptr (Z.mul i (Zpos (XO XH)))) (fun x ->
          kbind (kget fromptr (Z.add (Z.mul i (Zpos (XO XH))) (Zpos XH)))
            (fun y ->
            kbind (kget out (Z.mul p (Zpos (XO XH)))) (fun a ->
              kbind (kget out (Z.add (Z.mul p (Zpos (XO XH))) (Zpos XH)))
                (fun b ->
                if better x y a b
                then kbind (kupd out (Z.mul p (Zpos (XO XH))) x) (fun out1 ->
                       kupd out1 (Z.add (Z.mul p (Zpos (XO XH))) (Zpos XH)) y)
                else KOk out)))))) out0)

(** val reduce_arg_complex :
    bool -> z list -> z list -> z list -> z -> z -> z list kres **)

let reduce_arg_complex lt toptr fromptr parents lenparents outlength =
  kbind (kfill Z0 outlength (fun _ -> KOk (Zneg XH)) toptr) (fun out0 ->
    kfor Z0 lenparents (fun i out ->
      kbind (kget parents i) (fun p ->
        kbind (kget out p) (fun cur ->
          if Z.eqb cur (Zneg XH)
          then kupd out p i
          else kbind (kget fromptr (Z.mul i (Zpos (XO XH)))) (fun x ->
                 kbind (kget fromptr (Z.mul cur (Zpos (XO XH)))) (fun a ->
                   if if lt then Z.ltb x a else Z.ltb a x
                   then kupd out p i
                   else if Z.eqb x a
                        then kbind
                               (kget fromptr
                                 (Z.add (Z.mul i (Zpos (XO XH))) (Zpos XH)))
                               (fun y ->
                               kbind
                                 (kget fromptr
                                   (Z.add (Z.mul cur (Zpos (XO XH))) (Zpos
                                     XH))) (fun b ->
                                 if if lt then Z.ltb y b else Z.ltb b y
                                 then kupd out p i
                                 else KOk out))
                        else KOk out))))) out0)

(** val reduce_bool_complex :
    ity -> z -> (z -> bool -> z) -> z list -> z list -> z list -> z -> z -> z
    list kres **)

let reduce_bool_complex tO init step toptr fromptr parents lenparents outlength =
  kbind (kfill Z0 outlength (fun _ -> KOk (wrap tO init)) toptr) (fun out0 ->
    kfor Z0 lenparents (fun i out ->
      kbind (kget parents i) (fun p ->
        kbind (kget fromptr (Z.mul i (Zpos (XO XH)))) (fun re ->
          kbind (kget fromptr (Z.add (Z.mul i (Zpos (XO XH))) (Zpos XH)))
            (fun im ->
            kbind (kget out p) (fun cur ->
              kupd out p
                (wrap tO
                  (step cur ((||) (negb (Z.eqb re Z0)) (negb (Z.eqb im Z0))))))))))
      out0)

(** val reduce_countnonzero_complex :
    z list -> z list -> z list -> z -> z -> z list kres **)

let reduce_countnonzero_complex =
  reduce_bool_complex i64 Z0 (fun cur nz ->
    Z.add cur (if nz then Zpos XH else Z0))

(** val reduce_sum_bool_complex :
    z list -> z list -> z list -> z -> z -> z list kres **)

let reduce_sum_bool_complex =
  reduce_bool_complex TB Z0 (fun cur nz ->
    if (&&) (Z.eqb cur Z0) (negb nz) then Z0 else Zpos XH)

(** val reduce_prod_bool_complex :
    z list -> z list -> z list -> z -> z -> z list kres **)

let reduce_prod_bool_complex =
  reduce_bool_complex TB (Zpos XH) (fun cur nz ->
    if (||) (Z.eqb cur Z0) (negb nz) then Z0 else Zpos XH)

(** val content_reduce_zeroparents : z list -> z -> z list kres **)

let content_reduce_zeroparents toparents length0 =
  kfill Z0 length0 (fun _ -> KOk Z0) toparents

type val0 =
| VI of z
| VL of z list
| VLL of z list list

type kname =
| K_ListArray_num
| K_RegularArray_num
| K_ListOffsetArray_flatten_offsets
| K_ListArray_compact_offsets
| K_ListOffsetArray_compact_offsets
| K_RegularArray_compact_offsets
| K_ListArray_broadcast_tooffsets
| K_RegularArray_broadcast_tooffsets
| K_RegularArray_broadcast_tooffsets_size1
| K_ListArray_validity
| K_IndexedArray_validity
| K_UnionArray_validity
| K_regularize_arrayslice
| K_ListArray_getitem_next_at
| K_ListArray_getitem_next_range
| K_ListArray_getitem_next_range_carrylength
| K_ListArray_getitem_next_range_counts
| K_ListArray_getitem_next_range_spreadadvanced
| K_ListArray_getitem_next_array
| K_ListArray_getitem_next_array_advanced
| K_ListArray_getitem_carry
| K_RegularArray_getitem_next_at
| K_RegularArray_getitem_next_range
| K_RegularArray_getitem_next_range_spreadadvanced
| K_RegularArray_getitem_next_array
| K_RegularArray_getitem_next_array_advanced
| K_RegularArray_getitem_next_array_regularize
| K_RegularArray_getitem_carry
| K_IndexedArray_getitem_nextcarry
| K_IndexedArray_getitem_nextcarry_outindex
| K_IndexedArray_flatten_nextcarry
| K_IndexedArray_flatten_none2empty
| K_IndexedArray_numnull
| K_ByteMaskedArray_getitem_nextcarry
| K_ByteMaskedArray_getitem_nextcarry_outindex
| K_ByteMaskedArray_toIndexedOptionArray
| K_BitMaskedArray_to_ByteMaskedArray
| K_BitMaskedArray_to_IndexedOptionArray
| K_UnionArray_fillna
| K_IndexedArray_local_preparenext
| K_ListArray_localindex
| K_localindex
| K_RegularArray_localindex
| K_ListArray_min_range
| K_ListArray_rpad_and_clip_length_axis1
| K_ListArray_rpad_axis1
| K_ListOffsetArray_rpad_length_axis1
| K_ListOffsetArray_rpad_axis1
| K_ListOffsetArray_rpad_and_clip_axis1
| K_RegularArray_rpad_and_clip_axis1
| K_index_rpad_and_clip_axis0
| K_index_rpad_and_clip_axis1
| K_ListArray_combinations_length
| K_ListArray_combinations
| K_RegularArray_combinations
| K_reduce_local_nextparents
| K_reduce_local_outoffsets
| K_reduce_nonlocal_maxcount_offsetscopy
| K_reduce_nonlocal_preparenext
| K_reduce_nonlocal_nextstarts
| K_reduce_nonlocal_findgaps
| K_reduce_nonlocal_nextshifts
| K_sorting_ranges
| K_sorting_ranges_length
| K_reduce_count
| K_reduce_sum
| K_reduce_prod
| K_reduce_countnonzero
| K_reduce_sum_bool
| K_reduce_prod_bool
| K_reduce_min
| K_reduce_max
| K_reduce_argmin
| K_reduce_argmax
| K_NumpyArray_fill
| K_IndexedArray_fill
| K_UnionArray_filltags
| K_UnionArray_fillindex
| K_ListArray_fill
| K_unique
| K_reduce_nonlocal_outstartsstops
| K_NumpyArray_copy
| K_NumpyArray_contiguous_copy
| K_NumpyArray_getitem_next_null
| K_NumpyArray_fill_tocomplex
| K_NumpyArray_fill_fromcomplex
| K_NumpyArray_rearrange_shifted
| K_NumpyArray_subrange_equal
| K_reduce_sum_complex
| K_reduce_prod_complex
| K_reduce_min_complex
| K_reduce_max_complex
| K_reduce_argmin_complex
| K_reduce_argmax_complex
| K_reduce_countnonzero_complex
| K_reduce_sum_bool_complex
| K_reduce_prod_bool_complex
| K_content_reduce_zeroparents

(** val ty : ity list -> nat -> ity **)

let ty ts k =
  nth k ts TIdeal

(** val vb : z -> bool **)

let vb z0 =
  negb (Z.eqb z0 Z0)

(** val o1 : z list kres -> val0 list kres **)

let o1 r =
  kmap (fun a -> (VL a) :: []) r

(** val o2 : (z list * z list) kres -> val0 list kres **)

let o2 r =
  kmap (fun p -> (VL (fst p)) :: ((VL (snd p)) :: [])) r

(** val o0 : unit kres -> val0 list kres **)

let o0 r =
  kmap (fun _ -> []) r

(** val run : kname -> ity list -> val0 list -> val0 list kres **)

let run k ts a =
  match k with
  | K_ListArray_num ->
    (match a with
     | [] -> KErr MBadArgs
     | v :: l ->
       (match v with
        | VL x ->
          (match l with
           | [] -> KErr MBadArgs
           | v0 :: l0 ->
             (match v0 with
              | VL s ->
                (match l0 with
                 | [] -> KErr MBadArgs
                 | v1 :: l1 ->
                   (match v1 with
                    | VL e ->
                      (match l1 with
                       | [] -> KErr MBadArgs
                       | v2 :: l2 ->
                         (match v2 with
                          | VI n ->
                            (match l2 with
                             | [] ->
                               o1
                                 (listArray_num (ty ts O) (ty ts (S O)) x s e
                                   n)
                             | _ :: _ -> KErr MBadArgs)
                          | _ -> KErr MBadArgs))
                    | _ -> KErr MBadArgs))
              | _ -> KErr MBadArgs))
        | _ -> KErr MBadArgs))
  | K_RegularArray_num ->
    (match a with
     | [] -> KErr MBadArgs
     | v :: l ->
       (match v with
        | VL x ->
          (match l with
           | [] -> KErr MBadArgs
           | v0 :: l0 ->
             (match v0 with
              | VI size ->
                (match l0 with
                 | [] -> KErr MBadArgs
                 | v1 :: l1 ->
                   (match v1 with
                    | VI n ->
                      (match l1 with
                       | [] -> o1 (regularArray_num (ty ts O) x size n)
                       | _ :: _ -> KErr MBadArgs)
                    | _ -> KErr MBadArgs))
              | _ -> KErr MBadArgs))
        | _ -> KErr MBadArgs))
  | K_ListOffsetArray_flatten_offsets ->
    (match a with
     | [] -> KErr MBadArgs
     | v :: l ->
       (match v with
        | VL x ->
          (match l with
           | [] -> KErr MBadArgs
           | v0 :: l0 ->
             (match v0 with
              | VL outer ->
                (match l0 with
                 | [] -> KErr MBadArgs
                 | v1 :: l1 ->
                   (match v1 with
                    | VI ol ->
                      (match l1 with
                       | [] -> KErr MBadArgs
                       | v2 :: l2 ->
                         (match v2 with
                          | VL inner ->
                            (match l2 with
                             | [] -> KErr MBadArgs
                             | v3 :: l3 ->
                               (match v3 with
                                | VI _ ->
                                  (match l3 with
                                   | [] ->
                                     o1
                                       (listOffsetArray_flatten_offsets
                                         (ty ts O) x outer ol inner)
                                   | _ :: _ -> KErr MBadArgs)
                                | _ -> KErr MBadArgs))
                          | _ -> KErr MBadArgs))
                    | _ -> KErr MBadArgs))
              | _ -> KErr MBadArgs))
        | _ -> KErr MBadArgs))
  | K_ListArray_compact_offsets ->
    (match a with
     | [] -> KErr MBadArgs
     | v :: l ->
       (match v with
        | VL x ->
          (match l with
           | [] -> KErr MBadArgs
           | v0 :: l0 ->
             (match v0 with
              | VL s ->
                (match l0 with
                 | [] -> KErr MBadArgs
                 | v1 :: l1 ->
                   (match v1 with
                    | VL e ->
                      (match l1 with
                       | [] -> KErr MBadArgs
                       | v2 :: l2 ->
                         (match v2 with
                          | VI n ->
                            (match l2 with
                             | [] ->
                               o1
                                 (listArray_compact_offsets (ty ts O)
                                   (ty ts (S O)) x s e n)
                             | _ :: _ -> KErr MBadArgs)
                          | _ -> KErr MBadArgs))
                    | _ -> KErr MBadArgs))
              | _ -> KErr MBadArgs))
        | _ -> KErr MBadArgs))
  | K_ListOffsetArray_compact_offsets ->
    (match a with
     | [] -> KErr MBadArgs
     | v :: l ->
       (match v with
        | VL x ->
          (match l with
           | [] -> KErr MBadArgs
           | v0 :: l0 ->
             (match v0 with
              | VL f ->
                (match l0 with
                 | [] -> KErr MBadArgs
                 | v1 :: l1 ->
                   (match v1 with
                    | VI n ->
                      (match l1 with
                       | [] ->
                         o1 (listOffsetArray_compact_offsets (ty ts O) x f n)
                       | _ :: _ -> KErr MBadArgs)
                    | _ -> KErr MBadArgs))
              | _ -> KErr MBadArgs))
        | _ -> KErr MBadArgs))
  | K_RegularArray_compact_offsets ->
    (match a with
     | [] -> KErr MBadArgs
     | v :: l ->
       (match v with
        | VL x ->
          (match l with
           | [] -> KErr MBadArgs
           | v0 :: l0 ->
             (match v0 with
              | VI n ->
                (match l0 with
                 | [] -> KErr MBadArgs
                 | v1 :: l1 ->
                   (match v1 with
                    | VI size ->
                      (match l1 with
                       | [] ->
                         o1 (regularArray_compact_offsets (ty ts O) x n size)
                       | _ :: _ -> KErr MBadArgs)
                    | _ -> KErr MBadArgs))
              | _ -> KErr MBadArgs))
        | _ -> KErr MBadArgs))
  | K_ListArray_broadcast_tooffsets ->
    (match a with
     | [] -> KErr MBadArgs
     | v :: l ->
       (match v with
        | VL x ->
          (match l with
           | [] -> KErr MBadArgs
           | v0 :: l0 ->
             (match v0 with
              | VL f ->
                (match l0 with
                 | [] -> KErr MBadArgs
                 | v1 :: l1 ->
                   (match v1 with
                    | VI ol ->
                      (match l1 with
                       | [] -> KErr MBadArgs
                       | v2 :: l2 ->
                         (match v2 with
                          | VL s ->
                            (match l2 with
                             | [] -> KErr MBadArgs
                             | v3 :: l3 ->
                               (match v3 with
                                | VL e ->
                                  (match l3 with
                                   | [] -> KErr MBadArgs
                                   | v4 :: l4 ->
                                     (match v4 with
                                      | VI lc ->
                                        (match l4 with
                                         | [] ->
                                           o1
                                             (listArray_broadcast_tooffsets
                                               (ty ts O) x f ol s e lc)
                                         | _ :: _ -> KErr MBadArgs)
                                      | _ -> KErr MBadArgs))
                                | _ -> KErr MBadArgs))
                          | _ -> KErr MBadArgs))
                    | _ -> KErr MBadArgs))
              | _ -> KErr MBadArgs))
        | _ -> KErr MBadArgs))
  | K_RegularArray_broadcast_tooffsets ->
    (match a with
     | [] -> KErr MBadArgs
     | v :: l ->
       (match v with
        | VL f ->
          (match l with
           | [] -> KErr MBadArgs
           | v0 :: l0 ->
             (match v0 with
              | VI ol ->
                (match l0 with
                 | [] -> KErr MBadArgs
                 | v1 :: l1 ->
                   (match v1 with
                    | VI size ->
                      (match l1 with
                       | [] ->
                         o0
                           (regularArray_broadcast_tooffsets (ty ts O) f ol
                             size)
                       | _ :: _ -> KErr MBadArgs)
                    | _ -> KErr MBadArgs))
              | _ -> KErr MBadArgs))
        | _ -> KErr MBadArgs))
  | K_RegularArray_broadcast_tooffsets_size1 ->
    (match a with
     | [] -> KErr MBadArgs
     | v :: l ->
       (match v with
        | VL x ->
          (match l with
           | [] -> KErr MBadArgs
           | v0 :: l0 ->
             (match v0 with
              | VL f ->
                (match l0 with
                 | [] -> KErr MBadArgs
                 | v1 :: l1 ->
                   (match v1 with
                    | VI ol ->
                      (match l1 with
                       | [] ->
                         o1
                           (regularArray_broadcast_tooffsets_size1 (ty ts O)
                             x f ol)
                       | _ :: _ -> KErr MBadArgs)
                    | _ -> KErr MBadArgs))
              | _ -> KErr MBadArgs))
        | _ -> KErr MBadArgs))
  | K_ListArray_validity ->
    (match a with
     | [] -> KErr MBadArgs
     | v :: l ->
       (match v with
        | VL s ->
          (match l with
           | [] -> KErr MBadArgs
           | v0 :: l0 ->
             (match v0 with
              | VL e ->
                (match l0 with
                 | [] -> KErr MBadArgs
                 | v1 :: l1 ->
                   (match v1 with
                    | VI n ->
                      (match l1 with
                       | [] -> KErr MBadArgs
                       | v2 :: l2 ->
                         (match v2 with
                          | VI lc ->
                            (match l2 with
                             | [] -> o0 (listArray_validity s e n lc)
                             | _ :: _ -> KErr MBadArgs)
                          | _ -> KErr MBadArgs))
                    | _ -> KErr MBadArgs))
              | _ -> KErr MBadArgs))
        | _ -> KErr MBadArgs))
  | K_IndexedArray_validity ->
    (match a with
     | [] -> KErr MBadArgs
     | v :: l ->
       (match v with
        | VL ix ->
          (match l with
           | [] -> KErr MBadArgs
           | v0 :: l0 ->
             (match v0 with
              | VI n ->
                (match l0 with
                 | [] -> KErr MBadArgs
                 | v1 :: l1 ->
                   (match v1 with
                    | VI lc ->
                      (match l1 with
                       | [] -> KErr MBadArgs
                       | v2 :: l2 ->
                         (match v2 with
                          | VI opt ->
                            (match l2 with
                             | [] ->
                               o0 (indexedArray_validity ix n lc (vb opt))
                             | _ :: _ -> KErr MBadArgs)
                          | _ -> KErr MBadArgs))
                    | _ -> KErr MBadArgs))
              | _ -> KErr MBadArgs))
        | _ -> KErr MBadArgs))
  | K_UnionArray_validity ->
    (match a with
     | [] -> KErr MBadArgs
     | v :: l ->
       (match v with
        | VL tg ->
          (match l with
           | [] -> KErr MBadArgs
           | v0 :: l0 ->
             (match v0 with
              | VL ix ->
                (match l0 with
                 | [] -> KErr MBadArgs
                 | v1 :: l1 ->
                   (match v1 with
                    | VI n ->
                      (match l1 with
                       | [] -> KErr MBadArgs
                       | v2 :: l2 ->
                         (match v2 with
                          | VI nc ->
                            (match l2 with
                             | [] -> KErr MBadArgs
                             | v3 :: l3 ->
                               (match v3 with
                                | VL lens ->
                                  (match l3 with
                                   | [] ->
                                     o0 (unionArray_validity tg ix n nc lens)
                                   | _ :: _ -> KErr MBadArgs)
                                | _ -> KErr MBadArgs))
                          | _ -> KErr MBadArgs))
                    | _ -> KErr MBadArgs))
              | _ -> KErr MBadArgs))
        | _ -> KErr MBadArgs))
  | K_regularize_arrayslice ->
    (match a with
     | [] -> KErr MBadArgs
     | v :: l ->
       (match v with
        | VL f ->
          (match l with
           | [] -> KErr MBadArgs
           | v0 :: l0 ->
             (match v0 with
              | VI lf ->
                (match l0 with
                 | [] -> KErr MBadArgs
                 | v1 :: l1 ->
                   (match v1 with
                    | VI n ->
                      (match l1 with
                       | [] -> o1 (regularize_arrayslice (ty ts O) f lf n)
                       | _ :: _ -> KErr MBadArgs)
                    | _ -> KErr MBadArgs))
              | _ -> KErr MBadArgs))
        | _ -> KErr MBadArgs))
  | K_ListArray_getitem_next_at ->
    (match a with
     | [] -> KErr MBadArgs
     | v :: l ->
       (match v with
        | VL x ->
          (match l with
           | [] -> KErr MBadArgs
           | v0 :: l0 ->
             (match v0 with
              | VL s ->
                (match l0 with
                 | [] -> KErr MBadArgs
                 | v1 :: l1 ->
                   (match v1 with
                    | VL e ->
                      (match l1 with
                       | [] -> KErr MBadArgs
                       | v2 :: l2 ->
                         (match v2 with
                          | VI n ->
                            (match l2 with
                             | [] -> KErr MBadArgs
                             | v3 :: l3 ->
                               (match v3 with
                                | VI at_ ->
                                  (match l3 with
                                   | [] ->
                                     o1
                                       (listArray_getitem_next_at (ty ts O)
                                         (ty ts (S O)) x s e n at_)
                                   | _ :: _ -> KErr MBadArgs)
                                | _ -> KErr MBadArgs))
                          | _ -> KErr MBadArgs))
                    | _ -> KErr MBadArgs))
              | _ -> KErr MBadArgs))
        | _ -> KErr MBadArgs))
  | K_ListArray_getitem_next_range ->
    (match a with
     | [] -> KErr MBadArgs
     | v :: l ->
       (match v with
        | VL off ->
          (match l with
           | [] -> KErr MBadArgs
           | v0 :: l0 ->
             (match v0 with
              | VL c ->
                (match l0 with
                 | [] -> KErr MBadArgs
                 | v1 :: l1 ->
                   (match v1 with
                    | VL s ->
                      (match l1 with
                       | [] -> KErr MBadArgs
                       | v2 :: l2 ->
                         (match v2 with
                          | VL e ->
                            (match l2 with
                             | [] -> KErr MBadArgs
                             | v3 :: l3 ->
                               (match v3 with
                                | VI n ->
                                  (match l3 with
                                   | [] -> KErr MBadArgs
                                   | v4 :: l4 ->
                                     (match v4 with
                                      | VI start ->
                                        (match l4 with
                                         | [] -> KErr MBadArgs
                                         | v5 :: l5 ->
                                           (match v5 with
                                            | VI stop ->
                                              (match l5 with
                                               | [] -> KErr MBadArgs
                                               | v6 :: l6 ->
                                                 (match v6 with
                                                  | VI step ->
                                                    (match l6 with
                                                     | [] ->
                                                       o2
                                                         (listArray_getitem_next_range
                                                           (ty ts O)
                                                           (ty ts (S O)) off
                                                           c s e n start stop
                                                           step)
                                                     | _ :: _ -> KErr MBadArgs)
                                                  | _ -> KErr MBadArgs))
                                            | _ -> KErr MBadArgs))
                                      | _ -> KErr MBadArgs))
                                | _ -> KErr MBadArgs))
                          | _ -> KErr MBadArgs))
                    | _ -> KErr MBadArgs))
              | _ -> KErr MBadArgs))
        | _ -> KErr MBadArgs))
  | K_ListArray_getitem_next_range_carrylength ->
    (match a with
     | [] -> KErr MBadArgs
     | v :: l ->
       (match v with
        | VL c ->
          (match l with
           | [] -> KErr MBadArgs
           | v0 :: l0 ->
             (match v0 with
              | VL s ->
                (match l0 with
                 | [] -> KErr MBadArgs
                 | v1 :: l1 ->
                   (match v1 with
                    | VL e ->
                      (match l1 with
                       | [] -> KErr MBadArgs
                       | v2 :: l2 ->
                         (match v2 with
                          | VI n ->
                            (match l2 with
                             | [] -> KErr MBadArgs
                             | v3 :: l3 ->
                               (match v3 with
                                | VI start ->
                                  (match l3 with
                                   | [] -> KErr MBadArgs
                                   | v4 :: l4 ->
                                     (match v4 with
                                      | VI stop ->
                                        (match l4 with
                                         | [] -> KErr MBadArgs
                                         | v5 :: l5 ->
                                           (match v5 with
                                            | VI step ->
                                              (match l5 with
                                               | [] ->
                                                 o1
                                                   (listArray_getitem_next_range_carrylength
                                                     (ty ts (S O)) c s e n
                                                     start stop step)
                                               | _ :: _ -> KErr MBadArgs)
                                            | _ -> KErr MBadArgs))
                                      | _ -> KErr MBadArgs))
                                | _ -> KErr MBadArgs))
                          | _ -> KErr MBadArgs))
                    | _ -> KErr MBadArgs))
              | _ -> KErr MBadArgs))
        | _ -> KErr MBadArgs))
  | K_ListArray_getitem_next_range_counts ->
    (match a with
     | [] -> KErr MBadArgs
     | v :: l ->
       (match v with
        | VL t ->
          (match l with
           | [] -> KErr MBadArgs
           | v0 :: l0 ->
             (match v0 with
              | VL f ->
                (match l0 with
                 | [] -> KErr MBadArgs
                 | v1 :: l1 ->
                   (match v1 with
                    | VI n ->
                      (match l1 with
                       | [] ->
                         o1
                           (listArray_getitem_next_range_counts (ty ts (S O))
                             t f n)
                       | _ :: _ -> KErr MBadArgs)
                    | _ -> KErr MBadArgs))
              | _ -> KErr MBadArgs))
        | _ -> KErr MBadArgs))
  | K_ListArray_getitem_next_range_spreadadvanced ->
    (match a with
     | [] -> KErr MBadArgs
     | v :: l ->
       (match v with
        | VL x ->
          (match l with
           | [] -> KErr MBadArgs
           | v0 :: l0 ->
             (match v0 with
              | VL fa ->
                (match l0 with
                 | [] -> KErr MBadArgs
                 | v1 :: l1 ->
                   (match v1 with
                    | VL fo ->
                      (match l1 with
                       | [] -> KErr MBadArgs
                       | v2 :: l2 ->
                         (match v2 with
                          | VI n ->
                            (match l2 with
                             | [] ->
                               o1
                                 (listArray_getitem_next_range_spreadadvanced
                                   (ty ts (S (S O))) x fa fo n)
                             | _ :: _ -> KErr MBadArgs)
                          | _ -> KErr MBadArgs))
                    | _ -> KErr MBadArgs))
              | _ -> KErr MBadArgs))
        | _ -> KErr MBadArgs))
  | K_ListArray_getitem_next_array ->
    (match a with
     | [] -> KErr MBadArgs
     | v :: l ->
       (match v with
        | VL c ->
          (match l with
           | [] -> KErr MBadArgs
           | v0 :: l0 ->
             (match v0 with
              | VL ad ->
                (match l0 with
                 | [] -> KErr MBadArgs
                 | v1 :: l1 ->
                   (match v1 with
                    | VL s ->
                      (match l1 with
                       | [] -> KErr MBadArgs
                       | v2 :: l2 ->
                         (match v2 with
                          | VL e ->
                            (match l2 with
                             | [] -> KErr MBadArgs
                             | v3 :: l3 ->
                               (match v3 with
                                | VL arr ->
                                  (match l3 with
                                   | [] -> KErr MBadArgs
                                   | v4 :: l4 ->
                                     (match v4 with
                                      | VI n ->
                                        (match l4 with
                                         | [] -> KErr MBadArgs
                                         | v5 :: l5 ->
                                           (match v5 with
                                            | VI la ->
                                              (match l5 with
                                               | [] -> KErr MBadArgs
                                               | v6 :: l6 ->
                                                 (match v6 with
                                                  | VI lc ->
                                                    (match l6 with
                                                     | [] ->
                                                       o2
                                                         (listArray_getitem_next_array
                                                           c ad s e arr n la
                                                           lc)
                                                     | _ :: _ -> KErr MBadArgs)
                                                  | _ -> KErr MBadArgs))
                                            | _ -> KErr MBadArgs))
                                      | _ -> KErr MBadArgs))
                                | _ -> KErr MBadArgs))
                          | _ -> KErr MBadArgs))
                    | _ -> KErr MBadArgs))
              | _ -> KErr MBadArgs))
        | _ -> KErr MBadArgs))
  | K_ListArray_getitem_next_array_advanced ->
    (match a with
     | [] -> KErr MBadArgs
     | v :: l ->
       (match v with
        | VL c ->
          (match l with
           | [] -> KErr MBadArgs
           | v0 :: l0 ->
             (match v0 with
              | VL ad ->
                (match l0 with
                 | [] -> KErr MBadArgs
                 | v1 :: l1 ->
                   (match v1 with
                    | VL s ->
                      (match l1 with
                       | [] -> KErr MBadArgs
                       | v2 :: l2 ->
                         (match v2 with
                          | VL e ->
                            (match l2 with
                             | [] -> KErr MBadArgs
                             | v3 :: l3 ->
                               (match v3 with
                                | VL arr ->
                                  (match l3 with
                                   | [] -> KErr MBadArgs
                                   | v4 :: l4 ->
                                     (match v4 with
                                      | VL fadv ->
                                        (match l4 with
                                         | [] -> KErr MBadArgs
                                         | v5 :: l5 ->
                                           (match v5 with
                                            | VI n ->
                                              (match l5 with
                                               | [] -> KErr MBadArgs
                                               | v6 :: l6 ->
                                                 (match v6 with
                                                  | VI la ->
                                                    (match l6 with
                                                     | [] -> KErr MBadArgs
                                                     | v7 :: l7 ->
                                                       (match v7 with
                                                        | VI lc ->
                                                          (match l7 with
                                                           | [] ->
                                                             o2
                                                               (listArray_getitem_next_array_advanced
                                                                 c ad s e arr
                                                                 fadv n la lc)
                                                           | _ :: _ ->
                                                             KErr MBadArgs)
                                                        | _ -> KErr MBadArgs))
                                                  | _ -> KErr MBadArgs))
                                            | _ -> KErr MBadArgs))
                                      | _ -> KErr MBadArgs))
                                | _ -> KErr MBadArgs))
                          | _ -> KErr MBadArgs))
                    | _ -> KErr MBadArgs))
              | _ -> KErr MBadArgs))
        | _ -> KErr MBadArgs))
  | K_ListArray_getitem_carry ->
    (match a with
     | [] -> KErr MBadArgs
     | v :: l ->
       (match v with
        | VL ts_ ->
          (match l with
           | [] -> KErr MBadArgs
           | v0 :: l0 ->
             (match v0 with
              | VL tp ->
                (match l0 with
                 | [] -> KErr MBadArgs
                 | v1 :: l1 ->
                   (match v1 with
                    | VL s ->
                      (match l1 with
                       | [] -> KErr MBadArgs
                       | v2 :: l2 ->
                         (match v2 with
                          | VL e ->
                            (match l2 with
                             | [] -> KErr MBadArgs
                             | v3 :: l3 ->
                               (match v3 with
                                | VL c ->
                                  (match l3 with
                                   | [] -> KErr MBadArgs
                                   | v4 :: l4 ->
                                     (match v4 with
                                      | VI ls ->
                                        (match l4 with
                                         | [] -> KErr MBadArgs
                                         | v5 :: l5 ->
                                           (match v5 with
                                            | VI lc ->
                                              (match l5 with
                                               | [] ->
                                                 o2
                                                   (listArray_getitem_carry
                                                     (ty ts O) ts_ tp s e c
                                                     ls lc)
                                               | _ :: _ -> KErr MBadArgs)
                                            | _ -> KErr MBadArgs))
                                      | _ -> KErr MBadArgs))
                                | _ -> KErr MBadArgs))
                          | _ -> KErr MBadArgs))
                    | _ -> KErr MBadArgs))
              | _ -> KErr MBadArgs))
        | _ -> KErr MBadArgs))
  | K_RegularArray_getitem_next_at ->
    (match a with
     | [] -> KErr MBadArgs
     | v :: l ->
       (match v with
        | VL c ->
          (match l with
           | [] -> KErr MBadArgs
           | v0 :: l0 ->
             (match v0 with
              | VI at_ ->
                (match l0 with
                 | [] -> KErr MBadArgs
                 | v1 :: l1 ->
                   (match v1 with
                    | VI n ->
                      (match l1 with
                       | [] -> KErr MBadArgs
                       | v2 :: l2 ->
                         (match v2 with
                          | VI size ->
                            (match l2 with
                             | [] ->
                               o1 (regularArray_getitem_next_at c at_ n size)
                             | _ :: _ -> KErr MBadArgs)
                          | _ -> KErr MBadArgs))
                    | _ -> KErr MBadArgs))
              | _ -> KErr MBadArgs))
        | _ -> KErr MBadArgs))
  | K_RegularArray_getitem_next_range ->
    (match a with
     | [] -> KErr MBadArgs
     | v :: l ->
       (match v with
        | VL c ->
          (match l with
           | [] -> KErr MBadArgs
           | v0 :: l0 ->
             (match v0 with
              | VI rs ->
                (match l0 with
                 | [] -> KErr MBadArgs
                 | v1 :: l1 ->
                   (match v1 with
                    | VI step ->
                      (match l1 with
                       | [] -> KErr MBadArgs
                       | v2 :: l2 ->
                         (match v2 with
                          | VI n ->
                            (match l2 with
                             | [] -> KErr MBadArgs
                             | v3 :: l3 ->
                               (match v3 with
                                | VI size ->
                                  (match l3 with
                                   | [] -> KErr MBadArgs
                                   | v4 :: l4 ->
                                     (match v4 with
                                      | VI ns ->
                                        (match l4 with
                                         | [] ->
                                           o1
                                             (regularArray_getitem_next_range
                                               c rs step n size ns)
                                         | _ :: _ -> KErr MBadArgs)
                                      | _ -> KErr MBadArgs))
                                | _ -> KErr MBadArgs))
                          | _ -> KErr MBadArgs))
                    | _ -> KErr MBadArgs))
              | _ -> KErr MBadArgs))
        | _ -> KErr MBadArgs))
  | K_RegularArray_getitem_next_range_spreadadvanced ->
    (match a with
     | [] -> KErr MBadArgs
     | v :: l ->
       (match v with
        | VL x ->
          (match l with
           | [] -> KErr MBadArgs
           | v0 :: l0 ->
             (match v0 with
              | VL fa ->
                (match l0 with
                 | [] -> KErr MBadArgs
                 | v1 :: l1 ->
                   (match v1 with
                    | VI n ->
                      (match l1 with
                       | [] -> KErr MBadArgs
                       | v2 :: l2 ->
                         (match v2 with
                          | VI ns ->
                            (match l2 with
                             | [] ->
                               o1
                                 (regularArray_getitem_next_range_spreadadvanced
                                   x fa n ns)
                             | _ :: _ -> KErr MBadArgs)
                          | _ -> KErr MBadArgs))
                    | _ -> KErr MBadArgs))
              | _ -> KErr MBadArgs))
        | _ -> KErr MBadArgs))
  | K_RegularArray_getitem_next_array ->
    (match a with
     | [] -> KErr MBadArgs
     | v :: l ->
       (match v with
        | VL c ->
          (match l with
           | [] -> KErr MBadArgs
           | v0 :: l0 ->
             (match v0 with
              | VL ad ->
                (match l0 with
                 | [] -> KErr MBadArgs
                 | v1 :: l1 ->
                   (match v1 with
                    | VL arr ->
                      (match l1 with
                       | [] -> KErr MBadArgs
                       | v2 :: l2 ->
                         (match v2 with
                          | VI n ->
                            (match l2 with
                             | [] -> KErr MBadArgs
                             | v3 :: l3 ->
                               (match v3 with
                                | VI la ->
                                  (match l3 with
                                   | [] -> KErr MBadArgs
                                   | v4 :: l4 ->
                                     (match v4 with
                                      | VI size ->
                                        (match l4 with
                                         | [] ->
                                           o2
                                             (regularArray_getitem_next_array
                                               c ad arr n la size)
                                         | _ :: _ -> KErr MBadArgs)
                                      | _ -> KErr MBadArgs))
                                | _ -> KErr MBadArgs))
                          | _ -> KErr MBadArgs))
                    | _ -> KErr MBadArgs))
              | _ -> KErr MBadArgs))
        | _ -> KErr MBadArgs))
  | K_RegularArray_getitem_next_array_advanced ->
    (match a with
     | [] -> KErr MBadArgs
     | v :: l ->
       (match v with
        | VL c ->
          (match l with
           | [] -> KErr MBadArgs
           | v0 :: l0 ->
             (match v0 with
              | VL ad ->
                (match l0 with
                 | [] -> KErr MBadArgs
                 | v1 :: l1 ->
                   (match v1 with
                    | VL fadv ->
                      (match l1 with
                       | [] -> KErr MBadArgs
                       | v2 :: l2 ->
                         (match v2 with
                          | VL arr ->
                            (match l2 with
                             | [] -> KErr MBadArgs
                             | v3 :: l3 ->
                               (match v3 with
                                | VI n ->
                                  (match l3 with
                                   | [] -> KErr MBadArgs
                                   | v4 :: l4 ->
                                     (match v4 with
                                      | VI la ->
                                        (match l4 with
                                         | [] -> KErr MBadArgs
                                         | v5 :: l5 ->
                                           (match v5 with
                                            | VI size ->
                                              (match l5 with
                                               | [] ->
                                                 o2
                                                   (regularArray_getitem_next_array_advanced
                                                     c ad fadv arr n la size)
                                               | _ :: _ -> KErr MBadArgs)
                                            | _ -> KErr MBadArgs))
                                      | _ -> KErr MBadArgs))
                                | _ -> KErr MBadArgs))
                          | _ -> KErr MBadArgs))
                    | _ -> KErr MBadArgs))
              | _ -> KErr MBadArgs))
        | _ -> KErr MBadArgs))
  | K_RegularArray_getitem_next_array_regularize ->
    (match a with
     | [] -> KErr MBadArgs
     | v :: l ->
       (match v with
        | VL x ->
          (match l with
           | [] -> KErr MBadArgs
           | v0 :: l0 ->
             (match v0 with
              | VL arr ->
                (match l0 with
                 | [] -> KErr MBadArgs
                 | v1 :: l1 ->
                   (match v1 with
                    | VI la ->
                      (match l1 with
                       | [] -> KErr MBadArgs
                       | v2 :: l2 ->
                         (match v2 with
                          | VI size ->
                            (match l2 with
                             | [] ->
                               o1
                                 (regularArray_getitem_next_array_regularize
                                   x arr la size)
                             | _ :: _ -> KErr MBadArgs)
                          | _ -> KErr MBadArgs))
                    | _ -> KErr MBadArgs))
              | _ -> KErr MBadArgs))
        | _ -> KErr MBadArgs))
  | K_RegularArray_getitem_carry ->
    (match a with
     | [] -> KErr MBadArgs
     | v :: l ->
       (match v with
        | VL x ->
          (match l with
           | [] -> KErr MBadArgs
           | v0 :: l0 ->
             (match v0 with
              | VL c ->
                (match l0 with
                 | [] -> KErr MBadArgs
                 | v1 :: l1 ->
                   (match v1 with
                    | VI lc ->
                      (match l1 with
                       | [] -> KErr MBadArgs
                       | v2 :: l2 ->
                         (match v2 with
                          | VI size ->
                            (match l2 with
                             | [] ->
                               o1 (regularArray_getitem_carry x c lc size)
                             | _ :: _ -> KErr MBadArgs)
                          | _ -> KErr MBadArgs))
                    | _ -> KErr MBadArgs))
              | _ -> KErr MBadArgs))
        | _ -> KErr MBadArgs))
  | K_IndexedArray_getitem_nextcarry ->
    (match a with
     | [] -> KErr MBadArgs
     | v :: l ->
       (match v with
        | VL x ->
          (match l with
           | [] -> KErr MBadArgs
           | v0 :: l0 ->
             (match v0 with
              | VL ix ->
                (match l0 with
                 | [] -> KErr MBadArgs
                 | v1 :: l1 ->
                   (match v1 with
                    | VI n ->
                      (match l1 with
                       | [] -> KErr MBadArgs
                       | v2 :: l2 ->
                         (match v2 with
                          | VI lc ->
                            (match l2 with
                             | [] ->
                               o1 (indexedArray_getitem_nextcarry x ix n lc)
                             | _ :: _ -> KErr MBadArgs)
                          | _ -> KErr MBadArgs))
                    | _ -> KErr MBadArgs))
              | _ -> KErr MBadArgs))
        | _ -> KErr MBadArgs))
  | K_IndexedArray_getitem_nextcarry_outindex ->
    (match a with
     | [] -> KErr MBadArgs
     | v :: l ->
       (match v with
        | VL x ->
          (match l with
           | [] -> KErr MBadArgs
           | v0 :: l0 ->
             (match v0 with
              | VL ti ->
                (match l0 with
                 | [] -> KErr MBadArgs
                 | v1 :: l1 ->
                   (match v1 with
                    | VL ix ->
                      (match l1 with
                       | [] -> KErr MBadArgs
                       | v2 :: l2 ->
                         (match v2 with
                          | VI n ->
                            (match l2 with
                             | [] -> KErr MBadArgs
                             | v3 :: l3 ->
                               (match v3 with
                                | VI lc ->
                                  (match l3 with
                                   | [] ->
                                     o2
                                       (indexedArray_getitem_nextcarry_outindex
                                         (ty ts (S O)) x ti ix n lc)
                                   | _ :: _ -> KErr MBadArgs)
                                | _ -> KErr MBadArgs))
                          | _ -> KErr MBadArgs))
                    | _ -> KErr MBadArgs))
              | _ -> KErr MBadArgs))
        | _ -> KErr MBadArgs))
  | K_IndexedArray_flatten_nextcarry ->
    (match a with
     | [] -> KErr MBadArgs
     | v :: l ->
       (match v with
        | VL x ->
          (match l with
           | [] -> KErr MBadArgs
           | v0 :: l0 ->
             (match v0 with
              | VL ix ->
                (match l0 with
                 | [] -> KErr MBadArgs
                 | v1 :: l1 ->
                   (match v1 with
                    | VI n ->
                      (match l1 with
                       | [] -> KErr MBadArgs
                       | v2 :: l2 ->
                         (match v2 with
                          | VI lc ->
                            (match l2 with
                             | [] ->
                               o1 (indexedArray_flatten_nextcarry x ix n lc)
                             | _ :: _ -> KErr MBadArgs)
                          | _ -> KErr MBadArgs))
                    | _ -> KErr MBadArgs))
              | _ -> KErr MBadArgs))
        | _ -> KErr MBadArgs))
  | K_IndexedArray_flatten_none2empty ->
    (match a with
     | [] -> KErr MBadArgs
     | v :: l ->
       (match v with
        | VL x ->
          (match l with
           | [] -> KErr MBadArgs
           | v0 :: l0 ->
             (match v0 with
              | VL oi ->
                (match l0 with
                 | [] -> KErr MBadArgs
                 | v1 :: l1 ->
                   (match v1 with
                    | VI ol ->
                      (match l1 with
                       | [] -> KErr MBadArgs
                       | v2 :: l2 ->
                         (match v2 with
                          | VL off ->
                            (match l2 with
                             | [] -> KErr MBadArgs
                             | v3 :: l3 ->
                               (match v3 with
                                | VI offl ->
                                  (match l3 with
                                   | [] ->
                                     o1
                                       (indexedArray_flatten_none2empty
                                         (ty ts O) x oi ol off offl)
                                   | _ :: _ -> KErr MBadArgs)
                                | _ -> KErr MBadArgs))
                          | _ -> KErr MBadArgs))
                    | _ -> KErr MBadArgs))
              | _ -> KErr MBadArgs))
        | _ -> KErr MBadArgs))
  | K_IndexedArray_numnull ->
    (match a with
     | [] -> KErr MBadArgs
     | v :: l ->
       (match v with
        | VL x ->
          (match l with
           | [] -> KErr MBadArgs
           | v0 :: l0 ->
             (match v0 with
              | VL ix ->
                (match l0 with
                 | [] -> KErr MBadArgs
                 | v1 :: l1 ->
                   (match v1 with
                    | VI n ->
                      (match l1 with
                       | [] -> o1 (indexedArray_numnull x ix n)
                       | _ :: _ -> KErr MBadArgs)
                    | _ -> KErr MBadArgs))
              | _ -> KErr MBadArgs))
        | _ -> KErr MBadArgs))
  | K_ByteMaskedArray_getitem_nextcarry ->
    (match a with
     | [] -> KErr MBadArgs
     | v :: l ->
       (match v with
        | VL x ->
          (match l with
           | [] -> KErr MBadArgs
           | v0 :: l0 ->
             (match v0 with
              | VL m ->
                (match l0 with
                 | [] -> KErr MBadArgs
                 | v1 :: l1 ->
                   (match v1 with
                    | VI n ->
                      (match l1 with
                       | [] -> KErr MBadArgs
                       | v2 :: l2 ->
                         (match v2 with
                          | VI vw ->
                            (match l2 with
                             | [] ->
                               o1
                                 (byteMaskedArray_getitem_nextcarry x m n
                                   (vb vw))
                             | _ :: _ -> KErr MBadArgs)
                          | _ -> KErr MBadArgs))
                    | _ -> KErr MBadArgs))
              | _ -> KErr MBadArgs))
        | _ -> KErr MBadArgs))
  | K_ByteMaskedArray_getitem_nextcarry_outindex ->
    (match a with
     | [] -> KErr MBadArgs
     | v :: l ->
       (match v with
        | VL x ->
          (match l with
           | [] -> KErr MBadArgs
           | v0 :: l0 ->
             (match v0 with
              | VL oi ->
                (match l0 with
                 | [] -> KErr MBadArgs
                 | v1 :: l1 ->
                   (match v1 with
                    | VL m ->
                      (match l1 with
                       | [] -> KErr MBadArgs
                       | v2 :: l2 ->
                         (match v2 with
                          | VI n ->
                            (match l2 with
                             | [] -> KErr MBadArgs
                             | v3 :: l3 ->
                               (match v3 with
                                | VI vw ->
                                  (match l3 with
                                   | [] ->
                                     o2
                                       (byteMaskedArray_getitem_nextcarry_outindex
                                         x oi m n (vb vw))
                                   | _ :: _ -> KErr MBadArgs)
                                | _ -> KErr MBadArgs))
                          | _ -> KErr MBadArgs))
                    | _ -> KErr MBadArgs))
              | _ -> KErr MBadArgs))
        | _ -> KErr MBadArgs))
  | K_ByteMaskedArray_toIndexedOptionArray ->
    (match a with
     | [] -> KErr MBadArgs
     | v :: l ->
       (match v with
        | VL x ->
          (match l with
           | [] -> KErr MBadArgs
           | v0 :: l0 ->
             (match v0 with
              | VL m ->
                (match l0 with
                 | [] -> KErr MBadArgs
                 | v1 :: l1 ->
                   (match v1 with
                    | VI n ->
                      (match l1 with
                       | [] -> KErr MBadArgs
                       | v2 :: l2 ->
                         (match v2 with
                          | VI vw ->
                            (match l2 with
                             | [] ->
                               o1
                                 (byteMaskedArray_toIndexedOptionArray x m n
                                   (vb vw))
                             | _ :: _ -> KErr MBadArgs)
                          | _ -> KErr MBadArgs))
                    | _ -> KErr MBadArgs))
              | _ -> KErr MBadArgs))
        | _ -> KErr MBadArgs))
  | K_BitMaskedArray_to_ByteMaskedArray ->
    (match a with
     | [] -> KErr MBadArgs
     | v :: l ->
       (match v with
        | VL x ->
          (match l with
           | [] -> KErr MBadArgs
           | v0 :: l0 ->
             (match v0 with
              | VL m ->
                (match l0 with
                 | [] -> KErr MBadArgs
                 | v1 :: l1 ->
                   (match v1 with
                    | VI n ->
                      (match l1 with
                       | [] -> KErr MBadArgs
                       | v2 :: l2 ->
                         (match v2 with
                          | VI vw ->
                            (match l2 with
                             | [] -> KErr MBadArgs
                             | v3 :: l3 ->
                               (match v3 with
                                | VI lsb ->
                                  (match l3 with
                                   | [] ->
                                     o1
                                       (bitMaskedArray_to_ByteMaskedArray x m
                                         n (vb vw) (vb lsb))
                                   | _ :: _ -> KErr MBadArgs)
                                | _ -> KErr MBadArgs))
                          | _ -> KErr MBadArgs))
                    | _ -> KErr MBadArgs))
              | _ -> KErr MBadArgs))
        | _ -> KErr MBadArgs))
  | K_BitMaskedArray_to_IndexedOptionArray ->
    (match a with
     | [] -> KErr MBadArgs
     | v :: l ->
       (match v with
        | VL x ->
          (match l with
           | [] -> KErr MBadArgs
           | v0 :: l0 ->
             (match v0 with
              | VL m ->
                (match l0 with
                 | [] -> KErr MBadArgs
                 | v1 :: l1 ->
                   (match v1 with
                    | VI n ->
                      (match l1 with
                       | [] -> KErr MBadArgs
                       | v2 :: l2 ->
                         (match v2 with
                          | VI vw ->
                            (match l2 with
                             | [] -> KErr MBadArgs
                             | v3 :: l3 ->
                               (match v3 with
                                | VI lsb ->
                                  (match l3 with
                                   | [] ->
                                     o1
                                       (bitMaskedArray_to_IndexedOptionArray
                                         x m n (vb vw) (vb lsb))
                                   | _ :: _ -> KErr MBadArgs)
                                | _ -> KErr MBadArgs))
                          | _ -> KErr MBadArgs))
                    | _ -> KErr MBadArgs))
              | _ -> KErr MBadArgs))
        | _ -> KErr MBadArgs))
  | K_UnionArray_fillna ->
    (match a with
     | [] -> KErr MBadArgs
     | v :: l ->
       (match v with
        | VL x ->
          (match l with
           | [] -> KErr MBadArgs
           | v0 :: l0 ->
             (match v0 with
              | VL ix ->
                (match l0 with
                 | [] -> KErr MBadArgs
                 | v1 :: l1 ->
                   (match v1 with
                    | VI n ->
                      (match l1 with
                       | [] -> o1 (unionArray_fillna (ty ts O) x ix n)
                       | _ :: _ -> KErr MBadArgs)
                    | _ -> KErr MBadArgs))
              | _ -> KErr MBadArgs))
        | _ -> KErr MBadArgs))
  | K_IndexedArray_local_preparenext ->
    (match a with
     | [] -> KErr MBadArgs
     | v :: l ->
       (match v with
        | VL x ->
          (match l with
           | [] -> KErr MBadArgs
           | v0 :: l0 ->
             (match v0 with
              | VL st ->
                (match l0 with
                 | [] -> KErr MBadArgs
                 | v1 :: l1 ->
                   (match v1 with
                    | VL p ->
                      (match l1 with
                       | [] -> KErr MBadArgs
                       | v2 :: l2 ->
                         (match v2 with
                          | VI pl ->
                            (match l2 with
                             | [] -> KErr MBadArgs
                             | v3 :: l3 ->
                               (match v3 with
                                | VL np ->
                                  (match l3 with
                                   | [] -> KErr MBadArgs
                                   | v4 :: l4 ->
                                     (match v4 with
                                      | VI nl ->
                                        (match l4 with
                                         | [] ->
                                           o1
                                             (indexedArray_local_preparenext
                                               x st p pl np nl)
                                         | _ :: _ -> KErr MBadArgs)
                                      | _ -> KErr MBadArgs))
                                | _ -> KErr MBadArgs))
                          | _ -> KErr MBadArgs))
                    | _ -> KErr MBadArgs))
              | _ -> KErr MBadArgs))
        | _ -> KErr MBadArgs))
  | K_ListArray_localindex ->
    (match a with
     | [] -> KErr MBadArgs
     | v :: l ->
       (match v with
        | VL x ->
          (match l with
           | [] -> KErr MBadArgs
           | v0 :: l0 ->
             (match v0 with
              | VL off ->
                (match l0 with
                 | [] -> KErr MBadArgs
                 | v1 :: l1 ->
                   (match v1 with
                    | VI n ->
                      (match l1 with
                       | [] -> o1 (listArray_localindex x off n)
                       | _ :: _ -> KErr MBadArgs)
                    | _ -> KErr MBadArgs))
              | _ -> KErr MBadArgs))
        | _ -> KErr MBadArgs))
  | K_localindex ->
    (match a with
     | [] -> KErr MBadArgs
     | v :: l ->
       (match v with
        | VL x ->
          (match l with
           | [] -> KErr MBadArgs
           | v0 :: l0 ->
             (match v0 with
              | VI n ->
                (match l0 with
                 | [] -> o1 (localindex (ty ts O) x n)
                 | _ :: _ -> KErr MBadArgs)
              | _ -> KErr MBadArgs))
        | _ -> KErr MBadArgs))
  | K_RegularArray_localindex ->
    (match a with
     | [] -> KErr MBadArgs
     | v :: l ->
       (match v with
        | VL x ->
          (match l with
           | [] -> KErr MBadArgs
           | v0 :: l0 ->
             (match v0 with
              | VI size ->
                (match l0 with
                 | [] -> KErr MBadArgs
                 | v1 :: l1 ->
                   (match v1 with
                    | VI n ->
                      (match l1 with
                       | [] -> o1 (regularArray_localindex x size n)
                       | _ :: _ -> KErr MBadArgs)
                    | _ -> KErr MBadArgs))
              | _ -> KErr MBadArgs))
        | _ -> KErr MBadArgs))
  | K_ListArray_min_range ->
    (match a with
     | [] -> KErr MBadArgs
     | v :: l ->
       (match v with
        | VL x ->
          (match l with
           | [] -> KErr MBadArgs
           | v0 :: l0 ->
             (match v0 with
              | VL s ->
                (match l0 with
                 | [] -> KErr MBadArgs
                 | v1 :: l1 ->
                   (match v1 with
                    | VL e ->
                      (match l1 with
                       | [] -> KErr MBadArgs
                       | v2 :: l2 ->
                         (match v2 with
                          | VI n ->
                            (match l2 with
                             | [] ->
                               o1 (listArray_min_range (ty ts (S O)) x s e n)
                             | _ :: _ -> KErr MBadArgs)
                          | _ -> KErr MBadArgs))
                    | _ -> KErr MBadArgs))
              | _ -> KErr MBadArgs))
        | _ -> KErr MBadArgs))
  | K_ListArray_rpad_and_clip_length_axis1 ->
    (match a with
     | [] -> KErr MBadArgs
     | v :: l ->
       (match v with
        | VL x ->
          (match l with
           | [] -> KErr MBadArgs
           | v0 :: l0 ->
             (match v0 with
              | VL s ->
                (match l0 with
                 | [] -> KErr MBadArgs
                 | v1 :: l1 ->
                   (match v1 with
                    | VL e ->
                      (match l1 with
                       | [] -> KErr MBadArgs
                       | v2 :: l2 ->
                         (match v2 with
                          | VI t ->
                            (match l2 with
                             | [] -> KErr MBadArgs
                             | v3 :: l3 ->
                               (match v3 with
                                | VI n ->
                                  (match l3 with
                                   | [] ->
                                     o1
                                       (listArray_rpad_and_clip_length_axis1
                                         (ty ts (S O)) x s e t n)
                                   | _ :: _ -> KErr MBadArgs)
                                | _ -> KErr MBadArgs))
                          | _ -> KErr MBadArgs))
                    | _ -> KErr MBadArgs))
              | _ -> KErr MBadArgs))
        | _ -> KErr MBadArgs))
  | K_ListArray_rpad_axis1 ->
    (match a with
     | [] -> KErr MBadArgs
     | v :: l ->
       (match v with
        | VL ti ->
          (match l with
           | [] -> KErr MBadArgs
           | v0 :: l0 ->
             (match v0 with
              | VL s ->
                (match l0 with
                 | [] -> KErr MBadArgs
                 | v1 :: l1 ->
                   (match v1 with
                    | VL e ->
                      (match l1 with
                       | [] -> KErr MBadArgs
                       | v2 :: l2 ->
                         (match v2 with
                          | VL ts_ ->
                            (match l2 with
                             | [] -> KErr MBadArgs
                             | v3 :: l3 ->
                               (match v3 with
                                | VL tp ->
                                  (match l3 with
                                   | [] -> KErr MBadArgs
                                   | v4 :: l4 ->
                                     (match v4 with
                                      | VI t ->
                                        (match l4 with
                                         | [] -> KErr MBadArgs
                                         | v5 :: l5 ->
                                           (match v5 with
                                            | VI n ->
                                              (match l5 with
                                               | [] ->
                                                 kmap (fun r ->
                                                   let (y, a3) = r in
                                                   let (a1, a2) = y in
                                                   (VL a1) :: ((VL
                                                   a2) :: ((VL a3) :: [])))
                                                   (listArray_rpad_axis1
                                                     (ty ts (S O)) ti s e ts_
                                                     tp t n)
                                               | _ :: _ -> KErr MBadArgs)
                                            | _ -> KErr MBadArgs))
                                      | _ -> KErr MBadArgs))
                                | _ -> KErr MBadArgs))
                          | _ -> KErr MBadArgs))
                    | _ -> KErr MBadArgs))
              | _ -> KErr MBadArgs))
        | _ -> KErr MBadArgs))
  | K_ListOffsetArray_rpad_length_axis1 ->
    (match a with
     | [] -> KErr MBadArgs
     | v :: l ->
       (match v with
        | VL x ->
          (match l with
           | [] -> KErr MBadArgs
           | v0 :: l0 ->
             (match v0 with
              | VL f ->
                (match l0 with
                 | [] -> KErr MBadArgs
                 | v1 :: l1 ->
                   (match v1 with
                    | VI n ->
                      (match l1 with
                       | [] -> KErr MBadArgs
                       | v2 :: l2 ->
                         (match v2 with
                          | VI t ->
                            (match l2 with
                             | [] -> KErr MBadArgs
                             | v3 :: l3 ->
                               (match v3 with
                                | VL tl ->
                                  (match l3 with
                                   | [] ->
                                     o2
                                       (listOffsetArray_rpad_length_axis1
                                         (ty ts O) x f n t tl)
                                   | _ :: _ -> KErr MBadArgs)
                                | _ -> KErr MBadArgs))
                          | _ -> KErr MBadArgs))
                    | _ -> KErr MBadArgs))
              | _ -> KErr MBadArgs))
        | _ -> KErr MBadArgs))
  | K_ListOffsetArray_rpad_axis1 ->
    (match a with
     | [] -> KErr MBadArgs
     | v :: l ->
       (match v with
        | VL x ->
          (match l with
           | [] -> KErr MBadArgs
           | v0 :: l0 ->
             (match v0 with
              | VL f ->
                (match l0 with
                 | [] -> KErr MBadArgs
                 | v1 :: l1 ->
                   (match v1 with
                    | VI n ->
                      (match l1 with
                       | [] -> KErr MBadArgs
                       | v2 :: l2 ->
                         (match v2 with
                          | VI t ->
                            (match l2 with
                             | [] -> o1 (listOffsetArray_rpad_axis1 x f n t)
                             | _ :: _ -> KErr MBadArgs)
                          | _ -> KErr MBadArgs))
                    | _ -> KErr MBadArgs))
              | _ -> KErr MBadArgs))
        | _ -> KErr MBadArgs))
  | K_ListOffsetArray_rpad_and_clip_axis1 ->
    (match a with
     | [] -> KErr MBadArgs
     | v :: l ->
       (match v with
        | VL x ->
          (match l with
           | [] -> KErr MBadArgs
           | v0 :: l0 ->
             (match v0 with
              | VL f ->
                (match l0 with
                 | [] -> KErr MBadArgs
                 | v1 :: l1 ->
                   (match v1 with
                    | VI n ->
                      (match l1 with
                       | [] -> KErr MBadArgs
                       | v2 :: l2 ->
                         (match v2 with
                          | VI t ->
                            (match l2 with
                             | [] ->
                               o1
                                 (listOffsetArray_rpad_and_clip_axis1 x f n t)
                             | _ :: _ -> KErr MBadArgs)
                          | _ -> KErr MBadArgs))
                    | _ -> KErr MBadArgs))
              | _ -> KErr MBadArgs))
        | _ -> KErr MBadArgs))
  | K_RegularArray_rpad_and_clip_axis1 ->
    (match a with
     | [] -> KErr MBadArgs
     | v :: l ->
       (match v with
        | VL x ->
          (match l with
           | [] -> KErr MBadArgs
           | v0 :: l0 ->
             (match v0 with
              | VI t ->
                (match l0 with
                 | [] -> KErr MBadArgs
                 | v1 :: l1 ->
                   (match v1 with
                    | VI size ->
                      (match l1 with
                       | [] -> KErr MBadArgs
                       | v2 :: l2 ->
                         (match v2 with
                          | VI n ->
                            (match l2 with
                             | [] ->
                               o1
                                 (regularArray_rpad_and_clip_axis1 x t size n)
                             | _ :: _ -> KErr MBadArgs)
                          | _ -> KErr MBadArgs))
                    | _ -> KErr MBadArgs))
              | _ -> KErr MBadArgs))
        | _ -> KErr MBadArgs))
  | K_index_rpad_and_clip_axis0 ->
    (match a with
     | [] -> KErr MBadArgs
     | v :: l ->
       (match v with
        | VL x ->
          (match l with
           | [] -> KErr MBadArgs
           | v0 :: l0 ->
             (match v0 with
              | VI t ->
                (match l0 with
                 | [] -> KErr MBadArgs
                 | v1 :: l1 ->
                   (match v1 with
                    | VI n ->
                      (match l1 with
                       | [] -> o1 (index_rpad_and_clip_axis0 x t n)
                       | _ :: _ -> KErr MBadArgs)
                    | _ -> KErr MBadArgs))
              | _ -> KErr MBadArgs))
        | _ -> KErr MBadArgs))
  | K_index_rpad_and_clip_axis1 ->
    (match a with
     | [] -> KErr MBadArgs
     | v :: l ->
       (match v with
        | VL s ->
          (match l with
           | [] -> KErr MBadArgs
           | v0 :: l0 ->
             (match v0 with
              | VL e ->
                (match l0 with
                 | [] -> KErr MBadArgs
                 | v1 :: l1 ->
                   (match v1 with
                    | VI t ->
                      (match l1 with
                       | [] -> KErr MBadArgs
                       | v2 :: l2 ->
                         (match v2 with
                          | VI n ->
                            (match l2 with
                             | [] -> o2 (index_rpad_and_clip_axis1 s e t n)
                             | _ :: _ -> KErr MBadArgs)
                          | _ -> KErr MBadArgs))
                    | _ -> KErr MBadArgs))
              | _ -> KErr MBadArgs))
        | _ -> KErr MBadArgs))
  | K_ListArray_combinations_length ->
    (match a with
     | [] -> KErr MBadArgs
     | v :: l ->
       (match v with
        | VL tl ->
          (match l with
           | [] -> KErr MBadArgs
           | v0 :: l0 ->
             (match v0 with
              | VL to0 ->
                (match l0 with
                 | [] -> KErr MBadArgs
                 | v1 :: l1 ->
                   (match v1 with
                    | VI n ->
                      (match l1 with
                       | [] -> KErr MBadArgs
                       | v2 :: l2 ->
                         (match v2 with
                          | VI r ->
                            (match l2 with
                             | [] -> KErr MBadArgs
                             | v3 :: l3 ->
                               (match v3 with
                                | VL s ->
                                  (match l3 with
                                   | [] -> KErr MBadArgs
                                   | v4 :: l4 ->
                                     (match v4 with
                                      | VL e ->
                                        (match l4 with
                                         | [] -> KErr MBadArgs
                                         | v5 :: l5 ->
                                           (match v5 with
                                            | VI len ->
                                              (match l5 with
                                               | [] ->
                                                 o2
                                                   (listArray_combinations_length
                                                     (ty ts (S (S (S (S O)))))
                                                     tl to0 n (vb r) s e len)
                                               | _ :: _ -> KErr MBadArgs)
                                            | _ -> KErr MBadArgs))
                                      | _ -> KErr MBadArgs))
                                | _ -> KErr MBadArgs))
                          | _ -> KErr MBadArgs))
                    | _ -> KErr MBadArgs))
              | _ -> KErr MBadArgs))
        | _ -> KErr MBadArgs))
  | K_ListArray_combinations ->
    (match a with
     | [] -> KErr MBadArgs
     | v :: l ->
       (match v with
        | VLL tc ->
          (match l with
           | [] -> KErr MBadArgs
           | v0 :: l0 ->
             (match v0 with
              | VL ti ->
                (match l0 with
                 | [] -> KErr MBadArgs
                 | v1 :: l1 ->
                   (match v1 with
                    | VL fi ->
                      (match l1 with
                       | [] -> KErr MBadArgs
                       | v2 :: l2 ->
                         (match v2 with
                          | VI n ->
                            (match l2 with
                             | [] -> KErr MBadArgs
                             | v3 :: l3 ->
                               (match v3 with
                                | VI r ->
                                  (match l3 with
                                   | [] -> KErr MBadArgs
                                   | v4 :: l4 ->
                                     (match v4 with
                                      | VL s ->
                                        (match l4 with
                                         | [] -> KErr MBadArgs
                                         | v5 :: l5 ->
                                           (match v5 with
                                            | VL e ->
                                              (match l5 with
                                               | [] -> KErr MBadArgs
                                               | v6 :: l6 ->
                                                 (match v6 with
                                                  | VI len ->
                                                    (match l6 with
                                                     | [] ->
                                                       kmap (fun st ->
                                                         let (y, a3) = st in
                                                         let (a1, a2) = y in
                                                         (VLL a1) :: ((VL
                                                         a2) :: ((VL
                                                         a3) :: [])))
                                                         (listArray_combinations
                                                           tc ti fi n 
                                                           (vb r) s e len)
                                                     | _ :: _ -> KErr MBadArgs)
                                                  | _ -> KErr MBadArgs))
                                            | _ -> KErr MBadArgs))
                                      | _ -> KErr MBadArgs))
                                | _ -> KErr MBadArgs))
                          | _ -> KErr MBadArgs))
                    | _ -> KErr MBadArgs))
              | _ -> KErr MBadArgs))
        | _ -> KErr MBadArgs))
  | K_RegularArray_combinations ->
    (match a with
     | [] -> KErr MBadArgs
     | v :: l ->
       (match v with
        | VLL tc ->
          (match l with
           | [] -> KErr MBadArgs
           | v0 :: l0 ->
             (match v0 with
              | VL ti ->
                (match l0 with
                 | [] -> KErr MBadArgs
                 | v1 :: l1 ->
                   (match v1 with
                    | VL fi ->
                      (match l1 with
                       | [] -> KErr MBadArgs
                       | v2 :: l2 ->
                         (match v2 with
                          | VI n ->
                            (match l2 with
                             | [] -> KErr MBadArgs
                             | v3 :: l3 ->
                               (match v3 with
                                | VI r ->
                                  (match l3 with
                                   | [] -> KErr MBadArgs
                                   | v4 :: l4 ->
                                     (match v4 with
                                      | VI size ->
                                        (match l4 with
                                         | [] -> KErr MBadArgs
                                         | v5 :: l5 ->
                                           (match v5 with
                                            | VI len ->
                                              (match l5 with
                                               | [] ->
                                                 kmap (fun st ->
                                                   let (y, a3) = st in
                                                   let (a1, a2) = y in
                                                   (VLL a1) :: ((VL
                                                   a2) :: ((VL a3) :: [])))
                                                   (regularArray_combinations
                                                     tc ti fi n (vb r) size
                                                     len)
                                               | _ :: _ -> KErr MBadArgs)
                                            | _ -> KErr MBadArgs))
                                      | _ -> KErr MBadArgs))
                                | _ -> KErr MBadArgs))
                          | _ -> KErr MBadArgs))
                    | _ -> KErr MBadArgs))
              | _ -> KErr MBadArgs))
        | _ -> KErr MBadArgs))
  | K_reduce_local_nextparents ->
    (match a with
     | [] -> KErr MBadArgs
     | v :: l ->
       (match v with
        | VL x ->
          (match l with
           | [] -> KErr MBadArgs
           | v0 :: l0 ->
             (match v0 with
              | VL off ->
                (match l0 with
                 | [] -> KErr MBadArgs
                 | v1 :: l1 ->
                   (match v1 with
                    | VI n ->
                      (match l1 with
                       | [] -> o1 (reduce_local_nextparents x off n)
                       | _ :: _ -> KErr MBadArgs)
                    | _ -> KErr MBadArgs))
              | _ -> KErr MBadArgs))
        | _ -> KErr MBadArgs))
  | K_reduce_local_outoffsets ->
    (match a with
     | [] -> KErr MBadArgs
     | v :: l ->
       (match v with
        | VL x ->
          (match l with
           | [] -> KErr MBadArgs
           | v0 :: l0 ->
             (match v0 with
              | VL p ->
                (match l0 with
                 | [] -> KErr MBadArgs
                 | v1 :: l1 ->
                   (match v1 with
                    | VI lp ->
                      (match l1 with
                       | [] -> KErr MBadArgs
                       | v2 :: l2 ->
                         (match v2 with
                          | VI ol ->
                            (match l2 with
                             | [] -> o1 (reduce_local_outoffsets x p lp ol)
                             | _ :: _ -> KErr MBadArgs)
                          | _ -> KErr MBadArgs))
                    | _ -> KErr MBadArgs))
              | _ -> KErr MBadArgs))
        | _ -> KErr MBadArgs))
  | K_reduce_nonlocal_maxcount_offsetscopy ->
    (match a with
     | [] -> KErr MBadArgs
     | v :: l ->
       (match v with
        | VL m ->
          (match l with
           | [] -> KErr MBadArgs
           | v0 :: l0 ->
             (match v0 with
              | VL c ->
                (match l0 with
                 | [] -> KErr MBadArgs
                 | v1 :: l1 ->
                   (match v1 with
                    | VL off ->
                      (match l1 with
                       | [] -> KErr MBadArgs
                       | v2 :: l2 ->
                         (match v2 with
                          | VI n ->
                            (match l2 with
                             | [] ->
                               o2
                                 (reduce_nonlocal_maxcount_offsetscopy m c
                                   off n)
                             | _ :: _ -> KErr MBadArgs)
                          | _ -> KErr MBadArgs))
                    | _ -> KErr MBadArgs))
              | _ -> KErr MBadArgs))
        | _ -> KErr MBadArgs))
  | K_reduce_nonlocal_preparenext ->
    (match a with
     | [] -> KErr MBadArgs
     | v :: l ->
       (match v with
        | VL nc ->
          (match l with
           | [] -> KErr MBadArgs
           | v0 :: l0 ->
             (match v0 with
              | VL np ->
                (match l0 with
                 | [] -> KErr MBadArgs
                 | v1 :: l1 ->
                   (match v1 with
                    | VI nl ->
                      (match l1 with
                       | [] -> KErr MBadArgs
                       | v2 :: l2 ->
                         (match v2 with
                          | VL mx ->
                            (match l2 with
                             | [] -> KErr MBadArgs
                             | v3 :: l3 ->
                               (match v3 with
                                | VL d ->
                                  (match l3 with
                                   | [] -> KErr MBadArgs
                                   | v4 :: l4 ->
                                     (match v4 with
                                      | VI dl ->
                                        (match l4 with
                                         | [] -> KErr MBadArgs
                                         | v5 :: l5 ->
                                           (match v5 with
                                            | VL oc ->
                                              (match l5 with
                                               | [] -> KErr MBadArgs
                                               | v6 :: l6 ->
                                                 (match v6 with
                                                  | VL off ->
                                                    (match l6 with
                                                     | [] -> KErr MBadArgs
                                                     | v7 :: l7 ->
                                                       (match v7 with
                                                        | VI n ->
                                                          (match l7 with
                                                           | [] ->
                                                             KErr MBadArgs
                                                           | v8 :: l8 ->
                                                             (match v8 with
                                                              | VL p ->
                                                                (match l8 with
                                                                 | [] ->
                                                                   KErr
                                                                    MBadArgs
                                                                 | v9 :: l9 ->
                                                                   (match v9 with
                                                                    | VI mc ->
                                                                    (match l9 with
                                                                    | [] ->
                                                                    kmap
                                                                    (fun r ->
                                                                    let (
                                                                    y, a5) = r
                                                                    in
                                                                    let (
                                                                    y0, a4) =
                                                                    y
                                                                    in
                                                                    let (
                                                                    y1, a3) =
                                                                    y0
                                                                    in
                                                                    let (
                                                                    a1, a2) =
                                                                    y1
                                                                    in
                                                                    (VL
                                                                    a1) :: ((VL
                                                                    a2) :: ((VL
                                                                    a3) :: ((VL
                                                                    a4) :: ((VL
                                                                    a5) :: [])))))
                                                                    (reduce_nonlocal_preparenext
                                                                    nc np nl
                                                                    mx d dl
                                                                    oc off n
                                                                    p mc)
                                                                    | _ :: _ ->
                                                                    KErr
                                                                    MBadArgs)
                                                                    | _ ->
                                                                    KErr
                                                                    MBadArgs))
                                                              | _ ->
                                                                KErr MBadArgs))
                                                        | _ -> KErr MBadArgs))
                                                  | _ -> KErr MBadArgs))
                                            | _ -> KErr MBadArgs))
                                      | _ -> KErr MBadArgs))
                                | _ -> KErr MBadArgs))
                          | _ -> KErr MBadArgs))
                    | _ -> KErr MBadArgs))
              | _ -> KErr MBadArgs))
        | _ -> KErr MBadArgs))
  | K_reduce_nonlocal_nextstarts ->
    (match a with
     | [] -> KErr MBadArgs
     | v :: l ->
       (match v with
        | VL x ->
          (match l with
           | [] -> KErr MBadArgs
           | v0 :: l0 ->
             (match v0 with
              | VL np ->
                (match l0 with
                 | [] -> KErr MBadArgs
                 | v1 :: l1 ->
                   (match v1 with
                    | VI nl ->
                      (match l1 with
                       | [] -> o1 (reduce_nonlocal_nextstarts x np nl)
                       | _ :: _ -> KErr MBadArgs)
                    | _ -> KErr MBadArgs))
              | _ -> KErr MBadArgs))
        | _ -> KErr MBadArgs))
  | K_reduce_nonlocal_findgaps ->
    (match a with
     | [] -> KErr MBadArgs
     | v :: l ->
       (match v with
        | VL x ->
          (match l with
           | [] -> KErr MBadArgs
           | v0 :: l0 ->
             (match v0 with
              | VL p ->
                (match l0 with
                 | [] -> KErr MBadArgs
                 | v1 :: l1 ->
                   (match v1 with
                    | VI lp ->
                      (match l1 with
                       | [] -> o1 (reduce_nonlocal_findgaps x p lp)
                       | _ :: _ -> KErr MBadArgs)
                    | _ -> KErr MBadArgs))
              | _ -> KErr MBadArgs))
        | _ -> KErr MBadArgs))
  | K_reduce_nonlocal_nextshifts ->
    (match a with
     | [] -> KErr MBadArgs
     | v :: l ->
       (match v with
        | VL nm ->
          (match l with
           | [] -> KErr MBadArgs
           | v0 :: l0 ->
             (match v0 with
              | VL ms ->
                (match l0 with
                 | [] -> KErr MBadArgs
                 | v1 :: l1 ->
                   (match v1 with
                    | VL ns ->
                      (match l1 with
                       | [] -> KErr MBadArgs
                       | v2 :: l2 ->
                         (match v2 with
                          | VL off ->
                            (match l2 with
                             | [] -> KErr MBadArgs
                             | v3 :: l3 ->
                               (match v3 with
                                | VI n ->
                                  (match l3 with
                                   | [] -> KErr MBadArgs
                                   | v4 :: l4 ->
                                     (match v4 with
                                      | VL st ->
                                        (match l4 with
                                         | [] -> KErr MBadArgs
                                         | v5 :: l5 ->
                                           (match v5 with
                                            | VL p ->
                                              (match l5 with
                                               | [] -> KErr MBadArgs
                                               | v6 :: l6 ->
                                                 (match v6 with
                                                  | VI mc ->
                                                    (match l6 with
                                                     | [] -> KErr MBadArgs
                                                     | v7 :: l7 ->
                                                       (match v7 with
                                                        | VI nl ->
                                                          (match l7 with
                                                           | [] ->
                                                             KErr MBadArgs
                                                           | v8 :: l8 ->
                                                             (match v8 with
                                                              | VL nc ->
                                                                (match l8 with
                                                                 | [] ->
                                                                   kmap
                                                                    (fun r ->
                                                                    let (
                                                                    y, a3) = r
                                                                    in
                                                                    let (
                                                                    a1, a2) =
                                                                    y
                                                                    in
                                                                    (VL
                                                                    a1) :: ((VL
                                                                    a2) :: ((VL
                                                                    a3) :: [])))
                                                                    (reduce_nonlocal_nextshifts
                                                                    nm ms ns
                                                                    off n st
                                                                    p mc nl
                                                                    nc)
                                                                 | _ :: _ ->
                                                                   KErr
                                                                    MBadArgs)
                                                              | _ ->
                                                                KErr MBadArgs))
                                                        | _ -> KErr MBadArgs))
                                                  | _ -> KErr MBadArgs))
                                            | _ -> KErr MBadArgs))
                                      | _ -> KErr MBadArgs))
                                | _ -> KErr MBadArgs))
                          | _ -> KErr MBadArgs))
                    | _ -> KErr MBadArgs))
              | _ -> KErr MBadArgs))
        | _ -> KErr MBadArgs))
  | K_sorting_ranges ->
    (match a with
     | [] -> KErr MBadArgs
     | v :: l ->
       (match v with
        | VL x ->
          (match l with
           | [] -> KErr MBadArgs
           | v0 :: l0 ->
             (match v0 with
              | VI tl ->
                (match l0 with
                 | [] -> KErr MBadArgs
                 | v1 :: l1 ->
                   (match v1 with
                    | VL p ->
                      (match l1 with
                       | [] -> KErr MBadArgs
                       | v2 :: l2 ->
                         (match v2 with
                          | VI pl ->
                            (match l2 with
                             | [] -> o1 (sorting_ranges x tl p pl)
                             | _ :: _ -> KErr MBadArgs)
                          | _ -> KErr MBadArgs))
                    | _ -> KErr MBadArgs))
              | _ -> KErr MBadArgs))
        | _ -> KErr MBadArgs))
  | K_sorting_ranges_length ->
    (match a with
     | [] -> KErr MBadArgs
     | v :: l ->
       (match v with
        | VL x ->
          (match l with
           | [] -> KErr MBadArgs
           | v0 :: l0 ->
             (match v0 with
              | VL p ->
                (match l0 with
                 | [] -> KErr MBadArgs
                 | v1 :: l1 ->
                   (match v1 with
                    | VI pl ->
                      (match l1 with
                       | [] -> o1 (sorting_ranges_length x p pl)
                       | _ :: _ -> KErr MBadArgs)
                    | _ -> KErr MBadArgs))
              | _ -> KErr MBadArgs))
        | _ -> KErr MBadArgs))
  | K_reduce_count ->
    (match a with
     | [] -> KErr MBadArgs
     | v :: l ->
       (match v with
        | VL x ->
          (match l with
           | [] -> KErr MBadArgs
           | v0 :: l0 ->
             (match v0 with
              | VL p ->
                (match l0 with
                 | [] -> KErr MBadArgs
                 | v1 :: l1 ->
                   (match v1 with
                    | VI lp ->
                      (match l1 with
                       | [] -> KErr MBadArgs
                       | v2 :: l2 ->
                         (match v2 with
                          | VI ol ->
                            (match l2 with
                             | [] -> o1 (reduce_count x p lp ol)
                             | _ :: _ -> KErr MBadArgs)
                          | _ -> KErr MBadArgs))
                    | _ -> KErr MBadArgs))
              | _ -> KErr MBadArgs))
        | _ -> KErr MBadArgs))
  | K_reduce_sum ->
    (match a with
     | [] -> KErr MBadArgs
     | v :: l ->
       (match v with
        | VL x ->
          (match l with
           | [] -> KErr MBadArgs
           | v0 :: l0 ->
             (match v0 with
              | VL f ->
                (match l0 with
                 | [] -> KErr MBadArgs
                 | v1 :: l1 ->
                   (match v1 with
                    | VL p ->
                      (match l1 with
                       | [] -> KErr MBadArgs
                       | v2 :: l2 ->
                         (match v2 with
                          | VI lp ->
                            (match l2 with
                             | [] -> KErr MBadArgs
                             | v3 :: l3 ->
                               (match v3 with
                                | VI ol ->
                                  (match l3 with
                                   | [] ->
                                     o1 (reduce_sum (ty ts O) x f p lp ol)
                                   | _ :: _ -> KErr MBadArgs)
                                | _ -> KErr MBadArgs))
                          | _ -> KErr MBadArgs))
                    | _ -> KErr MBadArgs))
              | _ -> KErr MBadArgs))
        | _ -> KErr MBadArgs))
  | K_reduce_prod ->
    (match a with
     | [] -> KErr MBadArgs
     | v :: l ->
       (match v with
        | VL x ->
          (match l with
           | [] -> KErr MBadArgs
           | v0 :: l0 ->
             (match v0 with
              | VL f ->
                (match l0 with
                 | [] -> KErr MBadArgs
                 | v1 :: l1 ->
                   (match v1 with
                    | VL p ->
                      (match l1 with
                       | [] -> KErr MBadArgs
                       | v2 :: l2 ->
                         (match v2 with
                          | VI lp ->
                            (match l2 with
                             | [] -> KErr MBadArgs
                             | v3 :: l3 ->
                               (match v3 with
                                | VI ol ->
                                  (match l3 with
                                   | [] ->
                                     o1 (reduce_prod (ty ts O) x f p lp ol)
                                   | _ :: _ -> KErr MBadArgs)
                                | _ -> KErr MBadArgs))
                          | _ -> KErr MBadArgs))
                    | _ -> KErr MBadArgs))
              | _ -> KErr MBadArgs))
        | _ -> KErr MBadArgs))
  | K_reduce_countnonzero ->
    (match a with
     | [] -> KErr MBadArgs
     | v :: l ->
       (match v with
        | VL x ->
          (match l with
           | [] -> KErr MBadArgs
           | v0 :: l0 ->
             (match v0 with
              | VL f ->
                (match l0 with
                 | [] -> KErr MBadArgs
                 | v1 :: l1 ->
                   (match v1 with
                    | VL p ->
                      (match l1 with
                       | [] -> KErr MBadArgs
                       | v2 :: l2 ->
                         (match v2 with
                          | VI lp ->
                            (match l2 with
                             | [] -> KErr MBadArgs
                             | v3 :: l3 ->
                               (match v3 with
                                | VI ol ->
                                  (match l3 with
                                   | [] ->
                                     o1 (reduce_countnonzero x f p lp ol)
                                   | _ :: _ -> KErr MBadArgs)
                                | _ -> KErr MBadArgs))
                          | _ -> KErr MBadArgs))
                    | _ -> KErr MBadArgs))
              | _ -> KErr MBadArgs))
        | _ -> KErr MBadArgs))
  | K_reduce_sum_bool ->
    (match a with
     | [] -> KErr MBadArgs
     | v :: l ->
       (match v with
        | VL x ->
          (match l with
           | [] -> KErr MBadArgs
           | v0 :: l0 ->
             (match v0 with
              | VL f ->
                (match l0 with
                 | [] -> KErr MBadArgs
                 | v1 :: l1 ->
                   (match v1 with
                    | VL p ->
                      (match l1 with
                       | [] -> KErr MBadArgs
                       | v2 :: l2 ->
                         (match v2 with
                          | VI lp ->
                            (match l2 with
                             | [] -> KErr MBadArgs
                             | v3 :: l3 ->
                               (match v3 with
                                | VI ol ->
                                  (match l3 with
                                   | [] -> o1 (reduce_sum_bool x f p lp ol)
                                   | _ :: _ -> KErr MBadArgs)
                                | _ -> KErr MBadArgs))
                          | _ -> KErr MBadArgs))
                    | _ -> KErr MBadArgs))
              | _ -> KErr MBadArgs))
        | _ -> KErr MBadArgs))
  | K_reduce_prod_bool ->
    (match a with
     | [] -> KErr MBadArgs
     | v :: l ->
       (match v with
        | VL x ->
          (match l with
           | [] -> KErr MBadArgs
           | v0 :: l0 ->
             (match v0 with
              | VL f ->
                (match l0 with
                 | [] -> KErr MBadArgs
                 | v1 :: l1 ->
                   (match v1 with
                    | VL p ->
                      (match l1 with
                       | [] -> KErr MBadArgs
                       | v2 :: l2 ->
                         (match v2 with
                          | VI lp ->
                            (match l2 with
                             | [] -> KErr MBadArgs
                             | v3 :: l3 ->
                               (match v3 with
                                | VI ol ->
                                  (match l3 with
                                   | [] -> o1 (reduce_prod_bool x f p lp ol)
                                   | _ :: _ -> KErr MBadArgs)
                                | _ -> KErr MBadArgs))
                          | _ -> KErr MBadArgs))
                    | _ -> KErr MBadArgs))
              | _ -> KErr MBadArgs))
        | _ -> KErr MBadArgs))
  | K_reduce_min ->
    (match a with
     | [] -> KErr MBadArgs
     | v :: l ->
       (match v with
        | VL x ->
          (match l with
           | [] -> KErr MBadArgs
           | v0 :: l0 ->
             (match v0 with
              | VL f ->
                (match l0 with
                 | [] -> KErr MBadArgs
                 | v1 :: l1 ->
                   (match v1 with
                    | VL p ->
                      (match l1 with
                       | [] -> KErr MBadArgs
                       | v2 :: l2 ->
                         (match v2 with
                          | VI lp ->
                            (match l2 with
                             | [] -> KErr MBadArgs
                             | v3 :: l3 ->
                               (match v3 with
                                | VI ol ->
                                  (match l3 with
                                   | [] -> KErr MBadArgs
                                   | v4 :: l4 ->
                                     (match v4 with
                                      | VI idn ->
                                        (match l4 with
                                         | [] ->
                                           o1
                                             (reduce_min (ty ts O) idn x f p
                                               lp ol)
                                         | _ :: _ -> KErr MBadArgs)
                                      | _ -> KErr MBadArgs))
                                | _ -> KErr MBadArgs))
                          | _ -> KErr MBadArgs))
                    | _ -> KErr MBadArgs))
              | _ -> KErr MBadArgs))
        | _ -> KErr MBadArgs))
  | K_reduce_max ->
    (match a with
     | [] -> KErr MBadArgs
     | v :: l ->
       (match v with
        | VL x ->
          (match l with
           | [] -> KErr MBadArgs
           | v0 :: l0 ->
             (match v0 with
              | VL f ->
                (match l0 with
                 | [] -> KErr MBadArgs
                 | v1 :: l1 ->
                   (match v1 with
                    | VL p ->
                      (match l1 with
                       | [] -> KErr MBadArgs
                       | v2 :: l2 ->
                         (match v2 with
                          | VI lp ->
                            (match l2 with
                             | [] -> KErr MBadArgs
                             | v3 :: l3 ->
                               (match v3 with
                                | VI ol ->
                                  (match l3 with
                                   | [] -> KErr MBadArgs
                                   | v4 :: l4 ->
                                     (match v4 with
                                      | VI idn ->
                                        (match l4 with
                                         | [] ->
                                           o1
                                             (reduce_max (ty ts O) idn x f p
                                               lp ol)
                                         | _ :: _ -> KErr MBadArgs)
                                      | _ -> KErr MBadArgs))
                                | _ -> KErr MBadArgs))
                          | _ -> KErr MBadArgs))
                    | _ -> KErr MBadArgs))
              | _ -> KErr MBadArgs))
        | _ -> KErr MBadArgs))
  | K_reduce_argmin ->
    (match a with
     | [] -> KErr MBadArgs
     | v :: l ->
       (match v with
        | VL x ->
          (match l with
           | [] -> KErr MBadArgs
           | v0 :: l0 ->
             (match v0 with
              | VL f ->
                (match l0 with
                 | [] -> KErr MBadArgs
                 | v1 :: l1 ->
                   (match v1 with
                    | VL p ->
                      (match l1 with
                       | [] -> KErr MBadArgs
                       | v2 :: l2 ->
                         (match v2 with
                          | VI lp ->
                            (match l2 with
                             | [] -> KErr MBadArgs
                             | v3 :: l3 ->
                               (match v3 with
                                | VI ol ->
                                  (match l3 with
                                   | [] -> o1 (reduce_argmin x f p lp ol)
                                   | _ :: _ -> KErr MBadArgs)
                                | _ -> KErr MBadArgs))
                          | _ -> KErr MBadArgs))
                    | _ -> KErr MBadArgs))
              | _ -> KErr MBadArgs))
        | _ -> KErr MBadArgs))
  | K_reduce_argmax ->
    (match a with
     | [] -> KErr MBadArgs
     | v :: l ->
       (match v with
        | VL x ->
          (match l with
           | [] -> KErr MBadArgs
           | v0 :: l0 ->
             (match v0 with
              | VL f ->
                (match l0 with
                 | [] -> KErr MBadArgs
                 | v1 :: l1 ->
                   (match v1 with
                    | VL p ->
                      (match l1 with
                       | [] -> KErr MBadArgs
                       | v2 :: l2 ->
                         (match v2 with
                          | VI lp ->
                            (match l2 with
                             | [] -> KErr MBadArgs
                             | v3 :: l3 ->
                               (match v3 with
                                | VI ol ->
                                  (match l3 with
                                   | [] -> o1 (reduce_argmax x f p lp ol)
                                   | _ :: _ -> KErr MBadArgs)
                                | _ -> KErr MBadArgs))
                          | _ -> KErr MBadArgs))
                    | _ -> KErr MBadArgs))
              | _ -> KErr MBadArgs))
        | _ -> KErr MBadArgs))
  | K_NumpyArray_fill ->
    (match a with
     | [] -> KErr MBadArgs
     | v :: l ->
       (match v with
        | VL x ->
          (match l with
           | [] -> KErr MBadArgs
           | v0 :: l0 ->
             (match v0 with
              | VI off ->
                (match l0 with
                 | [] -> KErr MBadArgs
                 | v1 :: l1 ->
                   (match v1 with
                    | VL f ->
                      (match l1 with
                       | [] -> KErr MBadArgs
                       | v2 :: l2 ->
                         (match v2 with
                          | VI n ->
                            (match l2 with
                             | [] -> o1 (numpyArray_fill (ty ts O) x off f n)
                             | _ :: _ -> KErr MBadArgs)
                          | _ -> KErr MBadArgs))
                    | _ -> KErr MBadArgs))
              | _ -> KErr MBadArgs))
        | _ -> KErr MBadArgs))
  | K_IndexedArray_fill ->
    (match a with
     | [] -> KErr MBadArgs
     | v :: l ->
       (match v with
        | VL x ->
          (match l with
           | [] -> KErr MBadArgs
           | v0 :: l0 ->
             (match v0 with
              | VI off ->
                (match l0 with
                 | [] -> KErr MBadArgs
                 | v1 :: l1 ->
                   (match v1 with
                    | VL f ->
                      (match l1 with
                       | [] -> KErr MBadArgs
                       | v2 :: l2 ->
                         (match v2 with
                          | VI n ->
                            (match l2 with
                             | [] -> KErr MBadArgs
                             | v3 :: l3 ->
                               (match v3 with
                                | VI base ->
                                  (match l3 with
                                   | [] ->
                                     o1
                                       (indexedArray_fill (ty ts O) x off f n
                                         base)
                                   | _ :: _ -> KErr MBadArgs)
                                | _ -> KErr MBadArgs))
                          | _ -> KErr MBadArgs))
                    | _ -> KErr MBadArgs))
              | _ -> KErr MBadArgs))
        | _ -> KErr MBadArgs))
  | K_UnionArray_filltags ->
    (match a with
     | [] -> KErr MBadArgs
     | v :: l ->
       (match v with
        | VL x ->
          (match l with
           | [] -> KErr MBadArgs
           | v0 :: l0 ->
             (match v0 with
              | VI off ->
                (match l0 with
                 | [] -> KErr MBadArgs
                 | v1 :: l1 ->
                   (match v1 with
                    | VL f ->
                      (match l1 with
                       | [] -> KErr MBadArgs
                       | v2 :: l2 ->
                         (match v2 with
                          | VI n ->
                            (match l2 with
                             | [] -> KErr MBadArgs
                             | v3 :: l3 ->
                               (match v3 with
                                | VI base ->
                                  (match l3 with
                                   | [] ->
                                     o1
                                       (unionArray_filltags (ty ts O) x off f
                                         n base)
                                   | _ :: _ -> KErr MBadArgs)
                                | _ -> KErr MBadArgs))
                          | _ -> KErr MBadArgs))
                    | _ -> KErr MBadArgs))
              | _ -> KErr MBadArgs))
        | _ -> KErr MBadArgs))
  | K_UnionArray_fillindex ->
    (match a with
     | [] -> KErr MBadArgs
     | v :: l ->
       (match v with
        | VL x ->
          (match l with
           | [] -> KErr MBadArgs
           | v0 :: l0 ->
             (match v0 with
              | VI off ->
                (match l0 with
                 | [] -> KErr MBadArgs
                 | v1 :: l1 ->
                   (match v1 with
                    | VL f ->
                      (match l1 with
                       | [] -> KErr MBadArgs
                       | v2 :: l2 ->
                         (match v2 with
                          | VI n ->
                            (match l2 with
                             | [] ->
                               o1 (unionArray_fillindex (ty ts O) x off f n)
                             | _ :: _ -> KErr MBadArgs)
                          | _ -> KErr MBadArgs))
                    | _ -> KErr MBadArgs))
              | _ -> KErr MBadArgs))
        | _ -> KErr MBadArgs))
  | K_ListArray_fill ->
    (match a with
     | [] -> KErr MBadArgs
     | v :: l ->
       (match v with
        | VL s ->
          (match l with
           | [] -> KErr MBadArgs
           | v0 :: l0 ->
             (match v0 with
              | VI so ->
                (match l0 with
                 | [] -> KErr MBadArgs
                 | v1 :: l1 ->
                   (match v1 with
                    | VL e ->
                      (match l1 with
                       | [] -> KErr MBadArgs
                       | v2 :: l2 ->
                         (match v2 with
                          | VI eo ->
                            (match l2 with
                             | [] -> KErr MBadArgs
                             | v3 :: l3 ->
                               (match v3 with
                                | VL fs ->
                                  (match l3 with
                                   | [] -> KErr MBadArgs
                                   | v4 :: l4 ->
                                     (match v4 with
                                      | VL fe ->
                                        (match l4 with
                                         | [] -> KErr MBadArgs
                                         | v5 :: l5 ->
                                           (match v5 with
                                            | VI n ->
                                              (match l5 with
                                               | [] -> KErr MBadArgs
                                               | v6 :: l6 ->
                                                 (match v6 with
                                                  | VI base ->
                                                    (match l6 with
                                                     | [] ->
                                                       o2
                                                         (listArray_fill
                                                           (ty ts O) s so e
                                                           eo fs fe n base)
                                                     | _ :: _ -> KErr MBadArgs)
                                                  | _ -> KErr MBadArgs))
                                            | _ -> KErr MBadArgs))
                                      | _ -> KErr MBadArgs))
                                | _ -> KErr MBadArgs))
                          | _ -> KErr MBadArgs))
                    | _ -> KErr MBadArgs))
              | _ -> KErr MBadArgs))
        | _ -> KErr MBadArgs))
  | K_unique ->
    (match a with
     | [] -> KErr MBadArgs
     | v :: l ->
       (match v with
        | VL x ->
          (match l with
           | [] -> KErr MBadArgs
           | v0 :: l0 ->
             (match v0 with
              | VI n ->
                (match l0 with
                 | [] -> KErr MBadArgs
                 | v1 :: l1 ->
                   (match v1 with
                    | VL tl ->
                      (match l1 with
                       | [] -> o2 (unique x n tl)
                       | _ :: _ -> KErr MBadArgs)
                    | _ -> KErr MBadArgs))
              | _ -> KErr MBadArgs))
        | _ -> KErr MBadArgs))
  | K_reduce_nonlocal_outstartsstops ->
    (match a with
     | [] -> KErr MBadArgs
     | v :: l ->
       (match v with
        | VL os ->
          (match l with
           | [] -> KErr MBadArgs
           | v0 :: l0 ->
             (match v0 with
              | VL op ->
                (match l0 with
                 | [] -> KErr MBadArgs
                 | v1 :: l1 ->
                   (match v1 with
                    | VL d ->
                      (match l1 with
                       | [] -> KErr MBadArgs
                       | v2 :: l2 ->
                         (match v2 with
                          | VI ld ->
                            (match l2 with
                             | [] -> KErr MBadArgs
                             | v3 :: l3 ->
                               (match v3 with
                                | VL _ ->
                                  (match l3 with
                                   | [] -> KErr MBadArgs
                                   | v4 :: l5 ->
                                     (match v4 with
                                      | VI ol ->
                                        (match l5 with
                                         | [] ->
                                           o2
                                             (reduce_nonlocal_outstartsstops
                                               os op d ld ol)
                                         | _ :: _ -> KErr MBadArgs)
                                      | _ -> KErr MBadArgs))
                                | _ -> KErr MBadArgs))
                          | _ -> KErr MBadArgs))
                    | _ -> KErr MBadArgs))
              | _ -> KErr MBadArgs))
        | _ -> KErr MBadArgs))
  | K_NumpyArray_copy ->
    (match a with
     | [] -> KErr MBadArgs
     | v :: l ->
       (match v with
        | VL x ->
          (match l with
           | [] -> KErr MBadArgs
           | v0 :: l0 ->
             (match v0 with
              | VL f ->
                (match l0 with
                 | [] -> KErr MBadArgs
                 | v1 :: l1 ->
                   (match v1 with
                    | VI n ->
                      (match l1 with
                       | [] -> o1 (numpyArray_copy x f n)
                       | _ :: _ -> KErr MBadArgs)
                    | _ -> KErr MBadArgs))
              | _ -> KErr MBadArgs))
        | _ -> KErr MBadArgs))
  | K_NumpyArray_contiguous_copy ->
    (match a with
     | [] -> KErr MBadArgs
     | v :: l ->
       (match v with
        | VL x ->
          (match l with
           | [] -> KErr MBadArgs
           | v0 :: l0 ->
             (match v0 with
              | VL f ->
                (match l0 with
                 | [] -> KErr MBadArgs
                 | v1 :: l1 ->
                   (match v1 with
                    | VI n ->
                      (match l1 with
                       | [] -> KErr MBadArgs
                       | v2 :: l2 ->
                         (match v2 with
                          | VI st ->
                            (match l2 with
                             | [] -> KErr MBadArgs
                             | v3 :: l3 ->
                               (match v3 with
                                | VL pos ->
                                  (match l3 with
                                   | [] ->
                                     o1
                                       (numpyArray_contiguous_copy x f n st
                                         pos)
                                   | _ :: _ -> KErr MBadArgs)
                                | _ -> KErr MBadArgs))
                          | _ -> KErr MBadArgs))
                    | _ -> KErr MBadArgs))
              | _ -> KErr MBadArgs))
        | _ -> KErr MBadArgs))
  | K_NumpyArray_getitem_next_null ->
    (match a with
     | [] -> KErr MBadArgs
     | v :: l ->
       (match v with
        | VL x ->
          (match l with
           | [] -> KErr MBadArgs
           | v0 :: l0 ->
             (match v0 with
              | VL f ->
                (match l0 with
                 | [] -> KErr MBadArgs
                 | v1 :: l1 ->
                   (match v1 with
                    | VI n ->
                      (match l1 with
                       | [] -> KErr MBadArgs
                       | v2 :: l2 ->
                         (match v2 with
                          | VI st ->
                            (match l2 with
                             | [] -> KErr MBadArgs
                             | v3 :: l3 ->
                               (match v3 with
                                | VL pos ->
                                  (match l3 with
                                   | [] ->
                                     o1
                                       (numpyArray_getitem_next_null x f n st
                                         pos)
                                   | _ :: _ -> KErr MBadArgs)
                                | _ -> KErr MBadArgs))
                          | _ -> KErr MBadArgs))
                    | _ -> KErr MBadArgs))
              | _ -> KErr MBadArgs))
        | _ -> KErr MBadArgs))
  | K_NumpyArray_fill_tocomplex ->
    (match a with
     | [] -> KErr MBadArgs
     | v :: l ->
       (match v with
        | VL x ->
          (match l with
           | [] -> KErr MBadArgs
           | v0 :: l0 ->
             (match v0 with
              | VI off ->
                (match l0 with
                 | [] -> KErr MBadArgs
                 | v1 :: l1 ->
                   (match v1 with
                    | VL f ->
                      (match l1 with
                       | [] -> KErr MBadArgs
                       | v2 :: l2 ->
                         (match v2 with
                          | VI n ->
                            (match l2 with
                             | [] -> o1 (numpyArray_fill_tocomplex x off f n)
                             | _ :: _ -> KErr MBadArgs)
                          | _ -> KErr MBadArgs))
                    | _ -> KErr MBadArgs))
              | _ -> KErr MBadArgs))
        | _ -> KErr MBadArgs))
  | K_NumpyArray_fill_fromcomplex ->
    (match a with
     | [] -> KErr MBadArgs
     | v :: l ->
       (match v with
        | VL x ->
          (match l with
           | [] -> KErr MBadArgs
           | v0 :: l0 ->
             (match v0 with
              | VI off ->
                (match l0 with
                 | [] -> KErr MBadArgs
                 | v1 :: l1 ->
                   (match v1 with
                    | VL f ->
                      (match l1 with
                       | [] -> KErr MBadArgs
                       | v2 :: l2 ->
                         (match v2 with
                          | VI n ->
                            (match l2 with
                             | [] ->
                               o1
                                 (numpyArray_fill_fromcomplex (ty ts O) x off
                                   f n)
                             | _ :: _ -> KErr MBadArgs)
                          | _ -> KErr MBadArgs))
                    | _ -> KErr MBadArgs))
              | _ -> KErr MBadArgs))
        | _ -> KErr MBadArgs))
  | K_NumpyArray_rearrange_shifted ->
    (match a with
     | [] -> KErr MBadArgs
     | v :: l ->
       (match v with
        | VL x ->
          (match l with
           | [] -> KErr MBadArgs
           | v0 :: l0 ->
             (match v0 with
              | VL sh ->
                (match l0 with
                 | [] -> KErr MBadArgs
                 | v1 :: l1 ->
                   (match v1 with
                    | VI n ->
                      (match l1 with
                       | [] -> KErr MBadArgs
                       | v2 :: l2 ->
                         (match v2 with
                          | VL off ->
                            (match l2 with
                             | [] -> KErr MBadArgs
                             | v3 :: l3 ->
                               (match v3 with
                                | VI ol ->
                                  (match l3 with
                                   | [] -> KErr MBadArgs
                                   | v4 :: l4 ->
                                     (match v4 with
                                      | VL p ->
                                        (match l4 with
                                         | [] -> KErr MBadArgs
                                         | v5 :: l5 ->
                                           (match v5 with
                                            | VI _ ->
                                              (match l5 with
                                               | [] -> KErr MBadArgs
                                               | v6 :: l6 ->
                                                 (match v6 with
                                                  | VL st ->
                                                    (match l6 with
                                                     | [] -> KErr MBadArgs
                                                     | v7 :: l7 ->
                                                       (match v7 with
                                                        | VI _ ->
                                                          (match l7 with
                                                           | [] ->
                                                             o1
                                                               (numpyArray_rearrange_shifted
                                                                 x sh n off
                                                                 ol p st)
                                                           | _ :: _ ->
                                                             KErr MBadArgs)
                                                        | _ -> KErr MBadArgs))
                                                  | _ -> KErr MBadArgs))
                                            | _ -> KErr MBadArgs))
                                      | _ -> KErr MBadArgs))
                                | _ -> KErr MBadArgs))
                          | _ -> KErr MBadArgs))
                    | _ -> KErr MBadArgs))
              | _ -> KErr MBadArgs))
        | _ -> KErr MBadArgs))
  | K_NumpyArray_subrange_equal ->
    (match a with
     | [] -> KErr MBadArgs
     | v :: l ->
       (match v with
        | VL t ->
          (match l with
           | [] -> KErr MBadArgs
           | v0 :: l0 ->
             (match v0 with
              | VL s ->
                (match l0 with
                 | [] -> KErr MBadArgs
                 | v1 :: l1 ->
                   (match v1 with
                    | VL e ->
                      (match l1 with
                       | [] -> KErr MBadArgs
                       | v2 :: l2 ->
                         (match v2 with
                          | VI n ->
                            (match l2 with
                             | [] -> KErr MBadArgs
                             | v3 :: l3 ->
                               (match v3 with
                                | VL eq ->
                                  (match l3 with
                                   | [] ->
                                     o2
                                       (kmap (fun r -> (t, r))
                                         (numpyArray_subrange_equal t s e n
                                           eq))
                                   | _ :: _ -> KErr MBadArgs)
                                | _ -> KErr MBadArgs))
                          | _ -> KErr MBadArgs))
                    | _ -> KErr MBadArgs))
              | _ -> KErr MBadArgs))
        | _ -> KErr MBadArgs))
  | K_reduce_sum_complex ->
    (match a with
     | [] -> KErr MBadArgs
     | v :: l ->
       (match v with
        | VL x ->
          (match l with
           | [] -> KErr MBadArgs
           | v0 :: l0 ->
             (match v0 with
              | VL f ->
                (match l0 with
                 | [] -> KErr MBadArgs
                 | v1 :: l1 ->
                   (match v1 with
                    | VL p ->
                      (match l1 with
                       | [] -> KErr MBadArgs
                       | v2 :: l2 ->
                         (match v2 with
                          | VI lp ->
                            (match l2 with
                             | [] -> KErr MBadArgs
                             | v3 :: l3 ->
                               (match v3 with
                                | VI ol ->
                                  (match l3 with
                                   | [] -> o1 (reduce_sum_complex x f p lp ol)
                                   | _ :: _ -> KErr MBadArgs)
                                | _ -> KErr MBadArgs))
                          | _ -> KErr MBadArgs))
                    | _ -> KErr MBadArgs))
              | _ -> KErr MBadArgs))
        | _ -> KErr MBadArgs))
  | K_reduce_prod_complex ->
    (match a with
     | [] -> KErr MBadArgs
     | v :: l ->
       (match v with
        | VL x ->
          (match l with
           | [] -> KErr MBadArgs
           | v0 :: l0 ->
             (match v0 with
              | VL f ->
                (match l0 with
                 | [] -> KErr MBadArgs
                 | v1 :: l1 ->
                   (match v1 with
                    | VL p ->
                      (match l1 with
                       | [] -> KErr MBadArgs
                       | v2 :: l2 ->
                         (match v2 with
                          | VI lp ->
                            (match l2 with
                             | [] -> KErr MBadArgs
                             | v3 :: l3 ->
                               (match v3 with
                                | VI ol ->
                                  (match l3 with
                                   | [] ->
                                     o1 (reduce_prod_complex x f p lp ol)
                                   | _ :: _ -> KErr MBadArgs)
                                | _ -> KErr MBadArgs))
                          | _ -> KErr MBadArgs))
                    | _ -> KErr MBadArgs))
              | _ -> KErr MBadArgs))
        | _ -> KErr MBadArgs))
  | K_reduce_min_complex ->
    (match a with
     | [] -> KErr MBadArgs
     | v :: l ->
       (match v with
        | VL x ->
          (match l with
           | [] -> KErr MBadArgs
           | v0 :: l0 ->
             (match v0 with
              | VL f ->
                (match l0 with
                 | [] -> KErr MBadArgs
                 | v1 :: l1 ->
                   (match v1 with
                    | VL p ->
                      (match l1 with
                       | [] -> KErr MBadArgs
                       | v2 :: l2 ->
                         (match v2 with
                          | VI lp ->
                            (match l2 with
                             | [] -> KErr MBadArgs
                             | v3 :: l3 ->
                               (match v3 with
                                | VI ol ->
                                  (match l3 with
                                   | [] -> KErr MBadArgs
                                   | v4 :: l4 ->
                                     (match v4 with
                                      | VI idn ->
                                        (match l4 with
                                         | [] ->
                                           o1
                                             (reduce_minmax_complex true idn
                                               x f p lp ol)
                                         | _ :: _ -> KErr MBadArgs)
                                      | _ -> KErr MBadArgs))
                                | _ -> KErr MBadArgs))
                          | _ -> KErr MBadArgs))
                    | _ -> KErr MBadArgs))
              | _ -> KErr MBadArgs))
        | _ -> KErr MBadArgs))
  | K_reduce_max_complex ->
    (match a with
     | [] -> KErr MBadArgs
     | v :: l ->
       (match v with
        | VL x ->
          (match l with
           | [] -> KErr MBadArgs
           | v0 :: l0 ->
             (match v0 with
              | VL f ->
                (match l0 with
                 | [] -> KErr MBadArgs
                 | v1 :: l1 ->
                   (match v1 with
                    | VL p ->
                      (match l1 with
                       | [] -> KErr MBadArgs
                       | v2 :: l2 ->
                         (match v2 with
                          | VI lp ->
                            (match l2 with
                             | [] -> KErr MBadArgs
                             | v3 :: l3 ->
                               (match v3 with
                                | VI ol ->
                                  (match l3 with
                                   | [] -> KErr MBadArgs
                                   | v4 :: l4 ->
                                     (match v4 with
                                      | VI idn ->
                                        (match l4 with
                                         | [] ->
                                           o1
                                             (reduce_minmax_complex false idn
                                               x f p lp ol)
                                         | _ :: _ -> KErr MBadArgs)
                                      | _ -> KErr MBadArgs))
                                | _ -> KErr MBadArgs))
                          | _ -> KErr MBadArgs))
                    | _ -> KErr MBadArgs))
              | _ -> KErr MBadArgs))
        | _ -> KErr MBadArgs))
  | K_reduce_argmin_complex ->
    (match a with
     | [] -> KErr MBadArgs
     | v :: l ->
       (match v with
        | VL x ->
          (match l with
           | [] -> KErr MBadArgs
           | v0 :: l0 ->
             (match v0 with
              | VL f ->
                (match l0 with
                 | [] -> KErr MBadArgs
                 | v1 :: l1 ->
                   (match v1 with
                    | VL p ->
                      (match l1 with
                       | [] -> KErr MBadArgs
                       | v2 :: l2 ->
                         (match v2 with
                          | VI lp ->
                            (match l2 with
                             | [] -> KErr MBadArgs
                             | v3 :: l3 ->
                               (match v3 with
                                | VI ol ->
                                  (match l3 with
                                   | [] ->
                                     o1 (reduce_arg_complex true x f p lp ol)
                                   | _ :: _ -> KErr MBadArgs)
                                | _ -> KErr MBadArgs))
                          | _ -> KErr MBadArgs))
                    | _ -> KErr MBadArgs))
              | _ -> KErr MBadArgs))
        | _ -> KErr MBadArgs))
  | K_reduce_argmax_complex ->
    (match a with
     | [] -> KErr MBadArgs
     | v :: l ->
       (match v with
        | VL x ->
          (match l with
           | [] -> KErr MBadArgs
           | v0 :: l0 ->
             (match v0 with
              | VL f ->
                (match l0 with
                 | [] -> KErr MBadArgs
                 | v1 :: l1 ->
                   (match v1 with
                    | VL p ->
                      (match l1 with
                       | [] -> KErr MBadArgs
                       | v2 :: l2 ->
                         (match v2 with
                          | VI lp ->
                            (match l2 with
                             | [] -> KErr MBadArgs
                             | v3 :: l3 ->
                               (match v3 with
                                | VI ol ->
                                  (match l3 with
                                   | [] ->
                                     o1 (reduce_arg_complex false x f p lp ol)
                                   | _ :: _ -> KErr MBadArgs)
                                | _ -> KErr MBadArgs))
                          | _ -> KErr MBadArgs))
                    | _ -> KErr MBadArgs))
              | _ -> KErr MBadArgs))
        | _ -> KErr MBadArgs))
  | K_reduce_countnonzero_complex ->
    (match a with
     | [] -> KErr MBadArgs
     | v :: l ->
       (match v with
        | VL x ->
          (match l with
           | [] -> KErr MBadArgs
           | v0 :: l0 ->
             (match v0 with
              | VL f ->
                (match l0 with
                 | [] -> KErr MBadArgs
                 | v1 :: l1 ->
                   (match v1 with
                    | VL p ->
                      (match l1 with
                       | [] -> KErr MBadArgs
                       | v2 :: l2 ->
                         (match v2 with
                          | VI lp ->
                            (match l2 with
                             | [] -> KErr MBadArgs
                             | v3 :: l3 ->
                               (match v3 with
                                | VI ol ->
                                  (match l3 with
                                   | [] ->
                                     o1
                                       (reduce_countnonzero_complex x f p lp
                                         ol)
                                   | _ :: _ -> KErr MBadArgs)
                                | _ -> KErr MBadArgs))
                          | _ -> KErr MBadArgs))
                    | _ -> KErr MBadArgs))
              | _ -> KErr MBadArgs))
        | _ -> KErr MBadArgs))
  | K_reduce_sum_bool_complex ->
    (match a with
     | [] -> KErr MBadArgs
     | v :: l ->
       (match v with
        | VL x ->
          (match l with
           | [] -> KErr MBadArgs
           | v0 :: l0 ->
             (match v0 with
              | VL f ->
                (match l0 with
                 | [] -> KErr MBadArgs
                 | v1 :: l1 ->
                   (match v1 with
                    | VL p ->
                      (match l1 with
                       | [] -> KErr MBadArgs
                       | v2 :: l2 ->
                         (match v2 with
                          | VI lp ->
                            (match l2 with
                             | [] -> KErr MBadArgs
                             | v3 :: l3 ->
                               (match v3 with
                                | VI ol ->
                                  (match l3 with
                                   | [] ->
                                     o1 (reduce_sum_bool_complex x f p lp ol)
                                   | _ :: _ -> KErr MBadArgs)
                                | _ -> KErr MBadArgs))
                          | _ -> KErr MBadArgs))
                    | _ -> KErr MBadArgs))
              | _ -> KErr MBadArgs))
        | _ -> KErr MBadArgs))
  | K_reduce_prod_bool_complex ->
    (match a with
     | [] -> KErr MBadArgs
     | v :: l ->
       (match v with
        | VL x ->
          (match l with
           | [] -> KErr MBadArgs
           | v0 :: l0 ->
             (match v0 with
              | VL f ->
                (match l0 with
                 | [] -> KErr MBadArgs
                 | v1 :: l1 ->
                   (match v1 with
                    | VL p ->
                      (match l1 with
                       | [] -> KErr MBadArgs
                       | v2 :: l2 ->
                         (match v2 with
                          | VI lp ->
                            (match l2 with
                             | [] -> KErr MBadArgs
                             | v3 :: l3 ->
                               (match v3 with
                                | VI ol ->
                                  (match l3 with
                                   | [] ->
                                     o1 (reduce_prod_bool_complex x f p lp ol)
                                   | _ :: _ -> KErr MBadArgs)
                                | _ -> KErr MBadArgs))
                          | _ -> KErr MBadArgs))
                    | _ -> KErr MBadArgs))
              | _ -> KErr MBadArgs))
        | _ -> KErr MBadArgs))
  | K_content_reduce_zeroparents ->
    (match a with
     | [] -> KErr MBadArgs
     | v :: l ->
       (match v with
        | VL x ->
          (match l with
           | [] -> KErr MBadArgs
           | v0 :: l0 ->
             (match v0 with
              | VI n ->
                (match l0 with
                 | [] -> o1 (content_reduce_zeroparents x n)
                 | _ :: _ -> KErr MBadArgs)
              | _ -> KErr MBadArgs))
        | _ -> KErr MBadArgs))
