(** Proofs_C13d11.v -- k_spec of awkward_ListArray_rpad_axis1 *)
From Coq Require Import ZArith List Bool Lia ZifyBool.
From AwkV Require Import Base.
From AwkKernels Require Import Kernels KLemmas Proofs_C13 Proofs_C13b Proofs_C13c Proofs_C13d Proofs_C13d2 Proofs_C13d7 Proofs_C13d8.
Import ListNotations.
Open Scope Z_scope.

Ltac Zify.zify_post_hook ::= Z.to_euclidean_division_equations.

Lemma padclip_total_S starts stops target i :
  0 <= i -> padclip_total starts stops target (Z.to_nat (i + 1))
            = padclip_total starts stops target (Z.to_nat i) + Z.max target (at_ stops i - at_ starts i).
Proof. intros H. replace (Z.to_nat (i + 1)) with (S (Z.to_nat i)) by lia. cbn [padclip_total]. now rewrite Z2Nat.id by lia. Qed.
Lemma padclip_total_mono starts stops target n m :
  (forall i, 0 <= i < Z.of_nat m -> at_ starts i <= at_ stops i) -> (n <= m)%nat ->
  padclip_total starts stops target n <= padclip_total starts stops target m.
Proof.
  intros Hv H. induction H; [lia|]. cbn [padclip_total].
  assert (padclip_total starts stops target n <= padclip_total starts stops target m) by (apply IHle; intros; apply Hv; lia).
  specialize (Hv (Z.of_nat m) ltac:(lia)). lia.
Qed.

(** copy phase then (possibly empty) pad phase *)
Lemma copy_pad_fill off r target (g : Z -> Z) out :
  0 <= off -> 0 <= r -> off + Z.max target r <= zlen out ->
  (let* o1 := kfor 0 r (fun j o => kupd o (off + j) (g j)) out in kfor r target (fun j o => kupd o (off + j) (-1)) o1)
  = KOk (filled off (Z.max target r) (fun j => if j <? r then g j else -1) out).
Proof.
  intros Hoff Hr Hcap. destruct (Z_le_gt_dec target r) as [Hle|Hgt].
  - rewrite Z.max_r by lia.
    pose proof (kfor_upd_filled 0 r off (fun j => if j <? r then g j else -1) out Hoff Hr ltac:(lia)) as F.
    rewrite Z.add_0_l in F.
    rewrite (kfor_ext (fun j o => kupd o (off + j) (g j))
                      (fun j o => kupd o (off + (j - 0)) (if j - 0 <? r then g (j - 0) else -1)) 0 r out).
    2:{ intros j o Hj. rewrite Z.sub_0_r. now replace (j <? r) with true by lia. }
    rewrite F. cbn [kbind]. now rewrite kfor_empty by lia.
  - rewrite Z.max_l by lia. apply two_phase_fill; lia.
Qed.

Theorem ListArray_rpad_axis1_spec toindex starts stops tostarts tostops target length :
  0 <= length -> length <= zlen starts -> length <= zlen stops -> length <= zlen tostarts -> length <= zlen tostops ->
  (forall i, 0 <= i < length -> at_ starts i <= at_ stops i) ->
  padclip_total starts stops target (Z.to_nat length) <= zlen toindex ->
  exists ti,
    ListArray_rpad_axis1 TIdeal toindex starts stops tostarts tostops target length
    = KOk (ti, filled 0 length (fun k => padclip_total starts stops target (Z.to_nat k)) tostarts,
               filled 0 length (fun k => padclip_total starts stops target (Z.to_nat (k + 1))) tostops) /\
    zlen ti = zlen toindex /\
    (forall k j, 0 <= k < length -> 0 <= j < Z.max target (at_ stops k - at_ starts k) ->
       at_ ti (padclip_total starts stops target (Z.to_nat k) + j)
       = if j <? at_ stops k - at_ starts k then at_ starts k + j else -1) /\
    (forall q, padclip_total starts stops target (Z.to_nat length) <= q -> at_ ti q = at_ toindex q).
Proof.
  intros Hn H1 H2 H3 H4 Hv Hcap. unfold ListArray_rpad_axis1.
  set (T := fun k => padclip_total starts stops target (Z.to_nat k)).
  assert (TM : forall a b, 0 <= a <= b -> b <= length -> T a <= T b).
  { intros a b Ha Hb. unfold T. apply padclip_total_mono; [|lia]. intros i Hi. apply Hv. lia. }
  assert (T0 : T 0 = 0) by reflexivity.
  assert (TL : T length <= zlen toindex) by exact Hcap.
  match goal with |- exists ti, kbind (kfor 0 length ?b ?s0) _ = _ /\ _ =>
    destruct (kfor_inv b
      (fun i (st : list Z * list Z * list Z * Z) =>
         let '(ti, ts, tp, offset) := st in
         offset = T i /\ ts = filled 0 i T tostarts /\ tp = filled 0 i (fun k => T (k + 1)) tostops /\
         zlen ti = zlen toindex /\
         (forall k j, 0 <= k < i -> 0 <= j < Z.max target (at_ stops k - at_ starts k) ->
            at_ ti (T k + j) = if j <? at_ stops k - at_ starts k then at_ starts k + j else -1) /\
         (forall q, T i <= q -> at_ ti q = at_ toindex q))
      0 length s0) as ([[[ti ts] tp] offset] & E & P); auto end.
  - repeat split; auto. intros; lia.
  - intros i [[[ti ts] tp] offset] Hi (-> & -> & -> & L & A & B).
    pose proof (padclip_total_S starts stops target i (proj1 Hi)) as TS. fold (T (i + 1)) in TS. fold (T i) in TS.
    pose proof (TM 0 i ltac:(lia) ltac:(lia)). pose proof (TM (i + 1) length ltac:(lia) ltac:(lia)).
    specialize (Hv i Hi). set (r := at_ stops i - at_ starts i) in *.
    rewrite kupd_ok by (rewrite zlen_filled; lia). cbn [kbind wrap].
    pose proof (filled_step 0 i T tostarts ltac:(lia) ltac:(lia) ltac:(lia)) as F1. rewrite Z.add_0_l in F1. rewrite F1.
    rewrite (kget_at starts), (kget_at stops) by lia. cbn [kbind]. fold r. cbv zeta.
    pose proof (copy_pad_fill (T i) r target (fun j => at_ starts i + j) ti ltac:(lia) ltac:(lia) ltac:(lia)) as CP.
    match goal with |- exists s', kbind ?a ?f = _ /\ _ => change (kbind a f) with (kbind a f) end.
    destruct (kfor 0 r (fun j ti0 => kupd ti0 (T i + j) (at_ starts i + j)) ti) as [ti1| |] eqn:K1; cbn [kbind] in CP; try discriminate.
    cbn [kbind]. rewrite CP. cbn [kbind].
    rewrite (kget_at (filled 0 (i + 1) T tostarts)) by (rewrite zlen_filled; lia). cbn [kbind].
    rewrite at_filled by lia. replace ((0 <=? i) && (i <? 0 + (i + 1))) with true by lia. rewrite Z.sub_0_r.
    replace (if r <? target then T i + target else T i + r) with (T (i + 1)) by (destruct (r <? target) eqn:C; lia).
    rewrite kupd_ok by (rewrite zlen_filled; lia). cbn [kbind].
    pose proof (filled_step 0 i (fun k => T (k + 1)) tostops ltac:(lia) ltac:(lia) ltac:(lia)) as F2.
    cbv beta in F2. rewrite Z.add_0_l in F2. rewrite F2.
    eexists; split; [reflexivity|]. split; [reflexivity|]. split; [reflexivity|]. split; [reflexivity|].
    split; [rewrite zlen_filled; lia|]. split.
    + intros k j Hk Hj. pose proof (TM 0 k ltac:(lia) ltac:(lia)). rewrite at_filled by lia. destruct (Z.eq_dec k i) as [->|D].
      * replace ((T i <=? T i + j) && (T i + j <? T i + Z.max target r)) with true by lia.
        replace (T i + j - T i) with j by lia. reflexivity.
      * pose proof (TM (k + 1) i ltac:(lia) ltac:(lia)).
        pose proof (padclip_total_S starts stops target k ltac:(lia)) as TSk. fold (T (k + 1)) in TSk. fold (T k) in TSk.
        replace ((T i <=? T k + j) && (T k + j <? T i + Z.max target r)) with false by lia.
        apply A; lia.
    + intros q Hq. rewrite at_filled by lia.
      replace ((T i <=? q) && (q <? T i + Z.max target r)) with false by lia. apply B. lia.
  - rewrite E. destruct P as (-> & -> & -> & L & A & B). cbn [kbind]. exists ti. repeat split; auto.
Qed.
