(** C17 proofs, part 8: the printing / re-parsing round trip stated for ARRAYS: the type (Form::type of Content::form,
    with the default typestrs string / bytes / char / byte) of every layout whose parameters are the ones the library
    itself sets -- strings, bytestrings, chars, bytes and record names -- is printable, hence survives
    Type::tostring followed by the reference parser. *)
From Coq Require Import ZArith List Bool Lia String.
From AwkV Require Import Base Layout LayoutInd Valid Types.
From AwkTypes Require Import Json Forms TypeStr Proofs_Json Proofs_Types Proofs_Parse Proofs_C17b_Exact.
Import ListNotations.
Open Scope Z_scope.

(* ak.behavior["__typestr__", ...] as the library ships it *)
Definition default_typestrs : typestrs :=
  [(s_byte, p_byte); (s_bytestring, p_bytes); (s_char, p_char); (s_string, p_string)].

Definition is_chars (k : akind) (c : content) : bool :=
  match c with
  | Par (Some k') None (Numpy DUInt8 [_] _) =>
      match k, k' with AChar, AChar | AByte, AByte => true | _, _ => false end
  | _ => false
  end.

Definition keys_ok (ks : option (list name)) (cs : list content) : bool :=
  match ks with Some ks => Nat.eqb (length ks) (length cs) && forallb key_ok ks | None => true end.

(* a record name the printer shows as Name[...]: a "name", no reserved word, no key of the typestr table *)
Definition recname_ok (n : name) : bool :=
  is_name n && negb (existsb (bytes_eqb n) reserved_words) &&
  match pfind n default_typestrs with None => true | Some _ => false end.

(* layouts whose parameters are: __array__ = string / bytestring on a list of char / byte, char / byte on 1-d uint8,
   __record__ = a name on a record; dimensions and regular sizes non-negative (as in every valid layout); keys are
   byte strings, one per field *)
Fixpoint tp_ok (c : content) : bool :=
  match c with
  | Numpy _ shape _ => match shape with [] => false | _ :: dims => forallb (Z.leb 0) dims end
  | Empty => true
  | ListOffset _ _ c' | ListA _ _ _ c' => tp_ok c'
  | Regular c' size _ => (0 <=? size) && tp_ok c'
  | Indexed _ _ c' | IndexedOption _ _ c' | ByteMasked _ _ c' | BitMasked _ _ _ _ c' | Unmasked c' => tp_ok c'
  | Union _ _ _ cs => forallb tp_ok cs
  | Record cs ks _ => forallb tp_ok cs && keys_ok ks cs
  | Par a r c' =>
      match a, r with
      | Some AString, None =>
          match c' with ListOffset _ _ c'' | ListA _ _ _ c'' => is_chars AChar c'' | _ => false end
      | Some ABytestring, None =>
          match c' with ListOffset _ _ c'' | ListA _ _ _ c'' => is_chars AByte c'' | _ => false end
      | Some AChar, None | Some AByte, None =>
          match c' with Numpy DUInt8 [_] _ => true | _ => false end
      | None, Some n =>
          match c' with
          | Record cs ks _ => tp_ok c' && recname_ok n && negb (match ks, cs with None, [] => true | _, _ => false end)
          | _ => false
          end
      | _, _ => false
      end
  end.

Definition tyok (c : content) : Prop :=
  tp_ok c = true -> exists t, type_of_form default_typestrs (form_of c) = Ok t /\ printable t = true.

Lemma numpy_fold_printable dt dims : forallb (Z.leb 0) dims = true ->
  printable (fold_right (fun d t => RReg [] [] d t) (RNum [] [] (FD dt)) dims) = true.
Proof.
  induction dims as [|d dims IH]; intros H.
  - destruct dt; reflexivity.
  - simpl in H. apply andb_true_iff in H as [Hd Hr]. cbn [fold_right]. rewrite printable_reg.
    change (Z.leb 0 d) with (0 <=? d) in Hd. rewrite Hd, (IH Hr). reflexivity.
Qed.

Lemma all_types (cs : list content) : Forall tyok cs -> forallb tp_ok cs = true ->
  exists l, mapM_id (map (type_of_form default_typestrs) (map (form_of_p None None) cs)) = Ok l /\
            forallb printable l = true /\ length l = length cs.
Proof.
  induction 1 as [|c cs Hc _ IH]; intros H.
  - exists []. repeat split.
  - simpl in H. apply andb_true_iff in H as [H1 H2]. destruct (Hc H1) as (t & Et & Pt). destruct (IH H2) as (l & El & Pl & Ll).
    exists (t :: l). cbn [map mapM_id]. unfold form_of in Et. rewrite Et. cbn [bind]. rewrite El. cbn [bind].
    repeat split; [simpl; rewrite Pt, Pl; reflexivity|simpl; congruence].
Qed.

Ltac one_level IH H :=
  destruct (IH H) as (t & Et & Pt); unfold form_of in Et |- *; cbn [form_of_p type_of_form]; rewrite Et; cbn [bind];
  eexists; split; [reflexivity|].

Lemma is_chars_cases k c : is_chars k c = true ->
  exists n data, (k = AChar /\ c = Par (Some AChar) None (Numpy DUInt8 [n] data)) \/
                 (k = AByte /\ c = Par (Some AByte) None (Numpy DUInt8 [n] data)).
Proof.
  unfold is_chars. destruct c as [| | | | | | | | | | | |a r c']; try discriminate.
  destruct a as [k'|]; [|discriminate]. destruct r; [discriminate|].
  destruct c' as [dt shape data| | | | | | | | | | | |]; try discriminate.
  destruct dt; try discriminate. destruct shape as [|n [|]]; try discriminate.
  destruct k, k'; try discriminate; intros _; exists n, data; [left|right]; split; reflexivity.
Qed.

Theorem tp_ok_printable_all c : tyok c.
Proof.
  induction c as [dt shape data| |w o c IH|w s e c IH|c size zl IH|w ix c IH|w ix c IH|m vw c IH|m vw lsb n c IH|c IH
                 |w tg ix cs IH|cs ks n IH|a r c IH] using content_ind'; intros H; cbn [tp_ok] in H.
  - destruct shape as [|n dims]; [discriminate|]. unfold form_of. cbn [form_of_p type_of_form tl].
    eexists. split; [reflexivity|]. apply numpy_fold_printable, H.
  - eexists. split; reflexivity.
  - one_level IH H. exact Pt.
  - one_level IH H. exact Pt.
  - apply andb_true_iff in H as [Hs H]. one_level IH H. rewrite printable_reg, Hs, Pt. reflexivity.
  - destruct (IH H) as (t & Et & Pt). unfold form_of in Et |- *. cbn [form_of_p type_of_form]. rewrite Et. cbn [bind].
    exists t. split; [|exact Pt]. unfold meta_of, params_of. cbn [m_params app]. destruct (rty_params t); reflexivity.
  - one_level IH H. exact Pt.
  - one_level IH H. exact Pt.
  - one_level IH H. exact Pt.
  - one_level IH H. exact Pt.
  - destruct (all_types cs IH H) as (l & El & Pl & _). unfold form_of. cbn [form_of_p type_of_form]. rewrite El. cbn [bind].
    eexists. split; [reflexivity|]. rewrite printable_union. exact Pl.
  - apply andb_true_iff in H as [H Hk]. destruct (all_types cs IH H) as (l & El & Pl & Ll).
    unfold form_of. cbn [form_of_p type_of_form]. rewrite El. cbn [bind].
    eexists. split; [reflexivity|]. change (gettypestr (m_params (meta_of None None)) default_typestrs) with (@nil Z).
    change (m_params (meta_of None None)) with (@nil (bytes * json)). rewrite printable_rec0, Pl.
    unfold keys_ok in Hk. rewrite Ll. destruct ks; [|reflexivity]. cbn [andb]. rewrite andb_true_r. exact Hk.
  - unfold form_of. cbn [form_of_p por].
    destruct a as [[| | | |]|]; destruct r as [nm|]; try discriminate H.
    + (* string *)
      destruct c as [| |w o c''|w s e c''| | | | | | | | |]; try discriminate H;
        destruct (is_chars_cases _ _ H) as (n0 & d0 & [[_ ->]|[Hk _]]); try discriminate Hk;
        (eexists; split; reflexivity).
    + (* bytestring *)
      destruct c as [| |w o c''|w s e c''| | | | | | | | |]; try discriminate H;
        destruct (is_chars_cases _ _ H) as (n0 & d0 & [[Hk _]|[_ ->]]); try discriminate Hk;
        (eexists; split; reflexivity).
    + (* char *)
      destruct c as [dt shape data| | | | | | | | | | | |]; try discriminate H.
      destruct dt; try discriminate H. destruct shape as [|n0 [|]]; try discriminate H. eexists; split; reflexivity.
    + (* byte *)
      destruct c as [dt shape data| | | | | | | | | | | |]; try discriminate H.
      destruct dt; try discriminate H. destruct shape as [|n0 [|]]; try discriminate H. eexists; split; reflexivity.
    + (* a named record *)
      destruct c as [| | | | | | | | | | |cs ks n|]; try discriminate H.
      apply andb_true_iff in H as [H Hne]. apply andb_true_iff in H as [H Hn].
      destruct (IH H) as (t & Et & Pt). unfold form_of in Et. cbn [form_of_p type_of_form] in Et |- *.
      destruct (mapM_id (map (type_of_form default_typestrs) (map (form_of_p None None) cs))) as [l|e] eqn:El; [|discriminate Et].
      cbn [bind] in Et |- *. inversion Et; subst t. clear Et.
      change (gettypestr (m_params (meta_of None None)) default_typestrs) with (@nil Z) in Pt.
      change (m_params (meta_of None None)) with (@nil (bytes * json)) in Pt. rewrite printable_rec0 in Pt.
      apply andb_true_iff in Pt as [Pt _]. apply andb_true_iff in Pt as [Pl Pk].
      unfold recname_ok in Hn. apply andb_true_iff in Hn as [Hn Hts]. apply andb_true_iff in Hn as [Hnm Hres].
      destruct (is_name_alnum nm Hnm) as (_ & _ & _ & _ & _ & Hnul).
      eexists. split; [reflexivity|].
      assert (Hg : gettypestr (m_params (meta_of None (Some nm))) default_typestrs = []).
      { unfold gettypestr, meta_of, params_of. cbn [m_params app].
        change (pfind k_record [(k_record, JStr nm)]) with (Some (JStr nm)). cbv beta iota.
        rewrite (cstr_nonul nm Hnul). destruct (pfind nm default_typestrs); [discriminate Hts|].
        reflexivity. }
      rewrite Hg. change (m_params (meta_of None (Some nm))) with [(k_record, JStr nm)].
      rewrite printable_named, Pl, Pk, bytes_eqb_refl, Hnm, Hres. cbn [andb].
      assert (Ll : length l = length cs).
      { clear - El. revert l El. induction cs as [|c cs IHc]; intros l El; cbn [map mapM_id] in El.
        - inversion El. reflexivity.
        - destruct (type_of_form default_typestrs (form_of_p None None c)); [|discriminate]. cbn [bind] in El.
          destruct (mapM_id (map (type_of_form default_typestrs) (map (form_of_p None None) cs))) as [l'|]; [|discriminate].
          cbn [bind] in El. inversion El. simpl. f_equal. apply IHc. reflexivity. }
      destruct ks as [ks|]; [reflexivity|]. destruct l as [|t0 l]; [|reflexivity].
      destruct cs; [discriminate Hne|discriminate Ll].
Qed.

(* the type of an array of the fragment is printable ... *)
Theorem array_type_printable_thm c : tp_ok c = true ->
  exists t, type_of_form default_typestrs (form_of c) = Ok t /\ printable t = true.
Proof. exact (tp_ok_printable_all c). Qed.

(* ... so it survives printing and re-parsing, and (for a valid array) it erases to the core type of the layout *)
Theorem array_type_roundtrip_thm c : tp_ok c = true ->
  exists t, type_of_form default_typestrs (form_of c) = Ok t /\ type_parse (type_tostring t) = Ok t.
Proof.
  intros H. destruct (tp_ok_printable_all c H) as (t & Et & Pt). exists t. split; [exact Et|].
  exact (type_print_parse_roundtrip_thm t Pt).
Qed.

Theorem array_type_roundtrip_valid_thm c : Valid None c -> tp_ok c = true ->
  exists t, type_of_form default_typestrs (form_of c) = Ok t /\ type_parse (type_tostring t) = Ok t /\ erase t = type_of c.
Proof.
  intros HV H. destruct (array_type_roundtrip_thm c H) as (t & Et & Pt). exists t. split; [exact Et|]. split; [exact Pt|].
  pose proof (type_of_form_of_gen default_typestrs c None None HV) as Hg. unfold form_of in Et.
  rewrite Et in Hg. unfold rerase in Hg. cbn [rmap] in Hg. inversion Hg as [H1]. exact H1.
Qed.

(* ---------------------------------------------------------------- example and witnesses *)
(* [[{"x": 1, "y": "ab"}, {"x": 2, "y": None}], []] with the record named Pt, and a 2x0x3 block next to it in a tuple *)
Definition ex_array : content :=
  Record [ListOffset I64 [0; 2; 2]
            (Par None (Some [80; 116])
               (Record [Numpy DInt64 [2] [DZ 1; DZ 2];
                        IndexedOption I32 [0; -1]
                          (Par (Some AString) None
                             (ListOffset I32 [0; 2] (Par (Some AChar) None (Numpy DUInt8 [2] [DZ 97; DZ 98]))))]
                       (Some [[120]; [121]]) 2));
          Numpy DFloat64 [2; 0; 3] []] None 2.

Example ex_array_ok : tp_ok ex_array = true.
Proof. vm_compute. reflexivity. Qed.
Example ex_array_string :
  rmap type_tostring (type_of_form default_typestrs (form_of ex_array)) =
  Ok (bytes_of_string "(var * Pt[""x"": int64, ""y"": option[string]], 0 * 3 * float64)"%string).
Proof. vm_compute. reflexivity. Qed.
Example ex_array_roundtrip :
  exists t, type_of_form default_typestrs (form_of ex_array) = Ok t /\ type_parse (type_tostring t) = Ok t.
Proof. exact (array_type_roundtrip_thm ex_array ex_array_ok). Qed.

(* outside: a record NAMED like a key of the typestr table is printed as that typestr (the record disappears):
   finding lark-typestr-hides-node-class *)
Example record_named_bytestring_refuted :
  let c := Par None (Some s_bytestring) (Record [Numpy DInt64 [1] [DZ 1]] (Some [[120]]) 1) in
  rmap type_tostring (type_of_form default_typestrs (form_of c)) = Ok p_bytes /\
  rmap (fun t => type_parse (type_tostring t)) (type_of_form default_typestrs (form_of c)) = Ok (Ok t_bytes).
Proof. cbv zeta. split; vm_compute; reflexivity. Qed.

(* outside: __array__ = "string" on a regular list of chars prints "string" and reads back as a var-length string *)
Example regular_string_refuted :
  let c := Par (Some AString) None (Regular (Par (Some AChar) None (Numpy DUInt8 [4] [DZ 97; DZ 98; DZ 99; DZ 100])) 2 2) in
  rmap (fun t => (type_tostring t, type_parse (type_tostring t))) (type_of_form default_typestrs (form_of c)) =
  Ok (p_string, Ok t_string).
Proof. cbv zeta. vm_compute. reflexivity. Qed.

(* outside: categorical (the reference parser has no categorical[type=...] production; see Proofs_C17b_ParseX) *)
Example categorical_array_outside :
  let c := Par (Some ACategorical) None (Indexed I64 [0; 0] (Numpy DInt64 [1] [DZ 7])) in
  rmap (fun t => (type_tostring t, type_parse (type_tostring t))) (type_of_form default_typestrs (form_of c)) =
  Ok (bytes_of_string "categorical[type=int64]"%string, Err EValue).
Proof. cbv zeta. vm_compute. reflexivity. Qed.
