(* C19 — fault freedom, part 5: every instruction of a checked program preserves the invariant. *)
From Coq Require Import ZArith Bool List Lia ZifyBool.
From AwkForth Require Import Forth Proofs_C19 Proofs_C19_SafeDefs Proofs_C19_Safe Proofs_C19_Safe2 Proofs_C19_Safe3
     Proofs_C19_Words Proofs_C19_Safe4.
Import ListNotations.
Open Scope Z_scope.

Lemma chain_nodo : forall dl n, chain_ok 1 dl n = true -> memz n dl = false -> below dl n = 0 -> dl = [].
Proof.
  intros dl n H Hm Hb. destruct dl as [|d r]; [reflexivity|]. exfalso.
  cbn [chain_ok] in H. rewrite memz_cons in Hm. rewrite below_cons in Hb. pose proof (below_nonneg r n).
  destruct (d <? n) eqn:E; lia.
Qed.

Lemma tlt_of_chain : forall ts n, chain_ok 0 ts n = true -> (forall t r, ts = t :: r -> t <> n) -> tlt ts n.
Proof.
  intros ts n H Hne t Ht. destruct ts as [|t0 r]; [destruct Ht|].
  specialize (Hne t0 r eq_refl). cbn [chain_ok] in H.
  destruct Ht as [->|Ht]; [lia|].
  assert (Hr : chain_ok 0 r (t0 - 1) = true) by lia. pose proof (chain_ok_all _ _ _ Hr t Ht). lia.
Qed.

Lemma skipn_cons_tl : forall A j (x : A) fr, (j <= length fr)%nat -> exists f, skipn j (x :: fr) = f :: skipn j fr.
Proof.
  induction j as [|j IH]; intros x fr H; [exists x; reflexivity|].
  destruct fr as [|y fr]; [cbn in H; lia|]. cbn [skipn length] in *. apply IH. lia.
Qed.

Lemma add11 : forall x, x + 1 + 1 = x + 2. Proof. intros; lia. Qed.
Lemma add111 : forall x, x + 1 + 1 + 1 = x + 3. Proof. intros; lia. Qed.
Lemma add1m2 : forall x, x + 1 + -2 = x - 1. Proof. intros; lia. Qed.
Lemma add11m3 : forall x, x + 1 + 1 + -3 = x - 1. Proof. intros; lia. Qed.

Lemma ddepths_nil : forall dos, ddepths dos = [] -> dos = [].
Proof. intros dos H. destruct dos; [reflexivity|discriminate]. Qed.

Section Machine.
  Variables (c : list sctx) (p : prog) (e : env).
  Hypothesis Hc : check_prog c p = true.

  Lemma Hsegs : check_segs c p c (p_segs p) = true.
  Proof. unfold check_prog in Hc. bsplit. assumption. Qed.
  Lemma Hrec : 1 <= p_rec_max p.
  Proof. unfold check_prog in Hc. bsplit. lia. Qed.

  Definition good (r : step_result) : Prop :=
    match r with
    | Ok (fl, m1) => m_targets m1 <> [] /\ (fl = Continue \/ m_err m1 = E_none -> inv c p e m1 = true)
    | Fault k => k = F_count
    | OutOfFuel => True
    end.

  Lemma inv_mk : forall m, shape_ok p e m = true ->
    CT c (m_frames m) (ddepths (m_dos m)) (m_targets m) (m_ready m) -> inv c p e m = true.
  Proof. intros m Hs H. unfold inv. rewrite Hs. apply ctrl_ok_CT in H. rewrite H. reflexivity. Qed.

  Lemma inv_parts : forall m, inv c p e m = true ->
    shape_ok p e m = true /\ CT c (m_frames m) (ddepths (m_dos m)) (m_targets m) (m_ready m).
  Proof. intros m H. unfold inv in H. bsplit. split; [assumption|]. apply ctrl_ok_CT. assumption. Qed.

  Lemma inv_ds : forall m m1, inv c p e m = true -> ds p e m m1 -> inv c p e m1 = true.
  Proof.
    intros m m1 H [A [B [C [D E]]]]. destruct (inv_parts _ H) as [Hs Hct].
    apply inv_mk; [auto|]. rewrite A, B, C, D. assumption.
  Qed.

  Lemma good_gres : forall m r, inv c p e m = true -> m_targets m <> [] -> gres p e m r -> good r.
  Proof.
    intros m r H Ht G. destruct r as [[fl m1]|k|]; cbn in *; auto.
    split; [destruct G as [_ [_ [G _]]]; congruence|]. intros _. eapply inv_ds; eassumption.
  Qed.

  Lemma good_rres : forall m mfin r, inv c p e mfin = true -> m_targets m <> [] -> rres p e m mfin r -> good r.
  Proof.
    intros m mfin r H Ht G. destruct r as [[fl m1]|k|]; cbn in *; auto. destruct G as [G1 G2].
    split; [congruence|]. intros Hfl. destruct G2 as [G2|[G2 G3]].
    - eapply inv_ds; eassumption.
    - subst fl. destruct Hfl as [Hfl|Hfl]; [discriminate|contradiction].
  Qed.

  Lemma good_stop : forall m z, m_targets m <> [] -> z <> E_none -> good (stop m z).
  Proof. intros m z Ht Hz. cbn. split; [assumption|]. intros [H|H]; [discriminate|contradiction]. Qed.

  (* what the invariant says about the top frame *)
  Lemma top_facts : forall m w ip fr, inv c p e m = true -> m_frames m = (w, ip) :: fr ->
    exists sw seg, znth c w = Some sw /\ znth (p_segs p) w = Some seg /\ check_seg c p sw seg = true /\
      shape_ok p e m = true /\
      CT c ((w, ip) :: fr) (ddepths (m_dos m)) (m_targets m) (m_ready m) /\
      (if memz (zlen fr + 1) (ddepths (m_dos m)) then memz ip (s_D sw) else memz ip (s_B sw)) = true /\
      (below (ddepths (m_dos m)) (zlen fr + 1) = 0 \/ s_nx sw = true) /\
      chain_ok 1 (ddepths (m_dos m)) (zlen fr + 1) = true.
  Proof.
    intros m w ip fr H Hfr. destruct (inv_parts _ H) as [Hs Hct]. rewrite Hfr in Hct.
    pose proof Hct as [F [D T]]. rewrite zlen_cons in D.
    destruct (frames_ok_top _ _ _ _ _ _ F) as [sw [Hw [H1 [H2 [H3 [H4 [H5 H6]]]]]]].
    destruct (seg_of c p Hsegs _ _ Hw) as [seg [Hsg Hck]].
    exists sw, seg. split; [assumption|]. split; [assumption|]. split; [assumption|]. split; [assumption|].
    split; [assumption|]. split; [assumption|]. split; assumption.
  Qed.

  (* a do-loop body position is never the end of its segment *)
  Lemma mid_not_done : forall sw seg ip, check_seg c p sw seg = true -> memz ip (s_D sw) = true ->
    exists bc, znth seg ip = Some bc /\ BOUND_DICTIONARY <= bc /\ do_child c sw (bc - BOUND_DICTIONARY) = true /\
               memz (ip + 1) (s_B sw) = true.
  Proof.
    intros sw seg ip Hck Hd. unfold check_seg in Hck. bsplit.
    pose proof (forallb_memz _ _ _ H0 Hd) as Hx. cbv beta in Hx. bsplit.
    unfold cell_is in H2. destruct (znth seg ip) as [bc|]; [|discriminate]. bsplit.
    exists bc. repeat split; try assumption. lia.
  Qed.

  Lemma boundary_instr : forall sw seg ip bc, check_seg c p sw seg = true -> memz ip (s_B sw) = true ->
    znth seg ip = Some bc -> check_instr c p sw seg ip bc = true.
  Proof.
    intros sw seg ip bc Hck Hb Hz. unfold check_seg in Hck. bsplit.
    pose proof (forallb_memz _ _ _ H1 Hb) as Hx. cbv beta in Hx. rewrite Hz in Hx. bsplit. assumption.
  Qed.

  Lemma segdone_eq : forall m w ip fr seg, m_frames m = (w, ip) :: fr -> znth (p_segs p) w = Some seg ->
    segment_done p m = Ok (negb (ip <? zlen seg)).
  Proof. intros m w ip fr seg Hfr Hs. unfold segment_done, seg_len. rewrite Hfr, Hs. reflexivity. Qed.

  (* ---- popping a finished segment *)
  Lemma pop_incr_good : forall m w ip fr, inv c p e m = true -> m_frames m = (w, ip) :: fr ->
    memz (zlen fr + 1) (ddepths (m_dos m)) = false -> tlt (m_targets m) (zlen fr + 1) -> m_targets m <> [] ->
    good (pop_incr m).
  Proof.
    intros m w ip fr H Hfr Hm Ht Hne.
    destruct (top_facts _ _ _ _ H Hfr) as [sw [seg [Hw [Hsg [Hck [Hs [Hct _]]]]]]].
    assert (Hct' : CT c fr (ddepths (m_dos m)) (m_targets m) (m_ready m)) by (eapply (T_pop c p Hsegs); eassumption).
    assert (G : forall m', m_frames m' = fr -> ddepths (m_dos m') = ddepths (m_dos m) -> m_targets m' = m_targets m ->
                           m_ready m' = m_ready m -> shape_ok p e m' = shape_ok p e m -> good (continue m')).
    { intros m' A B C D E. cbn. split; [congruence|]. intros _. apply inv_mk; [congruence|]. rewrite A, B, C, D. assumption. }
    unfold pop_incr. rewrite Hfr. cbn [m_dos set_frames m_stack].
    assert (G' : forall m', m_frames m' = fr -> ddepths (m_dos m') = ddepths (m_dos m) -> m_targets m' = m_targets m ->
                            m_ready m' = m_ready m -> shape_ok p e m' = shape_ok p e m -> good (continue m')) by exact G.
    clear G.
    destruct (m_dos m) as [|[[dd dstop] di] dos'] eqn:Ed.
    { apply G'; try reflexivity. cbn [m_dos set_frames]. rewrite Ed. reflexivity. }
    destruct (abs_depth dd =? _).
    2: { apply G'; try reflexivity. cbn [m_dos set_frames]. rewrite Ed. reflexivity. }
    destruct (dd <? 0).
    - destruct (m_stack m) as [|v s]; [apply good_stop; [assumption|discriminate]|].
      apply G'; reflexivity.
    - apply G'; reflexivity.
  Qed.

  Lemma good_return : forall fl m', good (Ok (fl, m')) -> good (Ok (Return, m')).
  Proof. intros fl m' [A B]. split; [assumption|]. intros [H|H]; [discriminate|]. apply B. right. assumption. Qed.

  Lemma rev_nonempty : forall (l : list Z), l <> [] -> rev l <> [].
  Proof. intros l H E. apply H. rewrite <- (rev_involutive l), E. reflexivity. Qed.

  (* ---- an ordinary instruction at a boundary *)
  Section Ordinary.
    Variables (m : machine) (w ip : Z) (fr : list (Z * Z)) (sw : sctx) (seg : list Z).
    Hypothesis Hinv : inv c p e m = true.
    Hypothesis Hfr : m_frames m = (w, ip) :: fr.
    Hypothesis Hw : znth c w = Some sw.
    Hypothesis Hsg : znth (p_segs p) w = Some seg.
    Hypothesis Hck : check_seg c p sw seg = true.
    Hypothesis Hm : memz (zlen fr + 1) (ddepths (m_dos m)) = false.
    Hypothesis Ht : tlt (m_targets m) (zlen fr + 1).
    Hypothesis Hne : m_targets m <> [].

    Definition like (m' : machine) (ip' : Z) : Prop :=
      m_frames m' = (w, ip') :: fr /\ m_dos m' = m_dos m /\ m_targets m' = m_targets m /\ m_ready m' = m_ready m /\
      shape_ok p e m' = shape_ok p e m.

    Lemma like_CT : forall m' ip', like m' ip' -> memz ip' (s_B sw) = true ->
      CT c ((w, ip') :: fr) (ddepths (m_dos m)) (m_targets m) (m_ready m) /\ shape_ok p e m' = true.
    Proof.
      intros m' ip' [A [B [C [D E]]]] Hb.
      destruct (top_facts _ _ _ _ Hinv Hfr) as [sw' [seg' [Hw' [_ [_ [Hs [Hct _]]]]]]].
      split; [|congruence]. eapply T_setip; [exact Hct | exact Hw | exact Hm | exact Hb].
    Qed.

    Lemma like_inv : forall m' ip', like m' ip' -> memz ip' (s_B sw) = true -> inv c p e m' = true.
    Proof.
      intros m' ip' L Hb. destruct (like_CT _ _ L Hb) as [Hct Hs]. destruct L as [A [B [C [D E]]]].
      apply inv_mk; [assumption|]. rewrite A, B, C, D. assumption.
    Qed.

    Lemma like_good : forall m' ip', like m' ip' -> memz ip' (s_B sw) = true -> good (continue m').
    Proof.
      intros m' ip' L Hb. cbn. split; [destruct L as [_ [_ [C _]]]; congruence|]. intros _. eapply like_inv; eassumption.
    Qed.

    Lemma like_gres : forall m' ip' r, like m' ip' -> memz ip' (s_B sw) = true -> gres p e m' r -> good r.
    Proof.
      intros m' ip' r L Hb G. eapply good_gres; [eapply like_inv; eassumption| |eassumption].
      destruct L as [_ [_ [C _]]]. congruence.
    Qed.

    Lemma like_call : forall m' ip' t, like m' ip' -> memz ip' (s_B sw) = true -> callable c sw t = true ->
      good (push_frame p m' t).
    Proof.
      intros m' ip' t L Hb Hcall. destruct (like_CT _ _ L Hb) as [Hct Hs]. destruct L as [A [B [C [D E]]]].
      unfold push_frame. destruct (depth m' =? p_rec_max p); [apply good_stop; [congruence|discriminate]|].
      cbn. split; [congruence|]. intros _. apply inv_mk; [assumption|].
      cbn [m_frames m_dos m_targets m_ready set_frames]. rewrite A, B, C, D.
      eapply (T_call c p Hsegs); eassumption.
    Qed.

    Lemma like_move : forall m' ip' d, like m' ip' -> exists m'', move_ip m' d = Ok m'' /\ like m'' (ip' + d).
    Proof.
      intros m' ip' d [A [B [C [D E]]]]. unfold move_ip. rewrite A. eexists. split; [reflexivity|].
      repeat split; assumption.
    Qed.

    Lemma like_fetch : forall m' ip' x, like m' ip' -> znth seg ip' = Some x ->
      exists m'', fetch p m' = Ok (x, m'') /\ like m'' (ip' + 1).
    Proof.
      intros m' ip' x [A [B [C [D E]]]] Hx. rewrite (fetch_eq p m' w ip' fr seg x A Hsg Hx). eexists. split; [reflexivity|].
      repeat split; assumption.
    Qed.

    Lemma like_stack : forall m' ip' s, like m' ip' -> like (set_stack m' s) ip'.
    Proof. intros m' ip' s [A [B [C [D E]]]]. repeat split; assumption. Qed.

    Lemma like_stop : forall m' ip' z, like m' ip' -> z <> E_none -> good (stop m' z).
    Proof. intros m' ip' z [A [B [C [D E]]]] Hz. apply good_stop; [congruence|assumption]. Qed.

    Lemma like_m1 : like (set_frames m ((w, ip + 1) :: fr)) (ip + 1).
    Proof. repeat split; reflexivity. Qed.

    Lemma dos_len_ge : s_dd sw <= zlen (m_dos m).
    Proof.
      destruct (top_facts _ _ _ _ Hinv Hfr) as [sw' [seg' [Hw' [_ [_ [Hs [Hct [_ [_ Hch]]]]]]]]].
      assert (sw' = sw) by congruence; subst sw'. destruct Hct as [F _].
      destruct (frames_ok_top _ _ _ _ _ _ F) as [sw2 [Hw2 [_ [_ [H3 _]]]]]. assert (sw2 = sw) by congruence; subst sw2.
      pose proof (below_mono (ddepths (m_dos m)) (zlen fr + 1) (zlen fr + 1 + 1) ltac:(lia)) as Hmono.
      rewrite (chain_ok_below _ _ _ (zlen fr + 1 + 1) Hch) in Hmono by lia. rewrite ddepths_len in Hmono.
      clear - H3 Hmono. lia.
    Qed.

    Lemma index_good : forall k m', like m' (ip + 1) -> memz (ip + 1) (s_B sw) = true -> Z.of_nat k + 1 <= s_dd sw ->
      good (if can_push p m' then match do_index m' k with Some i => push p m' (wrap (p_w p) i) | None => Fault F_loopindex end
            else stop m' E_overflow).
    Proof.
      intros k m' L Hb Hk. destruct (can_push p m'); [|eapply like_stop; [eassumption|discriminate]].
      pose proof dos_len_ge as Hl. unfold do_index. pose proof L as [A [B _]]. rewrite B.
      destruct (nth_error (m_dos m) k) as [[[dd ds] di]|] eqn:En.
      - eapply like_gres; [exact L|exact Hb|apply push_ds].
      - apply nth_error_None in En. unfold zlen in Hl. lia.
    Qed.

    Lemma exec_op_good : forall single bc, memz ip (s_B sw) = true -> znth seg ip = Some bc ->
      good (exec_op true single p e (set_frames m ((w, ip + 1) :: fr)) bc).
    Proof.
      intros single bc Hb Hbc. pose proof (boundary_instr _ _ _ _ Hck Hb Hbc) as Hci.
      pose proof like_m1 as L1. set (m1 := set_frames m ((w, ip + 1) :: fr)) in *.
      destruct (top_facts _ _ _ _ Hinv Hfr) as [sw' [seg' [Hw' [_ [_ [Hs [Hct [_ [Hnx Hch]]]]]]]]].
      assert (sw' = sw) by congruence; subst sw'.
      unfold check_instr in Hci. unfold exec_op. cbv zeta in Hci.
      destruct (bc <? 0) eqn:Eneg.
      { (* typed reads *)
        bsplit. unfold cell_is in H. destruct (znth seg (ip + 1)) as [inp|] eqn:Einp; [|discriminate].
        rewrite exec_read_unfold. destruct (like_fetch _ _ _ L1 Einp) as [m2 [Hf2 L2]]. rewrite Hf2.
        rewrite add11 in *.
        assert (Hrb : forall n m', like m' (ip + 2) -> good (read_body p e bc inp n m')).
        { intros n m' L'. pose proof L' as [A [B [C [D E]]]].
          assert (Hs' : shape_ok p e m' = true) by congruence.
          eapply good_rres; [| |eapply (read_body_rres p e m' w (ip + 2) fr seg bc inp n); eassumption].
          - eapply like_inv; [|eassumption]. split; [reflexivity|]. split; [exact B|]. split; [exact C|]. split; [exact D|exact E].
          - congruence. }
        destruct (negb (Z.land (- bc - 1) READ_REPEATED =? 0)).
        - destruct (m_stack m2) as [|n s]; [eapply like_stop; [eassumption|discriminate]|].
          apply Hrb. apply like_stack. assumption.
        - apply Hrb. assumption. }
      destruct (BOUND_DICTIONARY <=? bc) eqn:Ecall.
      { bsplit. eapply like_call; eassumption. }
      destruct (bc =? CODE_EXIT) eqn:Eexit.
      { (* exit: no do-loop is active *)
        bsplit. unfold cell_is in H. destruct (znth seg (ip + 1)) as [k|] eqn:Ek; [|discriminate].
        assert (k = s_ed sw) by (clear - H; lia). subst k.
        assert (Hdl : ddepths (m_dos m) = []).
        { eapply chain_nodo; [eassumption|assumption|]. destruct Hnx as [Hnx|Hnx]; [assumption|]. rewrite Hnx in H1. discriminate. }
        pose proof (ddepths_nil _ Hdl) as Hdos.
        rewrite Hdl in Hct. destruct (T_exit c p Hsegs _ _ _ _ _ _ Hct Hw Ht) as [Hct' Hle].
        rewrite andb_false_r. unfold exec_exit.
        destruct (like_fetch _ _ _ L1 Ek) as [m2 [Hf2 L2]]. rewrite Hf2. destruct L2 as [A [B [C [D E]]]].
        unfold depth. rewrite A, zlen_cons.
        assert (Hf0 : (s_ed sw <? 0) || (zlen fr + 1 <? s_ed sw) = false) by (clear - Hle; lia). rewrite Hf0.
        destruct (skipn_cons_tl _ (Z.to_nat (s_ed sw)) (w, ip + 1 + 1) fr) as [f Hf]; [clear - Hle; unfold zlen in Hle; lia|].
        unfold pop_incr. cbn [m_frames set_frames set_dos m_dos]. rewrite Hf. cbn [m_dos set_frames set_dos].
        rewrite B, Hdos. cbn [drop_dos]. cbn. split; [congruence|]. intros _. apply inv_mk; [rewrite <- Hs, <- E; reflexivity|].
        cbn [m_frames m_dos m_targets m_ready set_frames set_dos]. rewrite C, D. exact Hct'. }
      unfold exec_builtin. cbv zeta.
      destruct (bc =? CODE_LITERAL) eqn:E0.
      { assert (bc = CODE_LITERAL) by (clear - E0; lia). subst bc. bsplit. unfold cell_is in H.
        destruct (znth seg (ip + 1)) as [a|] eqn:Ea; [|discriminate]. destruct L1 as [A L1'].
        pose proof (builtin_arg_gres p e m1 w (ip + 1) fr seg a CODE_LITERAL A Hsg Ea Hs (or_introl eq_refl)) as G.
        unfold exec_builtin in G. cbv zeta in G. rewrite E0 in G.
        eapply like_gres; [|exact H0|exact G]. rewrite <- add11. repeat split; reflexivity. }
      destruct (bc =? CODE_HALT) eqn:E1.
      { cbn. split; [|intros [Hx|Hx]; discriminate].
        pose proof (rev_nonempty _ Hne) as Hr. destruct (rev (m_targets m)); [contradiction|discriminate]. }
      destruct (bc =? CODE_PAUSE) eqn:E2.
      { rewrite (segdone_eq m1 w (ip + 1) fr seg eq_refl Hsg).
        assert (Hi1 : inv c p e m1 = true) by (eapply like_inv; eassumption).
        destruct (negb (ip + 1 <? zlen seg)).
        - pose proof (pop_incr_good m1 w (ip + 1) fr Hi1 eq_refl Hm Ht Hne) as G.
          destruct (pop_incr m1) as [[fl m']|k|]; [|exact G|exact I]. eapply good_return. exact G.
        - cbn. split; [assumption|]. intros _. assumption. }
      destruct (bc =? CODE_IF) eqn:E3.
      { bsplit. destruct (m_stack m1) as [|v s]; [eapply like_stop; [eassumption|discriminate]|].
        pose proof (like_stack _ _ s L1) as L2. destruct (v =? 0).
        - destruct (like_move _ _ 1 L2) as [m3 [Hmv L3]]. rewrite Hmv. eapply like_good; [eassumption|].
          rewrite add11. assumption.
        - eapply like_good; eassumption. }
      destruct (bc =? CODE_IF_ELSE) eqn:E4.
      { bsplit. unfold cell_is in H. destruct (znth seg (ip + 1)) as [t|] eqn:Et; [|discriminate].
        destruct (m_stack m1) as [|v s]; [eapply like_stop; [eassumption|discriminate]|].
        pose proof (like_stack _ _ s L1) as L2. destruct (v =? 0).
        - destruct (like_move _ _ 1 L2) as [m3 [Hmv L3]]. rewrite Hmv. eapply like_good; [eassumption|].
          rewrite add11. assumption.
        - destruct (like_fetch _ _ _ L2 Et) as [m3 [Hf3 L3]]. rewrite Hf3.
          destruct (like_move _ _ 1 L3) as [m4 [Hmv L4]]. rewrite Hmv.
          eapply like_call; [eassumption| |eassumption]. rewrite add111. assumption. }
      destruct ((bc =? CODE_DO) || (bc =? CODE_DO_STEP)) eqn:E5.
      { destruct (m_stack m1) as [|start [|stp s]]; try (eapply like_stop; [eassumption|discriminate]).
        pose proof (like_stack _ _ s L1) as L2. destruct (zlen (m_dos (set_stack m1 s)) =? p_rec_max p);
          [eapply like_stop; [eassumption|discriminate]|].
        pose proof (zlen_nonneg _ fr) as Hnn.
        remember (if bc =? CODE_DO then depth (set_stack m1 s) else - depth (set_stack m1 s) - 1) as d eqn:Ed.
        assert (Hd : abs_depth d = zlen fr + 1).
        { subst d. unfold depth. cbn [m_frames set_stack set_frames m1]. rewrite zlen_cons. unfold abs_depth.
          clear - Hnn. destruct (bc =? CODE_DO); [destruct (zlen fr + 1 <? 0) eqn:En; lia|destruct (- (zlen fr + 1) - 1 <? 0) eqn:En; lia]. }
        cbn [good continue]. split; [assumption|]. intros _. apply inv_mk; [exact Hs|].
        cbn [m_frames m_dos m_targets m_ready set_frames set_dos set_stack m1]. rewrite ddepths_cons, Hd.
        eapply (T_do c p Hsegs); eassumption. }
      destruct (bc =? CODE_AGAIN) eqn:E6.
      { destruct (like_move _ _ (-2) L1) as [m3 [Hmv L3]]. rewrite Hmv. eapply like_good; [eassumption|].
        rewrite add1m2. assumption. }
      destruct (bc =? CODE_UNTIL) eqn:E7.
      { bsplit. destruct (m_stack m1) as [|v s]; [eapply like_stop; [eassumption|discriminate]|].
        pose proof (like_stack _ _ s L1) as L2. destruct (v =? 0).
        - destruct (like_move _ _ (-2) L2) as [m3 [Hmv L3]]. rewrite Hmv. eapply like_good; [eassumption|].
          rewrite add1m2. assumption.
        - eapply like_good; eassumption. }
      destruct (bc =? CODE_WHILE) eqn:E8.
      { bsplit. unfold cell_is in H. destruct (znth seg (ip + 1)) as [t|] eqn:Et; [|discriminate].
        destruct (m_stack m1) as [|v s]; [eapply like_stop; [eassumption|discriminate]|].
        pose proof (like_stack _ _ s L1) as L2. destruct (v =? 0).
        - destruct (like_move _ _ 1 L2) as [m3 [Hmv L3]]. rewrite Hmv. eapply like_good; [eassumption|].
          rewrite add11. assumption.
        - destruct (like_fetch _ _ _ L2 Et) as [m3 [Hf3 L3]]. rewrite Hf3.
          destruct (like_move _ _ (-3) L3) as [m4 [Hmv L4]]. rewrite Hmv.
          eapply like_call; [eassumption| |eassumption]. rewrite add11m3. assumption. }
      (* instructions with one argument cell *)
      assert (Harg : forall a, znth seg (ip + 1) = Some a -> memz (ip + 2) (s_B sw) = true ->
                (bc = CODE_LITERAL \/
                 ((bc = CODE_PUT \/ bc = CODE_INC \/ bc = CODE_GET) /\ in_range a (n_vars p) = true) \/
                 ((bc = CODE_LEN_INPUT \/ bc = CODE_POS \/ bc = CODE_END \/ bc = CODE_SEEK \/ bc = CODE_SKIP) /\
                  in_range a (n_ins p) = true) \/
                 ((bc = CODE_WRITE \/ bc = CODE_WRITE_ADD \/ bc = CODE_WRITE_DUP \/ bc = CODE_LEN_OUTPUT \/ bc = CODE_REWIND) /\
                  in_range a (n_outs p) = true)) -> good (exec_builtin p e m1 bc)).
      { intros a Ea HB Hcl. destruct L1 as [A L1'].
        pose proof (builtin_arg_gres p e m1 w (ip + 1) fr seg a bc A Hsg Ea Hs Hcl) as G.
        eapply like_gres; [|exact HB|exact G]. rewrite <- add11. repeat split; reflexivity. }
      assert (Hfold : forall X, good (exec_builtin p e m1 bc) -> exec_builtin p e m1 bc = X -> good X) by (intros; subst; assumption).
      destruct ((bc =? CODE_PUT) || (bc =? CODE_INC) || (bc =? CODE_GET)) eqn:E9.
      { bsplit. unfold cell_is in H. destruct (znth seg (ip + 1)) as [a|] eqn:Ea; [|discriminate].
        eapply Hfold; [eapply Harg; [reflexivity|assumption|right; left; split; [clear - E9; lia|assumption]]|].
        unfold exec_builtin. cbv zeta. rewrite E0, E1, E2, E3, E4, E5, E6, E7, E8. reflexivity. }
      destruct ((bc =? CODE_LEN_INPUT) || (bc =? CODE_POS) || (bc =? CODE_END) || (bc =? CODE_SEEK) || (bc =? CODE_SKIP)) eqn:E10.
      { bsplit. unfold cell_is in H. destruct (znth seg (ip + 1)) as [a|] eqn:Ea; [|discriminate].
        eapply Hfold; [eapply Harg; [reflexivity|assumption|right; right; left; split; [clear - E10; lia|assumption]]|].
        unfold exec_builtin. cbv zeta. rewrite E0, E1, E2, E3, E4, E5, E6, E7, E8. reflexivity. }
      destruct ((bc =? CODE_WRITE) || (bc =? CODE_WRITE_ADD) || (bc =? CODE_WRITE_DUP) || (bc =? CODE_LEN_OUTPUT) || (bc =? CODE_REWIND)) eqn:E11.
      { bsplit. unfold cell_is in H. destruct (znth seg (ip + 1)) as [a|] eqn:Ea; [|discriminate].
        eapply Hfold; [eapply Harg; [reflexivity|assumption|right; right; right; split; [clear - E11; lia|assumption]]|].
        unfold exec_builtin. cbv zeta. rewrite E0, E1, E2, E3, E4, E5, E6, E7, E8. reflexivity. }
      repeat match goal with
             | H : (_ || _) = false |- _ => apply orb_false_iff in H; destruct H
             end.
      repeat match goal with N : (bc =? _) = false |- _ => rewrite N end.
      destruct (bc =? CODE_I) eqn:E12. { bsplit. apply (index_good 0); [assumption|assumption|match goal with H : (_ <=? s_dd sw) = true |- _ => clear - H; cbn; lia end]. }
      destruct (bc =? CODE_J) eqn:E13. { bsplit. apply (index_good 1); [assumption|assumption|match goal with H : (_ <=? s_dd sw) = true |- _ => clear - H; cbn; lia end]. }
      destruct (bc =? CODE_K) eqn:E14. { bsplit. apply (index_good 2); [assumption|assumption|match goal with H : (_ <=? s_dd sw) = true |- _ => clear - H; cbn; lia end]. }
      destruct ((CODE_DUP <=? bc) && (bc <=? CODE_TRUE)) eqn:E15; [|discriminate].
      assert (Hrange15 : CODE_DUP <= bc <= CODE_TRUE) by (clear - E15; lia). destruct (word_of_code bc Hrange15) as [x Hx].
      destruct (word_res p e m1 x) as [s' [z [Hr|Hr]]].
      - eapply Hfold; [rewrite Hx, Hr; eapply like_good; [apply like_stack; eassumption|assumption]|].
        unfold exec_builtin. cbv zeta.
        repeat match goal with N : (bc =? _) = false |- _ => rewrite N end. reflexivity.
      - eapply Hfold.
        + rewrite Hx, Hr. cbn. split; [assumption|]. intros _.
          eapply like_inv; [|exact Hci]. repeat split; reflexivity.
        + unfold exec_builtin. cbv zeta.
          repeat match goal with N : (bc =? _) = false |- _ => rewrite N end. reflexivity.
    Qed.
  End Ordinary.
End Machine.
