(** Props_C13d.v -- second file of C13 property theorems (statements only, each proved by [exact] of a lemma of the
    Proofs_C13d*.v files, each followed by Print Assumptions): the kernels of Kernels.v that had no theorem, or only one
    kind, before.  Tags (* @kernel kind *) are read by the harness. *)
From Coq Require Import ZArith List Bool.
From AwkV Require Import Base.
From AwkKernels Require Import Kernels KLemmas Proofs_C13 Proofs_C13b Proofs_C13c Proofs_C13d Proofs_C13d2 Proofs_C13d3 Proofs_C13d3b Proofs_C13d4 Proofs_C13d4b Proofs_C13d5 Proofs_C13d6 Proofs_C13d7 Proofs_C13d8 Proofs_C13d9 Proofs_C13d10 Proofs_C13d11.
Import ListNotations.
Open Scope Z_scope.

(* @awkward_regularize_arrayslice k_safe *)
Theorem C13_regularize_arrayslice_safe :
  forall tT flathead lenflathead length,
  lenflathead <= zlen flathead -> regularize_arrayslice tT flathead lenflathead length <> KOob.
Proof. exact regularize_arrayslice_safe. Qed.
Print Assumptions C13_regularize_arrayslice_safe.

(* @awkward_regularize_arrayslice k_spec *)
Theorem C13_regularize_arrayslice_spec :
  forall flathead length,
  (forall i, 0 <= i < zlen flathead -> - length <= at_ flathead i < length) ->
  regularize_arrayslice TIdeal flathead (zlen flathead) length
  = KOk (map (fun x => if x <? 0 then x + length else x) flathead).
Proof. exact regularize_arrayslice_spec. Qed.
Print Assumptions C13_regularize_arrayslice_spec.

(* @awkward_regularize_arrayslice k_width *)
Theorem C13_regularize_arrayslice_width :
  forall tT flathead lenflathead length,
  lenflathead <= zlen flathead ->
  (forall i, 0 <= i < lenflathead -> fits tT (at_ flathead i + length)) ->
  regularize_arrayslice tT flathead lenflathead length = regularize_arrayslice TIdeal flathead lenflathead length.
Proof. exact regularize_arrayslice_width. Qed.
Print Assumptions C13_regularize_arrayslice_width.

(* @awkward_ListArray_getitem_next_array k_safe *)
Theorem C13_ListArray_getitem_next_array_safe :
  forall tocarry toadvanced starts stops fromarray lenstarts lenarray lencontent,
  lenstarts <= zlen starts -> lenstarts <= zlen stops -> lenarray <= zlen fromarray ->
  lenstarts * lenarray <= zlen tocarry -> lenstarts * lenarray <= zlen toadvanced ->
  ListArray_getitem_next_array tocarry toadvanced starts stops fromarray lenstarts lenarray lencontent <> KOob.
Proof. exact ListArray_getitem_next_array_safe. Qed.
Print Assumptions C13_ListArray_getitem_next_array_safe.

(* @awkward_ListArray_getitem_next_array_advanced k_safe *)
Theorem C13_ListArray_getitem_next_array_advanced_safe :
  forall tocarry toadvanced starts stops fromarray fromadvanced lenstarts lenarray lencontent,
  lenstarts <= zlen starts -> lenstarts <= zlen stops -> lenstarts <= zlen fromadvanced ->
  lenstarts <= zlen tocarry -> lenstarts <= zlen toadvanced ->
  (forall i, 0 <= i < lenstarts -> 0 <= at_ fromadvanced i < zlen fromarray) ->
  ListArray_getitem_next_array_advanced tocarry toadvanced starts stops fromarray fromadvanced lenstarts lenarray lencontent <> KOob.
Proof. exact ListArray_getitem_next_array_advanced_safe. Qed.
Print Assumptions C13_ListArray_getitem_next_array_advanced_safe.

(* @awkward_RegularArray_getitem_next_array k_safe *)
Theorem C13_RegularArray_getitem_next_array_safe :
  forall tocarry toadvanced fromarray length lenarray size,
  lenarray <= zlen fromarray -> length * lenarray <= zlen tocarry -> length * lenarray <= zlen toadvanced ->
  RegularArray_getitem_next_array tocarry toadvanced fromarray length lenarray size <> KOob.
Proof. exact RegularArray_getitem_next_array_safe. Qed.
Print Assumptions C13_RegularArray_getitem_next_array_safe.

(* @awkward_RegularArray_getitem_next_array_advanced k_safe *)
Theorem C13_RegularArray_getitem_next_array_advanced_safe :
  forall tocarry toadvanced fromadvanced fromarray length lenarray size,
  length <= zlen fromadvanced -> length <= zlen tocarry -> length <= zlen toadvanced ->
  (forall i, 0 <= i < length -> 0 <= at_ fromadvanced i < zlen fromarray) ->
  RegularArray_getitem_next_array_advanced tocarry toadvanced fromadvanced fromarray length lenarray size <> KOob.
Proof. exact RegularArray_getitem_next_array_advanced_safe. Qed.
Print Assumptions C13_RegularArray_getitem_next_array_advanced_safe.

(* @awkward_RegularArray_getitem_next_array_regularize k_safe *)
Theorem C13_RegularArray_getitem_next_array_regularize_safe :
  forall toarray fromarray lenarray size,
  lenarray <= zlen fromarray -> lenarray <= zlen toarray ->
  RegularArray_getitem_next_array_regularize toarray fromarray lenarray size <> KOob.
Proof. exact RegularArray_getitem_next_array_regularize_safe. Qed.
Print Assumptions C13_RegularArray_getitem_next_array_regularize_safe.

(* @awkward_RegularArray_getitem_next_range_spreadadvanced k_safe *)
Theorem C13_RegularArray_getitem_next_range_spreadadvanced_safe :
  forall toadvanced fromadvanced length nextsize,
  length <= zlen fromadvanced -> length * nextsize <= zlen toadvanced ->
  RegularArray_getitem_next_range_spreadadvanced toadvanced fromadvanced length nextsize <> KOob.
Proof. exact RegularArray_getitem_next_range_spreadadvanced_safe. Qed.
Print Assumptions C13_RegularArray_getitem_next_range_spreadadvanced_safe.

(* @awkward_ListArray_getitem_next_range k_safe *)
Theorem C13_ListArray_getitem_next_range_safe :
  forall tC tT tooffsets tocarry starts stops lenstarts start stop step,
  1 <= zlen tooffsets -> lenstarts + 1 <= zlen tooffsets -> lenstarts <= zlen starts -> lenstarts <= zlen stops ->
  range_total tC start stop step starts stops (Z.to_nat lenstarts) <= zlen tocarry ->
  ListArray_getitem_next_range tC tT tooffsets tocarry starts stops lenstarts start stop step <> KOob.
Proof. exact ListArray_getitem_next_range_safe. Qed.
Print Assumptions C13_ListArray_getitem_next_range_safe.

(* @awkward_ListArray_getitem_next_range_carrylength k_safe *)
Theorem C13_ListArray_getitem_next_range_carrylength_safe :
  forall tC carrylength starts stops lenstarts start stop step,
  1 <= zlen carrylength -> lenstarts <= zlen starts -> lenstarts <= zlen stops ->
  ListArray_getitem_next_range_carrylength tC carrylength starts stops lenstarts start stop step <> KOob.
Proof. exact ListArray_getitem_next_range_carrylength_safe. Qed.
Print Assumptions C13_ListArray_getitem_next_range_carrylength_safe.

(* @awkward_ListArray_getitem_next_range_carrylength k_spec *)
Theorem C13_ListArray_getitem_next_range_carrylength_spec :
  forall tC carrylength starts stops lenstarts start stop step,
  step <> 0 -> 0 <= lenstarts ->
  1 <= zlen carrylength -> lenstarts <= zlen starts -> lenstarts <= zlen stops ->
  ListArray_getitem_next_range_carrylength tC carrylength starts stops lenstarts start stop step
  = KOk (set_nth carrylength 0 (range_total tC start stop step starts stops (Z.to_nat lenstarts))).
Proof. exact ListArray_getitem_next_range_carrylength_spec. Qed.
Print Assumptions C13_ListArray_getitem_next_range_carrylength_spec.

(* @awkward_ListArray_getitem_next_range_counts k_safe *)
Theorem C13_ListArray_getitem_next_range_counts_safe :
  forall tC total fromoffsets lenstarts,
  1 <= zlen total -> lenstarts + 1 <= zlen fromoffsets ->
  ListArray_getitem_next_range_counts tC total fromoffsets lenstarts <> KOob.
Proof. exact ListArray_getitem_next_range_counts_safe. Qed.
Print Assumptions C13_ListArray_getitem_next_range_counts_safe.

(* @awkward_ListArray_getitem_next_range_counts k_spec *)
Theorem C13_ListArray_getitem_next_range_counts_spec :
  forall tC total fromoffsets lenstarts,
  0 <= lenstarts -> 1 <= zlen total -> lenstarts + 1 <= zlen fromoffsets ->
  (forall i, 0 <= i <= lenstarts -> fits i64 (at_ fromoffsets i - at_ fromoffsets 0)) ->
  ListArray_getitem_next_range_counts tC total fromoffsets lenstarts
  = KOk (set_nth total 0 (at_ fromoffsets lenstarts - at_ fromoffsets 0)).
Proof. exact ListArray_getitem_next_range_counts_spec. Qed.
Print Assumptions C13_ListArray_getitem_next_range_counts_spec.

(* @awkward_ListArray_getitem_next_range_spreadadvanced k_safe *)
Theorem C13_ListArray_getitem_next_range_spreadadvanced_safe :
  forall tC toadvanced fromadvanced fromoffsets lenstarts,
  lenstarts + 1 <= zlen fromoffsets -> lenstarts <= zlen fromadvanced ->
  (forall i, 0 <= i < lenstarts ->
     0 <= at_ fromoffsets i /\
     at_ fromoffsets i + wrap tC (at_ fromoffsets (i + 1) - at_ fromoffsets i) <= zlen toadvanced) ->
  ListArray_getitem_next_range_spreadadvanced tC toadvanced fromadvanced fromoffsets lenstarts <> KOob.
Proof. exact ListArray_getitem_next_range_spreadadvanced_safe. Qed.
Print Assumptions C13_ListArray_getitem_next_range_spreadadvanced_safe.

(* @awkward_IndexedArray_getitem_nextcarry_outindex k_safe *)
Theorem C13_IndexedArray_getitem_nextcarry_outindex_safe :
  forall tC tocarry toindex fromindex lenindex lencontent,
  lenindex <= zlen fromindex -> lenindex <= zlen toindex ->
  cnt_upto nonneg fromindex lenindex <= zlen tocarry ->
  IndexedArray_getitem_nextcarry_outindex tC tocarry toindex fromindex lenindex lencontent <> KOob.
Proof. exact IndexedArray_getitem_nextcarry_outindex_safe. Qed.
Print Assumptions C13_IndexedArray_getitem_nextcarry_outindex_safe.

(* @awkward_IndexedArray_getitem_nextcarry_outindex_mask k_safe *)
Theorem C13_IndexedArray_getitem_nextcarry_outindex_mask_safe :
  forall tC tocarry toindex fromindex lenindex lencontent,
  lenindex <= zlen fromindex -> lenindex <= zlen toindex ->
  cnt_upto nonneg fromindex lenindex <= zlen tocarry ->
  IndexedArray_getitem_nextcarry_outindex tC tocarry toindex fromindex lenindex lencontent <> KOob.
Proof. exact IndexedArray_getitem_nextcarry_outindex_mask_safe. Qed.
Print Assumptions C13_IndexedArray_getitem_nextcarry_outindex_mask_safe.

(* @awkward_ByteMaskedArray_getitem_nextcarry_outindex k_safe *)
Theorem C13_ByteMaskedArray_getitem_nextcarry_outindex_safe :
  forall tocarry outindex mask length validwhen,
  length <= zlen mask -> length <= zlen outindex ->
  cnt_upto (mask_valid validwhen) mask length <= zlen tocarry ->
  ByteMaskedArray_getitem_nextcarry_outindex tocarry outindex mask length validwhen <> KOob.
Proof. exact ByteMaskedArray_getitem_nextcarry_outindex_safe. Qed.
Print Assumptions C13_ByteMaskedArray_getitem_nextcarry_outindex_safe.

(* @awkward_IndexedArray_flatten_none2empty k_safe *)
Theorem C13_IndexedArray_flatten_none2empty_safe :
  forall tT outoffsets outindex outindexlength offsets offsetslength,
  1 <= zlen offsets -> offsetslength <= zlen offsets -> outindexlength <= zlen outindex ->
  1 <= zlen outoffsets -> outindexlength + 1 <= zlen outoffsets ->
  IndexedArray_flatten_none2empty tT outoffsets outindex outindexlength offsets offsetslength <> KOob.
Proof. exact IndexedArray_flatten_none2empty_safe. Qed.
Print Assumptions C13_IndexedArray_flatten_none2empty_safe.

(* @awkward_BitMaskedArray_to_ByteMaskedArray k_safe *)
Theorem C13_BitMaskedArray_to_ByteMaskedArray_safe :
  forall tobytemask frombitmask bitmasklength validwhen lsb_order,
  bitmasklength <= zlen frombitmask -> bitmasklength * 8 <= zlen tobytemask ->
  BitMaskedArray_to_ByteMaskedArray tobytemask frombitmask bitmasklength validwhen lsb_order <> KOob.
Proof. exact BitMaskedArray_to_ByteMaskedArray_safe. Qed.
Print Assumptions C13_BitMaskedArray_to_ByteMaskedArray_safe.

(* @awkward_BitMaskedArray_to_ByteMaskedArray k_spec *)
Theorem C13_BitMaskedArray_to_ByteMaskedArray_spec :
  forall tobytemask frombitmask bitmasklength validwhen lsb_order,
  0 <= bitmasklength -> bitmasklength <= zlen frombitmask -> bitmasklength * 8 <= zlen tobytemask ->
  exists out, BitMaskedArray_to_ByteMaskedArray tobytemask frombitmask bitmasklength validwhen lsb_order = KOk out /\
    zlen out = zlen tobytemask /\
    forall q, 0 <= q ->
      at_ out q = if q <? bitmasklength * 8
                  then (if Bool.eqb (bit (at_ frombitmask (q / 8)) (if lsb_order then q mod 8 else 7 - q mod 8)) validwhen
                        then 0 else 1)
                  else at_ tobytemask q.
Proof. exact BitMaskedArray_to_ByteMaskedArray_spec. Qed.
Print Assumptions C13_BitMaskedArray_to_ByteMaskedArray_spec.

(* @awkward_BitMaskedArray_to_IndexedOptionArray k_safe *)
Theorem C13_BitMaskedArray_to_IndexedOptionArray_safe :
  forall toindex frombitmask bitmasklength validwhen lsb_order,
  bitmasklength <= zlen frombitmask -> bitmasklength * 8 <= zlen toindex ->
  BitMaskedArray_to_IndexedOptionArray toindex frombitmask bitmasklength validwhen lsb_order <> KOob.
Proof. exact BitMaskedArray_to_IndexedOptionArray_safe. Qed.
Print Assumptions C13_BitMaskedArray_to_IndexedOptionArray_safe.

(* @awkward_BitMaskedArray_to_IndexedOptionArray k_spec *)
Theorem C13_BitMaskedArray_to_IndexedOptionArray_spec :
  forall toindex frombitmask bitmasklength validwhen lsb_order,
  0 <= bitmasklength -> bitmasklength <= zlen frombitmask -> bitmasklength * 8 <= zlen toindex ->
  exists out, BitMaskedArray_to_IndexedOptionArray toindex frombitmask bitmasklength validwhen lsb_order = KOk out /\
    zlen out = zlen toindex /\
    forall q, 0 <= q ->
      at_ out q = if q <? bitmasklength * 8
                  then (if Bool.eqb (bit (at_ frombitmask (q / 8)) (if lsb_order then q mod 8 else 7 - q mod 8)) validwhen
                        then q else -1)
                  else at_ toindex q.
Proof. exact BitMaskedArray_to_IndexedOptionArray_spec. Qed.
Print Assumptions C13_BitMaskedArray_to_IndexedOptionArray_spec.

(* @awkward_ListOffsetArray_rpad_length_axis1 k_safe *)
Theorem C13_ListOffsetArray_rpad_length_axis1_safe :
  forall tC tooffsets fromoffsets fromlength target tolength,
  1 <= zlen tooffsets -> fromlength + 1 <= zlen tooffsets -> fromlength + 1 <= zlen fromoffsets -> 1 <= zlen tolength ->
  ListOffsetArray_rpad_length_axis1 tC tooffsets fromoffsets fromlength target tolength <> KOob.
Proof. exact ListOffsetArray_rpad_length_axis1_safe. Qed.
Print Assumptions C13_ListOffsetArray_rpad_length_axis1_safe.

(* @awkward_ListOffsetArray_rpad_axis1 k_safe *)
Theorem C13_ListOffsetArray_rpad_axis1_safe :
  forall toindex fromoffsets fromlength target,
  fromlength + 1 <= zlen fromoffsets ->
  (forall i, 0 <= i < fromlength -> at_ fromoffsets i <= at_ fromoffsets (i + 1)) ->
  (forall i, 0 <= i <= fromlength -> rpad_total fromoffsets target (Z.to_nat i) <= zlen toindex) ->
  ListOffsetArray_rpad_axis1 toindex fromoffsets fromlength target <> KOob.
Proof. exact ListOffsetArray_rpad_axis1_safe. Qed.
Print Assumptions C13_ListOffsetArray_rpad_axis1_safe.

(* @awkward_ListOffsetArray_rpad_and_clip_axis1 k_safe *)
Theorem C13_ListOffsetArray_rpad_and_clip_axis1_safe :
  forall toindex fromoffsets length target,
  length + 1 <= zlen fromoffsets -> length * target <= zlen toindex ->
  (forall i, 0 <= i < length -> at_ fromoffsets i <= at_ fromoffsets (i + 1)) ->
  ListOffsetArray_rpad_and_clip_axis1 toindex fromoffsets length target <> KOob.
Proof. exact ListOffsetArray_rpad_and_clip_axis1_safe. Qed.
Print Assumptions C13_ListOffsetArray_rpad_and_clip_axis1_safe.

(* @awkward_ListArray_rpad_axis1 k_safe *)
Theorem C13_ListArray_rpad_axis1_safe :
  forall tC toindex starts stops tostarts tostops target length,
  length <= zlen starts -> length <= zlen stops -> length <= zlen tostarts -> length <= zlen tostops ->
  (forall i, 0 <= i < length ->
     let r := wrap tC (at_ stops i - at_ starts i) in
     let off := rpad_off tC target starts stops (Z.to_nat i) in
     0 <= r /\ 0 <= off /\ off + Z.max r target <= zlen toindex) ->
  ListArray_rpad_axis1 tC toindex starts stops tostarts tostops target length <> KOob.
Proof. exact ListArray_rpad_axis1_safe. Qed.
Print Assumptions C13_ListArray_rpad_axis1_safe.

(* @awkward_RegularArray_broadcast_tooffsets_size1 k_safe *)
Theorem C13_RegularArray_broadcast_tooffsets_size1_safe :
  forall tT tocarry fromoffsets offsetslength,
  offsetslength <= zlen fromoffsets ->
  (forall k, 0 <= k <= offsetslength - 1 -> bc_total tT fromoffsets (Z.to_nat k) <= zlen tocarry) ->
  RegularArray_broadcast_tooffsets_size1 tT tocarry fromoffsets offsetslength <> KOob.
Proof. exact RegularArray_broadcast_tooffsets_size1_safe. Qed.
Print Assumptions C13_RegularArray_broadcast_tooffsets_size1_safe.

(* @awkward_ListArray_broadcast_tooffsets k_safe *)
Theorem C13_ListArray_broadcast_tooffsets_safe :
  forall tT tocarry fromoffsets offsetslength starts stops lencontent,
  offsetslength <= zlen fromoffsets -> offsetslength - 1 <= zlen starts -> offsetslength - 1 <= zlen stops ->
  (forall k, 0 <= k <= offsetslength - 1 -> bc_total tT fromoffsets (Z.to_nat k) <= zlen tocarry) ->
  ListArray_broadcast_tooffsets tT tocarry fromoffsets offsetslength starts stops lencontent <> KOob.
Proof. exact ListArray_broadcast_tooffsets_safe. Qed.
Print Assumptions C13_ListArray_broadcast_tooffsets_safe.

(* @awkward_ListArray_fill k_safe *)
Theorem C13_ListArray_fill_safe :
  forall tTO tostarts tostartsoffset tostops tostopsoffset fromstarts fromstops length base,
  0 <= tostartsoffset -> 0 <= tostopsoffset -> length <= zlen fromstarts -> length <= zlen fromstops ->
  tostartsoffset + length <= zlen tostarts -> tostopsoffset + length <= zlen tostops ->
  ListArray_fill tTO tostarts tostartsoffset tostops tostopsoffset fromstarts fromstops length base <> KOob.
Proof. exact ListArray_fill_safe. Qed.
Print Assumptions C13_ListArray_fill_safe.

(* @awkward_ListArray_fill k_spec *)
Theorem C13_ListArray_fill_spec :
  forall tostarts tostartsoffset tostops tostopsoffset fromstarts fromstops length base,
  0 <= tostartsoffset -> 0 <= tostopsoffset -> 0 <= length -> length <= zlen fromstarts -> length <= zlen fromstops ->
  tostartsoffset + length <= zlen tostarts -> tostopsoffset + length <= zlen tostops ->
  ListArray_fill TIdeal tostarts tostartsoffset tostops tostopsoffset fromstarts fromstops length base
  = KOk (filled tostartsoffset length (fun i => at_ fromstarts i + base) tostarts,
         filled tostopsoffset length (fun i => at_ fromstops i + base) tostops).
Proof. exact ListArray_fill_spec. Qed.
Print Assumptions C13_ListArray_fill_spec.

(* @awkward_ListArray_fill k_width *)
Theorem C13_ListArray_fill_width :
  forall tTO tostarts tostartsoffset tostops tostopsoffset fromstarts fromstops length base,
  length <= zlen fromstarts -> length <= zlen fromstops ->
  (forall i, 0 <= i < length -> fits tTO (at_ fromstarts i + base) /\ fits tTO (at_ fromstops i + base)) ->
  ListArray_fill tTO tostarts tostartsoffset tostops tostopsoffset fromstarts fromstops length base
  = ListArray_fill TIdeal tostarts tostartsoffset tostops tostopsoffset fromstarts fromstops length base.
Proof. exact ListArray_fill_width. Qed.
Print Assumptions C13_ListArray_fill_width.

(* @awkward_unique k_safe *)
Theorem C13_unique_safe :
  forall toptr length tolength,
  length <= zlen toptr -> 1 <= zlen tolength -> unique toptr length tolength <> KOob.
Proof. exact unique_safe. Qed.
Print Assumptions C13_unique_safe.

(* @awkward_carry_arange k_safe *)
Theorem C13_carry_arange_safe :
  forall tT toptr length,
  length <= zlen toptr -> localindex tT toptr length <> KOob.
Proof. exact carry_arange_safe. Qed.
Print Assumptions C13_carry_arange_safe.

(* @awkward_carry_arange k_spec *)
Theorem C13_carry_arange_spec :
  forall toptr length,
  0 <= length -> length <= zlen toptr -> localindex TIdeal toptr length = KOk (iota length ++ skipn (Z.to_nat length) toptr).
Proof. exact carry_arange_spec. Qed.
Print Assumptions C13_carry_arange_spec.

(* @awkward_carry_arange k_width *)
Theorem C13_carry_arange_width :
  forall tT toptr length,
  (forall i, 0 <= i < length -> fits tT i) -> localindex tT toptr length = localindex TIdeal toptr length.
Proof. exact carry_arange_width. Qed.
Print Assumptions C13_carry_arange_width.

(* @awkward_new_Identities k_safe *)
Theorem C13_new_Identities_safe :
  forall tT toptr length,
  length <= zlen toptr -> localindex tT toptr length <> KOob.
Proof. exact new_Identities_safe. Qed.
Print Assumptions C13_new_Identities_safe.

(* @awkward_new_Identities k_spec *)
Theorem C13_new_Identities_spec :
  forall toptr length,
  0 <= length -> length <= zlen toptr -> localindex TIdeal toptr length = KOk (iota length ++ skipn (Z.to_nat length) toptr).
Proof. exact new_Identities_spec. Qed.
Print Assumptions C13_new_Identities_spec.

(* @awkward_IndexedArray_getitem_nextcarry_outindex k_spec *)
Theorem C13_IndexedArray_getitem_nextcarry_outindex_spec :
  forall tocarry toindex fromindex lenindex lencontent,
  0 <= lenindex -> lenindex <= zlen fromindex -> lenindex <= zlen toindex ->
  cnt_upto nonneg fromindex lenindex <= zlen tocarry ->
  (forall i, 0 <= i < lenindex -> at_ fromindex i < lencontent) ->
  exists tc ti,
    IndexedArray_getitem_nextcarry_outindex TIdeal tocarry toindex fromindex lenindex lencontent = KOk (tc, ti) /\
    zlen tc = zlen tocarry /\ zlen ti = zlen toindex /\
    (forall q, 0 <= q -> at_ ti q = if q <? lenindex
                                    then (if at_ fromindex q <? 0 then -1 else cnt_upto nonneg fromindex q)
                                    else at_ toindex q) /\
    (forall q, 0 <= q < lenindex -> 0 <= at_ fromindex q -> at_ tc (cnt_upto nonneg fromindex q) = at_ fromindex q) /\
    (forall c, cnt_upto nonneg fromindex lenindex <= c -> at_ tc c = at_ tocarry c).
Proof. exact IndexedArray_getitem_nextcarry_outindex_spec. Qed.
Print Assumptions C13_IndexedArray_getitem_nextcarry_outindex_spec.

(* @awkward_IndexedArray_getitem_nextcarry_outindex k_width *)
Theorem C13_IndexedArray_getitem_nextcarry_outindex_width :
  forall tC tocarry toindex fromindex lenindex lencontent,
  fits tC (-1) -> (forall j, 0 <= j <= lenindex -> fits tC j) ->
  lenindex <= zlen fromindex ->
  IndexedArray_getitem_nextcarry_outindex tC tocarry toindex fromindex lenindex lencontent
  = IndexedArray_getitem_nextcarry_outindex TIdeal tocarry toindex fromindex lenindex lencontent.
Proof. exact IndexedArray_getitem_nextcarry_outindex_width. Qed.
Print Assumptions C13_IndexedArray_getitem_nextcarry_outindex_width.

(* @awkward_RegularArray_localindex k_spec *)
Theorem C13_RegularArray_localindex_spec :
  forall toindex size length,
  0 <= size -> 0 <= length -> length * size <= zlen toindex ->
  exists out, RegularArray_localindex toindex size length = KOk out /\ zlen out = zlen toindex /\
    forall q, 0 <= q -> at_ out q = if q <? length * size then q mod size else at_ toindex q.
Proof. exact RegularArray_localindex_spec. Qed.
Print Assumptions C13_RegularArray_localindex_spec.

(* @awkward_RegularArray_getitem_next_range k_spec *)
Theorem C13_RegularArray_getitem_next_range_spec :
  forall tocarry regular_start step length size nextsize,
  0 <= nextsize -> 0 <= length -> length * nextsize <= zlen tocarry ->
  exists out, RegularArray_getitem_next_range tocarry regular_start step length size nextsize = KOk out /\
    zlen out = zlen tocarry /\
    forall q, 0 <= q -> at_ out q = if q <? length * nextsize
                                    then (q / nextsize) * size + regular_start + (q mod nextsize) * step
                                    else at_ tocarry q.
Proof. exact RegularArray_getitem_next_range_spec. Qed.
Print Assumptions C13_RegularArray_getitem_next_range_spec.

(* @awkward_RegularArray_getitem_carry k_spec *)
Theorem C13_RegularArray_getitem_carry_spec :
  forall tocarry fromcarry lencarry size,
  0 <= size -> 0 <= lencarry -> lencarry <= zlen fromcarry -> lencarry * size <= zlen tocarry ->
  exists out, RegularArray_getitem_carry tocarry fromcarry lencarry size = KOk out /\ zlen out = zlen tocarry /\
    forall q, 0 <= q -> at_ out q = if q <? lencarry * size then at_ fromcarry (q / size) * size + q mod size
                                    else at_ tocarry q.
Proof. exact RegularArray_getitem_carry_spec. Qed.
Print Assumptions C13_RegularArray_getitem_carry_spec.

(* @awkward_RegularArray_getitem_next_range_spreadadvanced k_spec *)
Theorem C13_RegularArray_getitem_next_range_spreadadvanced_spec :
  forall toadvanced fromadvanced length nextsize,
  0 <= nextsize -> 0 <= length -> length <= zlen fromadvanced -> length * nextsize <= zlen toadvanced ->
  exists out, RegularArray_getitem_next_range_spreadadvanced toadvanced fromadvanced length nextsize = KOk out /\
    zlen out = zlen toadvanced /\
    forall q, 0 <= q -> at_ out q = if q <? length * nextsize then at_ fromadvanced (q / nextsize) else at_ toadvanced q.
Proof. exact RegularArray_getitem_next_range_spreadadvanced_spec. Qed.
Print Assumptions C13_RegularArray_getitem_next_range_spreadadvanced_spec.

(* @awkward_ByteMaskedArray_getitem_nextcarry_outindex k_spec *)
Theorem C13_ByteMaskedArray_getitem_nextcarry_outindex_spec :
  forall tocarry outindex mask length validwhen,
  0 <= length -> length <= zlen mask -> length <= zlen outindex ->
  cnt_upto (mask_valid validwhen) mask length <= zlen tocarry ->
  exists tc oi,
    ByteMaskedArray_getitem_nextcarry_outindex tocarry outindex mask length validwhen = KOk (tc, oi) /\
    zlen tc = zlen tocarry /\ zlen oi = zlen outindex /\
    (forall q, 0 <= q -> at_ oi q = if q <? length
                                    then (if mask_valid validwhen (at_ mask q) then cnt_upto (mask_valid validwhen) mask q else -1)
                                    else at_ outindex q) /\
    (forall q, 0 <= q < length -> mask_valid validwhen (at_ mask q) = true ->
               at_ tc (cnt_upto (mask_valid validwhen) mask q) = q) /\
    (forall c, cnt_upto (mask_valid validwhen) mask length <= c -> at_ tc c = at_ tocarry c).
Proof. exact ByteMaskedArray_getitem_nextcarry_outindex_spec. Qed.
Print Assumptions C13_ByteMaskedArray_getitem_nextcarry_outindex_spec.

(* @awkward_ListArray_getitem_carry k_spec *)
Theorem C13_ListArray_getitem_carry_spec :
  forall tostarts tostops starts stops fromcarry lenstarts lencarry,
  0 <= lencarry -> lencarry <= zlen fromcarry -> lencarry <= zlen tostarts -> lencarry <= zlen tostops ->
  lenstarts <= zlen starts -> lenstarts <= zlen stops ->
  (forall i, 0 <= i < lencarry -> 0 <= at_ fromcarry i < lenstarts) ->
  ListArray_getitem_carry TIdeal tostarts tostops starts stops fromcarry lenstarts lencarry
  = KOk (filled 0 lencarry (fun i => at_ starts (at_ fromcarry i)) tostarts,
         filled 0 lencarry (fun i => at_ stops (at_ fromcarry i)) tostops).
Proof. exact ListArray_getitem_carry_spec. Qed.
Print Assumptions C13_ListArray_getitem_carry_spec.

(* @awkward_index_rpad_and_clip_axis1 k_spec *)
Theorem C13_index_rpad_and_clip_axis1_spec :
  forall tostarts tostops target length,
  0 <= length -> length <= zlen tostarts -> length <= zlen tostops ->
  index_rpad_and_clip_axis1 tostarts tostops target length
  = KOk (filled 0 length (fun i => i * target) tostarts, filled 0 length (fun i => (i + 1) * target) tostops).
Proof. exact index_rpad_and_clip_axis1_spec. Qed.
Print Assumptions C13_index_rpad_and_clip_axis1_spec.

(* @awkward_reduce_sum_bool k_safe *)
Theorem C13_reduce_sum_bool_safe :
  forall toptr fromptr parents n ol,
  red_pre toptr fromptr parents n ol -> reduce_sum_bool toptr fromptr parents n ol <> KOob.
Proof. exact reduce_sum_bool_safe. Qed.
Print Assumptions C13_reduce_sum_bool_safe.

(* @awkward_reduce_prod_bool k_safe *)
Theorem C13_reduce_prod_bool_safe :
  forall toptr fromptr parents n ol,
  red_pre toptr fromptr parents n ol -> reduce_prod_bool toptr fromptr parents n ol <> KOob.
Proof. exact reduce_prod_bool_safe. Qed.
Print Assumptions C13_reduce_prod_bool_safe.

(* @awkward_reduce_sum_bool k_spec *)
Theorem C13_reduce_sum_bool_spec :
  forall toptr fromptr parents n ol,
  red_pre toptr fromptr parents n ol ->
  exists out, reduce_sum_bool toptr fromptr parents n ol = KOk out /\ zlen out = zlen toptr /\
    forall q, 0 <= q ->
      if q <? ol then (at_ out q = 0 \/ at_ out q = 1) /\ (at_ out q = 1 <-> some_nonzero parents fromptr n q)
      else at_ out q = at_ toptr q.
Proof. exact reduce_sum_bool_spec. Qed.
Print Assumptions C13_reduce_sum_bool_spec.

(* @awkward_reduce_prod_bool k_spec *)
Theorem C13_reduce_prod_bool_spec :
  forall toptr fromptr parents n ol,
  red_pre toptr fromptr parents n ol ->
  exists out, reduce_prod_bool toptr fromptr parents n ol = KOk out /\ zlen out = zlen toptr /\
    forall q, 0 <= q ->
      if q <? ol then (at_ out q = 0 \/ at_ out q = 1) /\ (at_ out q = 1 <-> all_nonzero parents fromptr n q)
      else at_ out q = at_ toptr q.
Proof. exact reduce_prod_bool_spec. Qed.
Print Assumptions C13_reduce_prod_bool_spec.

(* @awkward_reduce_argmin k_safe *)
Theorem C13_reduce_argmin_safe :
  forall toptr fromptr parents n ol,
  red_pre toptr fromptr parents n ol -> reduce_argmin toptr fromptr parents n ol <> KOob.
Proof. exact reduce_argmin_safe. Qed.
Print Assumptions C13_reduce_argmin_safe.

(* @awkward_reduce_argmax k_safe *)
Theorem C13_reduce_argmax_safe :
  forall toptr fromptr parents n ol,
  red_pre toptr fromptr parents n ol -> reduce_argmax toptr fromptr parents n ol <> KOob.
Proof. exact reduce_argmax_safe. Qed.
Print Assumptions C13_reduce_argmax_safe.

(* @awkward_reduce_sum_complex k_safe *)
Theorem C13_reduce_sum_complex_safe :
  forall toptr fromptr parents n ol,
  cred_pre 2 toptr fromptr parents n ol -> reduce_sum_complex toptr fromptr parents n ol <> KOob.
Proof. exact reduce_sum_complex_safe. Qed.
Print Assumptions C13_reduce_sum_complex_safe.

(* @awkward_reduce_prod_complex k_safe *)
Theorem C13_reduce_prod_complex_safe :
  forall toptr fromptr parents n ol,
  cred_pre 2 toptr fromptr parents n ol -> reduce_prod_complex toptr fromptr parents n ol <> KOob.
Proof. exact reduce_prod_complex_safe. Qed.
Print Assumptions C13_reduce_prod_complex_safe.

(* @awkward_reduce_min_complex k_safe *)
Theorem C13_reduce_min_complex_safe :
  forall idn toptr fromptr parents n ol,
  cred_pre 2 toptr fromptr parents n ol -> reduce_minmax_complex true idn toptr fromptr parents n ol <> KOob.
Proof. exact reduce_min_complex_safe. Qed.
Print Assumptions C13_reduce_min_complex_safe.

(* @awkward_reduce_max_complex k_safe *)
Theorem C13_reduce_max_complex_safe :
  forall idn toptr fromptr parents n ol,
  cred_pre 2 toptr fromptr parents n ol -> reduce_minmax_complex false idn toptr fromptr parents n ol <> KOob.
Proof. exact reduce_max_complex_safe. Qed.
Print Assumptions C13_reduce_max_complex_safe.

(* @awkward_reduce_argmin_complex k_safe *)
Theorem C13_reduce_argmin_complex_safe :
  forall toptr fromptr parents n ol,
  cred_pre 1 toptr fromptr parents n ol -> reduce_arg_complex true toptr fromptr parents n ol <> KOob.
Proof. exact reduce_argmin_complex_safe. Qed.
Print Assumptions C13_reduce_argmin_complex_safe.

(* @awkward_reduce_argmax_complex k_safe *)
Theorem C13_reduce_argmax_complex_safe :
  forall toptr fromptr parents n ol,
  cred_pre 1 toptr fromptr parents n ol -> reduce_arg_complex false toptr fromptr parents n ol <> KOob.
Proof. exact reduce_argmax_complex_safe. Qed.
Print Assumptions C13_reduce_argmax_complex_safe.

(* @awkward_reduce_countnonzero_complex k_safe *)
Theorem C13_reduce_countnonzero_complex_safe :
  forall toptr fromptr parents n ol,
  cred_pre 1 toptr fromptr parents n ol -> reduce_countnonzero_complex toptr fromptr parents n ol <> KOob.
Proof. exact reduce_countnonzero_complex_safe. Qed.
Print Assumptions C13_reduce_countnonzero_complex_safe.

(* @awkward_reduce_sum_bool_complex k_safe *)
Theorem C13_reduce_sum_bool_complex_safe :
  forall toptr fromptr parents n ol,
  cred_pre 1 toptr fromptr parents n ol -> reduce_sum_bool_complex toptr fromptr parents n ol <> KOob.
Proof. exact reduce_sum_bool_complex_safe. Qed.
Print Assumptions C13_reduce_sum_bool_complex_safe.

(* @awkward_reduce_prod_bool_complex k_safe *)
Theorem C13_reduce_prod_bool_complex_safe :
  forall toptr fromptr parents n ol,
  cred_pre 1 toptr fromptr parents n ol -> reduce_prod_bool_complex toptr fromptr parents n ol <> KOob.
Proof. exact reduce_prod_bool_complex_safe. Qed.
Print Assumptions C13_reduce_prod_bool_complex_safe.

(* @awkward_content_reduce_zeroparents_64 k_safe *)
Theorem C13_content_reduce_zeroparents_64_safe :
  forall toparents n,
  n <= zlen toparents -> content_reduce_zeroparents toparents n <> KOob.
Proof. exact content_reduce_zeroparents_64_safe. Qed.
Print Assumptions C13_content_reduce_zeroparents_64_safe.

(* @awkward_content_reduce_zeroparents_64 k_spec *)
Theorem C13_content_reduce_zeroparents_64_spec :
  forall toparents n,
  0 <= n -> n <= zlen toparents ->
  content_reduce_zeroparents toparents n = KOk (repeat 0 (Z.to_nat n) ++ skipn (Z.to_nat n) toparents).
Proof. exact content_reduce_zeroparents_64_spec. Qed.
Print Assumptions C13_content_reduce_zeroparents_64_spec.

(* @awkward_NumpyArray_contiguous_copy k_safe *)
Theorem C13_NumpyArray_contiguous_copy_safe :
  forall toptr fromptr len stride pos,
  0 <= stride -> len <= zlen pos -> len * stride <= zlen toptr ->
  (forall i, 0 <= i < len -> 0 <= at_ pos i /\ at_ pos i + stride <= zlen fromptr) ->
  NumpyArray_contiguous_copy toptr fromptr len stride pos <> KOob.
Proof. exact NumpyArray_contiguous_copy_safe. Qed.
Print Assumptions C13_NumpyArray_contiguous_copy_safe.

(* @awkward_NumpyArray_getitem_next_null k_safe *)
Theorem C13_NumpyArray_getitem_next_null_safe :
  forall toptr fromptr len stride pos,
  0 <= stride -> len <= zlen pos -> len * stride <= zlen toptr ->
  (forall i, 0 <= i < len -> 0 <= at_ pos i /\ (at_ pos i + 1) * stride <= zlen fromptr) ->
  NumpyArray_getitem_next_null toptr fromptr len stride pos <> KOob.
Proof. exact NumpyArray_getitem_next_null_safe. Qed.
Print Assumptions C13_NumpyArray_getitem_next_null_safe.

(* @awkward_NumpyArray_fill_tocomplex k_safe *)
Theorem C13_NumpyArray_fill_tocomplex_safe :
  forall toptr tooffset fromptr n,
  0 <= tooffset -> n <= zlen fromptr -> tooffset + 2 * n <= zlen toptr ->
  NumpyArray_fill_tocomplex toptr tooffset fromptr n <> KOob.
Proof. exact NumpyArray_fill_tocomplex_safe. Qed.
Print Assumptions C13_NumpyArray_fill_tocomplex_safe.

(* @awkward_NumpyArray_fill_fromcomplex k_safe *)
Theorem C13_NumpyArray_fill_fromcomplex_safe :
  forall tTO toptr tooffset fromptr n,
  0 <= tooffset -> 2 * n <= zlen fromptr -> tooffset + n <= zlen toptr ->
  NumpyArray_fill_fromcomplex tTO toptr tooffset fromptr n <> KOob.
Proof. exact NumpyArray_fill_fromcomplex_safe. Qed.
Print Assumptions C13_NumpyArray_fill_fromcomplex_safe.

(* @awkward_NumpyArray_rearrange_shifted k_safe *)
Theorem C13_NumpyArray_rearrange_shifted_toint64_fromint64_safe :
  forall toptr shifts length offsets offsetslength parents starts,
  rearrange_pre toptr shifts length offsets offsetslength parents starts ->
  NumpyArray_rearrange_shifted toptr shifts length offsets offsetslength parents starts <> KOob.
Proof. exact NumpyArray_rearrange_shifted_toint64_fromint64_safe. Qed.
Print Assumptions C13_NumpyArray_rearrange_shifted_toint64_fromint64_safe.

(* @awkward_NumpyArray_subrange_equal k_safe *)
Theorem C13_NumpyArray_subrange_equal_safe :
  forall tmpptr fromstarts fromstops length toequal,
  length - 1 <= zlen fromstarts -> length - 1 <= zlen fromstops -> 1 <= zlen toequal ->
  (forall i, 0 <= i < length - 1 -> 0 <= at_ fromstarts i /\ at_ fromstops i <= zlen tmpptr) ->
  NumpyArray_subrange_equal tmpptr fromstarts fromstops length toequal <> KOob.
Proof. exact NumpyArray_subrange_equal_safe. Qed.
Print Assumptions C13_NumpyArray_subrange_equal_safe.

(* @awkward_sorting_ranges_length k_spec *)
Theorem C13_sorting_ranges_length_spec :
  forall tolength parents n,
  n <= zlen parents -> 1 <= zlen tolength ->
  sorting_ranges_length tolength parents n = KOk (set_nth tolength 0 (2 + changes_upto parents (Z.to_nat n))).
Proof. exact sorting_ranges_length_spec. Qed.
Print Assumptions C13_sorting_ranges_length_spec.

(* @awkward_sorting_ranges k_safe *)
Theorem C13_sorting_ranges_safe :
  forall toindex tolength parents n,
  n <= zlen parents -> tolength = 2 + changes_upto parents (Z.to_nat n) -> tolength <= zlen toindex ->
  sorting_ranges toindex tolength parents n <> KOob.
Proof. exact sorting_ranges_safe. Qed.
Print Assumptions C13_sorting_ranges_safe.

(* @awkward_reduce_argmin k_spec *)
Theorem C13_reduce_argmin_spec :
  forall toptr fromptr parents n ol,
  red_pre toptr fromptr parents n ol ->
  exists out, reduce_argmin toptr fromptr parents n ol = KOk out /\ zlen out = zlen toptr /\
    forall q, 0 <= q -> if q <? ol then is_argmin parents fromptr n q (at_ out q) else at_ out q = at_ toptr q.
Proof. exact reduce_argmin_spec. Qed.
Print Assumptions C13_reduce_argmin_spec.

(* @awkward_reduce_argmax k_spec *)
Theorem C13_reduce_argmax_spec :
  forall toptr fromptr parents n ol,
  red_pre toptr fromptr parents n ol ->
  exists out, reduce_argmax toptr fromptr parents n ol = KOk out /\ zlen out = zlen toptr /\
    forall q, 0 <= q -> if q <? ol then is_argmax parents fromptr n q (at_ out q) else at_ out q = at_ toptr q.
Proof. exact reduce_argmax_spec. Qed.
Print Assumptions C13_reduce_argmax_spec.

(* @awkward_NumpyArray_contiguous_copy k_spec *)
Theorem C13_NumpyArray_contiguous_copy_spec :
  forall toptr fromptr len stride pos,
  0 <= len -> 0 <= stride -> len <= zlen pos -> len * stride <= zlen toptr ->
  (forall i, 0 <= i < len -> 0 <= at_ pos i /\ at_ pos i + stride <= zlen fromptr) ->
  exists out, NumpyArray_contiguous_copy toptr fromptr len stride pos = KOk out /\ zlen out = zlen toptr /\
    (forall i b, 0 <= i < len -> 0 <= b < stride -> at_ out (i * stride + b) = at_ fromptr (at_ pos i + b)) /\
    (forall c, len * stride <= c -> at_ out c = at_ toptr c).
Proof. exact NumpyArray_contiguous_copy_spec. Qed.
Print Assumptions C13_NumpyArray_contiguous_copy_spec.

(* @awkward_NumpyArray_getitem_next_null k_spec *)
Theorem C13_NumpyArray_getitem_next_null_spec :
  forall toptr fromptr len stride pos,
  0 <= len -> 0 <= stride -> len <= zlen pos -> len * stride <= zlen toptr ->
  (forall i, 0 <= i < len -> 0 <= at_ pos i /\ (at_ pos i + 1) * stride <= zlen fromptr) ->
  exists out, NumpyArray_getitem_next_null toptr fromptr len stride pos = KOk out /\ zlen out = zlen toptr /\
    (forall i b, 0 <= i < len -> 0 <= b < stride -> at_ out (i * stride + b) = at_ fromptr (at_ pos i * stride + b)) /\
    (forall c, len * stride <= c -> at_ out c = at_ toptr c).
Proof. exact NumpyArray_getitem_next_null_spec. Qed.
Print Assumptions C13_NumpyArray_getitem_next_null_spec.

(* @awkward_NumpyArray_fill_tocomplex k_spec *)
Theorem C13_NumpyArray_fill_tocomplex_spec :
  forall toptr tooffset fromptr n,
  0 <= n -> 0 <= tooffset -> n <= zlen fromptr -> tooffset + 2 * n <= zlen toptr ->
  exists out, NumpyArray_fill_tocomplex toptr tooffset fromptr n = KOk out /\ zlen out = zlen toptr /\
    (forall i, 0 <= i < n -> at_ out (tooffset + 2 * i) = at_ fromptr i /\ at_ out (tooffset + 2 * i + 1) = 0) /\
    (forall c, 0 <= c -> c < tooffset \/ tooffset + 2 * n <= c -> at_ out c = at_ toptr c).
Proof. exact NumpyArray_fill_tocomplex_spec. Qed.
Print Assumptions C13_NumpyArray_fill_tocomplex_spec.

(* @awkward_NumpyArray_fill_fromcomplex k_spec *)
Theorem C13_NumpyArray_fill_fromcomplex_spec :
  forall toptr tooffset fromptr n,
  0 <= n -> 0 <= tooffset -> 2 * n <= zlen fromptr -> tooffset + n <= zlen toptr ->
  NumpyArray_fill_fromcomplex TIdeal toptr tooffset fromptr n = KOk (filled tooffset n (fun i => at_ fromptr (i * 2)) toptr).
Proof. exact NumpyArray_fill_fromcomplex_spec. Qed.
Print Assumptions C13_NumpyArray_fill_fromcomplex_spec.

(* @awkward_NumpyArray_fill_fromcomplex k_width *)
Theorem C13_NumpyArray_fill_fromcomplex_width :
  forall tTO toptr tooffset fromptr n,
  2 * n <= zlen fromptr -> (forall i, 0 <= i < n -> fits tTO (at_ fromptr (i * 2))) ->
  NumpyArray_fill_fromcomplex tTO toptr tooffset fromptr n = NumpyArray_fill_fromcomplex TIdeal toptr tooffset fromptr n.
Proof. exact NumpyArray_fill_fromcomplex_width. Qed.
Print Assumptions C13_NumpyArray_fill_fromcomplex_width.

(* @awkward_sorting_ranges k_spec *)
Theorem C13_sorting_ranges_spec :
  forall toindex tolength parents n,
  n <= zlen parents -> tolength = 2 + changes_upto parents (Z.to_nat n) -> tolength <= zlen toindex ->
  exists out, sorting_ranges toindex tolength parents n = KOk out /\ zlen out = zlen toindex /\
    at_ out 0 = 0 /\ at_ out (tolength - 1) = n /\
    (forall i, 1 <= i < n -> at_ parents (i - 1) <> at_ parents i -> at_ out (1 + changes_upto parents (Z.to_nat i)) = i) /\
    (forall c, tolength <= c -> at_ out c = at_ toindex c).
Proof. exact sorting_ranges_spec. Qed.
Print Assumptions C13_sorting_ranges_spec.

(* @awkward_reduce_sum_complex k_spec *)
Theorem C13_reduce_sum_complex_spec :
  forall toptr fromptr parents n ol,
  cred_pre 2 toptr fromptr parents n ol ->
  exists out, reduce_sum_complex toptr fromptr parents n ol = KOk out /\ zlen out = zlen toptr /\
    (forall q, 0 <= q < ol ->
       (at_ out (q * 2), at_ out (q * 2 + 1)) = cred_upto (0, 0) cstep_sum parents fromptr (Z.to_nat n) q) /\
    (forall c, 2 * ol <= c -> at_ out c = at_ toptr c).
Proof. exact reduce_sum_complex_spec. Qed.
Print Assumptions C13_reduce_sum_complex_spec.

(* @awkward_reduce_prod_complex k_spec *)
Theorem C13_reduce_prod_complex_spec :
  forall toptr fromptr parents n ol,
  cred_pre 2 toptr fromptr parents n ol ->
  exists out, reduce_prod_complex toptr fromptr parents n ol = KOk out /\ zlen out = zlen toptr /\
    (forall q, 0 <= q < ol ->
       (at_ out (q * 2), at_ out (q * 2 + 1)) = cred_upto (1, 0) cstep_prod parents fromptr (Z.to_nat n) q) /\
    (forall c, 2 * ol <= c -> at_ out c = at_ toptr c).
Proof. exact reduce_prod_complex_spec. Qed.
Print Assumptions C13_reduce_prod_complex_spec.

(* @awkward_reduce_min_complex k_spec *)
Theorem C13_reduce_min_complex_spec :
  forall idn toptr fromptr parents n ol,
  cred_pre 2 toptr fromptr parents n ol ->
  exists out, reduce_minmax_complex true idn toptr fromptr parents n ol = KOk out /\ zlen out = zlen toptr /\
    (forall q, 0 <= q < ol ->
       (at_ out (q * 2), at_ out (q * 2 + 1)) = cred_upto (idn, 0) cstep_min parents fromptr (Z.to_nat n) q) /\
    (forall c, 2 * ol <= c -> at_ out c = at_ toptr c).
Proof. exact reduce_min_complex_spec. Qed.
Print Assumptions C13_reduce_min_complex_spec.

(* @awkward_reduce_max_complex k_spec *)
Theorem C13_reduce_max_complex_spec :
  forall idn toptr fromptr parents n ol,
  cred_pre 2 toptr fromptr parents n ol ->
  exists out, reduce_minmax_complex false idn toptr fromptr parents n ol = KOk out /\ zlen out = zlen toptr /\
    (forall q, 0 <= q < ol ->
       (at_ out (q * 2), at_ out (q * 2 + 1)) = cred_upto (idn, 0) cstep_max parents fromptr (Z.to_nat n) q) /\
    (forall c, 2 * ol <= c -> at_ out c = at_ toptr c).
Proof. exact reduce_max_complex_spec. Qed.
Print Assumptions C13_reduce_max_complex_spec.

(* @awkward_reduce_countnonzero_complex k_spec *)
Theorem C13_reduce_countnonzero_complex_spec :
  forall toptr fromptr parents n ol,
  cred_pre 1 toptr fromptr parents n ol ->
  exists out, reduce_countnonzero_complex toptr fromptr parents n ol = KOk out /\ zlen out = zlen toptr /\
    forall q, 0 <= q ->
      at_ out q = if q <? ol then bred_upto i64 0 (fun cur nz => cur + (if nz then 1 else 0)) parents fromptr (Z.to_nat n) q
                  else at_ toptr q.
Proof. exact reduce_countnonzero_complex_spec. Qed.
Print Assumptions C13_reduce_countnonzero_complex_spec.

(* @awkward_reduce_sum_bool_complex k_spec *)
Theorem C13_reduce_sum_bool_complex_spec :
  forall toptr fromptr parents n ol,
  cred_pre 1 toptr fromptr parents n ol ->
  exists out, reduce_sum_bool_complex toptr fromptr parents n ol = KOk out /\ zlen out = zlen toptr /\
    forall q, 0 <= q ->
      if q <? ol then (at_ out q = 0 \/ at_ out q = 1) /\ (at_ out q = 1 <-> csome_nonzero parents fromptr n q)
      else at_ out q = at_ toptr q.
Proof. exact reduce_sum_bool_complex_spec. Qed.
Print Assumptions C13_reduce_sum_bool_complex_spec.

(* @awkward_reduce_prod_bool_complex k_spec *)
Theorem C13_reduce_prod_bool_complex_spec :
  forall toptr fromptr parents n ol,
  cred_pre 1 toptr fromptr parents n ol ->
  exists out, reduce_prod_bool_complex toptr fromptr parents n ol = KOk out /\ zlen out = zlen toptr /\
    forall q, 0 <= q ->
      if q <? ol then (at_ out q = 0 \/ at_ out q = 1) /\ (at_ out q = 1 <-> call_nonzero parents fromptr n q)
      else at_ out q = at_ toptr q.
Proof. exact reduce_prod_bool_complex_spec. Qed.
Print Assumptions C13_reduce_prod_bool_complex_spec.

(* @awkward_reduce_argmin_complex k_spec *)
Theorem C13_reduce_argmin_complex_spec :
  forall toptr fromptr parents n ol,
  cred_pre 1 toptr fromptr parents n ol ->
  exists out, reduce_arg_complex true toptr fromptr parents n ol = KOk out /\ zlen out = zlen toptr /\
    forall q, 0 <= q -> if q <? ol then is_argmin_complex parents fromptr n q (at_ out q) else at_ out q = at_ toptr q.
Proof. exact reduce_argmin_complex_spec. Qed.
Print Assumptions C13_reduce_argmin_complex_spec.

(* @awkward_reduce_argmax_complex k_spec *)
Theorem C13_reduce_argmax_complex_spec :
  forall toptr fromptr parents n ol,
  cred_pre 1 toptr fromptr parents n ol ->
  exists out, reduce_arg_complex false toptr fromptr parents n ol = KOk out /\ zlen out = zlen toptr /\
    forall q, 0 <= q -> if q <? ol then is_argmax_complex parents fromptr n q (at_ out q) else at_ out q = at_ toptr q.
Proof. exact reduce_argmax_complex_spec. Qed.
Print Assumptions C13_reduce_argmax_complex_spec.

(* @awkward_NumpyArray_rearrange_shifted k_spec *)
Theorem C13_NumpyArray_rearrange_shifted_toint64_fromint64_spec :
  forall toptr shifts length offsets offsetslength parents starts,
  rearrange_pre toptr shifts length offsets offsetslength parents starts ->
  at_ offsets (offsetslength - 1) - at_ offsets 0 = length ->
  exists out, NumpyArray_rearrange_shifted toptr shifts length offsets offsetslength parents starts = KOk out /\
    zlen out = zlen toptr /\
    (forall i q, 0 <= i < offsetslength - 1 ->
       at_ offsets i - at_ offsets 0 <= q < at_ offsets (i + 1) - at_ offsets 0 ->
       at_ out q = (at_ toptr q + at_ offsets i) + at_ shifts (at_ toptr q + at_ offsets i) - at_ starts (at_ parents q)) /\
    (forall c, length <= c -> at_ out c = at_ toptr c).
Proof. exact NumpyArray_rearrange_shifted_toint64_fromint64_spec. Qed.
Print Assumptions C13_NumpyArray_rearrange_shifted_toint64_fromint64_spec.

(* @awkward_ListArray_combinations_length k_safe *)
Theorem C13_ListArray_combinations_length_safe :
  forall tC totallen tooffsets n replacement starts stops length,
  1 <= zlen totallen -> 1 <= zlen tooffsets -> length + 1 <= zlen tooffsets ->
  length <= zlen starts -> length <= zlen stops ->
  ListArray_combinations_length tC totallen tooffsets n replacement starts stops length <> KOob.
Proof. exact ListArray_combinations_length_safe. Qed.
Print Assumptions C13_ListArray_combinations_length_safe.

(* @awkward_ListOffsetArray_reduce_nonlocal_maxcount_offsetscopy_64 k_safe *)
Theorem C13_ListOffsetArray_reduce_nonlocal_maxcount_offsetscopy_64_safe :
  forall maxcount offsetscopy offsets length,
  0 <= length -> 1 <= zlen maxcount -> length + 1 <= zlen offsets -> length + 1 <= zlen offsetscopy ->
  reduce_nonlocal_maxcount_offsetscopy maxcount offsetscopy offsets length <> KOob.
Proof. exact ListOffsetArray_reduce_nonlocal_maxcount_offsetscopy_64_safe. Qed.
Print Assumptions C13_ListOffsetArray_reduce_nonlocal_maxcount_offsetscopy_64_safe.

(* @awkward_ListOffsetArray_reduce_nonlocal_nextstarts_64 k_safe *)
Theorem C13_ListOffsetArray_reduce_nonlocal_nextstarts_64_safe :
  forall nextstarts nextparents nextlen,
  nextlen <= zlen nextparents ->
  (forall i, 0 <= i < nextlen -> 0 <= at_ nextparents i < zlen nextstarts) ->
  reduce_nonlocal_nextstarts nextstarts nextparents nextlen <> KOob.
Proof. exact ListOffsetArray_reduce_nonlocal_nextstarts_64_safe. Qed.
Print Assumptions C13_ListOffsetArray_reduce_nonlocal_nextstarts_64_safe.

(* @awkward_ListOffsetArray_reduce_nonlocal_findgaps_64 k_safe *)
Theorem C13_ListOffsetArray_reduce_nonlocal_findgaps_64_safe :
  forall gaps parents lenparents,
  lenparents <= zlen parents ->
  (forall i, 0 <= i < lenparents -> at_ parents i < zlen gaps) ->
  reduce_nonlocal_findgaps gaps parents lenparents <> KOob.
Proof. exact ListOffsetArray_reduce_nonlocal_findgaps_64_safe. Qed.
Print Assumptions C13_ListOffsetArray_reduce_nonlocal_findgaps_64_safe.

(* @awkward_IndexedArray_local_preparenext_64 k_safe *)
Theorem C13_IndexedArray_local_preparenext_64_safe :
  forall tocarry starts parents parentslength nextparents nextlen,
  parentslength <= zlen parents -> parentslength <= zlen tocarry -> nextlen <= zlen nextparents ->
  (forall i, 0 <= i < parentslength -> 0 <= at_ parents i < zlen starts) ->
  IndexedArray_local_preparenext tocarry starts parents parentslength nextparents nextlen <> KOob.
Proof. exact IndexedArray_local_preparenext_64_safe. Qed.
Print Assumptions C13_IndexedArray_local_preparenext_64_safe.

(* @awkward_ListOffsetArray_reduce_nonlocal_outstartsstops_64 k_safe *)
Theorem C13_ListOffsetArray_reduce_nonlocal_outstartsstops_64_safe :
  forall outstarts outstops distincts lendistincts outlength,
  outlength <= zlen outstarts -> outlength <= zlen outstops -> lendistincts <= zlen distincts ->
  reduce_nonlocal_outstartsstops outstarts outstops distincts lendistincts outlength <> KOob.
Proof. exact ListOffsetArray_reduce_nonlocal_outstartsstops_64_safe. Qed.
Print Assumptions C13_ListOffsetArray_reduce_nonlocal_outstartsstops_64_safe.

(* @awkward_ListOffsetArray_reduce_nonlocal_nextshifts_64 k_safe *)
Theorem C13_ListOffsetArray_reduce_nonlocal_nextshifts_64_safe :
  forall nummissing missing nextshifts offsets length starts parents maxcount nextlen nextcarry,
  length + 1 <= zlen offsets -> length <= zlen parents -> maxcount <= zlen nummissing ->
  nextlen <= zlen nextshifts -> nextlen <= zlen nextcarry ->
  (forall i, 0 <= i < length -> 0 <= at_ parents i < zlen starts) ->
  (forall i, 0 <= i < length ->
     0 <= at_ offsets i <= at_ offsets (i + 1) /\ at_ offsets (i + 1) - at_ offsets i <= maxcount /\
     at_ offsets (i + 1) <= zlen missing) ->
  (forall j, 0 <= j < nextlen -> 0 <= at_ nextcarry j < zlen missing) ->
  reduce_nonlocal_nextshifts nummissing missing nextshifts offsets length starts parents maxcount nextlen nextcarry <> KOob.
Proof. exact ListOffsetArray_reduce_nonlocal_nextshifts_64_safe. Qed.
Print Assumptions C13_ListOffsetArray_reduce_nonlocal_nextshifts_64_safe.

(* @awkward_ListOffsetArray_reduce_local_outoffsets_64 k_safe *)
Theorem C13_ListOffsetArray_reduce_local_outoffsets_64_safe :
  forall outoffsets parents lenparents outlength,
  lenparents <= zlen parents -> outlength + 1 <= zlen outoffsets ->
  (forall i, 0 <= i < lenparents -> at_ parents i < outlength) ->
  reduce_local_outoffsets outoffsets parents lenparents outlength <> KOob.
Proof. exact ListOffsetArray_reduce_local_outoffsets_64_safe. Qed.
Print Assumptions C13_ListOffsetArray_reduce_local_outoffsets_64_safe.

(* @awkward_ListOffsetArray_reduce_nonlocal_preparenext_64 k_safe *)
Theorem C13_ListOffsetArray_reduce_nonlocal_preparenext_64_safe :
  forall nextcarry nextparents nextlen maxnextparents distincts distinctslen offsetscopy offsets length parents maxcount outlength,
  0 <= length -> 1 <= zlen maxnextparents ->
  distinctslen <= zlen distincts -> outlength * maxcount <= zlen distincts ->
  length + 1 <= zlen offsets -> length + 1 <= zlen offsetscopy -> length <= zlen parents ->
  nextlen <= zlen nextcarry -> nextlen <= zlen nextparents ->
  at_ offsets length - at_ offsets 0 <= nextlen ->
  (forall i, 0 <= i < length -> 0 <= at_ parents i < outlength) ->
  (forall i, 0 <= i < length -> 0 <= at_ offsets (i + 1) - at_ offsets i <= maxcount) ->
  (forall i, 0 <= i <= length -> at_ offsetscopy i = at_ offsets i) ->
  reduce_nonlocal_preparenext nextcarry nextparents nextlen maxnextparents distincts distinctslen offsetscopy offsets length parents maxcount <> KOob.
Proof. exact ListOffsetArray_reduce_nonlocal_preparenext_64_safe. Qed.
Print Assumptions C13_ListOffsetArray_reduce_nonlocal_preparenext_64_safe.

(* @awkward_ListOffsetArray_reduce_nonlocal_maxcount_offsetscopy_64 k_spec *)
Theorem C13_ListOffsetArray_reduce_nonlocal_maxcount_offsetscopy_64_spec :
  forall maxcount offsetscopy offsets length,
  0 <= length -> 1 <= zlen maxcount -> length + 1 <= zlen offsets -> length + 1 <= zlen offsetscopy ->
  exists mc oc, reduce_nonlocal_maxcount_offsetscopy maxcount offsetscopy offsets length
                = KOk (set_nth maxcount 0 mc, oc) /\
    mc = max_count offsets (Z.to_nat length) /\ 0 <= mc /\
    (forall i, 0 <= i < length -> at_ offsets (i + 1) - at_ offsets i <= mc) /\
    (mc = 0 \/ exists i, 0 <= i < length /\ mc = at_ offsets (i + 1) - at_ offsets i) /\
    zlen oc = zlen offsetscopy /\
    forall q, 0 <= q -> at_ oc q = if q <=? length then at_ offsets q else at_ offsetscopy q.
Proof. exact ListOffsetArray_reduce_nonlocal_maxcount_offsetscopy_64_spec. Qed.
Print Assumptions C13_ListOffsetArray_reduce_nonlocal_maxcount_offsetscopy_64_spec.

(* @awkward_ListOffsetArray_reduce_nonlocal_nextstarts_64 k_spec *)
Theorem C13_ListOffsetArray_reduce_nonlocal_nextstarts_64_spec :
  forall nextstarts nextparents nextlen,
  0 <= nextlen <= zlen nextparents ->
  (forall i, 0 <= i < nextlen -> 0 <= at_ nextparents i < zlen nextstarts) ->
  (forall i i', 0 <= i <= i' -> i' < nextlen -> at_ nextparents i <= at_ nextparents i') ->
  exists out, reduce_nonlocal_nextstarts nextstarts nextparents nextlen = KOk out /\ zlen out = zlen nextstarts /\
    (forall i, 0 <= i < nextlen -> (forall i', 0 <= i' < i -> at_ nextparents i' <> at_ nextparents i) ->
               at_ out (at_ nextparents i) = i) /\
    (forall p, 0 <= p -> (forall i, 0 <= i < nextlen -> at_ nextparents i <> p) -> at_ out p = at_ nextstarts p).
Proof. exact ListOffsetArray_reduce_nonlocal_nextstarts_64_spec. Qed.
Print Assumptions C13_ListOffsetArray_reduce_nonlocal_nextstarts_64_spec.

(* @awkward_ListOffsetArray_reduce_local_outoffsets_64 k_spec *)
Theorem C13_ListOffsetArray_reduce_local_outoffsets_64_spec :
  forall outoffsets parents lenparents outlength,
  0 <= lenparents <= zlen parents -> 0 <= outlength -> outlength + 1 <= zlen outoffsets ->
  (forall i, 0 <= i < lenparents -> 0 <= at_ parents i < outlength) ->
  (forall i i', 0 <= i <= i' -> i' < lenparents -> at_ parents i <= at_ parents i') ->
  exists out, reduce_local_outoffsets outoffsets parents lenparents outlength = KOk out /\ zlen out = zlen outoffsets /\
    forall q, 0 <= q -> at_ out q = if q <=? outlength then count_below parents (Z.to_nat lenparents) q
                                   else at_ outoffsets q.
Proof. exact ListOffsetArray_reduce_local_outoffsets_64_spec. Qed.
Print Assumptions C13_ListOffsetArray_reduce_local_outoffsets_64_spec.

(* @awkward_ListOffsetArray_reduce_nonlocal_preparenext_64 k_spec *)
Theorem C13_ListOffsetArray_reduce_nonlocal_preparenext_64_spec :
  forall nextcarry nextparents nextlen maxnextparents distincts distinctslen offsetscopy offsets length parents maxcount outlength,
  0 <= length -> 1 <= zlen maxnextparents ->
  distinctslen <= zlen distincts -> outlength * maxcount <= zlen distincts ->
  length + 1 <= zlen offsets -> length + 1 <= zlen offsetscopy -> length <= zlen parents ->
  nextlen <= zlen nextcarry -> nextlen <= zlen nextparents ->
  nextlen = at_ offsets length - at_ offsets 0 ->
  (forall i, 0 <= i < length -> 0 <= at_ parents i < outlength) ->
  (forall i, 0 <= i < length -> 0 <= at_ offsets (i + 1) - at_ offsets i <= maxcount) ->
  (forall i, 0 <= i <= length -> at_ offsetscopy i = at_ offsets i) ->
  exists nc np mx d oc,
    reduce_nonlocal_preparenext nextcarry nextparents nextlen maxnextparents distincts distinctslen offsetscopy offsets length parents maxcount
    = KOk (nc, np, mx, d, oc) /\
    zlen nc = zlen nextcarry /\ zlen np = zlen nextparents /\ zlen mx = zlen maxnextparents /\
    zlen d = zlen distincts /\ zlen oc = zlen offsetscopy /\
    (forall q, 0 <= q < nextlen -> 0 <= at_ np q <= at_ mx 0) /\
    (forall q, 0 <= q < nextlen -> at_ offsets 0 <= at_ nc q < at_ offsets length) /\
    (forall q, 0 <= q < nextlen -> exists i, 0 <= i < length /\ at_ offsets i <= at_ nc q < at_ offsets (i + 1) /\
                                             at_ np q = at_ parents i * maxcount + (at_ nc q - at_ offsets i)) /\
    0 <= at_ mx 0 < Z.max 1 (outlength * maxcount) /\
    (forall i, 0 <= i < length -> at_ oc i = at_ offsets (i + 1)).
Proof. exact ListOffsetArray_reduce_nonlocal_preparenext_64_spec. Qed.
Print Assumptions C13_ListOffsetArray_reduce_nonlocal_preparenext_64_spec.

(* @awkward_ListOffsetArray_reduce_nonlocal_outstartsstops_64 k_spec *)
Theorem C13_ListOffsetArray_reduce_nonlocal_outstartsstops_64_spec :
  forall outstarts outstops distincts lendistincts outlength,
  0 <= outlength -> outlength <= zlen outstarts -> outlength <= zlen outstops -> 0 <= lendistincts <= zlen distincts ->
  exists os op, reduce_nonlocal_outstartsstops outstarts outstops distincts lendistincts outlength = KOk (os, op) /\
    zlen os = zlen outstarts /\ zlen op = zlen outstops /\
    forall k, 0 <= k ->
      if k <? outlength
      then (let maxcount := lendistincts / outlength in
            let r := run_len distincts (k * maxcount) (Z.to_nat maxcount) in
            at_ os k = (if r =? 0 then 0 else k * maxcount) /\ at_ op k = (if r =? 0 then 0 else k * maxcount + r))
      else at_ os k = at_ outstarts k /\ at_ op k = at_ outstops k.
Proof. exact ListOffsetArray_reduce_nonlocal_outstartsstops_64_spec. Qed.
Print Assumptions C13_ListOffsetArray_reduce_nonlocal_outstartsstops_64_spec.

(* @awkward_IndexedArray_local_preparenext_64 k_spec *)
Theorem C13_IndexedArray_local_preparenext_64_spec :
  forall tocarry starts parents parentslength nextparents nextlen,
  0 <= parentslength -> parentslength <= zlen parents -> parentslength <= zlen tocarry -> nextlen <= zlen nextparents ->
  (forall i, 0 <= i < parentslength -> 0 <= at_ parents i < zlen starts) ->
  exists out, IndexedArray_local_preparenext tocarry starts parents parentslength nextparents nextlen = KOk out /\
    zlen out = zlen tocarry /\
    forall q, 0 <= q ->
      at_ out q = if q <? parentslength
                  then (let j := lp_matched parents nextparents nextlen (Z.to_nat q) in
                        if (j <? nextlen) && (at_ parents q =? at_ nextparents j) then j else -1)
                  else at_ tocarry q.
Proof. exact IndexedArray_local_preparenext_64_spec. Qed.
Print Assumptions C13_IndexedArray_local_preparenext_64_spec.

(* @awkward_ListOffsetArray_reduce_nonlocal_findgaps_64 k_spec *)
Theorem C13_ListOffsetArray_reduce_nonlocal_findgaps_64_spec :
  forall gaps parents lenparents,
  0 <= lenparents <= zlen parents ->
  (forall i, 0 <= i < lenparents -> at_ parents i < zlen gaps) ->
  reduce_nonlocal_findgaps gaps parents lenparents
  = KOk (fst (fg_state parents (Z.to_nat lenparents))
         ++ skipn (length (fst (fg_state parents (Z.to_nat lenparents)))) gaps).
Proof. exact ListOffsetArray_reduce_nonlocal_findgaps_64_spec. Qed.
Print Assumptions C13_ListOffsetArray_reduce_nonlocal_findgaps_64_spec.

(* @awkward_ListArray_combinations k_safe *)
Theorem C13_ListArray_combinations_safe :
  forall tocarry toindex fromindex n replacement starts stops length cap,
  1 <= n -> n <= zlen toindex -> n <= zlen fromindex -> 0 <= length -> length <= zlen starts -> length <= zlen stops ->
  rows_ok tocarry n cap ->
  comb_sum n replacement starts stops (Z.to_nat length) <= cap ->
  ListArray_combinations tocarry toindex fromindex n replacement starts stops length <> KOob.
Proof. exact ListArray_combinations_safe. Qed.
Print Assumptions C13_ListArray_combinations_safe.

(* @awkward_ListArray_combinations k_spec *)
Theorem C13_ListArray_combinations_spec :
  forall tocarry toindex fromindex n replacement starts stops length cap,
  1 <= n -> n <= zlen toindex -> n <= zlen fromindex -> 0 <= length -> length <= zlen starts -> length <= zlen stops ->
  rows_ok tocarry n cap ->
  comb_sum n replacement starts stops (Z.to_nat length) <= cap ->
  forall tc ti fi,
  ListArray_combinations tocarry toindex fromindex n replacement starts stops length = KOk (tc, ti, fi) ->
  rows_ok tc n cap /\ zlen ti = zlen toindex /\ zlen fi = zlen fromindex /\
  forall k, 0 <= k < n -> at_ ti k = comb_sum n replacement starts stops (Z.to_nat length).
Proof. exact ListArray_combinations_spec. Qed.
Print Assumptions C13_ListArray_combinations_spec.

(* @awkward_RegularArray_combinations_64 k_safe *)
Theorem C13_RegularArray_combinations_64_safe :
  forall tocarry toindex fromindex n replacement size length cap,
  1 <= n -> n <= zlen toindex -> n <= zlen fromindex -> 0 <= length ->
  rows_ok tocarry n cap ->
  length * combinations_count n (if (replacement : bool) then size + (n - 1) else size) <= cap ->
  RegularArray_combinations tocarry toindex fromindex n replacement size length <> KOob.
Proof. exact RegularArray_combinations_64_safe. Qed.
Print Assumptions C13_RegularArray_combinations_64_safe.

(* @awkward_RegularArray_combinations_64 k_spec *)
Theorem C13_RegularArray_combinations_64_spec :
  forall tocarry toindex fromindex n replacement size length cap,
  1 <= n -> n <= zlen toindex -> n <= zlen fromindex -> 0 <= length ->
  rows_ok tocarry n cap ->
  length * combinations_count n (if (replacement : bool) then size + (n - 1) else size) <= cap ->
  forall tc ti fi,
  RegularArray_combinations tocarry toindex fromindex n replacement size length = KOk (tc, ti, fi) ->
  rows_ok tc n cap /\ zlen ti = zlen toindex /\ zlen fi = zlen fromindex /\
  forall k, 0 <= k < n -> at_ ti k = length * combinations_count n (if (replacement : bool) then size + (n - 1) else size).
Proof. exact RegularArray_combinations_64_spec. Qed.
Print Assumptions C13_RegularArray_combinations_64_spec.

(* @awkward_ListOffsetArray_flatten_offsets k_width *)
Theorem C13_ListOffsetArray_flatten_offsets_width :
  forall tT tooffsets outer outerlen inner,
  outerlen <= zlen outer ->
  (forall i, 0 <= i < outerlen -> 0 <= at_ outer i < zlen inner /\ fits tT (at_ inner (at_ outer i))) ->
  ListOffsetArray_flatten_offsets tT tooffsets outer outerlen inner
  = ListOffsetArray_flatten_offsets TIdeal tooffsets outer outerlen inner.
Proof. exact ListOffsetArray_flatten_offsets_width. Qed.
Print Assumptions C13_ListOffsetArray_flatten_offsets_width.

(* @awkward_ListOffsetArray_compact_offsets k_width *)
Theorem C13_ListOffsetArray_compact_offsets_width :
  forall tT tooffsets fromoffsets length,
  1 <= zlen fromoffsets -> length + 1 <= zlen fromoffsets ->
  (forall i, 0 <= i < length -> fits tT (at_ fromoffsets (i + 1) - at_ fromoffsets 0)) ->
  ListOffsetArray_compact_offsets tT tooffsets fromoffsets length
  = ListOffsetArray_compact_offsets TIdeal tooffsets fromoffsets length.
Proof. exact ListOffsetArray_compact_offsets_width. Qed.
Print Assumptions C13_ListOffsetArray_compact_offsets_width.

(* @awkward_RegularArray_compact_offsets k_width *)
Theorem C13_RegularArray_compact_offsets_width :
  forall tT tooffsets length size,
  (forall i, 0 <= i < length -> fits tT ((i + 1) * size)) ->
  RegularArray_compact_offsets tT tooffsets length size = RegularArray_compact_offsets TIdeal tooffsets length size.
Proof. exact RegularArray_compact_offsets_width. Qed.
Print Assumptions C13_RegularArray_compact_offsets_width.

(* @awkward_UnionArray_fillna k_width *)
Theorem C13_UnionArray_fillna_width :
  forall tT toindex fromindex length,
  length <= zlen fromindex -> (forall i, 0 <= i < length -> fits tT (Z.max 0 (at_ fromindex i))) ->
  UnionArray_fillna tT toindex fromindex length = UnionArray_fillna TIdeal toindex fromindex length.
Proof. exact UnionArray_fillna_width. Qed.
Print Assumptions C13_UnionArray_fillna_width.

(* @awkward_IndexedArray_fill k_width *)
Theorem C13_IndexedArray_fill_width :
  forall tTO toindex toindexoffset fromindex length base,
  length <= zlen fromindex -> fits tTO (-1) ->
  (forall i, 0 <= i < length -> 0 <= at_ fromindex i -> fits tTO (at_ fromindex i + base)) ->
  IndexedArray_fill tTO toindex toindexoffset fromindex length base
  = IndexedArray_fill TIdeal toindex toindexoffset fromindex length base.
Proof. exact IndexedArray_fill_width. Qed.
Print Assumptions C13_IndexedArray_fill_width.

(* @awkward_UnionArray_filltags k_width *)
Theorem C13_UnionArray_filltags_width :
  forall tTO totags totagsoffset fromtags length base,
  length <= zlen fromtags -> (forall i, 0 <= i < length -> fits tTO (at_ fromtags i + base)) ->
  UnionArray_filltags tTO totags totagsoffset fromtags length base
  = UnionArray_filltags TIdeal totags totagsoffset fromtags length base.
Proof. exact UnionArray_filltags_width. Qed.
Print Assumptions C13_UnionArray_filltags_width.

(* @awkward_UnionArray_fillindex k_width *)
Theorem C13_UnionArray_fillindex_width :
  forall tTO toindex toindexoffset fromindex length,
  length <= zlen fromindex -> (forall i, 0 <= i < length -> fits tTO (at_ fromindex i)) ->
  UnionArray_fillindex tTO toindex toindexoffset fromindex length
  = UnionArray_fillindex TIdeal toindex toindexoffset fromindex length.
Proof. exact UnionArray_fillindex_width. Qed.
Print Assumptions C13_UnionArray_fillindex_width.

(* @awkward_ListArray_getitem_next_at k_width *)
Theorem C13_ListArray_getitem_next_at_width :
  forall tT tC tocarry starts stops lenstarts at0,
  lenstarts <= zlen starts -> lenstarts <= zlen stops ->
  (forall i, 0 <= i < lenstarts ->
     fits tC (at_ stops i - at_ starts i) /\
     fits tT (at_ starts i + (if at0 <? 0 then at0 + (at_ stops i - at_ starts i) else at0))) ->
  ListArray_getitem_next_at tT tC tocarry starts stops lenstarts at0
  = ListArray_getitem_next_at TIdeal TIdeal tocarry starts stops lenstarts at0.
Proof. exact ListArray_getitem_next_at_width. Qed.
Print Assumptions C13_ListArray_getitem_next_at_width.

(* @awkward_RegularArray_broadcast_tooffsets k_width *)
Theorem C13_RegularArray_broadcast_tooffsets_width :
  forall tT fromoffsets offsetslength size,
  offsetslength <= zlen fromoffsets ->
  (forall i, 0 <= i < offsetslength - 1 -> fits tT (at_ fromoffsets (i + 1) - at_ fromoffsets i)) ->
  RegularArray_broadcast_tooffsets tT fromoffsets offsetslength size
  = RegularArray_broadcast_tooffsets TIdeal fromoffsets offsetslength size.
Proof. exact RegularArray_broadcast_tooffsets_width. Qed.
Print Assumptions C13_RegularArray_broadcast_tooffsets_width.

(* @awkward_ListArray_compact_offsets k_width *)
Theorem C13_ListArray_compact_offsets_width :
  forall tT tC tooffsets starts stops length,
  length <= zlen starts -> length <= zlen stops -> length + 1 <= zlen tooffsets ->
  (forall i, 0 <= i < length -> fits tC (at_ stops i - at_ starts i)) ->
  (forall k, (k <= Z.to_nat length)%nat -> fits tT (count_sum starts stops k)) ->
  (forall i, 0 <= i < length -> at_ starts i <= at_ stops i) ->
  ListArray_compact_offsets tT tC tooffsets starts stops length
  = ListArray_compact_offsets TIdeal TIdeal tooffsets starts stops length.
Proof. exact ListArray_compact_offsets_width. Qed.
Print Assumptions C13_ListArray_compact_offsets_width.

(* @awkward_ListArray_getitem_carry k_width *)
Theorem C13_ListArray_getitem_carry_width :
  forall tC tostarts tostops starts stops fromcarry lenstarts lencarry,
  lencarry <= zlen fromcarry -> lenstarts <= zlen starts -> lenstarts <= zlen stops ->
  (forall i, 0 <= i < lencarry -> 0 <= at_ fromcarry i) ->
  (forall c, 0 <= c < lenstarts -> fits tC (at_ starts c) /\ fits tC (at_ stops c)) ->
  ListArray_getitem_carry tC tostarts tostops starts stops fromcarry lenstarts lencarry
  = ListArray_getitem_carry TIdeal tostarts tostops starts stops fromcarry lenstarts lencarry.
Proof. exact ListArray_getitem_carry_width. Qed.
Print Assumptions C13_ListArray_getitem_carry_width.

(* @awkward_ListArray_min_range k_width *)
Theorem C13_ListArray_min_range_width :
  forall tC tomin starts stops lenstarts,
  1 <= zlen starts -> 1 <= zlen stops -> lenstarts <= zlen starts -> lenstarts <= zlen stops ->
  (forall i, 0 <= i < Z.max 1 lenstarts -> fits tC (at_ stops i - at_ starts i)) ->
  ListArray_min_range tC tomin starts stops lenstarts = ListArray_min_range TIdeal tomin starts stops lenstarts.
Proof. exact ListArray_min_range_width. Qed.
Print Assumptions C13_ListArray_min_range_width.

(* @awkward_ListArray_rpad_and_clip_length_axis1 k_width *)
Theorem C13_ListArray_rpad_and_clip_length_axis1_width :
  forall tC tomin starts stops target lenstarts,
  lenstarts <= zlen starts -> lenstarts <= zlen stops ->
  (forall i, 0 <= i < lenstarts -> fits tC (at_ stops i - at_ starts i)) ->
  ListArray_rpad_and_clip_length_axis1 tC tomin starts stops target lenstarts
  = ListArray_rpad_and_clip_length_axis1 TIdeal tomin starts stops target lenstarts.
Proof. exact ListArray_rpad_and_clip_length_axis1_width. Qed.
Print Assumptions C13_ListArray_rpad_and_clip_length_axis1_width.

(* @awkward_ListArray_getitem_next_range_spreadadvanced k_width *)
Theorem C13_ListArray_getitem_next_range_spreadadvanced_width :
  forall tC toadvanced fromadvanced fromoffsets lenstarts,
  lenstarts + 1 <= zlen fromoffsets ->
  (forall i, 0 <= i < lenstarts -> fits tC (at_ fromoffsets (i + 1) - at_ fromoffsets i)) ->
  ListArray_getitem_next_range_spreadadvanced tC toadvanced fromadvanced fromoffsets lenstarts
  = ListArray_getitem_next_range_spreadadvanced TIdeal toadvanced fromadvanced fromoffsets lenstarts.
Proof. exact ListArray_getitem_next_range_spreadadvanced_width. Qed.
Print Assumptions C13_ListArray_getitem_next_range_spreadadvanced_width.

(* @awkward_ListArray_getitem_next_range_carrylength k_width *)
Theorem C13_ListArray_getitem_next_range_carrylength_width :
  forall tC carrylength starts stops lenstarts start stop step,
  lenstarts <= zlen starts -> lenstarts <= zlen stops ->
  (forall i, 0 <= i < lenstarts -> fits tC (at_ stops i - at_ starts i)) ->
  ListArray_getitem_next_range_carrylength tC carrylength starts stops lenstarts start stop step
  = ListArray_getitem_next_range_carrylength TIdeal carrylength starts stops lenstarts start stop step.
Proof. exact ListArray_getitem_next_range_carrylength_width. Qed.
Print Assumptions C13_ListArray_getitem_next_range_carrylength_width.

(* @awkward_RegularArray_broadcast_tooffsets_size1 k_width *)
Theorem C13_RegularArray_broadcast_tooffsets_size1_width :
  forall tT tocarry fromoffsets offsetslength,
  offsetslength <= zlen fromoffsets ->
  (forall i, 0 <= i < offsetslength - 1 -> fits tT (at_ fromoffsets (i + 1) - at_ fromoffsets i) /\ fits tT i) ->
  RegularArray_broadcast_tooffsets_size1 tT tocarry fromoffsets offsetslength
  = RegularArray_broadcast_tooffsets_size1 TIdeal tocarry fromoffsets offsetslength.
Proof. exact RegularArray_broadcast_tooffsets_size1_width. Qed.
Print Assumptions C13_RegularArray_broadcast_tooffsets_size1_width.

(* @awkward_RegularArray_rpad_and_clip_axis1 k_spec *)
Theorem C13_RegularArray_rpad_and_clip_axis1_spec :
  forall toindex target size length,
  0 <= target -> 0 <= size -> 0 <= length -> length * target <= zlen toindex ->
  exists out, RegularArray_rpad_and_clip_axis1 toindex target size length = KOk out /\ zlen out = zlen toindex /\
    forall q, 0 <= q ->
      at_ out q = if q <? length * target
                  then (if q mod target <? Z.min target size then (q / target) * size + q mod target else -1)
                  else at_ toindex q.
Proof. exact RegularArray_rpad_and_clip_axis1_spec. Qed.
Print Assumptions C13_RegularArray_rpad_and_clip_axis1_spec.

(* @awkward_ListOffsetArray_rpad_and_clip_axis1 k_spec *)
Theorem C13_ListOffsetArray_rpad_and_clip_axis1_spec :
  forall toindex fromoffsets length target,
  0 <= target -> 0 <= length -> length + 1 <= zlen fromoffsets -> length * target <= zlen toindex ->
  (forall i, 0 <= i < length -> at_ fromoffsets i <= at_ fromoffsets (i + 1)) ->
  exists out, ListOffsetArray_rpad_and_clip_axis1 toindex fromoffsets length target = KOk out /\ zlen out = zlen toindex /\
    forall q, 0 <= q ->
      at_ out q = if q <? length * target
                  then (if q mod target <? at_ fromoffsets (q / target + 1) - at_ fromoffsets (q / target)
                        then at_ fromoffsets (q / target) + q mod target else -1)
                  else at_ toindex q.
Proof. exact ListOffsetArray_rpad_and_clip_axis1_spec. Qed.
Print Assumptions C13_ListOffsetArray_rpad_and_clip_axis1_spec.

(* @awkward_ListArray_localindex k_spec *)
Theorem C13_ListArray_localindex_spec :
  forall toindex offsets length,
  0 <= length -> length + 1 <= zlen offsets -> 0 <= at_ offsets 0 -> at_ offsets length <= zlen toindex ->
  (forall i i', 0 <= i <= i' -> i' <= length -> at_ offsets i <= at_ offsets i') ->
  exists out, ListArray_localindex toindex offsets length = KOk out /\ zlen out = zlen toindex /\
    (forall i q, 0 <= i < length -> at_ offsets i <= q < at_ offsets (i + 1) -> at_ out q = q - at_ offsets i) /\
    (forall q, 0 <= q -> ~ (at_ offsets 0 <= q < at_ offsets length) -> at_ out q = at_ toindex q).
Proof. exact ListArray_localindex_spec. Qed.
Print Assumptions C13_ListArray_localindex_spec.

(* @awkward_ListOffsetArray_reduce_local_nextparents_64 k_spec *)
Theorem C13_ListOffsetArray_reduce_local_nextparents_64_spec :
  forall nextparents offsets length,
  0 <= length -> length + 1 <= zlen offsets -> at_ offsets length - at_ offsets 0 <= zlen nextparents ->
  (forall i i', 0 <= i <= i' -> i' <= length -> at_ offsets i <= at_ offsets i') ->
  exists out, reduce_local_nextparents nextparents offsets length = KOk out /\ zlen out = zlen nextparents /\
    (forall i q, 0 <= i < length -> at_ offsets i - at_ offsets 0 <= q < at_ offsets (i + 1) - at_ offsets 0 -> at_ out q = i) /\
    (forall q, at_ offsets length - at_ offsets 0 <= q -> at_ out q = at_ nextparents q).
Proof. exact ListOffsetArray_reduce_local_nextparents_64_spec. Qed.
Print Assumptions C13_ListOffsetArray_reduce_local_nextparents_64_spec.

(* @awkward_ListArray_getitem_next_range_spreadadvanced k_spec *)
Theorem C13_ListArray_getitem_next_range_spreadadvanced_spec :
  forall toadvanced fromadvanced fromoffsets lenstarts,
  0 <= lenstarts -> lenstarts + 1 <= zlen fromoffsets -> lenstarts <= zlen fromadvanced ->
  0 <= at_ fromoffsets 0 -> at_ fromoffsets lenstarts <= zlen toadvanced ->
  (forall i i', 0 <= i <= i' -> i' <= lenstarts -> at_ fromoffsets i <= at_ fromoffsets i') ->
  exists out, ListArray_getitem_next_range_spreadadvanced TIdeal toadvanced fromadvanced fromoffsets lenstarts = KOk out /\
    zlen out = zlen toadvanced /\
    (forall i q, 0 <= i < lenstarts -> at_ fromoffsets i <= q < at_ fromoffsets (i + 1) -> at_ out q = at_ fromadvanced i) /\
    (forall q, 0 <= q -> ~ (at_ fromoffsets 0 <= q < at_ fromoffsets lenstarts) -> at_ out q = at_ toadvanced q).
Proof. exact ListArray_getitem_next_range_spreadadvanced_spec. Qed.
Print Assumptions C13_ListArray_getitem_next_range_spreadadvanced_spec.

(* @awkward_RegularArray_getitem_next_array k_spec *)
Theorem C13_RegularArray_getitem_next_array_spec :
  forall tocarry toadvanced fromarray length lenarray size,
  0 <= length -> 0 <= lenarray -> lenarray <= zlen fromarray ->
  length * lenarray <= zlen tocarry -> length * lenarray <= zlen toadvanced ->
  exists tc ta, RegularArray_getitem_next_array tocarry toadvanced fromarray length lenarray size = KOk (tc, ta) /\
    zlen tc = zlen tocarry /\ zlen ta = zlen toadvanced /\
    forall q, 0 <= q ->
      at_ tc q = (if q <? length * lenarray then (q / lenarray) * size + at_ fromarray (q mod lenarray) else at_ tocarry q) /\
      at_ ta q = (if q <? length * lenarray then q mod lenarray else at_ toadvanced q).
Proof. exact RegularArray_getitem_next_array_spec. Qed.
Print Assumptions C13_RegularArray_getitem_next_array_spec.

(* @awkward_ListArray_getitem_next_array k_spec *)
Theorem C13_ListArray_getitem_next_array_spec :
  forall tocarry toadvanced starts stops fromarray lenstarts lenarray lencontent,
  0 <= lenstarts -> 0 <= lenarray -> lenstarts <= zlen starts -> lenstarts <= zlen stops -> lenarray <= zlen fromarray ->
  lenstarts * lenarray <= zlen tocarry -> lenstarts * lenarray <= zlen toadvanced ->
  (forall i, 0 <= i < lenstarts -> at_ starts i <= at_ stops i /\ (at_ starts i = at_ stops i \/ at_ stops i <= lencontent)) ->
  (forall i j, 0 <= i < lenstarts -> 0 <= j < lenarray ->
     - (at_ stops i - at_ starts i) <= at_ fromarray j < at_ stops i - at_ starts i) ->
  exists tc ta,
    ListArray_getitem_next_array tocarry toadvanced starts stops fromarray lenstarts lenarray lencontent = KOk (tc, ta) /\
    zlen tc = zlen tocarry /\ zlen ta = zlen toadvanced /\
    forall q, 0 <= q ->
      at_ tc q = (if q <? lenstarts * lenarray
                  then at_ starts (q / lenarray)
                       + (if at_ fromarray (q mod lenarray) <? 0
                          then at_ fromarray (q mod lenarray) + (at_ stops (q / lenarray) - at_ starts (q / lenarray))
                          else at_ fromarray (q mod lenarray))
                  else at_ tocarry q) /\
      at_ ta q = (if q <? lenstarts * lenarray then q mod lenarray else at_ toadvanced q).
Proof. exact ListArray_getitem_next_array_spec. Qed.
Print Assumptions C13_ListArray_getitem_next_array_spec.

(* @awkward_RegularArray_broadcast_tooffsets_size1 k_spec *)
Theorem C13_RegularArray_broadcast_tooffsets_size1_spec :
  forall tocarry fromoffsets offsetslength,
  1 <= offsetslength -> offsetslength <= zlen fromoffsets ->
  (forall i, 0 <= i < offsetslength - 1 -> at_ fromoffsets i <= at_ fromoffsets (i + 1)) ->
  let P := flat_map (fun i => map (fun _ => i) (iota (at_ fromoffsets (i + 1) - at_ fromoffsets i))) (iota (offsetslength - 1)) in
  zlen P <= zlen tocarry ->
  RegularArray_broadcast_tooffsets_size1 TIdeal tocarry fromoffsets offsetslength = KOk (P ++ skipn (length P) tocarry).
Proof. exact RegularArray_broadcast_tooffsets_size1_spec. Qed.
Print Assumptions C13_RegularArray_broadcast_tooffsets_size1_spec.

(* @awkward_ListArray_broadcast_tooffsets k_spec *)
Theorem C13_ListArray_broadcast_tooffsets_spec :
  forall tocarry fromoffsets offsetslength starts stops lencontent,
  1 <= offsetslength -> offsetslength <= zlen fromoffsets ->
  offsetslength - 1 <= zlen starts -> offsetslength - 1 <= zlen stops ->
  (forall i, 0 <= i < offsetslength - 1 ->
     at_ starts i <= at_ stops i /\ at_ stops i <= lencontent /\
     at_ stops i - at_ starts i = at_ fromoffsets (i + 1) - at_ fromoffsets i) ->
  let P := flat_map (fun i => map (fun k => at_ starts i + k) (iota (at_ stops i - at_ starts i))) (iota (offsetslength - 1)) in
  zlen P <= zlen tocarry ->
  ListArray_broadcast_tooffsets TIdeal tocarry fromoffsets offsetslength starts stops lencontent
  = KOk (P ++ skipn (length P) tocarry).
Proof. exact ListArray_broadcast_tooffsets_spec. Qed.
Print Assumptions C13_ListArray_broadcast_tooffsets_spec.

(* @awkward_ListOffsetArray_rpad_axis1 k_spec *)
Theorem C13_ListOffsetArray_rpad_axis1_spec :
  forall toindex fromoffsets fromlength target,
  0 <= fromlength -> fromlength + 1 <= zlen fromoffsets ->
  (forall i, 0 <= i < fromlength -> at_ fromoffsets i <= at_ fromoffsets (i + 1)) ->
  let P := flat_map (fun i => map (fun k => at_ fromoffsets i + k) (iota (at_ fromoffsets (i + 1) - at_ fromoffsets i))
                              ++ map (fun _ => -1) (iota (target - (at_ fromoffsets (i + 1) - at_ fromoffsets i))))
                    (iota fromlength) in
  zlen P <= zlen toindex ->
  ListOffsetArray_rpad_axis1 toindex fromoffsets fromlength target = KOk (P ++ skipn (length P) toindex).
Proof. exact ListOffsetArray_rpad_axis1_spec. Qed.
Print Assumptions C13_ListOffsetArray_rpad_axis1_spec.

(* @awkward_ListArray_getitem_next_array_advanced k_spec *)
Theorem C13_ListArray_getitem_next_array_advanced_spec :
  forall tocarry toadvanced starts stops fromarray fromadvanced lenstarts lenarray lencontent,
  0 <= lenstarts -> lenstarts <= zlen starts -> lenstarts <= zlen stops -> lenstarts <= zlen fromadvanced ->
  lenstarts <= zlen tocarry -> lenstarts <= zlen toadvanced ->
  (forall i, 0 <= i < lenstarts -> at_ starts i <= at_ stops i /\ (at_ starts i = at_ stops i \/ at_ stops i <= lencontent)) ->
  (forall i, 0 <= i < lenstarts ->
     0 <= at_ fromadvanced i < zlen fromarray /\
     - (at_ stops i - at_ starts i) <= at_ fromarray (at_ fromadvanced i) < at_ stops i - at_ starts i) ->
  ListArray_getitem_next_array_advanced tocarry toadvanced starts stops fromarray fromadvanced lenstarts lenarray lencontent
  = KOk (filled 0 lenstarts (fun i => let a := at_ fromarray (at_ fromadvanced i) in
                                      at_ starts i + (if a <? 0 then a + (at_ stops i - at_ starts i) else a)) tocarry,
         filled 0 lenstarts (fun i => at_ fromadvanced i) toadvanced).
Proof. exact ListArray_getitem_next_array_advanced_spec. Qed.
Print Assumptions C13_ListArray_getitem_next_array_advanced_spec.

(* @awkward_RegularArray_getitem_next_array_advanced k_spec *)
Theorem C13_RegularArray_getitem_next_array_advanced_spec :
  forall tocarry toadvanced fromadvanced fromarray length lenarray size,
  0 <= length -> length <= zlen fromadvanced -> length <= zlen tocarry -> length <= zlen toadvanced ->
  (forall i, 0 <= i < length -> 0 <= at_ fromadvanced i < zlen fromarray) ->
  RegularArray_getitem_next_array_advanced tocarry toadvanced fromadvanced fromarray length lenarray size
  = KOk (filled 0 length (fun i => i * size + at_ fromarray (at_ fromadvanced i)) tocarry,
         filled 0 length (fun i => at_ fromadvanced i) toadvanced).
Proof. exact RegularArray_getitem_next_array_advanced_spec. Qed.
Print Assumptions C13_RegularArray_getitem_next_array_advanced_spec.

(* @awkward_RegularArray_getitem_next_array_regularize k_spec *)
Theorem C13_RegularArray_getitem_next_array_regularize_spec :
  forall toarray fromarray lenarray size,
  0 <= lenarray -> lenarray <= zlen fromarray -> lenarray <= zlen toarray ->
  (forall j, 0 <= j < lenarray -> - size <= at_ fromarray j < size) ->
  RegularArray_getitem_next_array_regularize toarray fromarray lenarray size
  = KOk (filled 0 lenarray (fun j => if at_ fromarray j <? 0 then at_ fromarray j + size else at_ fromarray j) toarray).
Proof. exact RegularArray_getitem_next_array_regularize_spec. Qed.
Print Assumptions C13_RegularArray_getitem_next_array_regularize_spec.

(* @awkward_IndexedArray_flatten_none2empty k_spec *)
Theorem C13_IndexedArray_flatten_none2empty_spec :
  forall outoffsets outindex outindexlength offsets offsetslength,
  0 <= outindexlength -> 1 <= zlen offsets -> offsetslength <= zlen offsets -> outindexlength <= zlen outindex ->
  outindexlength + 1 <= zlen outoffsets ->
  (forall i, 0 <= i < outindexlength -> at_ outindex i + 1 < offsetslength) ->
  exists out, IndexedArray_flatten_none2empty TIdeal outoffsets outindex outindexlength offsets offsetslength = KOk out /\
    zlen out = zlen outoffsets /\
    forall q, 0 <= q -> at_ out q = if q <=? outindexlength then n2e_sum outindex offsets (Z.to_nat q) else at_ outoffsets q.
Proof. exact IndexedArray_flatten_none2empty_spec. Qed.
Print Assumptions C13_IndexedArray_flatten_none2empty_spec.

(* @awkward_ListOffsetArray_rpad_length_axis1 k_spec *)
Theorem C13_ListOffsetArray_rpad_length_axis1_spec :
  forall tooffsets fromoffsets fromlength target tolength,
  0 <= fromlength -> fromlength + 1 <= zlen tooffsets -> fromlength + 1 <= zlen fromoffsets -> 1 <= zlen tolength ->
  exists out, ListOffsetArray_rpad_length_axis1 TIdeal tooffsets fromoffsets fromlength target tolength
              = KOk (out, set_nth tolength 0 (wrap i64 (rpad_total fromoffsets target (Z.to_nat fromlength)))) /\
    zlen out = zlen tooffsets /\
    forall q, 0 <= q -> at_ out q = if q <=? fromlength then rpad_total fromoffsets target (Z.to_nat q) else at_ tooffsets q.
Proof. exact ListOffsetArray_rpad_length_axis1_spec. Qed.
Print Assumptions C13_ListOffsetArray_rpad_length_axis1_spec.

(* @awkward_ListArray_min_range k_spec *)
Theorem C13_ListArray_min_range_spec :
  forall tomin starts stops lenstarts,
  1 <= lenstarts -> lenstarts <= zlen starts -> lenstarts <= zlen stops -> 1 <= zlen tomin ->
  ListArray_min_range TIdeal tomin starts stops lenstarts
  = KOk (set_nth tomin 0 (min_upto starts stops (Z.to_nat (lenstarts - 1)))).
Proof. exact ListArray_min_range_spec. Qed.
Print Assumptions C13_ListArray_min_range_spec.

(* @awkward_ListArray_rpad_and_clip_length_axis1 k_spec *)
Theorem C13_ListArray_rpad_and_clip_length_axis1_spec :
  forall tomin starts stops target lenstarts,
  0 <= lenstarts -> lenstarts <= zlen starts -> lenstarts <= zlen stops -> 1 <= zlen tomin ->
  ListArray_rpad_and_clip_length_axis1 TIdeal tomin starts stops target lenstarts
  = KOk (set_nth tomin 0 (wrap i64 (padclip_total starts stops target (Z.to_nat lenstarts)))).
Proof. exact ListArray_rpad_and_clip_length_axis1_spec. Qed.
Print Assumptions C13_ListArray_rpad_and_clip_length_axis1_spec.

(* @awkward_ListArray_getitem_next_range k_spec *)
Theorem C13_ListArray_getitem_next_range_spec :
  forall tooffsets tocarry starts stops lenstarts start stop step,
  step <> 0 -> 0 <= lenstarts -> lenstarts + 1 <= zlen tooffsets -> lenstarts <= zlen starts -> lenstarts <= zlen stops ->
  let blk := fun i => range_items TIdeal start stop step (at_ starts i) (at_ stops i) in
  zlen (flat_map blk (iota lenstarts)) <= zlen tocarry ->
  exists off,
    ListArray_getitem_next_range TIdeal TIdeal tooffsets tocarry starts stops lenstarts start stop step
    = KOk (off, flat_map blk (iota lenstarts) ++ skipn (length (flat_map blk (iota lenstarts))) tocarry) /\
    zlen off = zlen tooffsets /\
    forall q, 0 <= q -> at_ off q = if q <=? lenstarts then zlen (flat_map blk (iota q)) else at_ tooffsets q.
Proof. exact ListArray_getitem_next_range_spec. Qed.
Print Assumptions C13_ListArray_getitem_next_range_spec.

(* @awkward_reduce_argmin_bool_64 k_safe *)
Theorem C13_reduce_argmin_bool_64_safe :
  forall toptr fromptr parents n ol,
  red_pre toptr fromptr parents n ol -> reduce_argmin toptr fromptr parents n ol <> KOob.
Proof. exact reduce_argmin_bool_64_safe. Qed.
Print Assumptions C13_reduce_argmin_bool_64_safe.

(* @awkward_reduce_argmin_bool_64 k_spec *)
Theorem C13_reduce_argmin_bool_64_spec :
  forall toptr fromptr parents n ol,
  red_pre toptr fromptr parents n ol ->
  exists out, reduce_argmin toptr fromptr parents n ol = KOk out /\ zlen out = zlen toptr /\
    forall q, 0 <= q -> if q <? ol then is_argmin parents fromptr n q (at_ out q) else at_ out q = at_ toptr q.
Proof. exact reduce_argmin_bool_64_spec. Qed.
Print Assumptions C13_reduce_argmin_bool_64_spec.

(* @awkward_reduce_argmax_bool_64 k_safe *)
Theorem C13_reduce_argmax_bool_64_safe :
  forall toptr fromptr parents n ol,
  red_pre toptr fromptr parents n ol -> reduce_argmax toptr fromptr parents n ol <> KOob.
Proof. exact reduce_argmax_bool_64_safe. Qed.
Print Assumptions C13_reduce_argmax_bool_64_safe.

(* @awkward_reduce_argmax_bool_64 k_spec *)
Theorem C13_reduce_argmax_bool_64_spec :
  forall toptr fromptr parents n ol,
  red_pre toptr fromptr parents n ol ->
  exists out, reduce_argmax toptr fromptr parents n ol = KOk out /\ zlen out = zlen toptr /\
    forall q, 0 <= q -> if q <? ol then is_argmax parents fromptr n q (at_ out q) else at_ out q = at_ toptr q.
Proof. exact reduce_argmax_bool_64_spec. Qed.
Print Assumptions C13_reduce_argmax_bool_64_spec.

(* @awkward_reduce_sum_int32_bool_64 k_safe *)
Theorem C13_reduce_sum_int32_bool_64_safe :
  forall toptr fromptr parents n ol,
  red_pre toptr fromptr parents n ol -> reduce_countnonzero toptr fromptr parents n ol <> KOob.
Proof. exact reduce_sum_int32_bool_64_safe. Qed.
Print Assumptions C13_reduce_sum_int32_bool_64_safe.

(* @awkward_reduce_sum_int32_bool_64 k_spec *)
Theorem C13_reduce_sum_int32_bool_64_spec :
  forall toptr fromptr parents n ol,
  red_pre toptr fromptr parents n ol ->
  exists out, reduce_countnonzero toptr fromptr parents n ol = KOk out /\ zlen out = zlen toptr /\
    forall q, 0 <= q ->
      at_ out q = if q <? ol then red_upto i64 0 (fun _ cur x => cur + (if x =? 0 then 0 else 1)) parents fromptr (Z.to_nat n) q
                  else at_ toptr q.
Proof. exact reduce_sum_int32_bool_64_spec. Qed.
Print Assumptions C13_reduce_sum_int32_bool_64_spec.

(* @awkward_reduce_sum_int64_bool_64 k_safe *)
Theorem C13_reduce_sum_int64_bool_64_safe :
  forall toptr fromptr parents n ol,
  red_pre toptr fromptr parents n ol -> reduce_countnonzero toptr fromptr parents n ol <> KOob.
Proof. exact reduce_sum_int64_bool_64_safe. Qed.
Print Assumptions C13_reduce_sum_int64_bool_64_safe.

(* @awkward_reduce_sum_int64_bool_64 k_spec *)
Theorem C13_reduce_sum_int64_bool_64_spec :
  forall toptr fromptr parents n ol,
  red_pre toptr fromptr parents n ol ->
  exists out, reduce_countnonzero toptr fromptr parents n ol = KOk out /\ zlen out = zlen toptr /\
    forall q, 0 <= q ->
      at_ out q = if q <? ol then red_upto i64 0 (fun _ cur x => cur + (if x =? 0 then 0 else 1)) parents fromptr (Z.to_nat n) q
                  else at_ toptr q.
Proof. exact reduce_sum_int64_bool_64_spec. Qed.
Print Assumptions C13_reduce_sum_int64_bool_64_spec.

(* @awkward_IndexedArray_getitem_nextcarry_outindex_mask k_spec *)
Theorem C13_IndexedArray_getitem_nextcarry_outindex_mask_spec :
  forall tocarry toindex fromindex lenindex lencontent,
  0 <= lenindex -> lenindex <= zlen fromindex -> lenindex <= zlen toindex ->
  cnt_upto nonneg fromindex lenindex <= zlen tocarry ->
  (forall i, 0 <= i < lenindex -> at_ fromindex i < lencontent) ->
  exists tc ti,
    IndexedArray_getitem_nextcarry_outindex TIdeal tocarry toindex fromindex lenindex lencontent = KOk (tc, ti) /\
    zlen tc = zlen tocarry /\ zlen ti = zlen toindex /\
    (forall q, 0 <= q -> at_ ti q = if q <? lenindex
                                    then (if at_ fromindex q <? 0 then -1 else cnt_upto nonneg fromindex q)
                                    else at_ toindex q) /\
    (forall q, 0 <= q < lenindex -> 0 <= at_ fromindex q -> at_ tc (cnt_upto nonneg fromindex q) = at_ fromindex q) /\
    (forall c, cnt_upto nonneg fromindex lenindex <= c -> at_ tc c = at_ tocarry c).
Proof. exact IndexedArray_getitem_nextcarry_outindex_mask_spec. Qed.
Print Assumptions C13_IndexedArray_getitem_nextcarry_outindex_mask_spec.

(* @awkward_ListArray_rpad_axis1 k_spec *)
Theorem C13_ListArray_rpad_axis1_spec :
  forall toindex starts stops tostarts tostops target length,
  0 <= length -> length <= zlen starts -> length <= zlen stops -> length <= zlen tostarts -> length <= zlen tostops ->
  (forall i, 0 <= i < length -> at_ starts i <= at_ stops i) ->
  padclip_total starts stops target (Z.to_nat length) <= zlen toindex ->
  exists ti,
    ListArray_rpad_axis1 TIdeal toindex starts stops tostarts tostops target length
    = KOk (ti, filled 0 length (fun k => padclip_total starts stops target (Z.to_nat k)) tostarts,
               filled 0 length (fun k => padclip_total starts stops target (Z.to_nat (k + 1))) tostops) /\
    zlen ti = zlen toindex /\
    (forall k j, 0 <= k < length -> 0 <= j < Z.max target (at_ stops k - at_ starts k) ->
       at_ ti (padclip_total starts stops target (Z.to_nat k) + j)
       = if j <? at_ stops k - at_ starts k then at_ starts k + j else -1) /\
    (forall q, padclip_total starts stops target (Z.to_nat length) <= q -> at_ ti q = at_ toindex q).
Proof. exact ListArray_rpad_axis1_spec. Qed.
Print Assumptions C13_ListArray_rpad_axis1_spec.
