(** C17 proofs, part 7: printable types print to byte strings (so the exactness theorem needs no side condition on
    them), and the witnesses: one for every shape excluded from [printable], showing that the round trip through the
    reference parser really fails there, with the reason (printer not injective / no production in the reference
    parser) and the open finding it corresponds to. *)
From Coq Require Import ZArith List Bool Lia String.
From AwkV Require Import Base Layout.
From AwkTypes Require Import Json Forms TypeStr Proofs_Json Proofs_Parse Proofs_C17b_Exact.
Import ListNotations.
Open Scope Z_scope.

(* ---------------------------------------------------------------- printable types print to bytes *)
Lemma digits_key_ok ds : forallb is_digit ds = true -> key_ok ds = true.
Proof.
  unfold key_ok. intros H. apply forallb_forall. intros c Hc. rewrite forallb_forall in H. specialize (H c Hc).
  unfold is_digit in H. apply andb_true_iff in H as [H1 H2]. apply Z.leb_le in H1, H2. apply byte_ok_of. lia.
Qed.

Lemma alnum_key_ok w : forallb is_alnum_ w = true -> key_ok w = true.
Proof.
  unfold key_ok. intros H. apply forallb_forall. intros c Hc. rewrite forallb_forall in H. specialize (H c Hc).
  apply byte_ok_of. unfold is_alnum_, is_alpha_ in H.
  repeat match goal with
         | H : (_ || _) = true |- _ => apply orb_true_iff in H as [H|H]
         | H : (_ && _) = true |- _ => let H1 := fresh in let H2 := fresh in apply andb_true_iff in H as [H1 H2]; apply Z.leb_le in H1, H2
         | H : (_ =? _) = true |- _ => apply Z.eqb_eq in H
         end; lia.
Qed.

Lemma hexdigit_byte n : 0 <= n < 16 -> byte_ok (hexdigit n) = true.
Proof. intros H. unfold hexdigit. destruct (n <? 10); apply byte_ok_of; lia. Qed.

Lemma escape_key_ok c : byte_ok c = true -> key_ok (escape_char c) = true.
Proof.
  intros Hc. unfold escape_char.
  repeat match goal with |- context [if ?b then _ else _] => destruct b eqn:? end; try reflexivity.
  - match goal with H : (c <? 32) = true |- _ => apply Z.ltb_lt in H end.
    unfold byte_ok in Hc. apply andb_true_iff in Hc as [H0 _]. apply Z.leb_le in H0.
    rewrite !key_ok_cons.
    rewrite (hexdigit_byte (c / 16)) by (split; [apply Z.div_pos; lia|apply Z.div_lt_upper_bound; lia]).
    rewrite (hexdigit_byte (c mod 16)) by (apply Z.mod_pos_bound; lia). reflexivity.
  - rewrite key_ok_cons, Hc. reflexivity.
Qed.

Lemma quote_key_ok k : key_ok k = true -> key_ok (quote k) = true.
Proof.
  intros H. unfold quote. rewrite key_ok_cons, key_ok_app. change (key_ok [34]) with true. rewrite andb_true_r.
  change (byte_ok 34) with true. cbn [andb].
  induction k as [|c k IH]; [reflexivity|]. rewrite key_ok_cons in H. apply andb_true_iff in H as [Hc Hk].
  cbn [flat_map]. rewrite key_ok_app, (escape_key_ok c Hc), (IH Hk). reflexivity.
Qed.

Lemma sep_concat_key_ok (parts : list bytes) : forallb key_ok parts = true -> key_ok (sep_concat p_comma parts) = true.
Proof.
  induction parts as [|p parts IH]; [reflexivity|]. intros H. simpl in H. apply andb_true_iff in H as [Hp Hr].
  destruct parts as [|q parts]; [exact Hp|]. rewrite sep_concat_cons2, !key_ok_app, Hp, (IH Hr). reflexivity.
Qed.

Lemma forallb_map {A B} (f : B -> bool) (g : A -> B) l : forallb f (map g l) = forallb (fun x => f (g x)) l.
Proof. induction l; simpl; congruence. Qed.

Lemma keyed_key_ok ks : forall (xs : list bytes), forallb key_ok ks = true -> forallb key_ok xs = true ->
  forallb key_ok (keyed ks xs) = true.
Proof.
  induction ks as [|k ks IH]; intros [|x xs] Hk Hx; try reflexivity.
  simpl in Hk, Hx. apply andb_true_iff in Hk as [Hk1 Hk2]. apply andb_true_iff in Hx as [Hx1 Hx2].
  cbn [keyed forallb]. rewrite !key_ok_app, (quote_key_ok k Hk1), Hx1, (IH xs Hk2 Hx2). reflexivity.
Qed.

Lemma Forall_key_ok_map (l : list rty) :
  Forall (fun t => printable t = true -> key_ok (type_tostring t) = true) l -> forallb printable l = true ->
  forallb key_ok (map type_tostring l) = true.
Proof.
  induction 1 as [|t l Ht _ IH]; [reflexivity|]. intros H. simpl in H. apply andb_true_iff in H as [H1 H2].
  simpl. rewrite (Ht H1), (IH H2). reflexivity.
Qed.

Theorem printable_key_ok_thm t : printable t = true -> key_ok (type_tostring t) = true.
Proof.
  induction t as [p s dt|p s|p s t' IH|p s n t' IH|p s t' IH|p s ks l IH|p s l IH] using rty_ind'; intros H;
    cbn [printable] in H; apply orb_true_iff in H as [H|H];
    try (destruct (hardcoded_cases _ H) as [->|[->|[->| ->]]]; reflexivity).
  - destruct p; [|discriminate]. destruct s; [|discriminate]. rewrite print_num.
    destruct dt as [[]| | | | | | | |]; reflexivity.
  - destruct p; [|discriminate]. destruct s; [|discriminate]. reflexivity.
  - destruct p; [|discriminate]. destruct s; [|discriminate]. rewrite print_list, !key_ok_app, (IH H). reflexivity.
  - destruct p; [|discriminate]. destruct s; [|discriminate]. apply andb_true_iff in H as [Hn Ht].
    apply Z.leb_le in Hn. destruct (Z_of_digits_dec n Hn) as (u & Hu & _ & _).
    rewrite print_reg, !key_ok_app, Hu, (digits_key_ok _ (uint_digits_digits u)), (IH Ht). reflexivity.
  - destruct p; [|discriminate]. destruct s; [|discriminate]. rewrite print_opt.
    destruct (is_listlike t').
    + rewrite key_ok_app, key_ok_cons, key_ok_app, (IH H). reflexivity.
    + rewrite key_ok_cons, (IH H). reflexivity.
  - destruct s; [|destruct p; discriminate H].
    assert (Hparts : forallb printable l = true ->
                     match ks with Some ks => Nat.eqb (length ks) (length l) && forallb key_ok ks | None => true end = true ->
                     key_ok (sep_concat p_comma (match ks with Some ks => keyed ks (map type_tostring l)
                                                           | None => map type_tostring l end)) = true).
    { intros Hl Hks. apply sep_concat_key_ok. pose proof (Forall_key_ok_map l IH Hl) as Hm.
      destruct ks as [ks|]; [|exact Hm]. apply andb_true_iff in Hks as [_ Hks]. apply keyed_key_ok; assumption. }
    destruct p as [|[k v] p'].
    + rewrite !andb_true_r in H. apply andb_true_iff in H as [Hl Hks]. specialize (Hparts Hl Hks).
      destruct ks as [ks|]; [rewrite print_rec|rewrite print_tuple]; rewrite key_ok_cons, key_ok_app, Hparts; reflexivity.
    + apply andb_true_iff in H as [Hl H]. apply andb_true_iff in Hl as [Hl Hks].
      destruct v as [| | | |w| |]; try discriminate H. destruct p'; [|discriminate H].
      apply andb_true_iff in H as [H _]. apply andb_true_iff in H as [H Hres]. apply andb_true_iff in H as [Hk Hn].
      apply bytes_eqb_eq in Hk. subst k. apply negb_true_iff in Hres.
      rewrite (print_named w ks l Hn Hres). destruct (is_name_alnum w Hn) as (c & w' & _ & _ & Hall & _).
      rewrite key_ok_app, key_ok_cons, key_ok_app, (alnum_key_ok w Hall), (Hparts Hl Hks). reflexivity.
  - destruct p; [|discriminate]. destruct s; [|discriminate].
    rewrite print_union, key_ok_app, key_ok_cons, key_ok_app.
    rewrite (sep_concat_key_ok _ (Forall_key_ok_map l IH H)). reflexivity.
Qed.

(* the fragment, characterised: printable = prints to a byte string that the reference parser brings back *)
Theorem printable_iff_roundtrip_thm t :
  printable t = true <-> (key_ok (type_tostring t) = true /\ type_parse (type_tostring t) = Ok t).
Proof.
  split.
  - intros H. split; [exact (printable_key_ok_thm t H)|exact (type_print_parse_roundtrip_thm t H)].
  - intros [Hk H]. exact (type_parse_printable_thm _ _ Hk H).
Qed.

(* ---------------------------------------------------------------- examples of the positive statements *)
Definition i64 : rty := RNum [] [] (FD DInt64).
Definition wt (s : string) : bytes := bytes_of_string s.

(* a named record using every production of the fragment (its string is checked below) *)
Definition ex_type_b : rty :=
  RRec [(k_record, JStr (wt "Vec3"))] [] (Some [[120; 34; 121]; [99]])
       [ROpt [] [] (RList [] [] (RReg [] [] 0 i64));
        RUnion [] [] [t_string; ROpt [] [] (RNum [] [] FComplex128); RRec [] [] None [RUnk [] []; t_bytes];
                      RRec [] [] (Some []) []; RUnion [] [] [ROpt [] [] (RNum [] [] (FD DBool)); t_char]]].

Example ex_type_b_printable : printable ex_type_b = true.
Proof. vm_compute. reflexivity. Qed.
Example ex_type_b_string : type_tostring ex_type_b =
  wt "Vec3[""x\""y"": option[var * 0 * int64], ""c"": union[string, ?complex128, (unknown, bytes), {}, union[?bool, char]]]".
Proof. vm_compute. reflexivity. Qed.
Example ex_type_b_roundtrip : type_parse (type_tostring ex_type_b) = Ok ex_type_b.
Proof. exact (proj2 (proj1 (printable_iff_roundtrip_thm ex_type_b) ex_type_b_printable)). Qed.
Example ex_parse_image : exists t, type_parse (wt "?(int64, {""a"": 3 * bytes})") = Ok t /\ printable t = true.
Proof. eexists. split; [vm_compute; reflexivity|reflexivity]. Qed.

(* ---------------------------------------------------------------- witnesses: shapes outside the fragment *)
Definition px : params := [([120], JInt 1)].

(* (1) parameters: no class with a parameters={...} spelling is read by the reference parser (the extended parser
   of Proofs_C17b_ParseX covers them; the repository's Lark grammar has these productions) *)
Example params_every_class_outside :
  map (fun t => (printable t, type_parse (type_tostring t)))
      [RNum px [] (FD DInt64); RUnk px []; RList px [] i64; RReg px [] 3 i64; ROpt px [] i64; RUnion px [] [i64];
       RRec px [] None [i64]; RRec px [] (Some [[97]]) [i64]]
  = repeat (false, Err EValue) 8.
Proof. vm_compute. reflexivity. Qed.

(* (2) categorical[type=...] likewise *)
Example categorical_outside :
  type_tostring (RNum [(k_categorical, JBool true)] [] (FD DInt64)) = wt "categorical[type=int64]" /\
  type_parse (wt "categorical[type=int64]") = Err EValue.
Proof. split; vm_compute; reflexivity. Qed.

(* (3) finding lark-parameters (hidden categorical): "__categorical__" with a value other than true is printed
   nowhere -- two different types, one string: no parser can bring both back *)
Example tostring_hidden_categorical_not_injective :
  type_tostring (RNum [(k_categorical, JBool false)] [] (FD DInt64)) =
  type_tostring (RNum [(k_categorical, JInt 5)] [] (FD DInt64)) /\
  type_tostring (RNum [(k_categorical, JBool false)] [] (FD DInt64)) = wt "int64[parameters={}]".
Proof. split; vm_compute; reflexivity. Qed.

(* (4) finding lark-typestr-hides-node-class: a typestr replaces the whole node; "string" printed for a uint8
   NumpyArray type carrying __array__ = "string" reads back as the list-of-char type *)
Example tostring_typestr_not_injective :
  let t := RNum [(k_array, JStr s_string)] p_string (FD DUInt8) in
  type_tostring t = type_tostring t_string /\ t <> t_string /\ type_parse (type_tostring t) = Ok t_string.
Proof. cbv zeta. split; [vm_compute; reflexivity|]. split; [discriminate|vm_compute; reflexivity]. Qed.

(* a user-defined typestr hides everything *)
Example custom_typestr_outside :
  type_tostring (RRec [(k_record, JStr [80])] [86] (Some [[97]]) [i64]) = [86] /\
  type_parse [86] = Err EValue.
Proof. split; vm_compute; reflexivity. Qed.

(* (5) finding lark-other: a tuple named "union" prints like a UnionType *)
Example tostring_record_named_union_not_injective :
  let t := RRec [(k_record, JStr w_union)] [] None [i64] in
  type_tostring t = type_tostring (RUnion [] [] [i64]) /\ type_parse (type_tostring t) = Ok (RUnion [] [] [i64]).
Proof. cbv zeta. split; vm_compute; reflexivity. Qed.

(* finding lark-other: a record named like a reserved word that is not a datashape keyword prints as Name[...],
   which the reference parser refuses (as the Lark grammar does for unknown[...]) *)
Example record_named_reserved_outside :
  type_tostring (RRec [(k_record, JStr n_unknown)] [] (Some [[97]]) [i64]) = wt "unknown[""a"": int64]" /\
  type_parse (wt "unknown[""a"": int64]") = Err EValue.
Proof. split; vm_compute; reflexivity. Qed.

(* (6) finding lark-empty-record-or-union (Name[]): the empty named tuple and the empty named record print alike *)
Example tostring_named_empty_not_injective :
  type_tostring (RRec [(k_record, JStr [80])] [] None []) = type_tostring (RRec [(k_record, JStr [80])] [] (Some []) []) /\
  type_parse (type_tostring (RRec [(k_record, JStr [80])] [] None [])) = Ok (RRec [(k_record, JStr [80])] [] (Some []) []).
Proof. split; vm_compute; reflexivity. Qed.

(* (7) a record name is printed as a C string: what follows a NUL byte is lost *)
Example tostring_name_nul_not_injective :
  type_tostring (RRec [(k_record, JStr [80; 0; 81])] [] (Some [[97]]) [i64]) =
  type_tostring (RRec [(k_record, JStr [80])] [] (Some [[97]]) [i64]).
Proof. vm_compute. reflexivity. Qed.

(* (8) shapes that are no types of any array: negative regular size, key / content count mismatch, a dtype that
   is not a primitive (prints "unknown") *)
Example negative_size_outside : type_parse (type_tostring (RReg [] [] (-3) i64)) = Err EValue.
Proof. vm_compute. reflexivity. Qed.
Example keys_mismatch_outside :
  type_parse (type_tostring (RRec [] [] (Some [[97]; [98]]) [i64])) = Ok (RRec [] [] (Some [[97]]) [i64]).
Proof. vm_compute. reflexivity. Qed.
Example notprimitive_outside : type_parse (type_tostring (RNum [] [] FNotPrimitive)) = Ok (RUnk [] []).
Proof. vm_compute. reflexivity. Qed.

(* (9) the side condition of the exactness theorem: in the model a "byte" is any Z; a key containing 300 is not
   a byte string, is outside [printable], and yet comes back *)
Example roundtrip_exact_needs_bytes_refuted :
  let t := RRec [] [] (Some [[300]]) [i64] in
  printable t = false /\ type_parse (type_tostring t) = Ok t /\ key_ok (type_tostring t) = false.
Proof. cbv zeta. repeat split; vm_compute; reflexivity. Qed.

(* (10) the other direction, string -> type -> string, is not the identity: leading zeros *)
Example parse_print_identity_refuted :
  type_parse (wt "03 * int64") = Ok (RReg [] [] 3 i64) /\ type_tostring (RReg [] [] 3 i64) = wt "3 * int64".
Proof. split; vm_compute; reflexivity. Qed.

(* (11) inside the fragment although four open findings say the repository's Lark parser fails on them
   (the reference parser is the specification, the Lark parser the implementation that deviates):
   lark-dtype-not-in-grammar, lark-record-name-charset, lark-string-escapes-not-decoded, lark-named-tuple,
   lark-empty-record-or-union *)
Example lark_findings_inside_fragment :
  forallb printable
    [RNum [] [] FFloat16; RNum [] [] FComplex64; RNum [] [] FDatetime64;
     RRec [(k_record, JStr (wt "P_1"))] [] (Some [[97]]) [i64];
     RRec [] [] (Some [[97; 34; 98; 92; 10]]) [i64];
     RRec [(k_record, JStr (wt "Pt"))] [] None [i64; RNum [] [] (FD DBool)];
     RRec [] [] None []; RRec [] [] (Some []) []; RUnion [] [] [];
     ROpt [] [] (RReg [] [] 3 (RList [] [] i64))] = true.
Proof. vm_compute. reflexivity. Qed.
