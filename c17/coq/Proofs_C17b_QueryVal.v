(** C17b, queries part 3: the field / depth / regularity queries of a valid layout agree with its nested-list value. *)
From Coq Require Import ZArith List Bool Lia String.
From AwkV Require Import Base Layout LayoutInd Valid Types Proofs_Lists Proofs_C11.
From AwkTypes Require Import Json Forms TypeStr Typing Proofs_Depth Proofs_Types Proofs_Typing Proofs_Json Proofs_Parse
                             Proofs_C17b_Query.
Import ListNotations.
Open Scope Z_scope.

(* ------------------------------------------------------------------ what the queries say about a value *)
(* every record found in v after peeling lists and missing values has exactly the keys ks, in order
   (a tuple: the keys "0", "1", ...); numbers / strings have no keys *)
Fixpoint value_keys_ok (ks : list bytes) (v : value) {struct v} : bool :=
  match v with
  | VNum _ | VBool _ | VStr _ _ | VNone => true
  | VList l => forallb (value_keys_ok ks) l
  | VRec fs => list_eqb name_eqb (map fst fs) ks
  | VTup vs => list_eqb name_eqb (tuple_keys (length vs)) ks
  end.

(* every number / boolean / string / record of v sits at list depth exactly d (the elements of the array are at
   depth 1); missing values and empty lists have none *)
Fixpoint list_depth_exact (d : Z) (v : value) {struct v} : bool :=
  match v with
  | VNum _ | VBool _ | VStr _ _ | VRec _ | VTup _ => d =? 1
  | VNone => true
  | VList l => forallb (list_depth_exact (d - 1)) l
  end.

(* v is a (possibly missing) rectangular block of the given dimensions over non-list items *)
Fixpoint regular_value (dims : list Z) (v : value) {struct dims} : bool :=
  match v with
  | VNone => true
  | _ =>
      match dims with
      | [] => match v with VList _ => false | _ => true end
      | d :: ds => match v with
                   | VList l => (zlen l =? d) && forallb (regular_value ds) l
                   | _ => false
                   end
      end
  end.

(* ------------------------------------------------------------------ the same on the core type *)
(* no union between the array and its first record / leaf *)
Fixpoint ty_path_ok (t : ty) : bool :=
  match t with
  | TNum _ | TUnk | TRec _ _ | TList _ (Some _) _ => true
  | TList _ None t' | TOpt t' => ty_path_ok t'
  | TUnion _ => false
  end.
Fixpoint ty_keys (t : ty) : list bytes :=
  match t with
  | TRec (Some ks) _ => ks
  | TRec None ts => tuple_keys (length ts)
  | TList _ None t' | TOpt t' => ty_keys t'
  | _ => []
  end.
Fixpoint ty_pdepth (t : ty) : Z :=
  match t with
  | TList _ None t' => ty_pdepth t' + 1
  | TOpt t' => ty_pdepth t'
  | TUnion _ => -1
  | _ => 1
  end.
Fixpoint ty_isreg (t : ty) : bool :=
  match t with
  | TList None None _ => false
  | TList (Some _) None t' | TOpt t' => ty_isreg t'
  | _ => true
  end.
Fixpoint ty_dims (t : ty) : list Z :=
  match t with
  | TList (Some n) None t' => n :: ty_dims t'
  | TOpt t' => ty_dims t'
  | _ => []
  end.

Lemma go_length ts : forall vs,
  (fix go (ts : list ty) (vs : list value) {struct ts} : bool :=
     match ts, vs with
     | [], [] => true
     | t0 :: ts', v0 :: vs' => has_typeb t0 v0 && go ts' vs'
     | _, _ => false
     end) ts vs = true -> length vs = length ts.
Proof.
  induction ts as [|t ts IH]; intros [|v vs] H; try discriminate; [reflexivity|].
  apply andb_true_iff in H as [_ H]. simpl. f_equal. apply IH, H.
Qed.

Lemma names_eqb_refl' (ks : list bytes) : list_eqb name_eqb ks ks = true.
Proof. exact (names_eqb_refl ks). Qed.

Lemma typed_value_queries t : forall v, has_typeb t v = true -> ty_path_ok t = true ->
  value_keys_ok (ty_keys t) v = true /\ list_depth_exact (ty_pdepth t) v = true /\
  (ty_isreg t = true -> regular_value (ty_dims t) v = true).
Proof.
  induction t as [dt| |sz str t IH|t IH|ks ts|ts]; intros v Hv Hp; cbn [ty_path_ok] in Hp.
  - destruct v; cbn [has_typeb] in Hv; try discriminate; repeat split.
  - discriminate.
  - destruct str as [isstr|].
    + destruct v; cbn [has_typeb] in Hv; try discriminate. destruct sz; repeat split.
    + destruct v as [| | | |l| |]; cbn [has_typeb] in Hv; try discriminate.
      apply andb_true_iff in Hv as [Hl Hsz].
      assert (HF : forall x, In x l -> value_keys_ok (ty_keys t) x = true /\ list_depth_exact (ty_pdepth t) x = true /\
                                        (ty_isreg t = true -> regular_value (ty_dims t) x = true)).
      { intros x Hx. rewrite forallb_forall in Hl. apply IH; auto. }
      cbn [ty_keys ty_pdepth value_keys_ok list_depth_exact]. replace (ty_pdepth t + 1 - 1) with (ty_pdepth t) by lia.
      split; [apply forallb_forall; intros x Hx; apply HF, Hx|].
      split; [apply forallb_forall; intros x Hx; apply HF, Hx|].
      destruct sz as [n|]; cbn [ty_isreg ty_dims]; [|discriminate]. intros Hr. cbn [regular_value].
      rewrite Hsz. apply forallb_forall. intros x Hx. apply HF; assumption.
  - cbn [ty_keys ty_pdepth ty_isreg ty_dims]. destruct v; cbn [has_typeb] in Hv;
      try (destruct (IH _ Hv Hp) as (H1 & H2 & H3); repeat split; assumption).
    repeat split. intros _. destruct (ty_dims t); reflexivity.
  - destruct ks as [ks|]; destruct v as [| | | |l|fs|vs]; cbn [has_typeb] in Hv; try discriminate.
    + apply andb_true_iff in Hv as [Hk _]. repeat split. exact Hk.
    + apply go_length in Hv. cbn [ty_keys value_keys_ok]. rewrite Hv. repeat split. apply names_eqb_refl'.
  - discriminate.
Qed.

(* ------------------------------------------------------------------ the layout's answers are those of its type *)
Lemma numpy_ty_queries dt dims :
  ty_path_ok (numpy_ty dt dims) = true /\ ty_keys (numpy_ty dt dims) = [] /\ ty_pdepth (numpy_ty dt dims) = zlen dims + 1 /\
  ty_isreg (numpy_ty dt dims) = true.
Proof.
  induction dims as [|d ds IH]; cbn [numpy_ty ty_path_ok ty_keys ty_pdepth ty_isreg]; [repeat split|].
  destruct IH as (H1 & H2 & H3 & H4). rewrite zlen_cons. repeat split; auto. lia.
Qed.

Ltac list_node IHc :=
  match goal with
  | Hp : ParamOk ?p _, Hs : is_strk ?p = false -> _ |- _ =>
      destruct p as [[]|]; simpl in Hp; try contradiction;
      try (destruct Hp as (c' & rn & n & d & Hc & ->); inversion Hc; subst; repeat split; reflexivity);
      intros Hpath; cbn [type_of_p strflag ty_path_ok ty_keys ty_pdepth ty_isreg is_string_kind c_keys c_purelist_depth
                         c_purelist_isregular] in *;
      destruct (IHc None (Hs eq_refl) Hpath) as (Q1 & Q2 & Q3)
  end.

Lemma content_queries_type c : forall p, Valid p c -> ty_path_ok (type_of_p p c) = true ->
  c_keys c = ty_keys (type_of_p p c) /\ c_purelist_depth p c = ty_pdepth (type_of_p p c) /\
  (c_purelist_isregular c = true -> ty_isreg (type_of_p p c) = true).
Proof.
  induction c as [dt shape data| |w o c IHc|w s e c IHc|c size zl IHc|w ix c IHc|w ix c IHc|m vw c IHc
                 |m vw lsb n c IHc|c IHc|w t ix cs IHcs|cs ks n IHcs|arr rn c IHc] using content_ind';
    intros p HV; inversion HV; subst.
  - intros _. destruct shape as [|n dims]; [congruence|]. cbn [type_of_p tl c_keys c_purelist_depth].
    destruct (numpy_ty_queries dt dims) as (N1 & N2 & N3 & N4). rewrite N2, N3, zlen_cons. repeat split. auto.
  - intros _. repeat split.
  - list_node IHc. repeat split; [exact Q1|congruence|discriminate].
  - list_node IHc. repeat split; [exact Q1|congruence|discriminate].
  - list_node IHc. repeat split; [exact Q1|congruence|exact Q3].
  - intros Hpath. cbn [type_of_p c_keys c_purelist_depth c_purelist_isregular] in *. apply IHc; assumption.
  - intros Hpath. cbn [type_of_p ty_path_ok ty_keys ty_pdepth ty_isreg c_keys c_purelist_depth c_purelist_isregular] in *. apply IHc; assumption.
  - intros Hpath. cbn [type_of_p ty_path_ok ty_keys ty_pdepth ty_isreg c_keys c_purelist_depth c_purelist_isregular] in *. apply IHc; assumption.
  - intros Hpath. cbn [type_of_p ty_path_ok ty_keys ty_pdepth ty_isreg c_keys c_purelist_depth c_purelist_isregular] in *. apply IHc; assumption.
  - intros Hpath. cbn [type_of_p ty_path_ok ty_keys ty_pdepth ty_isreg c_keys c_purelist_depth c_purelist_isregular] in *. apply IHc; assumption.
  - discriminate.
  - intros _. cbn [type_of_p ty_keys ty_pdepth ty_isreg c_keys c_purelist_depth]. rewrite map_length.
    destruct ks; repeat split.
  - intros Hpath. cbn [type_of_p c_keys c_purelist_depth c_purelist_isregular] in *. apply IHc; assumption.
Qed.

(* the fragment, as a predicate on the layout *)
Definition union_free_path (c : content) : bool := ty_path_ok (type_of c).

(* ------------------------------------------------------------------ the theorem *)
Theorem queries_agree_with_value c vs :
  Valid None c -> to_list c = Ok vs -> union_free_path c = true ->
  Forall (fun v => value_keys_ok (c_keys c) v = true /\
                   list_depth_exact (c_purelist_depth None c) v = true /\
                   (c_purelist_isregular c = true -> regular_value (ty_dims (type_of c)) v = true)) vs.
Proof.
  intros HV Hl Hp. destruct (content_queries_type c None HV Hp) as (H1 & H2 & H3).
  eapply Forall_impl; [|exact (to_list_typed_thm c vs HV Hl)].
  intros v Hv. destruct (typed_value_queries _ v Hv Hp) as (K1 & K2 & K3).
  rewrite H1, H2. fold (type_of c). repeat split; auto.
Qed.

(* numfields = number of keys, or -1 with no keys (no record, no union on the way) *)
Theorem c_numfields_keys c : forall p, Valid p c ->
  (c_numfields c = -1 /\ c_keys c = []) \/ c_numfields c = zlen (c_keys c).
Proof.
  induction c as [dt shape data| |w o c IHc|w s e c IHc|c size zl IHc|w ix c IHc|w ix c IHc|m vw c IHc
                 |m vw lsb n c IHc|c IHc|w t ix cs IHcs|cs ks n IHcs|arr rn c IHc] using content_ind';
    intros p HV; inversion HV; subst; cbn [c_numfields c_keys]; eauto.
  all: try (match goal with Hp : ParamOk ?p _, Hs : is_strk ?p = false -> _ |- _ =>
      destruct p as [[]|]; simpl in Hp; try contradiction;
      try (destruct Hp as (c' & rn & n & d & Hc & ->); inversion Hc; subst; left; split; reflexivity);
      eapply IHc; apply Hs; reflexivity end).
  - right. destruct ks as [l|].
    + assert (Hlen : length l = length cs) by eauto. unfold zlen. f_equal. symmetry. exact Hlen.
    + unfold tuple_keys, zlen. rewrite map_length, iota_nat_length'. reflexivity.
Qed.

(* ------------------------------------------------------------------ examples / counter-examples *)
(* 2 * option[{a: 2 * int64, b: string}] *)
Definition ex_reg : content :=
  Regular (IndexedOption I64 [0; -1; 1; 0]
    (Record [Numpy DInt64 [2; 2] [DZ 1; DZ 2; DZ 3; DZ 4];
             Par (Some AString) None (ListOffset I64 [0; 1; 3] (Par (Some AChar) None (Numpy DUInt8 [3] [DZ 97; DZ 98; DZ 99])))]
            (Some [[97]; [98]]) 2)) 2 2.
Example ex_reg_valid : Valid None ex_reg.
Proof. apply (validity_exact_gen ex_reg None). vm_compute. reflexivity. Qed.
Example ex_reg_queries :
  union_free_path ex_reg = true /\ c_keys ex_reg = [[97]; [98]] /\ c_purelist_depth None ex_reg = 2 /\
  c_purelist_isregular ex_reg = true /\ ty_dims (type_of ex_reg) = [2] /\ c_numfields ex_reg = 2 /\
  exists vs, to_list ex_reg = Ok vs /\ length vs = 2%nat /\
    Forall (fun v => value_keys_ok (c_keys ex_reg) v = true /\ list_depth_exact (c_purelist_depth None ex_reg) v = true /\
                     (c_purelist_isregular ex_reg = true -> regular_value (ty_dims (type_of ex_reg)) v = true)) vs.
Proof.
  repeat split. eexists. split; [vm_compute; reflexivity|]. split; [reflexivity|].
  eapply queries_agree_with_value; [exact ex_reg_valid|vm_compute; reflexivity|reflexivity].
Qed.

(* unions are outside the fragment: purelist_depth 1 with a leaf at depth 3 (the inner union has mixed depths: -1,
   to which the two lists above it add 1 each: -1 + 2 = 1 = the depth of the other alternative) *)
Definition ex_u0 : content :=
  Union I64 [0; 1] [0; 0] [Numpy DInt64 [1] [DZ 5]; ListOffset I64 [0; 1] (Numpy DInt64 [1] [DZ 6])].
Definition ex_udepth : content :=
  Union I64 [0; 1] [0; 0] [ListOffset I64 [0; 1] (ListOffset I64 [0; 2] ex_u0); Numpy DInt64 [1] [DZ 7]].
Example depth_agrees_with_value_refuted :
  validb None ex_udepth = true /\ c_purelist_depth None ex_udepth = 1 /\ c_minmax_depth None ex_udepth = (1, 4) /\
  to_list ex_udepth = Ok [VList [VList [VNum (DZ 5); VList [VNum (DZ 6)]]]; VNum (DZ 7)] /\
  list_depth_exact 1 (VList [VList [VNum (DZ 5); VList [VNum (DZ 6)]]]) = false.
Proof. vm_compute. repeat split. Qed.

(* unions: keys() is the intersection, so a record of an alternative may have more keys; all alternatives regular
   does not make the value rectangular *)
Definition ex_urec : content :=
  Union I64 [0; 1] [0; 0] [Record [Numpy DInt64 [1] [DZ 5]; Numpy DInt64 [1] [DZ 6]] (Some [[120]; [121]]) 1;
                           Record [Numpy DInt64 [1] [DZ 5]] (Some [[121]]) 1].
Definition ex_ureg : content :=
  Union I64 [0; 1] [0; 0] [Regular (Numpy DInt64 [2] [DZ 5; DZ 6]) 2 1; Regular (Numpy DInt64 [3] [DZ 5; DZ 6; DZ 7]) 3 1].
Example keys_regular_agree_with_value_refuted :
  validb None ex_urec = true /\ c_keys ex_urec = [[121]] /\
  to_list ex_urec = Ok [VRec [([120], VNum (DZ 5)); ([121], VNum (DZ 6))]; VRec [([121], VNum (DZ 5))]] /\
  value_keys_ok [[121]] (VRec [([120], VNum (DZ 5)); ([121], VNum (DZ 6))]) = false /\
  validb None ex_ureg = true /\ c_purelist_isregular ex_ureg = true /\ c_purelist_depth None ex_ureg = 2 /\
  to_list ex_ureg = Ok [VList [VNum (DZ 5); VNum (DZ 6)]; VList [VNum (DZ 5); VNum (DZ 6); VNum (DZ 7)]].
Proof. vm_compute. repeat split. Qed.

(* ================================================================== all node classes (unions included): every record
   reached in the value has (at least) the keys the layout lists; with unions keys() is the intersection *)
Fixpoint value_has_keys (ks : list bytes) (v : value) {struct v} : bool :=
  match v with
  | VList l => forallb (value_has_keys ks) l
  | VRec fs => forallb (fun k => existsb (name_eqb k) (map fst fs)) ks
  | VTup vs => forallb (fun k => existsb (name_eqb k) (tuple_keys (length vs))) ks
  | _ => true
  end.

Fixpoint ty_keys_u (t : ty) : list bytes :=
  match t with
  | TRec (Some ks) _ => ks
  | TRec None ts => tuple_keys (length ts)
  | TList _ None t' | TOpt t' => ty_keys_u t'
  | TUnion ts => keys_intersect (map ty_keys_u ts)
  | _ => []
  end.

Lemma list_name_eqb_eq (a : list name) : forall b', list_eqb name_eqb a b' = true -> a = b'.
Proof.
  induction a as [|x a IH]; intros [|y b'] H; simpl in H; try discriminate; [reflexivity|].
  apply andb_true_iff in H as [H1 H2]. apply bytes_eqb_eq in H1. subst. f_equal. auto.
Qed.

Lemma self_keys (ks : list bytes) : forallb (fun k => existsb (name_eqb k) ks) ks = true.
Proof. apply forallb_forall. intros k Hk. apply existsb_exists. exists k. split; [exact Hk|apply name_eqb_refl]. Qed.

Lemma value_has_keys_mono ks ks' v : (forall k, In k ks' -> In k ks) ->
  value_has_keys ks v = true -> value_has_keys ks' v = true.
Proof.
  intros Hsub. induction v as [d|b0|i s| |l IH|fs IH|vs IH] using value_ind'; cbn [value_has_keys]; auto.
  - intros H. apply forallb_forall. intros x Hx. rewrite forallb_forall in H. rewrite Forall_forall in IH. auto.
  - intros H. apply forallb_forall. intros k Hk. rewrite forallb_forall in H. auto.
  - intros H. apply forallb_forall. intros k Hk. rewrite forallb_forall in H. auto.
Qed.

Lemma fold_filter_sub rest : forall (out : list bytes) k,
  In k (fold_left (fun out tmp => filter (fun k => existsb (bytes_eqb k) tmp) out) rest out) ->
  In k out /\ forall tmp, In tmp rest -> In k tmp.
Proof.
  induction rest as [|tmp rest IH]; intros out k H; cbn [fold_left] in H; [split; [exact H|intros ? []]|].
  destruct (IH _ _ H) as [H1 H2]. apply filter_In in H1 as [H1 H3]. split; [exact H1|].
  intros tmp' [<-|Hin]; [|auto]. apply existsb_exists in H3 as (y & Hy & Heq). apply bytes_eqb_eq in Heq. subst. exact Hy.
Qed.

Lemma keys_intersect_sub l x k : In x l -> In k (keys_intersect l) -> In k x.
Proof.
  destruct l as [|k0 rest]; [intros []|]. cbn [keys_intersect]. intros Hx Hk.
  destruct (fold_filter_sub rest k0 k Hk) as [H1 H2]. destruct Hx as [<-|Hx]; auto.
Qed.

Lemma ex_union ts v :
  (fix ex (ts : list ty) : bool := match ts with [] => false | t0 :: ts' => has_typeb t0 v || ex ts' end) ts = true ->
  exists t, In t ts /\ has_typeb t v = true.
Proof.
  induction ts as [|t0 ts IH]; intros H; [discriminate|]. apply orb_true_iff in H as [H|H].
  - exists t0. split; [left; reflexivity|exact H].
  - destruct (IH H) as (t & Hin & Ht). exists t. split; [right; exact Hin|exact Ht].
Qed.

Lemma typed_value_has_keys t : forall v, has_typeb t v = true -> value_has_keys (ty_keys_u t) v = true.
Proof.
  induction t as [dt| |sz str t IH|t IH|ks ts IH|ts IH] using ty_ind'; intros v Hv.
  - destruct v; cbn [has_typeb] in Hv; try discriminate; reflexivity.
  - discriminate.
  - destruct str as [isstr|].
    + destruct v; cbn [has_typeb] in Hv; try discriminate. reflexivity.
    + destruct v as [| | | |l| |]; cbn [has_typeb] in Hv; try discriminate.
      apply andb_true_iff in Hv as [Hl _]. cbn [ty_keys_u value_has_keys].
      apply forallb_forall. intros x Hx. rewrite forallb_forall in Hl. auto.
  - cbn [ty_keys_u]. destruct v; cbn [has_typeb] in Hv; auto.
  - destruct ks as [ks|]; destruct v as [| | | |l|fs|vs]; cbn [has_typeb] in Hv; try discriminate.
    + apply andb_true_iff in Hv as [Hk _]. apply list_name_eqb_eq in Hk. cbn [ty_keys_u value_has_keys]. rewrite Hk. apply self_keys.
    + apply go_length in Hv. cbn [ty_keys_u value_has_keys]. rewrite Hv. apply self_keys.
  - cbn [has_typeb] in Hv. apply ex_union in Hv as (t & Hin & Ht). rewrite Forall_forall in IH.
    cbn [ty_keys_u]. apply (value_has_keys_mono (ty_keys_u t)); [|auto].
    intros k Hk. apply (keys_intersect_sub (map ty_keys_u ts)); [apply in_map, Hin|exact Hk].
Qed.

Lemma numpy_ty_keys_u dt dims : ty_keys_u (numpy_ty dt dims) = [].
Proof. induction dims; simpl; auto. Qed.

Lemma content_keys_type_u c : forall p, Valid p c -> c_keys c = ty_keys_u (type_of_p p c).
Proof.
  induction c as [dt shape data| |w o c IHc|w s e c IHc|c size zl IHc|w ix c IHc|w ix c IHc|m vw c IHc
                 |m vw lsb n c IHc|c IHc|w t ix cs IHcs|cs ks n IHcs|arr rn c IHc] using content_ind';
    intros p HV; inversion HV; subst; cbn [c_keys type_of_p ty_keys_u]; eauto.
  - symmetry. apply numpy_ty_keys_u.
  - match goal with Hp : ParamOk p _, Hs : is_strk p = false -> _ |- _ =>
      destruct p as [[]|]; simpl in Hp; try contradiction;
      try (destruct Hp as (c' & rn & n & d & Hc & ->); inversion Hc; subst; reflexivity);
      cbn [strflag]; eapply IHc; apply Hs; reflexivity end.
  - match goal with Hp : ParamOk p _, Hs : is_strk p = false -> _ |- _ =>
      destruct p as [[]|]; simpl in Hp; try contradiction;
      try (destruct Hp as (c' & rn & n & d & Hc & ->); inversion Hc; subst; reflexivity);
      cbn [strflag]; eapply IHc; apply Hs; reflexivity end.
  - match goal with Hp : ParamOk p _, Hs : is_strk p = false -> _ |- _ =>
      destruct p as [[]|]; simpl in Hp; try contradiction;
      try (destruct Hp as (c' & rn & n & d & Hc & ->); inversion Hc; subst; reflexivity);
      cbn [strflag]; eapply IHc; apply Hs; reflexivity end.
  - rewrite map_map. f_equal. apply map_ext_in. intros x Hx. rewrite Forall_forall in IHcs.
    match goal with HF : Forall (Valid None) cs |- _ => rewrite Forall_forall in HF; auto end.
  - rewrite map_length. reflexivity.
Qed.

Theorem keys_in_every_record c vs : Valid None c -> to_list c = Ok vs ->
  Forall (fun v => value_has_keys (c_keys c) v = true) vs.
Proof.
  intros HV Hl. rewrite (content_keys_type_u c None HV).
  eapply Forall_impl; [|exact (to_list_typed_thm c vs HV Hl)]. intros v Hv. apply typed_value_has_keys, Hv.
Qed.

Example keys_in_every_record_example :
  exists vs, to_list ex_urec = Ok vs /\ c_keys ex_urec = [[121]] /\
             Forall (fun v => value_has_keys (c_keys ex_urec) v = true) vs.
Proof.
  eexists. split; [vm_compute; reflexivity|]. split; [reflexivity|].
  eapply keys_in_every_record; [apply (validity_exact_gen ex_urec None); vm_compute; reflexivity|vm_compute; reflexivity].
Qed.
