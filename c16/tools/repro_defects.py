"""Reproducers for the C16 findings on the pinned tree (run: /venv/bin/python /verif/c16/tools/repro_defects.py).
Each block prints  SIGNATURE: what was expected / what happened."""
import sys, pickle, warnings
warnings.simplefilter('ignore')
sys.path.insert(0, '/verif')
from pyshim.install import install
install()
import numpy as np
import awkward as ak
L = ak.layout
I64 = lambda *x: L.Index64(np.array(x, dtype=np.int64))
I8 = lambda *x: L.Index8(np.array(x, dtype=np.int8))


def show(sig, expect, f):
    try:
        got = f()
    except Exception as e:   # noqa
        got = 'raises %s: %s' % (type(e).__name__, str(e).split('\n')[0][:150])
    print('%-50s expected %s\n%50s got      %s' % (sig, expect, '', got))


def rt(a, **kw):
    form, length, container = ak.to_buffers(a)
    return ak.to_list(ak.from_buffers(form, length, container, **kw))


def rt_bytes(a):
    form, length, container = ak.to_buffers(a)
    return ak.to_list(ak.from_buffers(form, length, {k: bytes(v) for k, v in container.items()}))


# 1. from_buffers trims Record/Regular/BitMasked children to what the parent's first `length` entries need but keeps the
#    parent's own index buffers whole -> constructor refuses / result invalid (valid input with unreachable content)
rec = L.RecordArray([L.NumpyArray(np.arange(5))], ['x'], 5)
a1 = L.ListOffsetArray64(I64(0, 2, 3), L.ByteMaskedArray(I8(1, 1, 0, 1, 1), rec, True))
show('buffers-trimmed-content-under-untrimmed-parent', ak.to_list(a1), lambda: rt(a1))
a1b = L.ListArray64(I64(0), I64(2), L.ListArray64(I64(3, 2, 4), I64(3, 4, 6), L.RecordArray([L.NumpyArray(np.arange(8))], ['x'], 8)))
show('buffers-trimmed-content-under-untrimmed-parent', 'is_valid True',
     lambda: 'is_valid %s' % ak.is_valid(ak.from_buffers(*ak.to_buffers(a1b))))

# 2. containers of raw `bytes`: numpy.asarray(b'') is a 1-byte S1 array -> an empty buffer becomes one zero byte
a2 = ak.Array(np.array([], 'u1'))
show('buffers-bytes-empty-buffer', '[]', lambda: rt_bytes(a2))
show('buffers-bytes-empty-buffer', '[]', lambda: rt_bytes(ak.Array(np.array([], 'f8'))))

# 3. datetime64 / timedelta64
a3 = ak.Array(np.array(['2020-01-01', '2021-01-01'], 'M8[s]'))
show('buffers-datetime-form', ak.to_list(a3), lambda: rt(a3))
show('datetime-timedelta-support-incomplete (pickle)', ak.to_list(a3), lambda: ak.to_list(pickle.loads(pickle.dumps(a3))))
show('datetime-timedelta-support-incomplete (to_numpy)', 'numpy.ndarray', lambda: type(ak.to_numpy(a3)).__name__)

# 4. from_buffers(lazy=True) on tuples; on records whose fields are longer than the record
a4 = ak.Array(L.RecordArray([L.NumpyArray(np.arange(3)), L.NumpyArray(np.arange(3))], None, 3))
show('buffers-lazy-tuple-record', ak.to_list(a4), lambda: rt(a4, lazy=True))
a4b = ak.Array(L.RegularArray(L.RecordArray([L.NumpyArray(np.arange(2))], ['x'], 2), 0, 1))
show('buffers-lazy-declared-length', ak.to_list(a4b), lambda: ak.to_list(ak.materialized(ak.from_buffers(*ak.to_buffers(a4b), lazy=True))))

# 5. pickle goes through ak.packed: parameters of IndexedArray / UnionArray nodes are dropped, partitions pack into
#    different node classes
a5 = ak.Array(L.IndexedArray64(I64(1, 0), L.NumpyArray(np.array([1.0, 2.0])), parameters={'units': 'GeV'}))
show('packed-loses-parameters', str(ak.type(a5)), lambda: str(ak.type(pickle.loads(pickle.dumps(a5)))))
lo = L.ListOffsetArray64(I64(2, 5, 6, 10), L.NumpyArray(np.arange(10)))
ix = L.IndexedArray64(I64(0, 2, 1), lo)
a5b = ak.Array(ak.partition.IrregularlyPartitionedArray([ix[0:1], ix[1:3]]))
show('partition-forms-differ-after-packing', ak.to_list(a5b), lambda: ak.to_list(pickle.loads(pickle.dumps(a5b))))

# 6. NumPy
show('numpy-zero-length-dimension (to_numpy)', '(3, 0)', lambda: ak.to_numpy(ak.Array([[], [], []])).shape)
show('numpy-zero-length-dimension (toRegularArray)', '4', lambda: len(L.NumpyArray(np.zeros((4, 3, 0))).toRegularArray()))
show('from_numpy-regulararray-empty-reshape', '2', lambda: len(ak.from_numpy(np.zeros((2, 3, 0)), regulararray=True)))
a6 = ak.Array(L.RecordArray([L.NumpyArray(np.arange(3))], ['x'], 2))
show('to_numpy-record-uses-field-length', ak.to_list(a6), lambda: ak.to_numpy(a6).tolist())
a6b = ak.Array(L.RegularArray(L.ListOffsetArray64(I64(0, 1, 2, 4), L.NumpyArray(np.arange(4))), 2, 1))
show('to_numpy-looks-at-unreachable-content', ak.to_list(a6b), lambda: ak.to_numpy(a6b).tolist())
show('numpy-record-without-fields', '2', lambda: len(ak.from_numpy(ak.to_numpy(ak.Array(L.RecordArray([], [], 2))))))

# 7. Arrow
show('arrow-tensor-not-an-array (from_arrow)', '[[0.0, 0.0]]', lambda: ak.to_list(ak.from_arrow(ak.to_arrow(ak.Array(np.zeros((1, 2)))))))
show('arrow-tensor-not-an-array (nested)', '[[[0.0, 0.0]]]',
     lambda: ak.to_arrow(ak.Array(L.ListOffsetArray64(I64(0, 1), L.NumpyArray(np.zeros((1, 2)))))).to_pylist())
a7 = ak.Array(L.IndexedOptionArray64(I64(0, -1), L.NumpyArray(np.zeros((1, 2)))))
show('arrow-tensor-not-an-array (mask dropped)', ak.to_list(a7), lambda: ak.to_arrow(a7).to_numpy().tolist())
gen = L.ArrayGenerator(lambda: L.NumpyArray(np.array([1, 2, 3])), (), {}, length=3)
a7b = ak.Array(L.IndexedOptionArray64(I64(0, -1, 2), L.VirtualArray(gen)))
show('arrow-virtual-drops-mask', ak.to_list(a7b), lambda: ak.to_arrow(a7b).to_pylist())
a7c = ak.Array(L.UnionArray8_64(I8(0, 1, 0), I64(0, 0, 1), [L.IndexedOptionArray64(I64(0, -1), L.NumpyArray(np.array([7]))),
                                                            L.NumpyArray(np.array([True]))]))
show('arrow-union-child-nullability', ak.to_list(a7c), lambda: ak.to_list(ak.from_arrow(ak.to_arrow(a7c))))
a7d = ak.Array(L.UnionArray8_64(I8(1), I64(0, 0), [L.NumpyArray(np.array([1.5])), L.NumpyArray(np.array([True]))]))
show('arrow-union-index-longer-than-tags', ak.to_list(a7d), lambda: ak.to_arrow(a7d).to_pylist())
show('arrow-record-without-fields', '[{}, {}]', lambda: ak.to_arrow(ak.Array(L.RecordArray([], [], 2))).to_pylist())
a7e = ak.Array(ak.partition.IrregularlyPartitionedArray([L.NumpyArray(np.array([], 'i8')), L.NumpyArray(np.array([], 'i8'))]))
show('arrow-all-chunks-empty', '[]', lambda: ak.to_list(ak.from_arrow(ak.to_arrow(a7e))))
a7f = ak.Array(L.IndexedOptionArray64(I64(0, -1), L.RecordArray([L.UnionArray8_64(I8(1, 1), I64(0, 1), [
    L.NumpyArray(np.array([5], 'u2')), L.NumpyArray(np.array([True, False]))])], ['b'], 2)))
show('arrow-validity-bitmap-shorter-than-content', ak.to_list(a7f), lambda: ak.to_arrow(a7f).to_pylist())
a7g = ak.Array(L.IndexedOptionArray64(I64(), L.UnionArray8_64(I8(), I64(), [L.NumpyArray(np.array([], 'f8')), L.NumpyArray(np.array([], '?'))])))
show('arrow-empty-option-content-cast', '[]', lambda: ak.to_arrow(a7g).to_pylist())

# 8. later additions
a8 = ak.Array(L.ListOffsetArray64(I64(100, 100), L.NumpyArray(np.array([1, 2, 3]))))
show('buffers-empty-lists-offsets-beyond-content', ak.to_list(a8), lambda: rt(a8))
a8b = ak.Array(L.RecordArray([L.ByteMaskedArray(I8(1, 0, 1), L.NumpyArray(np.array([7, 8, 9])), False)], ['x'], 3))
show('to_numpy-record-drops-field-masks', ak.to_list(a8b), lambda: ak.to_numpy(a8b).tolist())
a8c = ak.Array(L.ListOffsetArray64(I64(0), L.UnmaskedArray(L.EmptyArray())))
show('arrow-null-type-nested-option', 'is_valid True', lambda: 'is_valid %s (UnmaskedArray over IndexedOptionArray over EmptyArray)' % ak.is_valid(ak.from_arrow(ak.to_arrow(a8c))))
