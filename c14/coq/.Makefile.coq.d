Builder.vo Builder.glob Builder.v.beautified Builder.required_vo: Builder.v /verif/coq/Base.vo /verif/coq/Layout.vo
Builder.vio: Builder.v /verif/coq/Base.vio /verif/coq/Layout.vio
Builder.vos Builder.vok Builder.required_vos: Builder.v /verif/coq/Base.vos /verif/coq/Layout.vos
Spec.vo Spec.glob Spec.v.beautified Spec.required_vo: Spec.v /verif/coq/Base.vo /verif/coq/Layout.vo Builder.vo
Spec.vio: Spec.v /verif/coq/Base.vio /verif/coq/Layout.vio Builder.vio
Spec.vos Spec.vok Spec.required_vos: Spec.v /verif/coq/Base.vos /verif/coq/Layout.vos Builder.vos
Same.vo Same.glob Same.v.beautified Same.required_vo: Same.v /verif/coq/Base.vo /verif/coq/Layout.vo Builder.vo
Same.vio: Same.v /verif/coq/Base.vio /verif/coq/Layout.vio Builder.vio
Same.vos Same.vok Same.required_vos: Same.v /verif/coq/Base.vos /verif/coq/Layout.vos Builder.vos
GbLemmas.vo GbLemmas.glob GbLemmas.v.beautified GbLemmas.required_vo: GbLemmas.v /verif/coq/Base.vo /verif/coq/Layout.vo Builder.vo
GbLemmas.vio: GbLemmas.v /verif/coq/Base.vio /verif/coq/Layout.vio Builder.vio
GbLemmas.vos GbLemmas.vok GbLemmas.required_vos: GbLemmas.v /verif/coq/Base.vos /verif/coq/Layout.vos Builder.vos
Invariant.vo Invariant.glob Invariant.v.beautified Invariant.required_vo: Invariant.v /verif/coq/Base.vo /verif/coq/Layout.vo Builder.vo GbLemmas.vo
Invariant.vio: Invariant.v /verif/coq/Base.vio /verif/coq/Layout.vio Builder.vio GbLemmas.vio
Invariant.vos Invariant.vok Invariant.required_vos: Invariant.v /verif/coq/Base.vos /verif/coq/Layout.vos Builder.vos GbLemmas.vos
StepLemmas.vo StepLemmas.glob StepLemmas.v.beautified StepLemmas.required_vo: StepLemmas.v /verif/coq/Base.vo /verif/coq/Layout.vo Builder.vo GbLemmas.vo Invariant.vo
StepLemmas.vio: StepLemmas.v /verif/coq/Base.vio /verif/coq/Layout.vio Builder.vio GbLemmas.vio Invariant.vio
StepLemmas.vos StepLemmas.vok StepLemmas.required_vos: StepLemmas.v /verif/coq/Base.vos /verif/coq/Layout.vos Builder.vos GbLemmas.vos Invariant.vos
AtomStep.vo AtomStep.glob AtomStep.v.beautified AtomStep.required_vo: AtomStep.v /verif/coq/Base.vo /verif/coq/Layout.vo Builder.vo GbLemmas.vo Invariant.vo StepLemmas.vo
AtomStep.vio: AtomStep.v /verif/coq/Base.vio /verif/coq/Layout.vio Builder.vio GbLemmas.vio Invariant.vio StepLemmas.vio
AtomStep.vos AtomStep.vok AtomStep.required_vos: AtomStep.v /verif/coq/Base.vos /verif/coq/Layout.vos Builder.vos GbLemmas.vos Invariant.vos StepLemmas.vos
Push.vo Push.glob Push.v.beautified Push.required_vo: Push.v /verif/coq/Base.vo /verif/coq/Layout.vo Builder.vo Spec.vo GbLemmas.vo Invariant.vo StepLemmas.vo AtomStep.vo
Push.vio: Push.v /verif/coq/Base.vio /verif/coq/Layout.vio Builder.vio Spec.vio GbLemmas.vio Invariant.vio StepLemmas.vio AtomStep.vio
Push.vos Push.vok Push.required_vos: Push.v /verif/coq/Base.vos /verif/coq/Layout.vos Builder.vos Spec.vos GbLemmas.vos Invariant.vos StepLemmas.vos AtomStep.vos
OpenClose.vo OpenClose.glob OpenClose.v.beautified OpenClose.required_vo: OpenClose.v /verif/coq/Base.vo /verif/coq/Layout.vo Builder.vo Spec.vo GbLemmas.vo Invariant.vo StepLemmas.vo AtomStep.vo Push.vo
OpenClose.vio: OpenClose.v /verif/coq/Base.vio /verif/coq/Layout.vio Builder.vio Spec.vio GbLemmas.vio Invariant.vio StepLemmas.vio AtomStep.vio Push.vio
OpenClose.vos OpenClose.vok OpenClose.required_vos: OpenClose.v /verif/coq/Base.vos /verif/coq/Layout.vos Builder.vos Spec.vos GbLemmas.vos Invariant.vos StepLemmas.vos AtomStep.vos Push.vos
Roundtrip.vo Roundtrip.glob Roundtrip.v.beautified Roundtrip.required_vo: Roundtrip.v /verif/coq/Base.vo /verif/coq/Layout.vo Builder.vo Spec.vo GbLemmas.vo Invariant.vo StepLemmas.vo AtomStep.vo Push.vo OpenClose.vo
Roundtrip.vio: Roundtrip.v /verif/coq/Base.vio /verif/coq/Layout.vio Builder.vio Spec.vio GbLemmas.vio Invariant.vio StepLemmas.vio AtomStep.vio Push.vio OpenClose.vio
Roundtrip.vos Roundtrip.vok Roundtrip.required_vos: Roundtrip.v /verif/coq/Base.vos /verif/coq/Layout.vos Builder.vos Spec.vos GbLemmas.vos Invariant.vos StepLemmas.vos AtomStep.vos Push.vos OpenClose.vos
ToList.vo ToList.glob ToList.v.beautified ToList.required_vo: ToList.v /verif/coq/Base.vo /verif/coq/Layout.vo Builder.vo GbLemmas.vo Invariant.vo StepLemmas.vo
ToList.vio: ToList.v /verif/coq/Base.vio /verif/coq/Layout.vio Builder.vio GbLemmas.vio Invariant.vio StepLemmas.vio
ToList.vos ToList.vok ToList.required_vos: ToList.v /verif/coq/Base.vos /verif/coq/Layout.vos Builder.vos GbLemmas.vos Invariant.vos StepLemmas.vos
Phys.vo Phys.glob Phys.v.beautified Phys.required_vo: Phys.v /verif/coq/Base.vo /verif/coq/Layout.vo Builder.vo GbLemmas.vo Invariant.vo
Phys.vio: Phys.v /verif/coq/Base.vio /verif/coq/Layout.vio Builder.vio GbLemmas.vio Invariant.vio
Phys.vos Phys.vok Phys.required_vos: Phys.v /verif/coq/Base.vos /verif/coq/Layout.vos Builder.vos GbLemmas.vos Invariant.vos
PhysStep.vo PhysStep.glob PhysStep.v.beautified PhysStep.required_vo: PhysStep.v /verif/coq/Base.vo /verif/coq/Layout.vo Builder.vo GbLemmas.vo Invariant.vo Phys.vo
PhysStep.vio: PhysStep.v /verif/coq/Base.vio /verif/coq/Layout.vio Builder.vio GbLemmas.vio Invariant.vio Phys.vio
PhysStep.vos PhysStep.vok PhysStep.required_vos: PhysStep.v /verif/coq/Base.vos /verif/coq/Layout.vos Builder.vos GbLemmas.vos Invariant.vos Phys.vos
PhysSeq.vo PhysSeq.glob PhysSeq.v.beautified PhysSeq.required_vo: PhysSeq.v /verif/coq/Base.vo /verif/coq/Layout.vo Builder.vo GbLemmas.vo Invariant.vo Phys.vo PhysStep.vo
PhysSeq.vio: PhysSeq.v /verif/coq/Base.vio /verif/coq/Layout.vio Builder.vio GbLemmas.vio Invariant.vio Phys.vio PhysStep.vio
PhysSeq.vos PhysSeq.vok PhysSeq.required_vos: PhysSeq.v /verif/coq/Base.vos /verif/coq/Layout.vos Builder.vos GbLemmas.vos Invariant.vos Phys.vos PhysStep.vos
Growth.vo Growth.glob Growth.v.beautified Growth.required_vo: Growth.v /verif/coq/Base.vo /verif/coq/Layout.vo Builder.vo Same.vo GbLemmas.vo Invariant.vo Phys.vo PhysStep.vo
Growth.vio: Growth.v /verif/coq/Base.vio /verif/coq/Layout.vio Builder.vio Same.vio GbLemmas.vio Invariant.vio Phys.vio PhysStep.vio
Growth.vos Growth.vok Growth.required_vos: Growth.v /verif/coq/Base.vos /verif/coq/Layout.vos Builder.vos Same.vos GbLemmas.vos Invariant.vos Phys.vos PhysStep.vos
Proofs_C14.vo Proofs_C14.glob Proofs_C14.v.beautified Proofs_C14.required_vo: Proofs_C14.v /verif/coq/Base.vo /verif/coq/Layout.vo Builder.vo Spec.vo GbLemmas.vo Invariant.vo StepLemmas.vo AtomStep.vo Push.vo OpenClose.vo Roundtrip.vo ToList.vo Same.vo
Proofs_C14.vio: Proofs_C14.v /verif/coq/Base.vio /verif/coq/Layout.vio Builder.vio Spec.vio GbLemmas.vio Invariant.vio StepLemmas.vio AtomStep.vio Push.vio OpenClose.vio Roundtrip.vio ToList.vio Same.vio
Proofs_C14.vos Proofs_C14.vok Proofs_C14.required_vos: Proofs_C14.v /verif/coq/Base.vos /verif/coq/Layout.vos Builder.vos Spec.vos GbLemmas.vos Invariant.vos StepLemmas.vos AtomStep.vos Push.vos OpenClose.vos Roundtrip.vos ToList.vos Same.vos
Props_C14.vo Props_C14.glob Props_C14.v.beautified Props_C14.required_vo: Props_C14.v /verif/coq/Base.vo /verif/coq/Layout.vo Builder.vo Spec.vo GbLemmas.vo Invariant.vo Same.vo Phys.vo PhysSeq.vo Growth.vo Proofs_C14.vo
Props_C14.vio: Props_C14.v /verif/coq/Base.vio /verif/coq/Layout.vio Builder.vio Spec.vio GbLemmas.vio Invariant.vio Same.vio Phys.vio PhysSeq.vio Growth.vio Proofs_C14.vio
Props_C14.vos Props_C14.vok Props_C14.required_vos: Props_C14.v /verif/coq/Base.vos /verif/coq/Layout.vos Builder.vos Spec.vos GbLemmas.vos Invariant.vos Same.vos Phys.vos PhysSeq.vos Growth.vos Proofs_C14.vos
Extract_C14.vo Extract_C14.glob Extract_C14.v.beautified Extract_C14.required_vo: Extract_C14.v /verif/coq/Layout.vo /verif/coq/Valid.vo /verif/coq/Types.vo Builder.vo Spec.vo
Extract_C14.vio: Extract_C14.v /verif/coq/Layout.vio /verif/coq/Valid.vio /verif/coq/Types.vio Builder.vio Spec.vio
Extract_C14.vos Extract_C14.vok Extract_C14.required_vos: Extract_C14.v /verif/coq/Layout.vos /verif/coq/Valid.vos /verif/coq/Types.vos Builder.vos Spec.vos
