(** Proofs_C13e.v -- k_safe / k_spec / k_width for the kernel models of Kernels2.v *)
From Coq Require Import ZArith List Bool Lia ZifyBool.
From AwkV Require Import Base.
From AwkKernels Require Import Kernels KLemmas Proofs_C13 Proofs_C13b Proofs_C13c.
From AwkKernels Require Export Kernels2.
Import ListNotations.
Open Scope Z_scope.

Ltac Zify.zify_post_hook ::= Z.to_euclidean_division_equations.

(** * helpers *)
Lemma kfill_safe0 n f out :
  n <= zlen out -> (forall i, 0 <= i < n -> f i <> KOob) -> kfill 0 n f out <> KOob.
Proof. intros. apply kfill_safe; auto; lia. Qed.

(** a kfill over [0, zlen a) whose cell i is [h (at_ a i)] is [map h a] followed by the untouched rest *)
Lemma kfill_map_spec (h : Z -> Z) (a out : list Z) f :
  zlen a <= zlen out ->
  (forall i, 0 <= i < zlen a -> f i = KOk (h (at_ a i))) ->
  kfill 0 (zlen a) f out = KOk (map h a ++ skipn (length a) out).
Proof.
  intros H Hf. pose proof (zlen_nonneg a).
  rewrite (kfill_spec 0 (zlen a) f (fun i => h (at_ a i))); try lia; auto.
  rewrite Z.max_r by lia. rewrite filled_0_prefix by lia. f_equal. f_equal.
  - apply map_iota_list.
  - f_equal. unfold zlen. lia.
Qed.

Lemma kfill_zip_spec (h : Z -> Z -> Z) (a b out : list Z) f :
  zlen a = zlen b -> zlen a <= zlen out ->
  (forall i, 0 <= i < zlen a -> f i = KOk (h (at_ a i) (at_ b i))) ->
  kfill 0 (zlen a) f out = KOk (map (fun p => h (fst p) (snd p)) (zip a b) ++ skipn (length a) out).
Proof.
  intros E H Hf. pose proof (zlen_nonneg a).
  rewrite (kfill_spec 0 (zlen a) f (fun i => h (at_ a i) (at_ b i))); try lia; auto.
  rewrite Z.max_r by lia. rewrite filled_0_prefix by lia. f_equal. f_equal.
  - now apply map_iota_zip.
  - f_equal. unfold zlen. lia.
Qed.

(** a kfill of [n] cells at [off] whose cell i is [g i] *)
Lemma kfill_iota_spec off n (g : Z -> Z) out f :
  0 <= off -> 0 <= n -> off + n <= zlen out ->
  (forall i, 0 <= i < n -> f i = KOk (g i)) ->
  kfill off n f out = KOk (firstn (Z.to_nat off) out ++ map g (iota n) ++ skipn (Z.to_nat (off + n)) out).
Proof.
  intros H0 Hn H Hf. rewrite (kfill_spec off n f g); try lia; auto. now rewrite Z.max_r by lia.
Qed.

(* ================================================================================================ *)
(** * awkward_ByteMaskedArray_getitem_carry *)

Theorem ByteMaskedArray_getitem_carry_safe tomask frommask lenmask fromcarry lencarry :
  lencarry <= zlen fromcarry -> lencarry <= zlen tomask -> lenmask <= zlen frommask ->
  (forall i, 0 <= i < lencarry -> 0 <= at_ fromcarry i) ->
  ByteMaskedArray_getitem_carry tomask frommask lenmask fromcarry lencarry <> KOob.
Proof.
  intros H1 H2 H3 Hc. unfold ByteMaskedArray_getitem_carry. apply kfill_safe0; auto.
  intros i Hi. rewrite (kget_at fromcarry) by lia. cbn [kbind]. unfold kcheck.
  specialize (Hc i Hi).
  destruct (lenmask <=? at_ fromcarry i) eqn:E; cbn [kbind]; [congruence|].
  rewrite (kget_at frommask) by lia. congruence.
Qed.

(** the carried mask is the mask read at the carry positions *)
Theorem ByteMaskedArray_getitem_carry_spec tomask frommask fromcarry :
  zlen fromcarry <= zlen tomask ->
  (forall i, 0 <= i < zlen fromcarry -> 0 <= at_ fromcarry i < zlen frommask) ->
  ByteMaskedArray_getitem_carry tomask frommask (zlen frommask) fromcarry (zlen fromcarry)
  = KOk (map (at_ frommask) fromcarry ++ skipn (length fromcarry) tomask).
Proof.
  intros H Hc. unfold ByteMaskedArray_getitem_carry. apply kfill_map_spec; auto.
  intros i Hi. rewrite (kget_at fromcarry) by lia. cbn [kbind]. unfold kcheck. specialize (Hc i Hi).
  replace (zlen frommask <=? at_ fromcarry i) with false by lia. cbn [kbind].
  now rewrite (kget_at frommask) by lia.
Qed.

(* ================================================================================================ *)
(** * awkward_ByteMaskedArray_mask *)

Theorem ByteMaskedArray_mask_safe tomask frommask n vw :
  n <= zlen frommask -> n <= zlen tomask -> ByteMaskedArray_mask tomask frommask n vw <> KOob.
Proof.
  intros H1 H2. unfold ByteMaskedArray_mask. apply kfill_safe0; auto.
  intros i Hi. rewrite (kget_at frommask) by lia. cbn [kbind]. congruence.
Qed.

Theorem ByteMaskedArray_mask_spec tomask frommask vw :
  zlen frommask <= zlen tomask ->
  ByteMaskedArray_mask tomask frommask (zlen frommask) vw
  = KOk (map (fun m => b2z (negb (mvalid m vw))) frommask ++ skipn (length frommask) tomask).
Proof.
  intros H. unfold ByteMaskedArray_mask. apply (kfill_map_spec (fun m => b2z (negb (mvalid m vw)))); auto.
  intros i Hi. now rewrite (kget_at frommask) by lia.
Qed.

(* ================================================================================================ *)
(** * awkward_ByteMaskedArray_overlay_mask *)

Theorem ByteMaskedArray_overlay_mask_safe tomask theirmask mymask n vw :
  n <= zlen theirmask -> n <= zlen mymask -> n <= zlen tomask ->
  ByteMaskedArray_overlay_mask tomask theirmask mymask n vw <> KOob.
Proof.
  intros H1 H2 H3. unfold ByteMaskedArray_overlay_mask. apply kfill_safe0; auto.
  intros i Hi. rewrite (kget_at theirmask), (kget_at mymask) by lia. cbn [kbind]. congruence.
Qed.

Theorem ByteMaskedArray_overlay_mask_spec tomask theirmask mymask vw :
  zlen theirmask = zlen mymask -> zlen theirmask <= zlen tomask ->
  ByteMaskedArray_overlay_mask tomask theirmask mymask (zlen theirmask) vw
  = KOk (map (fun p => b2z (negb (fst p =? 0) || negb (mvalid (snd p) vw))) (zip theirmask mymask)
         ++ skipn (length theirmask) tomask).
Proof.
  intros E H. unfold ByteMaskedArray_overlay_mask.
  apply (kfill_zip_spec (fun t m => b2z (negb (t =? 0) || negb (mvalid m vw)))); auto.
  intros i Hi. now rewrite (kget_at theirmask), (kget_at mymask) by lia.
Qed.

(* ================================================================================================ *)
(** * awkward_Index_to_Index64 *)

Theorem Index_to_Index64_safe toptr fromptr n :
  n <= zlen fromptr -> n <= zlen toptr -> Index_to_Index64 toptr fromptr n <> KOob.
Proof.
  intros H1 H2. unfold Index_to_Index64. apply kfill_safe0; auto.
  intros i Hi. rewrite (kget_at fromptr) by lia. congruence.
Qed.

Theorem Index_to_Index64_spec toptr fromptr :
  zlen fromptr <= zlen toptr ->
  Index_to_Index64 toptr fromptr (zlen fromptr) = KOk (fromptr ++ skipn (length fromptr) toptr).
Proof.
  intros H. unfold Index_to_Index64. rewrite (kfill_map_spec (fun x => x) fromptr); auto.
  - now rewrite map_id.
  - intros i Hi. now rewrite (kget_at fromptr) by lia.
Qed.

(* ================================================================================================ *)
(** * awkward_IndexedArray_fill_count / awkward_UnionArray_fillindex_count / awkward_UnionArray_filltags_const *)

Theorem IndexedArray_fill_count_safe tTO toindex off n base :
  0 <= off -> off + n <= zlen toindex -> IndexedArray_fill_count tTO toindex off n base <> KOob.
Proof. intros. unfold IndexedArray_fill_count. apply kfill_safe; auto. congruence. Qed.

Theorem IndexedArray_fill_count_spec toindex off n base :
  0 <= off -> 0 <= n -> off + n <= zlen toindex ->
  IndexedArray_fill_count TIdeal toindex off n base
  = KOk (firstn (Z.to_nat off) toindex ++ map (fun i => i + base) (iota n) ++ skipn (Z.to_nat (off + n)) toindex).
Proof. intros. unfold IndexedArray_fill_count. apply kfill_iota_spec; auto. Qed.

Theorem IndexedArray_fill_count_width tTO toindex off n base :
  (forall i, 0 <= i < n -> fits tTO (i + base)) ->
  IndexedArray_fill_count tTO toindex off n base = IndexedArray_fill_count TIdeal toindex off n base.
Proof. intros F. unfold IndexedArray_fill_count. apply kfill_ext. intros i Hi. cbn [wrap]. now rewrite F. Qed.

Theorem UnionArray_fillindex_count_safe tTO toindex off n :
  0 <= off -> off + n <= zlen toindex -> UnionArray_fillindex_count tTO toindex off n <> KOob.
Proof. intros. unfold UnionArray_fillindex_count. apply kfill_safe; auto. congruence. Qed.

Theorem UnionArray_fillindex_count_spec toindex off n :
  0 <= off -> 0 <= n -> off + n <= zlen toindex ->
  UnionArray_fillindex_count TIdeal toindex off n
  = KOk (firstn (Z.to_nat off) toindex ++ iota n ++ skipn (Z.to_nat (off + n)) toindex).
Proof.
  intros. unfold UnionArray_fillindex_count. rewrite (kfill_iota_spec off n (fun i => i)); auto.
  now rewrite map_id.
Qed.

Theorem UnionArray_fillindex_count_width tTO toindex off n :
  (forall i, 0 <= i < n -> fits tTO i) ->
  UnionArray_fillindex_count tTO toindex off n = UnionArray_fillindex_count TIdeal toindex off n.
Proof. intros F. unfold UnionArray_fillindex_count. apply kfill_ext. intros i Hi. cbn [wrap]. now rewrite F. Qed.

Theorem UnionArray_filltags_const_safe tTO totags off n base :
  0 <= off -> off + n <= zlen totags -> UnionArray_filltags_const tTO totags off n base <> KOob.
Proof. intros. unfold UnionArray_filltags_const. apply kfill_safe; auto. congruence. Qed.

Theorem UnionArray_filltags_const_spec totags off n base :
  0 <= off -> 0 <= n -> off + n <= zlen totags ->
  UnionArray_filltags_const TIdeal totags off n base
  = KOk (firstn (Z.to_nat off) totags ++ map (fun _ => base) (iota n) ++ skipn (Z.to_nat (off + n)) totags).
Proof. intros. unfold UnionArray_filltags_const. apply kfill_iota_spec; auto. Qed.

Theorem UnionArray_filltags_const_width tTO totags off n base :
  fits tTO base ->
  UnionArray_filltags_const tTO totags off n base = UnionArray_filltags_const TIdeal totags off n base.
Proof. intros F. unfold UnionArray_filltags_const. apply kfill_ext. intros i Hi. cbn [wrap]. now rewrite F. Qed.

(* ================================================================================================ *)
(** * awkward_IndexedArray_getitem_carry *)

Theorem IndexedArray_getitem_carry_safe tC toindex fromindex fromcarry lenindex lencarry :
  lencarry <= zlen fromcarry -> lencarry <= zlen toindex -> lenindex <= zlen fromindex ->
  (forall i, 0 <= i < lencarry -> 0 <= at_ fromcarry i) ->
  IndexedArray_getitem_carry tC toindex fromindex fromcarry lenindex lencarry <> KOob.
Proof.
  intros H1 H2 H3 Hc. unfold IndexedArray_getitem_carry. apply kfill_safe0; auto.
  intros i Hi. rewrite (kget_at fromcarry) by lia. cbn [kbind]. unfold kcheck. specialize (Hc i Hi).
  destruct (lenindex <=? at_ fromcarry i) eqn:E; cbn [kbind]; [congruence|].
  rewrite (kget_at fromindex) by lia. cbn [kbind]. congruence.
Qed.

Theorem IndexedArray_getitem_carry_spec toindex fromindex fromcarry :
  zlen fromcarry <= zlen toindex ->
  (forall i, 0 <= i < zlen fromcarry -> 0 <= at_ fromcarry i < zlen fromindex) ->
  IndexedArray_getitem_carry TIdeal toindex fromindex fromcarry (zlen fromindex) (zlen fromcarry)
  = KOk (map (at_ fromindex) fromcarry ++ skipn (length fromcarry) toindex).
Proof.
  intros H Hc. unfold IndexedArray_getitem_carry. apply kfill_map_spec; auto.
  intros i Hi. rewrite (kget_at fromcarry) by lia. cbn [kbind]. unfold kcheck. specialize (Hc i Hi).
  replace (zlen fromindex <=? at_ fromcarry i) with false by lia. cbn [kbind].
  now rewrite (kget_at fromindex) by lia.
Qed.

Theorem IndexedArray_getitem_carry_width tC toindex fromindex fromcarry lenindex lencarry :
  (forall x, In x fromindex -> fits tC x) ->
  IndexedArray_getitem_carry tC toindex fromindex fromcarry lenindex lencarry
  = IndexedArray_getitem_carry TIdeal toindex fromindex fromcarry lenindex lencarry.
Proof.
  intros F. unfold IndexedArray_getitem_carry. apply kfill_ext. intros i Hi.
  destruct (kget fromcarry i) as [c| |]; cbn [kbind]; auto.
  destruct (kcheck (lenindex <=? c) MIndexOutOfRange); cbn [kbind]; auto.
  destruct (kget fromindex c) as [x| |] eqn:E; cbn [kbind]; auto.
  apply kget_inv in E. destruct E as (_ & E). apply nth_error_In in E. cbn [wrap]. now rewrite F.
Qed.

(* ================================================================================================ *)
(** * awkward_IndexedArray_mask *)

Theorem IndexedArray_mask_safe tomask fromindex n :
  n <= zlen fromindex -> n <= zlen tomask -> IndexedArray_mask tomask fromindex n <> KOob.
Proof.
  intros H1 H2. unfold IndexedArray_mask. apply kfill_safe0; auto.
  intros i Hi. rewrite (kget_at fromindex) by lia. cbn [kbind]. congruence.
Qed.

Theorem IndexedArray_mask_spec tomask fromindex :
  zlen fromindex <= zlen tomask ->
  IndexedArray_mask tomask fromindex (zlen fromindex)
  = KOk (map (fun x => b2z (x <? 0)) fromindex ++ skipn (length fromindex) tomask).
Proof.
  intros H. unfold IndexedArray_mask. apply (kfill_map_spec (fun x => b2z (x <? 0))); auto.
  intros i Hi. now rewrite (kget_at fromindex) by lia.
Qed.

(* ================================================================================================ *)
(** * awkward_IndexedArray_overlay_mask *)

Theorem IndexedArray_overlay_mask_safe tTO toindex mask fromindex n :
  n <= zlen mask -> n <= zlen fromindex -> n <= zlen toindex ->
  IndexedArray_overlay_mask tTO toindex mask fromindex n <> KOob.
Proof.
  intros H1 H2 H3. unfold IndexedArray_overlay_mask. apply kfill_safe0; auto.
  intros i Hi. rewrite (kget_at mask) by lia. cbn [kbind].
  destruct (negb (at_ mask i =? 0)); [congruence|].
  rewrite (kget_at fromindex) by lia. cbn [kbind]. congruence.
Qed.

Theorem IndexedArray_overlay_mask_spec toindex mask fromindex :
  zlen mask = zlen fromindex -> zlen mask <= zlen toindex ->
  IndexedArray_overlay_mask TIdeal toindex mask fromindex (zlen mask)
  = KOk (map (fun p => if negb (fst p =? 0) then -1 else snd p) (zip mask fromindex) ++ skipn (length mask) toindex).
Proof.
  intros E H. unfold IndexedArray_overlay_mask.
  apply (kfill_zip_spec (fun m x => if negb (m =? 0) then -1 else x)); auto.
  intros i Hi. rewrite (kget_at mask) by lia. cbn [kbind].
  destruct (negb (at_ mask i =? 0)); [reflexivity|].
  now rewrite (kget_at fromindex) by lia.
Qed.

Theorem IndexedArray_overlay_mask_width tTO toindex mask fromindex n :
  fits tTO (-1) -> (forall x, In x fromindex -> fits tTO x) ->
  IndexedArray_overlay_mask tTO toindex mask fromindex n = IndexedArray_overlay_mask TIdeal toindex mask fromindex n.
Proof.
  intros F1 F. unfold IndexedArray_overlay_mask. apply kfill_ext. intros i Hi.
  destruct (kget mask i) as [m| |]; cbn [kbind]; auto.
  destruct (negb (m =? 0)); [cbn [wrap]; now rewrite F1|].
  destruct (kget fromindex i) as [x| |] eqn:E; cbn [kbind]; auto.
  apply kget_inv in E. destruct E as (_ & E). apply nth_error_In in E. cbn [wrap]. now rewrite F.
Qed.

(* ================================================================================================ *)
(** * awkward_IndexedArray_simplify *)

Theorem IndexedArray_simplify_safe toindex outerindex outerlength innerindex innerlength :
  outerlength <= zlen outerindex -> outerlength <= zlen toindex -> innerlength <= zlen innerindex ->
  IndexedArray_simplify toindex outerindex outerlength innerindex innerlength <> KOob.
Proof.
  intros H1 H2 H3. unfold IndexedArray_simplify. apply kfill_safe0; auto.
  intros i Hi. rewrite (kget_at outerindex) by lia. cbn [kbind].
  destruct (at_ outerindex i <? 0) eqn:E; [congruence|]. unfold kcheck.
  destruct (innerlength <=? at_ outerindex i) eqn:E2; cbn [kbind]; [congruence|].
  rewrite (kget_at innerindex) by lia. congruence.
Qed.

(** composition of the two indexes, missing values staying missing *)
Theorem IndexedArray_simplify_spec toindex outerindex innerindex :
  zlen outerindex <= zlen toindex ->
  (forall i, 0 <= i < zlen outerindex -> at_ outerindex i < zlen innerindex) ->
  IndexedArray_simplify toindex outerindex (zlen outerindex) innerindex (zlen innerindex)
  = KOk (map (fun j => if j <? 0 then -1 else at_ innerindex j) outerindex ++ skipn (length outerindex) toindex).
Proof.
  intros H Hc. unfold IndexedArray_simplify.
  apply (kfill_map_spec (fun j => if j <? 0 then -1 else at_ innerindex j)); auto.
  intros i Hi. rewrite (kget_at outerindex) by lia. cbn [kbind]. specialize (Hc i Hi).
  destruct (at_ outerindex i <? 0) eqn:E; [reflexivity|]. unfold kcheck.
  replace (zlen innerindex <=? at_ outerindex i) with false by lia. cbn [kbind].
  now rewrite (kget_at innerindex) by lia.
Qed.

(* ================================================================================================ *)
(** * awkward_index_carry / awkward_index_carry_nocheck *)

Theorem index_carry_safe toindex fromindex carry lenfromindex n :
  n <= zlen carry -> n <= zlen toindex -> lenfromindex <= zlen fromindex ->
  index_carry toindex fromindex carry lenfromindex n <> KOob.
Proof.
  intros H1 H2 H3. unfold index_carry. apply kfill_safe0; auto.
  intros i Hi. rewrite (kget_at carry) by lia. cbn [kbind]. unfold kcheck.
  destruct ((at_ carry i <? 0) || (lenfromindex <=? at_ carry i)) eqn:E; cbn [kbind]; [congruence|].
  rewrite (kget_at fromindex) by lia. congruence.
Qed.

Theorem index_carry_spec toindex fromindex carry :
  zlen carry <= zlen toindex ->
  (forall i, 0 <= i < zlen carry -> 0 <= at_ carry i < zlen fromindex) ->
  index_carry toindex fromindex carry (zlen fromindex) (zlen carry)
  = KOk (map (at_ fromindex) carry ++ skipn (length carry) toindex).
Proof.
  intros H Hc. unfold index_carry. apply kfill_map_spec; auto.
  intros i Hi. rewrite (kget_at carry) by lia. cbn [kbind]. unfold kcheck. specialize (Hc i Hi).
  replace ((at_ carry i <? 0) || (zlen fromindex <=? at_ carry i)) with false by lia. cbn [kbind].
  now rewrite (kget_at fromindex) by lia.
Qed.

Theorem index_carry_nocheck_safe toindex fromindex carry n :
  n <= zlen carry -> n <= zlen toindex ->
  (forall i, 0 <= i < n -> 0 <= at_ carry i < zlen fromindex) ->
  index_carry_nocheck toindex fromindex carry n <> KOob.
Proof.
  intros H1 H2 Hc. unfold index_carry_nocheck. apply kfill_safe0; auto.
  intros i Hi. rewrite (kget_at carry) by lia. cbn [kbind]. specialize (Hc i Hi).
  rewrite (kget_at fromindex) by lia. congruence.
Qed.

Theorem index_carry_nocheck_spec toindex fromindex carry :
  zlen carry <= zlen toindex ->
  (forall i, 0 <= i < zlen carry -> 0 <= at_ carry i < zlen fromindex) ->
  index_carry_nocheck toindex fromindex carry (zlen carry)
  = KOk (map (at_ fromindex) carry ++ skipn (length carry) toindex).
Proof.
  intros H Hc. unfold index_carry_nocheck. apply kfill_map_spec; auto.
  intros i Hi. rewrite (kget_at carry) by lia. cbn [kbind]. specialize (Hc i Hi).
  now rewrite (kget_at fromindex) by lia.
Qed.

(* ================================================================================================ *)
(** * awkward_one_mask / awkward_zero_mask *)

Theorem const_mask_safe v tomask n : n <= zlen tomask -> const_mask v tomask n <> KOob.
Proof. intros. unfold const_mask. apply kfill_safe0; auto. congruence. Qed.

Theorem const_mask_spec v tomask n :
  0 <= n <= zlen tomask ->
  const_mask v tomask n = KOk (map (fun _ => v) (iota n) ++ skipn (Z.to_nat n) tomask).
Proof.
  intros H. unfold const_mask. rewrite (kfill_iota_spec 0 n (fun _ => v)); try lia; auto.
Qed.

(* ================================================================================================ *)
(** * NumpyArray: contiguous_init, fill_frombool, fill_tobool, getitem_next_at, getitem_next_array_advanced *)

Theorem NumpyArray_contiguous_init_safe toptr skip stride :
  skip <= zlen toptr -> NumpyArray_contiguous_init toptr skip stride <> KOob.
Proof. intros. unfold NumpyArray_contiguous_init. apply kfill_safe0; auto. congruence. Qed.

Theorem NumpyArray_contiguous_init_spec toptr skip stride :
  0 <= skip <= zlen toptr ->
  NumpyArray_contiguous_init toptr skip stride
  = KOk (map (fun i => i * stride) (iota skip) ++ skipn (Z.to_nat skip) toptr).
Proof.
  intros H. unfold NumpyArray_contiguous_init. rewrite (kfill_iota_spec 0 skip (fun i => i * stride)); try lia; auto.
Qed.

Theorem NumpyArray_fill_frombool_safe tTO toptr off fromptr n :
  0 <= off -> n <= zlen fromptr -> off + n <= zlen toptr -> NumpyArray_fill_frombool tTO toptr off fromptr n <> KOob.
Proof.
  intros H0 H1 H2. unfold NumpyArray_fill_frombool. apply kfill_safe; try lia.
  intros i Hi. rewrite (kget_at fromptr) by lia. cbn [kbind]. congruence.
Qed.

Theorem NumpyArray_fill_frombool_spec toptr off fromptr :
  0 <= off -> off + zlen fromptr <= zlen toptr ->
  NumpyArray_fill_frombool TIdeal toptr off fromptr (zlen fromptr)
  = KOk (firstn (Z.to_nat off) toptr ++ map (fun x => b2z (negb (x =? 0))) fromptr
         ++ skipn (Z.to_nat (off + zlen fromptr)) toptr).
Proof.
  intros H0 H. pose proof (zlen_nonneg fromptr). unfold NumpyArray_fill_frombool.
  rewrite (kfill_spec off (zlen fromptr) _ (fun i => b2z (negb (at_ fromptr i =? 0)))); try lia.
  - rewrite Z.max_r by lia. unfold filled. do 2 f_equal. f_equal.
    apply (map_iota_list (fun x => b2z (negb (x =? 0)))).
  - intros i Hi. rewrite (kget_at fromptr) by lia. reflexivity.
Qed.

(** 0 and 1 fit every element type, so every specialisation writes the same values *)
Theorem NumpyArray_fill_frombool_width tTO toptr off fromptr n :
  (forall b, tTO = TI b -> 1 < b) -> (forall b, tTO = TU b -> 0 < b) ->
  NumpyArray_fill_frombool tTO toptr off fromptr n = NumpyArray_fill_frombool TIdeal toptr off fromptr n.
Proof.
  intros HI HU. unfold NumpyArray_fill_frombool. apply kfill_ext. intros i Hi.
  destruct (kget fromptr i) as [x| |]; cbn [kbind]; auto. f_equal. rewrite wrap_ideal.
  assert (B : b2z (negb (x =? 0)) = 0 \/ b2z (negb (x =? 0)) = 1) by (destruct (negb (x =? 0)); cbn; auto).
  destruct tTO as [|b|b|]; auto.
  - now apply wrap_TB_id.
  - specialize (HI b eq_refl). apply wrap_TI_id; [lia|].
    assert (2 ^ 1 <= 2 ^ (b - 1)) by (apply Z.pow_le_mono_r; lia). change (2 ^ 1) with 2 in *. lia.
  - specialize (HU b eq_refl). apply wrap_TU_id.
    assert (2 ^ 1 <= 2 ^ b) by (apply Z.pow_le_mono_r; lia). change (2 ^ 1) with 2 in *. lia.
Qed.

Theorem NumpyArray_fill_tobool_safe toptr off fromptr n :
  0 <= off -> n <= zlen fromptr -> off + n <= zlen toptr -> NumpyArray_fill_tobool toptr off fromptr n <> KOob.
Proof.
  intros H0 H1 H2. unfold NumpyArray_fill_tobool. apply kfill_safe; try lia.
  intros i Hi. rewrite (kget_at fromptr) by lia. cbn [kbind]. congruence.
Qed.

Theorem NumpyArray_fill_tobool_spec toptr off fromptr :
  0 <= off -> off + zlen fromptr <= zlen toptr ->
  NumpyArray_fill_tobool toptr off fromptr (zlen fromptr)
  = KOk (firstn (Z.to_nat off) toptr ++ map (fun x => b2z (negb (x =? 0))) fromptr
         ++ skipn (Z.to_nat (off + zlen fromptr)) toptr).
Proof.
  intros H0 H. pose proof (zlen_nonneg fromptr). unfold NumpyArray_fill_tobool.
  rewrite (kfill_spec off (zlen fromptr) _ (fun i => b2z (negb (at_ fromptr i =? 0)))); try lia.
  - rewrite Z.max_r by lia. unfold filled. do 2 f_equal. f_equal.
    apply (map_iota_list (fun x => b2z (negb (x =? 0)))).
  - intros i Hi. rewrite (kget_at fromptr) by lia. reflexivity.
Qed.

Theorem NumpyArray_getitem_next_at_safe nextcarryptr carryptr lencarry skip at0 :
  lencarry <= zlen carryptr -> lencarry <= zlen nextcarryptr ->
  NumpyArray_getitem_next_at nextcarryptr carryptr lencarry skip at0 <> KOob.
Proof.
  intros H1 H2. unfold NumpyArray_getitem_next_at. apply kfill_safe0; auto.
  intros i Hi. rewrite (kget_at carryptr) by lia. cbn [kbind]. congruence.
Qed.

Theorem NumpyArray_getitem_next_at_spec nextcarryptr carryptr skip at0 :
  zlen carryptr <= zlen nextcarryptr ->
  NumpyArray_getitem_next_at nextcarryptr carryptr (zlen carryptr) skip at0
  = KOk (map (fun c => skip * c + at0) carryptr ++ skipn (length carryptr) nextcarryptr).
Proof.
  intros H. unfold NumpyArray_getitem_next_at. apply (kfill_map_spec (fun c => skip * c + at0)); auto.
  intros i Hi. now rewrite (kget_at carryptr) by lia.
Qed.

Theorem NumpyArray_getitem_next_array_advanced_safe nextcarryptr carryptr advancedptr flatheadptr lencarry skip :
  lencarry <= zlen carryptr -> lencarry <= zlen advancedptr -> lencarry <= zlen nextcarryptr ->
  (forall i, 0 <= i < lencarry -> 0 <= at_ advancedptr i < zlen flatheadptr) ->
  NumpyArray_getitem_next_array_advanced nextcarryptr carryptr advancedptr flatheadptr lencarry skip <> KOob.
Proof.
  intros H1 H2 H3 Ha. unfold NumpyArray_getitem_next_array_advanced. apply kfill_safe0; auto.
  intros i Hi. rewrite (kget_at carryptr), (kget_at advancedptr) by lia. cbn [kbind]. specialize (Ha i Hi).
  rewrite (kget_at flatheadptr) by lia. cbn [kbind]. congruence.
Qed.

Theorem NumpyArray_getitem_next_array_advanced_spec nextcarryptr carryptr advancedptr flatheadptr skip :
  zlen carryptr = zlen advancedptr -> zlen carryptr <= zlen nextcarryptr ->
  (forall i, 0 <= i < zlen carryptr -> 0 <= at_ advancedptr i < zlen flatheadptr) ->
  NumpyArray_getitem_next_array_advanced nextcarryptr carryptr advancedptr flatheadptr (zlen carryptr) skip
  = KOk (map (fun p => skip * fst p + at_ flatheadptr (snd p)) (zip carryptr advancedptr)
         ++ skipn (length carryptr) nextcarryptr).
Proof.
  intros E H Ha. unfold NumpyArray_getitem_next_array_advanced.
  apply (kfill_zip_spec (fun c a => skip * c + at_ flatheadptr a)); auto.
  intros i Hi. rewrite (kget_at carryptr), (kget_at advancedptr) by lia. cbn [kbind]. specialize (Ha i Hi).
  now rewrite (kget_at flatheadptr) by lia.
Qed.

(* ================================================================================================ *)
(** * awkward_Identities32_to_Identities64 *)

Theorem Identities32_to_Identities64_safe toptr fromptr length width :
  length * width <= zlen fromptr -> length * width <= zlen toptr ->
  Identities32_to_Identities64 toptr fromptr length width <> KOob.
Proof.
  intros H1 H2. unfold Identities32_to_Identities64. apply kfill_safe0; auto.
  intros i Hi. rewrite (kget_at fromptr) by lia. congruence.
Qed.

Theorem Identities32_to_Identities64_spec toptr fromptr length width :
  length * width = zlen fromptr -> zlen fromptr <= zlen toptr ->
  Identities32_to_Identities64 toptr fromptr length width = KOk (fromptr ++ skipn (List.length fromptr) toptr).
Proof.
  intros E H. unfold Identities32_to_Identities64. rewrite E. rewrite (kfill_map_spec (fun x => x) fromptr); auto.
  - now rewrite map_id.
  - intros i Hi. now rewrite (kget_at fromptr) by lia.
Qed.

(* ================================================================================================ *)
(** * awkward_IndexedArray_reduce_next_fix_offsets_64 *)

Theorem IndexedArray_reduce_next_fix_offsets_safe outoffsets starts startslength outindexlength :
  0 <= startslength <= zlen starts -> startslength < zlen outoffsets ->
  IndexedArray_reduce_next_fix_offsets outoffsets starts startslength outindexlength <> KOob.
Proof.
  intros H1 H2. unfold IndexedArray_reduce_next_fix_offsets.
  rewrite (kfill_spec 0 startslength _ (at_ starts)); try lia.
  - cbn [kbind]. rewrite kupd_ok; [congruence|]. rewrite zlen_filled; lia.
  - intros i Hi. now rewrite (kget_at starts) by lia.
Qed.

(** the offsets are the starts followed by the total length *)
Theorem IndexedArray_reduce_next_fix_offsets_spec outoffsets starts outindexlength :
  zlen outoffsets = zlen starts + 1 ->
  IndexedArray_reduce_next_fix_offsets outoffsets starts (zlen starts) outindexlength
  = KOk (starts ++ [outindexlength]).
Proof.
  intros H. pose proof (zlen_nonneg starts). unfold IndexedArray_reduce_next_fix_offsets.
  rewrite (kfill_map_spec (fun x => x) starts); try lia.
  - cbn [kbind]. rewrite map_id.
    assert (L : exists x, skipn (length starts) outoffsets = [x]).
    { assert (Q : length (skipn (length starts) outoffsets) = 1%nat) by (rewrite skipn_length; unfold zlen in *; lia).
      destruct (skipn (length starts) outoffsets) as [|x [|y t]]; cbn in Q; try lia. eauto. }
    destruct L as (x & ->).
    rewrite kupd_ok by (rewrite zlen_app; unfold zlen; cbn [length]; lia). f_equal.
    unfold zlen. rewrite Nat2Z.id. rewrite set_nth_app_r by lia. rewrite Nat.sub_diag. reflexivity.
  - intros i Hi. now rewrite (kget_at starts) by lia.
Qed.

(* ================================================================================================ *)
(** * awkward_ListOffsetArray_reduce_global_startstop_64 *)

Theorem ListOffsetArray_reduce_global_startstop_safe globalstart globalstop offsets length :
  0 <= length < zlen offsets -> 0 < zlen globalstart -> 0 < zlen globalstop ->
  ListOffsetArray_reduce_global_startstop globalstart globalstop offsets length <> KOob.
Proof.
  intros H1 H2 H3. unfold ListOffsetArray_reduce_global_startstop.
  rewrite (kget_at offsets) by lia. cbn [kbind]. rewrite kupd_ok by lia. cbn [kbind].
  rewrite (kget_at offsets) by lia. cbn [kbind]. rewrite kupd_ok by lia. cbn [kbind]. congruence.
Qed.

Theorem ListOffsetArray_reduce_global_startstop_spec a b offsets :
  0 < zlen offsets ->
  ListOffsetArray_reduce_global_startstop [a] [b] offsets (zlen offsets - 1)
  = KOk ([hd 0 offsets], [last offsets 0]).
Proof.
  intros H. unfold ListOffsetArray_reduce_global_startstop.
  rewrite (kget_at offsets) by lia. cbn [kbind]. rewrite kupd0. cbn [kbind].
  rewrite (kget_at offsets) by lia. cbn [kbind]. rewrite kupd0. cbn [kbind]. f_equal. f_equal.
  - unfold at_. destruct offsets; reflexivity.
  - f_equal. unfold at_.
    destruct (exists_last (l := offsets)) as (l' & x & ->).
    { intros ->. cbn in H. lia. }
    rewrite last_last. rewrite zlen_app. unfold zlen. cbn [length].
    replace (Z.to_nat (Z.of_nat (length l') + Z.of_nat 1 - 1)) with (length l') by lia.
    rewrite app_nth2 by lia. rewrite Nat.sub_diag. reflexivity.
Qed.

(* ================================================================================================ *)
(** * awkward_reduce_prod_int32_bool_64 / awkward_reduce_prod_int64_bool_64 *)

Theorem reduce_prod_int_bool_safe tO toptr fromptr parents n ol :
  red_pre toptr fromptr parents n ol -> reduce_prod_int_bool tO toptr fromptr parents n ol <> KOob.
Proof. apply reduce_generic_safe. Qed.

Theorem reduce_prod_int_bool_spec tO toptr fromptr parents n ol :
  red_pre toptr fromptr parents n ol ->
  exists out, reduce_prod_int_bool tO toptr fromptr parents n ol = KOk out /\ zlen out = zlen toptr /\
    forall q, 0 <= q -> at_ out q = if q <? ol
      then red_upto tO 1 (fun _ cur x => cur * b2z (negb (x =? 0))) parents fromptr (Z.to_nat n) q
      else at_ toptr q.
Proof. apply reduce_generic_spec. Qed.

(* ================================================================================================ *)
(** * awkward_combinations: not implemented in the library, always reports the same error *)

Theorem combinations_safe toindex n replacement singlelen : combinations toindex n replacement singlelen <> XOob.
Proof. unfold combinations. congruence. Qed.

Theorem combinations_spec toindex n replacement singlelen :
  combinations toindex n replacement singlelen = XErr MFixmeCombinations.
Proof. reflexivity. Qed.

(* ================================================================================================ *)
(** * loops over several buffers: tactics *)
Ltac kstep :=
  repeat first
    [ rewrite kget_at by lia
    | rewrite kupd_ok by (rewrite ?zlen_set_nth; lia)
    | progress cbn [kbind fst snd] ].
Ltac kdone :=
  split; [congruence | let E := fresh "E" in intros ? E; inversion E; subst; cbn [fst snd]; rewrite ?zlen_set_nth; repeat split; lia].
Ltac split_pairs := repeat match goal with r : (_ * _)%type |- _ => destruct r end.
(** reduces  [let* r := kfor .. in K r <> KOob]  to the invariant [P] of the loop *)
Ltac noob_loop P :=
  match goal with |- context [kfor ?lo ?hi ?b ?s] =>
    let N := fresh "N" in
    assert (N : kfor lo hi b s <> KOob);
    [ refine (proj1 (kfor_noob b P lo hi s _ _))
    | destruct (kfor lo hi b s); cbn [kbind kmap]; try congruence; split_pairs; cbn [fst snd]; try congruence ]
  end.

(* ================================================================================================ *)
(** * awkward_ByteMaskedArray_numnull *)

Theorem ByteMaskedArray_numnull_safe numnull mask n vw :
  n <= zlen mask -> 1 <= zlen numnull -> ByteMaskedArray_numnull numnull mask n vw <> KOob.
Proof.
  intros H1 H2. unfold ByteMaskedArray_numnull. rewrite kupd_ok by lia. cbn [kbind].
  apply (kfor_noob _ (fun _ o => zlen o = zlen numnull) 0 n).
  - apply zlen_set_nth.
  - intros j s Hj Ls. rewrite (kget_at mask) by lia. cbn [kbind].
    destruct (negb (mvalid (at_ mask j) vw)); [|split; [congruence|intros s' E; inversion E; subst; auto]].
    rewrite (kget_at s) by lia. cbn [kbind]. rewrite kupd_ok by lia. split; [congruence|].
    intros s' E; inversion E; subst. now rewrite zlen_set_nth.
Qed.

Lemma firstn_snoc_at (l : list Z) j : 0 <= j < zlen l ->
  firstn (Z.to_nat (j + 1)) l = firstn (Z.to_nat j) l ++ [at_ l j].
Proof.
  intros Hj. replace (Z.to_nat (j + 1)) with (S (Z.to_nat j)) by lia. unfold at_.
  assert (G : forall (l : list Z) k, (k < length l)%nat -> firstn (S k) l = firstn k l ++ [nth k l 0]).
  { induction l0; intros [|k] Hk; cbn [length] in *; try lia; auto. cbn [firstn nth app]. f_equal. apply IHl0. lia. }
  apply G. unfold zlen in Hj. lia.
Qed.

(** the counter ends at the number of masked-out entries *)
Theorem ByteMaskedArray_numnull_spec numnull mask vw :
  1 <= zlen numnull ->
  exists out, ByteMaskedArray_numnull numnull mask (zlen mask) vw = KOk out /\ zlen out = zlen numnull /\
    at_ out 0 = zlen (filter (fun m => negb (mvalid m vw)) mask) /\ forall q, 1 <= q -> at_ out q = at_ numnull q.
Proof.
  intros H2. pose proof (zlen_nonneg mask) as Hn. unfold ByteMaskedArray_numnull.
  destruct (kupd numnull 0 0) as [n0| |] eqn:U0.
  2:{ exfalso; eapply kupd_not_err; eauto. } 2:{ apply kupd_oob in U0; lia. }
  cbn [kbind]. destruct (kupd_at _ _ _ _ U0) as (L0 & A0).
  destruct (kfor_inv
    (fun i n => let* m := kget mask i in if negb (mvalid m vw) then let* c := kget n 0 in kupd n 0 (c + 1) else KOk n)
    (fun j o => zlen o = zlen numnull /\
                at_ o 0 = zlen (filter (fun m => negb (mvalid m vw)) (firstn (Z.to_nat j) mask))
                /\ forall q, 1 <= q -> at_ o q = at_ numnull q) 0 (zlen mask) n0) as (s' & E & P); auto.
  - split; [lia|]. split.
    + rewrite A0 by lia. reflexivity.
    + intros q Hq. rewrite A0 by lia. replace (q =? 0) with false by lia. reflexivity.
  - intros j s Hj (L & A & R). rewrite (kget_at mask) by lia. cbn [kbind].
    rewrite firstn_snoc_at by lia. rewrite filter_app, zlen_app. cbn [filter].
    destruct (negb (mvalid (at_ mask j) vw)) eqn:E.
    + rewrite (kget_at s) by lia. cbn [kbind].
      destruct (kupd s 0 (at_ s 0 + 1)) as [s1| |] eqn:U.
      2:{ exfalso; eapply kupd_not_err; eauto. } 2:{ apply kupd_oob in U; lia. }
      exists s1. split; auto. destruct (kupd_at _ _ _ _ U) as (L1 & A1). split; [lia|]. split.
      * rewrite A1 by lia. cbn. rewrite A. unfold zlen. cbn [length]. lia.
      * intros q Hq. rewrite A1 by lia. replace (q =? 0) with false by lia. auto.
    + exists s. split; auto. split; auto. split; auto. rewrite A. unfold zlen. cbn [length]. lia.
  - exists s'. destruct P as (L & A & R). split; auto. split; auto. split; auto.
    rewrite A. unfold zlen at 2. rewrite Nat2Z.id, firstn_all. reflexivity.
Qed.

(* ================================================================================================ *)
(** * nested fills: contiguous_next, getitem_next_range, missing_repeat *)

Theorem NumpyArray_contiguous_next_safe topos frompos length skip stride :
  0 <= skip -> 0 <= length -> length <= zlen frompos -> length * skip <= zlen topos ->
  NumpyArray_contiguous_next topos frompos length skip stride <> KOob.
Proof.
  intros Hs Hn Hf H. unfold NumpyArray_contiguous_next.
  apply (kfor_noob _ (fun _ o => zlen o = zlen topos) 0 length); auto.
  intros i s Hi Ls.
  destruct (kfor_get_upd_total 0 skip frompos (fun _ => i) (fun j => i * skip + j) (fun j p => p + j * stride) s)
    as (o' & E & L').
  { intros j Hj. lia. } { intros j Hj. rewrite Ls. nia. }
  rewrite E. split; [congruence|]. intros s' Es; inversion Es; subst. lia.
Qed.

Theorem NumpyArray_getitem_next_range_safe nextcarryptr carryptr lencarry lenhead skip start step :
  0 <= lenhead -> 0 <= lencarry -> lencarry <= zlen carryptr -> lencarry * lenhead <= zlen nextcarryptr ->
  NumpyArray_getitem_next_range nextcarryptr carryptr lencarry lenhead skip start step <> KOob.
Proof.
  intros Hs Hn Hf H. unfold NumpyArray_getitem_next_range.
  apply (kfor_noob _ (fun _ o => zlen o = zlen nextcarryptr) 0 lencarry); auto.
  intros i s Hi Ls.
  destruct (kfor_get_upd_total 0 lenhead carryptr (fun _ => i) (fun j => i * lenhead + j)
              (fun j c => skip * c + start + j * step) s) as (o' & E & L').
  { intros j Hj. lia. } { intros j Hj. rewrite Ls. nia. }
  rewrite E. split; [congruence|]. intros s' Es; inversion Es; subst. lia.
Qed.

Theorem missing_repeat_safe outindex index indexlength repetitions regularsize :
  0 <= indexlength -> 0 <= repetitions -> indexlength <= zlen index -> repetitions * indexlength <= zlen outindex ->
  missing_repeat outindex index indexlength repetitions regularsize <> KOob.
Proof.
  intros Hs Hn Hf H. unfold missing_repeat.
  apply (kfor_noob _ (fun _ o => zlen o = zlen outindex) 0 repetitions); auto.
  intros i s Hi Ls.
  destruct (kfor_get_upd_total 0 indexlength index (fun j => j) (fun j => i * indexlength + j)
              (fun j base => base + (if 0 <=? base then i * regularsize else 0)) s) as (o' & E & L').
  { intros j Hj. lia. } { intros j Hj. rewrite Ls. nia. }
  rewrite E. split; [congruence|]. intros s' Es; inversion Es; subst. lia.
Qed.

(* ================================================================================================ *)
(** * awkward_IndexedArray_index_of_nulls: a filter-and-push loop *)

Lemma index_of_nulls_body fromindex parents starts n :
  n <= zlen fromindex -> n <= zlen parents ->
  (forall i, 0 <= i < n -> at_ fromindex i < 0 -> 0 <= at_ parents i < zlen starts) ->
  forall j st, 0 <= j < n ->
    (let* x := kget fromindex j in
     if x <? 0 then let* parent := kget parents j in let* start := kget starts parent in kpush st (j - start)
     else KOk st)
    = push_body (fun i => KOk (if at_ fromindex i <? 0 then Some (i - at_ starts (at_ parents i)) else None)) j st.
Proof.
  intros H1 H2 Hp j st Hj. unfold push_body. rewrite (kget_at fromindex) by lia. cbn [kbind].
  destruct (at_ fromindex j <? 0) eqn:E; [|reflexivity].
  rewrite (kget_at parents) by lia. cbn [kbind]. rewrite (kget_at starts) by (apply Hp; lia). reflexivity.
Qed.

Theorem IndexedArray_index_of_nulls_safe toindex fromindex n parents starts :
  n <= zlen fromindex -> n <= zlen parents -> n <= zlen toindex ->
  (forall i, 0 <= i < n -> at_ fromindex i < 0 -> 0 <= at_ parents i < zlen starts) ->
  IndexedArray_index_of_nulls toindex fromindex n parents starts <> KOob.
Proof.
  intros H1 H2 H3 Hp. unfold IndexedArray_index_of_nulls.
  rewrite (kfor_ext _ _ 0 n _ (index_of_nulls_body fromindex parents starts n H1 H2 Hp)).
  pose proof (kpushloop_safe
    (fun i => KOk (if at_ fromindex i <? 0 then Some (i - at_ starts (at_ parents i)) else None)) n toindex H3) as S.
  destruct (kfor 0 n _ (toindex, 0)); cbn [kbind]; try congruence.
  exfalso. apply S; [intros; congruence|reflexivity].
Qed.

(** the positions of the missing values relative to the start of their list, in order *)
Theorem IndexedArray_index_of_nulls_spec toindex fromindex parents starts :
  let sel := fun i => if at_ fromindex i <? 0 then Some (i - at_ starts (at_ parents i)) else None in
  zlen fromindex <= zlen parents ->
  (forall i, 0 <= i < zlen fromindex -> at_ fromindex i < 0 -> 0 <= at_ parents i < zlen starts) ->
  zlen (pushed sel (zlen fromindex)) <= zlen toindex ->
  IndexedArray_index_of_nulls toindex fromindex (zlen fromindex) parents starts
  = KOk (pushed sel (zlen fromindex) ++ skipn (length (pushed sel (zlen fromindex))) toindex).
Proof.
  intros sel H2 Hp Hcap. pose proof (zlen_nonneg fromindex). unfold IndexedArray_index_of_nulls.
  rewrite (kfor_ext _ _ 0 (zlen fromindex) _
             (index_of_nulls_body fromindex parents starts (zlen fromindex) (Z.le_refl _) H2 Hp)).
  rewrite (kpushloop_spec _ sel); auto.
Qed.

(* ================================================================================================ *)
(** * reduce_next: carry, parents and outindex in one pass *)

Theorem ByteMaskedArray_reduce_next_safe nextcarry nextparents outindex mask parents n vw :
  n <= zlen mask -> n <= zlen parents -> n <= zlen nextcarry -> n <= zlen nextparents -> n <= zlen outindex ->
  ByteMaskedArray_reduce_next nextcarry nextparents outindex mask parents n vw <> KOob.
Proof.
  intros H1 H2 H3 H4 H5. unfold ByteMaskedArray_reduce_next.
  noob_loop (fun j (st : list Z * list Z * list Z * Z) =>
    let '(nc, np, oi, k) := st in
    zlen nc = zlen nextcarry /\ zlen np = zlen nextparents /\ zlen oi = zlen outindex /\ 0 <= k <= j).
  - repeat split; lia.
  - intros j [[[nc np] oi] k] Hj (L1 & L2 & L3 & K). kstep.
    destruct (mvalid (at_ mask j) vw); kstep; kdone.
Qed.

Theorem IndexedArray_reduce_next_safe nextcarry nextparents outindex index parents n :
  n <= zlen index -> n <= zlen parents -> n <= zlen nextcarry -> n <= zlen nextparents -> n <= zlen outindex ->
  IndexedArray_reduce_next nextcarry nextparents outindex index parents n <> KOob.
Proof.
  intros H1 H2 H3 H4 H5. unfold IndexedArray_reduce_next.
  noob_loop (fun j (st : list Z * list Z * list Z * Z) =>
    let '(nc, np, oi, k) := st in
    zlen nc = zlen nextcarry /\ zlen np = zlen nextparents /\ zlen oi = zlen outindex /\ 0 <= k <= j).
  - repeat split; lia.
  - intros j [[[nc np] oi] k] Hj (L1 & L2 & L3 & K). kstep.
    destruct (0 <=? at_ index j); kstep; kdone.
Qed.

(* ================================================================================================ *)
(** * nextshifts (ByteMaskedArray / IndexedArray, with and without incoming shifts) *)

Lemma nextshifts_generic_safe valid nextshifts flags n shifts :
  n <= zlen flags -> n <= zlen nextshifts ->
  (forall s, shifts = Some s -> n <= zlen s) ->
  nextshifts_generic valid nextshifts flags n shifts <> KOob.
Proof.
  intros H1 H2 H3. unfold nextshifts_generic.
  noob_loop (fun j (st : list Z * Z * Z) => let '(out, k, _) := st in zlen out = zlen nextshifts /\ 0 <= k <= j).
  - split; lia.
  - intros j [[out k] ns] Hj (L & K). kstep.
    destruct (valid (at_ flags j)); [|kdone].
    destruct shifts as [s|]; [specialize (H3 s eq_refl)|]; kstep; kdone.
Qed.

Theorem ByteMaskedArray_reduce_next_nonlocal_nextshifts_safe nextshifts mask n vw :
  n <= zlen mask -> n <= zlen nextshifts ->
  ByteMaskedArray_reduce_next_nonlocal_nextshifts nextshifts mask n vw <> KOob.
Proof. intros. apply nextshifts_generic_safe; auto. discriminate. Qed.

Theorem ByteMaskedArray_reduce_next_nonlocal_nextshifts_fromshifts_safe nextshifts mask n vw shifts :
  n <= zlen mask -> n <= zlen nextshifts -> n <= zlen shifts ->
  ByteMaskedArray_reduce_next_nonlocal_nextshifts_fromshifts nextshifts mask n vw shifts <> KOob.
Proof. intros. apply nextshifts_generic_safe; auto. intros s E; inversion E; subst; auto. Qed.

Theorem IndexedArray_reduce_next_nonlocal_nextshifts_safe nextshifts index n :
  n <= zlen index -> n <= zlen nextshifts ->
  IndexedArray_reduce_next_nonlocal_nextshifts nextshifts index n <> KOob.
Proof. intros. apply nextshifts_generic_safe; auto. discriminate. Qed.

Theorem IndexedArray_reduce_next_nonlocal_nextshifts_fromshifts_safe nextshifts index n shifts :
  n <= zlen index -> n <= zlen nextshifts -> n <= zlen shifts ->
  IndexedArray_reduce_next_nonlocal_nextshifts_fromshifts nextshifts index n shifts <> KOob.
Proof. intros. apply nextshifts_generic_safe; auto. intros s E; inversion E; subst; auto. Qed.

(* ================================================================================================ *)
(** * single-pass kernels with a counter *)

Theorem carry_SliceMissing64_outindex_safe toindex fromindex n :
  n <= zlen fromindex -> n <= zlen toindex -> carry_SliceMissing64_outindex toindex fromindex n <> KOob.
Proof.
  intros H1 H2. unfold carry_SliceMissing64_outindex.
  noob_loop (fun (j : Z) (st : list Z * Z) => zlen (fst st) = zlen toindex).
  - reflexivity.
  - intros j [out k] Hj L. cbn [fst] in L. kstep. destruct (at_ fromindex j <? 0); kstep; kdone.
Qed.

Theorem IndexedOptionArray_rpad_and_clip_mask_axis1_safe toindex frommask n :
  n <= zlen frommask -> n <= zlen toindex -> IndexedOptionArray_rpad_and_clip_mask_axis1 toindex frommask n <> KOob.
Proof.
  intros H1 H2. unfold IndexedOptionArray_rpad_and_clip_mask_axis1.
  noob_loop (fun (j : Z) (st : list Z * Z) => zlen (fst st) = zlen toindex).
  - reflexivity.
  - intros j [out k] Hj L. cbn [fst] in L. kstep. destruct (negb (at_ frommask j =? 0)); kstep; kdone.
Qed.

Theorem slicemissing_check_same_safe same bytemask missingindex n :
  n <= zlen bytemask -> n <= zlen missingindex -> 1 <= zlen same ->
  slicemissing_check_same same bytemask missingindex n <> KOob.
Proof.
  intros H1 H2 H3. unfold slicemissing_check_same. rewrite kupd_ok by lia. cbn [kbind].
  noob_loop (fun (j : Z) (st : list Z * bool) => zlen (fst st) = zlen same).
  - cbn [fst]. apply zlen_set_nth.
  - intros j [s d] Hj L. cbn [fst] in L. destruct d; [kdone|]. kstep.
    destruct (negb (Bool.eqb (negb (at_ bytemask j =? 0)) (at_ missingindex j <? 0))); kstep; kdone.
Qed.

Theorem Index_iscontiguous_safe tT result fromindex n :
  n <= zlen fromindex -> 1 <= zlen result -> Index_iscontiguous tT result fromindex n <> KOob.
Proof.
  intros H1 H2. unfold Index_iscontiguous. rewrite kupd_ok by lia. cbn [kbind].
  noob_loop (fun (j : Z) (st : list Z * Z * bool) => zlen (fst (fst st)) = zlen result).
  - cbn [fst]. apply zlen_set_nth.
  - intros j [[r e] d] Hj L. cbn [fst] in L. destruct d; [kdone|]. kstep.
    destruct (negb (at_ fromindex j =? e)); kstep; kdone.
Qed.

Theorem Index_nones_as_index_safe toindex n : n <= zlen toindex -> Index_nones_as_index toindex n <> KOob.
Proof.
  intros H. unfold Index_nones_as_index.
  noob_loop (fun (j : Z) (last : Z) => True); auto.
  - intros j s Hj _. kstep. split; [congruence|auto].
  - noob_loop (fun (j : Z) (st : list Z * Z) => zlen (fst st) = zlen toindex).
    + reflexivity.
    + intros j [buf last] Hj L. cbn [fst] in L. kstep. destruct (at_ buf j =? -1); kstep; kdone.
Qed.

Theorem UnionArray_simplify_one_safe tTT totags toindex fromtags fromindex towhich fromwhich n base :
  n <= zlen fromtags -> n <= zlen fromindex -> n <= zlen totags -> n <= zlen toindex ->
  UnionArray_simplify_one tTT totags toindex fromtags fromindex towhich fromwhich n base <> KOob.
Proof.
  intros H1 H2 H3 H4. unfold UnionArray_simplify_one.
  apply (kfor_noob _ (fun (j : Z) (st : list Z * list Z) =>
           zlen (fst st) = zlen totags /\ zlen (snd st) = zlen toindex) 0 n).
  - split; reflexivity.
  - intros j [t i] Hj (L1 & L2). cbn [fst snd] in *. kstep.
    destruct (at_ fromtags j =? fromwhich); kstep; kdone.
Qed.

Theorem UnionArray_simplify_safe tTT totags toindex outertags outerindex innertags innerindex tw iw ow n base :
  n <= zlen outertags -> n <= zlen outerindex -> n <= zlen totags -> n <= zlen toindex ->
  (forall i, 0 <= i < n -> at_ outertags i = ow ->
     0 <= at_ outerindex i < zlen innertags /\ at_ outerindex i < zlen innerindex) ->
  UnionArray_simplify tTT totags toindex outertags outerindex innertags innerindex tw iw ow n base <> KOob.
Proof.
  intros H1 H2 H3 H4 Hin. unfold UnionArray_simplify.
  apply (kfor_noob _ (fun (j : Z) (st : list Z * list Z) =>
           zlen (fst st) = zlen totags /\ zlen (snd st) = zlen toindex) 0 n).
  - split; reflexivity.
  - intros j [t i] Hj (L1 & L2). cbn [fst snd] in *. kstep.
    destruct (at_ outertags j =? ow) eqn:E; [|kdone].
    destruct (Hin j Hj) as (I1 & I2); [lia|]. kstep.
    destruct (at_ innertags (at_ outerindex j) =? iw); kstep; kdone.
Qed.

Theorem ListArray_getitem_jagged_carrylen_safe carrylen slicestarts slicestops n :
  n <= zlen slicestarts -> n <= zlen slicestops -> 1 <= zlen carrylen ->
  ListArray_getitem_jagged_carrylen carrylen slicestarts slicestops n <> KOob.
Proof.
  intros H1 H2 H3. unfold ListArray_getitem_jagged_carrylen. rewrite kupd_ok by lia. cbn [kbind].
  apply (kfor_noob _ (fun (j : Z) (c : list Z) => zlen c = zlen carrylen) 0 n).
  - apply zlen_set_nth.
  - intros j c Hj L. kstep. kdone.
Qed.

Theorem NumpyArray_reduce_mask_ByteMaskedArray_safe toptr parents lenparents outlength :
  0 <= outlength <= zlen toptr -> lenparents <= zlen parents ->
  (forall i, 0 <= i < lenparents -> 0 <= at_ parents i < zlen toptr) ->
  NumpyArray_reduce_mask_ByteMaskedArray toptr parents lenparents outlength <> KOob.
Proof.
  intros H1 H2 Hp. unfold NumpyArray_reduce_mask_ByteMaskedArray.
  rewrite (kfill_spec 0 outlength _ (fun _ => 1)); try lia; auto. cbn [kbind].
  apply (kfor_noob _ (fun (j : Z) (o : list Z) => zlen o = zlen toptr) 0 lenparents).
  - rewrite zlen_filled; lia.
  - intros j o Hj L. specialize (Hp j Hj). kstep. kdone.
Qed.

Theorem MaskedArray_getitem_next_jagged_project_safe index starts_in stops_in starts_out stops_out n :
  n <= zlen index -> n <= zlen starts_in -> n <= zlen stops_in -> n <= zlen starts_out -> n <= zlen stops_out ->
  MaskedArray_getitem_next_jagged_project index starts_in stops_in starts_out stops_out n <> KOob.
Proof.
  intros H1 H2 H3 H4 H5. unfold MaskedArray_getitem_next_jagged_project.
  noob_loop (fun j (st : list Z * list Z * Z) =>
    let '(so, po, k) := st in zlen so = zlen starts_out /\ zlen po = zlen stops_out /\ 0 <= k <= j).
  - repeat split; lia.
  - intros j [[so po] k] Hj (L1 & L2 & K). kstep. destruct (0 <=? at_ index j); kstep; kdone.
Qed.

Theorem Content_getitem_next_missing_jagged_getmaskstartstop_safe index_in offsets_in mask_out starts_out stops_out n :
  n <= zlen index_in -> n < zlen offsets_in -> n <= zlen mask_out -> n <= zlen starts_out -> n <= zlen stops_out ->
  Content_getitem_next_missing_jagged_getmaskstartstop index_in offsets_in mask_out starts_out stops_out n <> KOob.
Proof.
  intros H1 H2 H3 H4 H5. unfold Content_getitem_next_missing_jagged_getmaskstartstop.
  noob_loop (fun j (st : list Z * list Z * list Z * Z) =>
    let '(mo, so, po, k) := st in
    zlen mo = zlen mask_out /\ zlen so = zlen starts_out /\ zlen po = zlen stops_out /\ 0 <= k <= j).
  - repeat split; lia.
  - intros j [[[mo so] po] k] Hj (L1 & L2 & L3 & K). kstep. destruct (at_ index_in j <? 0); kstep; kdone.
Qed.
