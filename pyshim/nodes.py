# Node classes of the fake awkward._ext: plain Python objects holding NumPy buffers and children.
# Structural accessors are native; every computing method is forwarded to pydrv by value.
import ctypes
import json
import operator

import numpy

from pyshim import core
from pyshim.core import (
    hx, unhx, unhx_str, e_int, e_optint, e_bool, e_str, e_optstr, e_strs, e_typestrs, e_ints,
    d_int, d_bool, d_str, d_strs,
)

np = numpy

FILENAME_SUFFIX = "\n\n(pyshim re-implementation of a src/python/*.cpp check)"


# ------------------------------------------------------------------ parameters
def dict2parameters(parameters):
    if parameters is None:
        return {}
    if isinstance(parameters, dict):
        out = {}
        for k, v in parameters.items():
            if not isinstance(k, str):
                raise RuntimeError("Unable to cast Python instance to C++ type (parameter keys must be str)")
            out[k] = json.dumps(v)
        return out
    raise ValueError("type parameters must be a dict (or None)" + FILENAME_SUFFIX)


def parameters2dict(params):
    return dict((k, json.loads(params[k])) for k in sorted(params))


def sx_params(params):
    if not params:
        return "-"
    return "(" + " ".join("(" + hx(k) + " " + hx(params[k]) + ")" for k in sorted(params)) + ")"


def rd_params(t):
    if t == "-":
        return {}
    return dict((unhx_str(kv[0]), unhx_str(kv[1])) for kv in t)


# ------------------------------------------------------------------ raw buffers
def _span_bytes(arr):
    """(byteoffset, bytes) of the memory span touched by a (possibly strided) ndarray."""
    if arr.size == 0:
        return 0, b""
    low = 0
    high = 0
    for n, s in zip(arr.shape, arr.strides):
        ext = (n - 1) * s
        if ext < 0:
            low += ext
        else:
            high += ext
    high += arr.itemsize
    addr = arr.ctypes.data + low
    return -low, ctypes.string_at(addr, high - low)


_SIMPLE_DTYPES = set(
    ["bool", "int8", "int16", "int32", "int64", "uint8", "uint16", "uint32", "uint64",
     "float16", "float32", "float64", "float128", "complex64", "complex128", "complex256"]
)
_format_cache = {}


def format_of(dtype):
    """PEP-3118 format string as pybind11's buffer_info would report it."""
    key = dtype
    f = _format_cache.get(key)
    if f is not None:
        return f
    if dtype.kind in "Mm":
        f = dtype.str[1:]  # e.g. 'M8[ns]' (NumpyArray_from_datetime)
    else:
        try:
            f = memoryview(numpy.empty(1, dtype)).format
        except Exception:
            f = dtype.str
    _format_cache[key] = f
    return f


def _safe_dtname(dtype):
    n = str(dtype)
    for ch in n:
        if not (ch.isalnum() or ch in "_[]<>=|.-"):
            return "other"
    return n if n else "other"


def dtype_from(dtname, fmt, itemsize):
    if dtname in _SIMPLE_DTYPES:
        return numpy.dtype(dtname)
    if dtname.startswith("datetime64") or dtname.startswith("timedelta64"):
        try:
            return numpy.dtype(fmt)
        except TypeError:
            return numpy.dtype(dtname)
    try:
        return numpy.dtype(fmt)
    except Exception:
        pass
    try:
        from numpy._core._internal import _dtype_from_pep3118

        return _dtype_from_pep3118(fmt)
    except Exception:
        return numpy.dtype((numpy.void, itemsize))


def ndarray_from(dtype, shape, strides, byteoffset, data):
    buf = bytearray(data)
    size = 1
    for s in shape:
        size *= s
    if size == 0 or len(buf) == 0:
        out = numpy.empty(shape, dtype=dtype)
        return out
    return numpy.ndarray(shape=tuple(shape), dtype=dtype, buffer=buf, offset=byteoffset, strides=tuple(strides))


# ------------------------------------------------------------------ Index
class _Index(object):
    _dtype = None
    _tag = None
    _name = None

    def __init__(self, anyarray):
        if isinstance(anyarray, _Index):
            anyarray = anyarray._array
        try:
            array = numpy.asarray(anyarray)
            if array.dtype != self._dtype:
                array = array.astype(self._dtype)  # forcecast
        except Exception:
            raise TypeError("%s: incompatible constructor argument %r" % (self._name, type(anyarray).__name__))
        if array.ndim != 1:
            raise ValueError(self._name + " must be built from a one-dimensional array; try array.ravel()" + FILENAME_SUFFIX)
        if not array.flags.c_contiguous:
            # py::array::c_style makes a contiguous copy before the strides check can fail
            array = numpy.ascontiguousarray(array)
        self._owner = array
        self._array = array.view()  # own view: references to it are not references to the caller's array

    @classmethod
    def _wrap(cls, array):
        self = cls.__new__(cls)
        self._array = array
        return self

    ptr_lib = "cpu"

    # no __array__: like the pybind11 class, conversion to NumPy goes through the buffer protocol
    def __buffer__(self, flags):
        return memoryview(self._array)

    def __len__(self):
        return len(self._array)

    def __getitem__(self, where):
        if isinstance(where, int):
            n = len(self._array)
            at = where
            if at < 0:
                at += n
            if not (0 <= at < n):
                raise ValueError("index out of range" + FILENAME_SUFFIX)
            return self._array[at].item()
        elif isinstance(where, slice):
            if where.step is None or (isinstance(where.step, int) and where.step == 1):
                return type(self)._wrap(self._array[where.start:where.stop])
            raise ValueError("Index slices cannot contain step != 1" + FILENAME_SUFFIX)
        raise ValueError("Index can only be sliced by an integer or start:stop slice" + FILENAME_SUFFIX)

    def __iter__(self):
        for x in self._array.tolist():
            yield x

    def __repr__(self):
        a = self._array
        if len(a) <= 10:
            body = " ".join(str(x) for x in a.tolist())
        else:
            body = " ".join(str(x) for x in a[:5].tolist()) + " ... " + " ".join(str(x) for x in a[-5:].tolist())
        return '<%s i="[%s]" offset="0" length="%d" at="0x%012x"/>' % (self._name, body, len(a), a.ctypes.data)

    def copy_to(self, ptr_lib):
        if ptr_lib == "cpu":
            return type(self)._wrap(self._array.copy())
        if ptr_lib == "cuda":
            raise RuntimeError("pyshim: CUDA is not available in this sandbox")
        raise ValueError("specify 'cpu' or 'cuda'" + FILENAME_SUFFIX)

    @classmethod
    def from_cupy(cls, array):
        raise RuntimeError("pyshim: CuPy is not available")

    @classmethod
    def from_jax(cls, array):
        return cls(numpy.asarray(array))

    def to_cupy(self):
        raise RuntimeError("pyshim: CuPy is not available")

    def to_jax(self):
        import jax.numpy

        return jax.numpy.asarray(self._array)

    def _sx(self):
        a = self._array
        if not a.flags.c_contiguous:
            a = numpy.ascontiguousarray(a)
            return "(" + self._tag + " x" + a.tobytes().hex() + ")"
        m = core.memo()
        if m is None or a.size == 0:
            return "(" + self._tag + " x" + a.tobytes().hex() + ")"
        key, first = m.key_for(a, a.ctypes.data, a.nbytes)
        if first:
            return "(" + self._tag + " x" + a.tobytes().hex() + " " + key + ")"
        return "(" + self._tag + " x " + key + ")"

    def _sx_empty(self, n=0):
        return "(" + self._tag + " x" + ("00" * (n * self._dtype.itemsize)) + ")"


def _mkindex(name, tag, dt):
    return type(name, (_Index,), {"_dtype": numpy.dtype(dt), "_tag": tag, "_name": name})


Index8 = _mkindex("Index8", "i8", numpy.int8)
IndexU8 = _mkindex("IndexU8", "u8", numpy.uint8)
Index32 = _mkindex("Index32", "i32", numpy.int32)
IndexU32 = _mkindex("IndexU32", "u32", numpy.uint32)
Index64 = _mkindex("Index64", "i64", numpy.int64)
_INDEX_BY_TAG = {"i8": Index8, "u8": IndexU8, "i32": Index32, "u32": IndexU32, "i64": Index64}


class _Dummy(object):
    """carrier of __array_interface__ that keeps the memory owner alive (cf. numpy's DummyArray)"""

    def __init__(self, interface, base):
        self.__array_interface__ = interface
        self.base = base


def span_view(key, spanoff, nbytes):
    """uint8 view of `nbytes` bytes at offset `spanoff` inside the input span named `key` (keeps its owner alive)"""
    ent = core.resolve_key(key)
    if ent is None:
        raise core.DriverProtocolError("reply refers to an unknown input buffer " + key)
    arr, addr, total = ent
    if spanoff < 0 or spanoff + nbytes > total:
        raise core.DriverProtocolError("reply refers outside of input buffer " + key)
    iface = dict(data=(addr + spanoff, not arr.flags.writeable), shape=(nbytes,), typestr="|u1", version=3)
    return numpy.asarray(_Dummy(iface, arr))


def rd_index(t):
    cls = _INDEX_BY_TAG[t[0]]
    if t[1] == "@":  # (tag @ KEY byteoffset length): a view of an input buffer
        n = int(t[4])
        u8 = span_view(t[2], int(t[3]), n * cls._dtype.itemsize)
        return cls._wrap(u8.view(cls._dtype))
    data = bytearray.fromhex(t[1][1:])
    return cls._wrap(numpy.frombuffer(data, dtype=cls._dtype))


def _as_index(cls, obj, what):
    if isinstance(obj, cls):
        return obj
    if isinstance(obj, _Index):
        raise TypeError("%s must be %s, not %s" % (what, cls._name, type(obj)._name))
    # pybind11 would refuse implicit conversion; be equally strict
    raise TypeError("%s must be %s, not %r" % (what, cls._name, type(obj).__name__))


# ------------------------------------------------------------------ Identities
class _Identities(object):
    _dtype = None
    _tag = None
    _name = None

    @staticmethod
    def newref():
        return int(core.request("newref"))

    def __init__(self, ref, fieldloc, *args):
        # (ref, fieldloc, width, length) or (ref, fieldloc, array)
        self._ref = int(ref)
        self._fieldloc = [(int(a), str(b)) for a, b in fieldloc]
        if len(args) == 2:
            width, length = args
            self._array = numpy.zeros((int(length), int(width)), dtype=self._dtype)
        elif len(args) == 1:
            array = numpy.asarray(args[0])
            if array.dtype != self._dtype:
                array = array.astype(self._dtype)
            if array.ndim != 2:
                raise ValueError(self._name + " must be built from a two-dimensional array" + FILENAME_SUFFIX)
            if not array.flags.c_contiguous:
                raise ValueError(self._name + " must be built from a contiguous array (array.stries == (array.shape[1]*array.itemsize, array.itemsize)); try array.copy()" + FILENAME_SUFFIX)
            self._owner = array
            self._array = array.view()
        else:
            raise TypeError("bad arguments for " + self._name)

    @classmethod
    def _wrap(cls, ref, fieldloc, array):
        self = cls.__new__(cls)
        self._ref = ref
        self._fieldloc = fieldloc
        self._array = array
        return self

    ptr_lib = "cpu"
    ref = property(lambda self: self._ref)
    fieldloc = property(lambda self: list(self._fieldloc))
    width = property(lambda self: self._array.shape[1])
    length = property(lambda self: self._array.shape[0])
    array = property(lambda self: numpy.asarray(self))

    def __buffer__(self, flags):
        return memoryview(self._array)

    def __len__(self):
        return self._array.shape[0]

    def __getitem__(self, where):
        if isinstance(where, slice):
            if where.step not in (None, 1):
                raise ValueError("Identities slices cannot contain step != 1")
            return type(self)._wrap(self._ref, self._fieldloc, self._array[where.start:where.stop])
        at = operator.index(where)
        n = len(self)
        if at < 0:
            at += n
        if not (0 <= at < n):
            raise ValueError("index out of range" + FILENAME_SUFFIX)
        return self._array[at].tolist()

    def identity_at_str(self, at):
        return "[" + ", ".join(str(x) for x in self.identity_at(at)) + "]"

    def identity_at(self, at):
        out = []
        row = self._array[at]
        for i in range(self.width):
            out.append(int(row[i]))
            for loc, name in self._fieldloc:
                if loc == i:
                    out.append(name)
        return tuple(out)

    def copy_to(self, ptr_lib):
        if ptr_lib == "cpu":
            return type(self)._wrap(self._ref, self._fieldloc, self._array.copy())
        raise RuntimeError("pyshim: CUDA is not available in this sandbox")

    def __repr__(self):
        return '<%s ref="%d" fieldloc="[%s]" width="%d" offset="0" length="%d" at="0x%012x"/>' % (
            self._name, self._ref, " ".join("(%d, '%s')" % fl for fl in self._fieldloc), self.width, self.length,
            self._array.ctypes.data)

    def _sx(self, skel=False):
        a = self._array
        if skel:
            return "(%s %d (%s) %d 0 x)" % (self._tag, self._ref, " ".join("(%d %s)" % (l, hx(k)) for l, k in self._fieldloc), a.shape[1])
        if not a.flags.c_contiguous:
            a = numpy.ascontiguousarray(a)
        return "(%s %d (%s) %d %d x%s)" % (
            self._tag, self._ref, " ".join("(%d %s)" % (l, hx(k)) for l, k in self._fieldloc),
            a.shape[1], a.shape[0], a.tobytes().hex())


Identities32 = type("Identities32", (_Identities,), {"_dtype": numpy.dtype(numpy.int32), "_tag": "id32", "_name": "Identities32"})
Identities64 = type("Identities64", (_Identities,), {"_dtype": numpy.dtype(numpy.int64), "_tag": "id64", "_name": "Identities64"})


def rd_ident(t):
    if t == "-":
        return None
    cls = Identities32 if t[0] == "id32" else Identities64
    ref = int(t[1])
    fieldloc = [(int(e[0]), unhx_str(e[1])) for e in t[2]]
    width = int(t[3])
    length = int(t[4])
    data = bytearray.fromhex(t[5][1:])
    arr = numpy.frombuffer(data, dtype=cls._dtype).reshape(length, width) if length * width else numpy.zeros((length, width), cls._dtype)
    return cls._wrap(ref, fieldloc, arr)


def _check_identities(identities):
    if identities is None or isinstance(identities, _Identities):
        return identities
    raise ValueError("id argument must be an Identities subtype" + FILENAME_SUFFIX)
