(** C08 proofs. *)
From Coq Require Import ZArith List Bool Lia ZifyBool.
From AwkV Require Import Base Layout LayoutInd Valid Types Carry Proofs_C11.
From AwkMerge Require Import Merge.

(* (a) the C++ promotion switch is NumPy's promotion, on all 121 pairs *)
Lemma promotion_table_is_numpy_pf : forall a b, promote a b = numpy_promote a b.
Proof. destruct a, b; reflexivity. Qed.
