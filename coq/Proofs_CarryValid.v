(** carry preserves validity (closure of the documented-valid layouts under gather). *)
From Coq Require Import ZArith List Bool Lia ZifyBool.
From AwkV Require Import Base Layout LayoutInd Valid Types Carry Typing Proofs_Typing Proofs_Lists Proofs_ToList Proofs_Carry.
Import ListNotations.
Open Scope Z_scope.

Lemma ParamOk_same_content p c1 c2 : list_content c1 = list_content c2 -> ParamOk p c1 -> ParamOk p c2.
Proof. intros H. destruct p as [[]|]; cbn [ParamOk]; auto; rewrite H; auto. Qed.

Lemma carry_class c : forall ix c', carry c ix = Ok c' -> optionlike c' = optionlike c /\ unionlike c' = unionlike c.
Proof.
  induction c using content_ind'; intros ix0 c' Hc; cbn [carry] in Hc.
  - destruct shape; [discriminate|]. apply bind_Ok in Hc as (? & _ & Hc). inversion Hc. split; reflexivity.
  - destruct ix0; [|discriminate]. inversion Hc. split; reflexivity.
  - apply bind_Ok in Hc as (? & _ & Hc). apply bind_Ok in Hc as (? & _ & Hc). inversion Hc. split; reflexivity.
  - apply bind_Ok in Hc as (? & _ & Hc). apply bind_Ok in Hc as (? & _ & Hc). inversion Hc. split; reflexivity.
  - apply bind_Ok in Hc as (? & _ & Hc). apply bind_Ok in Hc as (? & _ & Hc). inversion Hc. split; reflexivity.
  - apply bind_Ok in Hc as (? & _ & Hc). inversion Hc. split; reflexivity.
  - apply bind_Ok in Hc as (? & _ & Hc). inversion Hc. split; reflexivity.
  - apply bind_Ok in Hc as (? & _ & Hc). apply bind_Ok in Hc as (? & _ & Hc). inversion Hc. split; reflexivity.
  - apply bind_Ok in Hc as (? & _ & Hc). apply bind_Ok in Hc as (? & _ & Hc). apply bind_Ok in Hc as (? & _ & Hc).
    inversion Hc. split; reflexivity.
  - apply bind_Ok in Hc as (? & _ & Hc). inversion Hc. split; reflexivity.
  - apply bind_Ok in Hc as (? & _ & Hc). apply bind_Ok in Hc as (? & _ & Hc). inversion Hc. split; reflexivity.
  - destruct (forallb _ ix0); [|discriminate]. apply bind_Ok in Hc as (? & _ & Hc). inversion Hc. split; reflexivity.
  - apply bind_Ok in Hc as (c'' & Hc'' & Hc). inversion Hc; subst. apply (IHc _ _ Hc'').
Qed.

Lemma carry_not_par c ix c' : (forall a r x, c <> Par a r x) -> carry c ix = Ok c' -> forall a r x, c' <> Par a r x.
Proof.
  intros Hn Hc a r x. destruct c; cbn [carry] in Hc.
  - destruct shape; [discriminate|]. apply bind_Ok in Hc as (? & _ & Hc). inversion Hc. discriminate.
  - destruct ix; [|discriminate]. inversion Hc. discriminate.
  - apply bind_Ok in Hc as (? & _ & Hc). apply bind_Ok in Hc as (? & _ & Hc). inversion Hc. discriminate.
  - apply bind_Ok in Hc as (? & _ & Hc). apply bind_Ok in Hc as (? & _ & Hc). inversion Hc. discriminate.
  - apply bind_Ok in Hc as (? & _ & Hc). apply bind_Ok in Hc as (? & _ & Hc). inversion Hc. discriminate.
  - apply bind_Ok in Hc as (? & _ & Hc). inversion Hc. discriminate.
  - apply bind_Ok in Hc as (? & _ & Hc). inversion Hc. discriminate.
  - apply bind_Ok in Hc as (? & _ & Hc). apply bind_Ok in Hc as (? & _ & Hc). inversion Hc. discriminate.
  - apply bind_Ok in Hc as (? & _ & Hc). apply bind_Ok in Hc as (? & _ & Hc). apply bind_Ok in Hc as (? & _ & Hc).
    inversion Hc. discriminate.
  - apply bind_Ok in Hc as (? & _ & Hc). inversion Hc. discriminate.
  - apply bind_Ok in Hc as (? & _ & Hc). apply bind_Ok in Hc as (? & _ & Hc). inversion Hc. discriminate.
  - destruct (forallb _ ix); [|discriminate]. apply bind_Ok in Hc as (? & _ & Hc). inversion Hc. discriminate.
  - exfalso. eapply Hn. reflexivity.
Qed.

(* every element of a gather is an element of the source *)
Lemma gather_In {A} (l : list A) ix xs x : mapM (get l) ix = Ok xs -> In x xs -> In x l.
Proof. intros H Hx. destruct (mapM_In_inv _ _ _ _ H Hx) as (i & _ & Hi). eapply get_In, Hi. Qed.
Lemma gather_Forall {A} (P : A -> Prop) (l : list A) ix xs : mapM (get l) ix = Ok xs -> Forall P l -> Forall P xs.
Proof.
  intros H HP. apply Forall_forall. intros x Hx. rewrite Forall_forall in HP. eapply HP, gather_In; eassumption.
Qed.

Lemma carry_numpy_valid dt shape data ix c' :
  shape <> [] -> Forall (fun d => 0 <= d) shape -> carry (Numpy dt shape data) ix = Ok c' ->
  exists dims rows, shape = hd 0 shape :: dims /\ c' = Numpy dt (zlen ix :: dims) rows /\
                    prodZ (zlen ix :: dims) <= zlen rows.
Proof.
  intros Hne Hs Hc. destruct shape as [|n dims]; [congruence|]. cbn [carry] in Hc.
  apply bind_Ok in Hc as (rows & Hrows & Hc). inversion Hc; subst. exists dims, (concat rows).
  split; [reflexivity|]. split; [reflexivity|].
  rewrite (zlen_concat_const rows (prodZ dims)).
  - rewrite (mapM_zlen _ _ _ Hrows), prodZ_cons. lia.
  - apply Forall_forall. intros row Hrow. destruct (mapM_In_inv _ _ _ _ Hrows Hrow) as (i & _ & Hi).
    destruct ((0 <=? i) && (i <? n)); [|discriminate]. apply slice_zlen in Hi. lia.
Qed.

Definition cv_at (c : content) : Prop :=
  forall p vs ix c', Valid p c -> to_list c = Ok vs -> Forall (fun i => 0 <= i < clen c) ix ->
  carry c ix = Ok c' -> Valid p c'.

Lemma carry_valid_all c : cv_at c.
Proof.
  induction c as [dt shape data| |w o c IHc|w s e c IHc|c size zl IHc|w ix0 c IHc|w ix0 c IHc|m vw c IHc
                 |m vw lsb n c IHc|c IHc|w t ix0 cs IHcs|cs ks n IHcs|arr rn c IHc] using content_ind';
    intros p vs ix c' HV Hl Hix Hc; pose proof HV as HV0; inversion HV; subst.
  - (* Numpy *)
    match goal with Hp : ParamOk p _ |- _ => pose proof (ParamOk_nonlist _ _ Hp eq_refl); subst p end.
    match goal with Hs : Forall _ shape, Hn : shape <> [] |- _ =>
      destruct (carry_numpy_valid _ _ _ _ _ Hn Hs Hc) as (dims & rows & Hsh & -> & Hlen); rewrite Hsh in Hs; inversion Hs; subst end.
    constructor; [exact I|discriminate|constructor; [apply zlen_nonneg|assumption]|exact Hlen].
  - (* Empty *)
    cbn [carry] in Hc. destruct ix; [|discriminate]. inversion Hc; subst. exact HV0.
  - (* ListOffset *)
    cbn [carry] in Hc. unfold gather in Hc. apply bind_Ok in Hc as (s & Hs & Hc). apply bind_Ok in Hc as (e & He & Hc). inversion Hc; subst.
    constructor.
    + eapply ParamOk_same_content; [|eassumption]. reflexivity.
    + rewrite (mapM_zlen _ _ _ Hs), (mapM_zlen _ _ _ He). lia.
    + assert (Hz : mapM (get (pairs o)) ix = Ok (zip s e)) by (rewrite pairs_zip, gather_zip, Hs, He; reflexivity).
      eapply gather_Forall; eassumption.
    + assumption.
  - (* ListA *)
    cbn [carry] in Hc. unfold gather in Hc. apply bind_Ok in Hc as (s' & Hs & Hc). apply bind_Ok in Hc as (e' & He & Hc). inversion Hc; subst.
    constructor.
    + eapply ParamOk_same_content; [|eassumption]. reflexivity.
    + rewrite (mapM_zlen _ _ _ Hs), (mapM_zlen _ _ _ He). lia.
    + assert (Hz : mapM (get (zip s e)) ix = Ok (zip s' e')) by (rewrite gather_zip, Hs, He; reflexivity).
      eapply gather_Forall; eassumption.
    + assumption.
  - (* Regular *)
    cbn [carry] in Hc. apply bind_Ok in Hc as (next & Hnext & Hc). apply bind_Ok in Hc as (c'' & Hc'' & Hc). inversion Hc; subst.
    rewrite to_list_Regular in Hl. apply bind_Ok in Hl as (vs0 & Hl0 & Hl).
    cbn [clen] in Hix.
    assert (Hnx : next = map (fun i => range (i * size) ((i + 1) * size)) ix).
    { rewrite mapM_guard with (h := fun i => range (i * size) ((i + 1) * size)) in Hnext; [inversion Hnext; reflexivity|].
      eapply Forall_impl; [|exact Hix]. cbv beta. intros i Hi. destruct (size =? 0); lia. }
    assert (Hin : Forall (fun j => 0 <= j < clen c) (concat next)).
    { subst next. apply Forall_forall. intros j Hj. apply in_concat in Hj as (r & Hr & Hj).
      apply in_map_iff in Hr as (i & <- & Hi). apply range_In in Hj. rewrite Forall_forall in Hix. specialize (Hix i Hi).
      destruct (size =? 0) eqn:E; [lia|].
      assert (size * (clen c / size) <= clen c) by (apply Z.mul_div_le; lia). nia. }
    constructor; try assumption; try apply zlen_nonneg.
    + (* the parameter check only looks at the shape of the character buffer *)
      match goal with Hp : ParamOk p _ |- _ => rename Hp into Hp0 end.
      destruct (is_strk p) eqn:Es.
      * destruct (ParamOk_str _ _ Hp0 Es) as (cc & k & rn' & n' & dd & Hcc & Hccd & Hk). cbn [list_content] in Hcc. inversion Hcc; subst.
        rewrite carry_Par in Hc''. apply bind_Ok in Hc'' as (cn & Hcn & Hc''). inversion Hc''; subst.
        cbn [carry] in Hcn. apply bind_Ok in Hcn as (rows & _ & Hcn). inversion Hcn; subst.
        destruct p as [[]|]; try discriminate; cbn [ParamOk list_content];
          destruct Hk as [-> | ->]; cbn [ParamOk list_content] in Hp0; destruct Hp0 as (? & ? & ? & ? & E1 & E2);
          inversion E1; subst; try discriminate; do 4 eexists; split; reflexivity.
      * rewrite (ParamOk_nostr _ _ Hp0 Es). exact I.
    + intros Es. match goal with H : is_strk p = false -> Valid None c |- _ => specialize (H Es); rename H into HVc end.
      eapply IHc; eassumption.
  - (* Indexed *)
    match goal with Hp : ParamOk p _ |- _ => pose proof (ParamOk_nonlist _ _ Hp eq_refl); subst p end.
    cbn [carry] in Hc. unfold gather in Hc. apply bind_Ok in Hc as (j & Hj & Hc). inversion Hc; subst.
    apply V_Indexed; [exact I|eapply gather_Forall; eassumption|assumption|assumption].
  - (* IndexedOption *)
    match goal with Hp : ParamOk p _ |- _ => pose proof (ParamOk_nonlist _ _ Hp eq_refl); subst p end.
    cbn [carry] in Hc. unfold gather in Hc. apply bind_Ok in Hc as (j & Hj & Hc). inversion Hc; subst.
    apply V_IndexedOption; [exact I|eapply gather_Forall; eassumption|assumption|assumption].
  - (* ByteMasked *)
    match goal with Hp : ParamOk p _ |- _ => pose proof (ParamOk_nonlist _ _ Hp eq_refl); subst p end.
    cbn [carry] in Hc. unfold gather in Hc. apply bind_Ok in Hc as (m' & Hm' & Hc). apply bind_Ok in Hc as (c'' & Hc'' & Hc). inversion Hc; subst.
    rewrite to_list_ByteMasked in Hl. apply bind_Ok in Hl as (vs0 & Hl0 & Hl). cbn [clen] in Hix.
    assert (Hix' : Forall (fun i => 0 <= i < clen c) ix) by (eapply Forall_impl; [|exact Hix]; cbv beta; intros; lia).
    destruct (carry_spec_all c None vs0 ix) as (c3 & Hc3 & _ & Hn3); [assumption..|].
    rewrite Hc'' in Hc3. inversion Hc3; subst c3.
    destruct (carry_class c ix c'' Hc'') as [Ho _].
    constructor; [exact I|rewrite Hn3, (mapM_zlen _ _ _ Hm'); lia|rewrite Ho; assumption|eapply IHc; eassumption].
  - (* BitMasked *)
    match goal with Hp : ParamOk p _ |- _ => pose proof (ParamOk_nonlist _ _ Hp eq_refl); subst p end.
    cbn [carry] in Hc. unfold gather in Hc. apply bind_Ok in Hc as (bm & Hbm & Hc).
    apply bind_Ok in Hc as (m' & Hm' & Hc). apply bind_Ok in Hc as (c'' & Hc'' & Hc). inversion Hc; subst.
    rewrite to_list_BitMasked in Hl. apply bind_Ok in Hl as (vs0 & Hl0 & Hl). cbn [clen] in Hix.
    assert (Hix' : Forall (fun i => 0 <= i < clen c) ix) by (eapply Forall_impl; [|exact Hix]; cbv beta; intros; lia).
    destruct (carry_spec_all c None vs0 ix) as (c3 & Hc3 & _ & Hn3); [assumption..|].
    rewrite Hc'' in Hc3. inversion Hc3; subst c3.
    destruct (carry_class c ix c'' Hc'') as [Ho _].
    constructor; [exact I|rewrite Hn3, (mapM_zlen _ _ _ Hm'); lia|rewrite Ho; assumption|eapply IHc; eassumption].
  - (* Unmasked *)
    match goal with Hp : ParamOk p _ |- _ => pose proof (ParamOk_nonlist _ _ Hp eq_refl); subst p end.
    cbn [carry] in Hc. apply bind_Ok in Hc as (c'' & Hc'' & Hc). inversion Hc; subst.
    rewrite to_list_Unmasked in Hl. cbn [clen] in Hix.
    destruct (carry_class c ix c'' Hc'') as [Ho _].
    constructor; [exact I|rewrite Ho; assumption|eapply IHc; eassumption].
  - (* Union *)
    match goal with Hp : ParamOk p _ |- _ => pose proof (ParamOk_nonlist _ _ Hp eq_refl); subst p end.
    cbn [carry] in Hc. unfold gather in Hc. apply bind_Ok in Hc as (t' & Ht' & Hc). apply bind_Ok in Hc as (j & Hj & Hc). inversion Hc; subst.
    assert (Hz : mapM (get (zip t ix0)) ix = Ok (zip t' j)) by (rewrite <- (zip_take_l t ix0), gather_zip, Ht', Hj; reflexivity).
    apply V_Union; [exact I|assumption|rewrite (mapM_zlen _ _ _ Ht'), (mapM_zlen _ _ _ Hj); lia| |assumption].
    eapply gather_Forall; eassumption.
  - (* Record *)
    match goal with Hp : ParamOk p _ |- _ => pose proof (ParamOk_nonlist _ _ Hp eq_refl); subst p end.
    rewrite carry_Record in Hc. destruct (forallb _ ix); [|discriminate].
    apply bind_Ok in Hc as (cs' & Hcs' & Hc). inversion Hc; subst.
    rewrite to_list_Record in Hl. apply bind_Ok in Hl as (vss & Hvss & Hl). rewrite all_lists_mapM in Hvss. cbn [clen] in Hix.
    match goal with H : Forall (Valid None) cs |- _ => rename H into HVs end.
    match goal with H : Forall (fun x => n <= clen x) cs |- _ => rename H into Hns end.
    assert (Hall : forall x', In x' cs' -> Valid None x' /\ clen x' = zlen ix).
    { intros x' Hx'. destruct (mapM_In_inv _ _ _ _ Hcs' Hx') as (x & Hx & Hcx).
      destruct (mapM_Ok_In _ _ _ _ Hvss Hx) as (col & Hcol & _).
      rewrite Forall_forall in IHcs, HVs, Hns.
      assert (Hixx : Forall (fun i => 0 <= i < clen x) ix).
      { eapply Forall_impl; [|exact Hix]. cbv beta. intros i Hi. specialize (Hns x Hx). lia. }
      split; [eapply (IHcs x Hx None col ix x'); auto|].
      destruct (carry_spec_all x None col ix (HVs x Hx) Hcol Hixx) as (x3 & Hx3 & _ & Hn3). congruence. }
    constructor; [exact I|apply zlen_nonneg| | |].
    + apply Forall_forall. intros x' Hx'. destruct (Hall x' Hx') as [_ ->]. lia.
    + intros k Hk. apply mapM_length in Hcs'. rewrite Hcs'. auto.
    + apply Forall_forall. intros x' Hx'. apply Hall, Hx'.
  - (* Par *)
    rewrite carry_Par in Hc. apply bind_Ok in Hc as (c'' & Hc'' & Hc). inversion Hc; subst.
    rewrite to_list_Par in Hl. apply bind_Ok in Hl as (vs0 & Hl0 & _). cbn [clen] in Hix.
    constructor; [eapply carry_not_par; eassumption|eapply IHc; eassumption].
Qed.

Theorem carry_valid : forall c vs ix c',
  Valid None c -> to_list c = Ok vs -> Forall (fun i => 0 <= i < clen c) ix -> carry c ix = Ok c' -> Valid None c'.
Proof. intros c vs ix c'. apply carry_valid_all. Qed.

Corollary crange_valid : forall c vs a b c',
  Valid None c -> to_list c = Ok vs -> 0 <= a -> a <= b -> b <= clen c -> crange c a b = Ok c' -> Valid None c'.
Proof.
  intros c vs a b c' HV Hl Ha Hab Hb. unfold crange. apply (carry_valid c vs); try assumption.
  apply Forall_forall. intros i Hi. apply range_In in Hi. lia.
Qed.

Example carry_valid_ex :
  let c := Record [Par (Some AString) None (Regular (Par (Some AChar) None (Numpy DUInt8 [6] [DZ 97; DZ 98; DZ 99; DZ 100; DZ 101; DZ 102])) 2 0);
                   BitMasked [6] false true 3 (Numpy DInt64 [3; 1] [DZ 1; DZ 2; DZ 3])] None 3 in
  let one := VList [VNum (DZ 1)] in
  validb None c = true /\
  to_list c = Ok [VTup [VStr true [97; 98]; one]; VTup [VStr true [99; 100]; VNone]; VTup [VStr true [101; 102]; VNone]] /\
  (do c' <- carry c [2; 0]; Ok (validb None c', to_list c')) =
  Ok (true, Ok [VTup [VStr true [101; 102]; VNone]; VTup [VStr true [97; 98]; one]]).
Proof. vm_compute. repeat split. Qed.
