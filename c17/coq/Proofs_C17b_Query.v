(** C17b, queries part 1: the depth / regularity / field queries on TYPES (specification level, following
    src/libawkward/type/*.cpp), [fieldindex] / [key] / [haskey] on forms, layouts and types (util.cpp +
    the *Form / Content / *Type classes), and: what a Form answers = what its Type answers.
    New file; the model files are untouched. *)
From Coq Require Import ZArith List Bool Lia String.
From AwkV Require Import Base Layout LayoutInd Valid Types.
From AwkTypes Require Import Json Forms TypeStr Typing Proofs_Depth Proofs_Types Proofs_Typing Proofs_Json Proofs_Parse.
Import ListNotations.
Open Scope Z_scope.

(* ================================================================== 1. queries on types *)
(* what a Type method may do: answer, throw invalid_argument ("type contains no Records": PrimitiveType,
   UnknownType; util::fieldindex / util::key), let std::out_of_range escape (std::stoi, vector::at), or throw
   the runtime_error "FIXME: UnionType::..." *)
Inductive terr := TInvalid | TOutOfRange | TRuntime.
Inductive tres (A : Type) := TOk (a : A) | TErr (e : terr).
Arguments TOk {A} a.
Arguments TErr {A} e.

(* res -> tres: EValue is invalid_argument, EOob is out_of_range *)
Definition tres_of {A} (r : res A) : tres A :=
  match r with Ok a => TOk a | Err EValue => TErr TInvalid | Err EOob => TErr TOutOfRange | Err EFuel => TErr TRuntime end.

(* ---- Type has no purelist_depth & co in C++: the obvious recursion, strings are leaves *)
Fixpoint t_purelist_depth (t : rty) : Z :=
  match t with
  | RNum _ _ _ | RUnk _ _ | RRec _ _ _ _ => 1
  | RList p _ t' | RReg p _ _ t' => if is_string_params p then 1 else t_purelist_depth t' + 1
  | ROpt _ _ t' => t_purelist_depth t'
  | RUnion _ _ l =>
      match map t_purelist_depth l with
      | [] => -1
      | d0 :: rest => if forallb (Z.eqb d0) rest then d0 else -1
      end
  end.

Fixpoint t_minmax_depth (t : rty) : Z * Z :=
  match t with
  | RNum _ _ _ | RUnk _ _ => (1, 1)
  | RList p _ t' | RReg p _ _ t' =>
      if is_string_params p then (1, 1) else let mm := t_minmax_depth t' in (fst mm + 1, snd mm + 1)
  | ROpt _ _ t' => t_minmax_depth t'
  | RRec _ _ _ l | RUnion _ _ l => minmax_fold (map t_minmax_depth l)
  end.

Fixpoint t_branch_depth (t : rty) : bool * Z :=
  match t with
  | RNum _ _ _ | RUnk _ _ => (false, 1)
  | RList p _ t' | RReg p _ _ t' =>
      if is_string_params p then (false, 1) else let bd := t_branch_depth t' in (fst bd, snd bd + 1)
  | ROpt _ _ t' => t_branch_depth t'
  | RUnion _ _ l => branch_fold (map t_branch_depth l)
  | RRec _ _ _ l => match l with [] => (false, 1) | _ => branch_fold (map t_branch_depth l) end
  end.

(* regular = no variable-length list above the first record / leaf (parameters play no role, as in the Forms) *)
Fixpoint t_purelist_isregular (t : rty) : bool :=
  match t with
  | RNum _ _ _ | RUnk _ _ | RRec _ _ _ _ => true
  | RList _ _ _ => false
  | RReg _ _ _ t' | ROpt _ _ t' => t_purelist_isregular t'
  | RUnion _ _ l => forallb t_purelist_isregular l
  end.

(* ---- util::fieldindex / key / haskey / keys *)
Definition is_space (c : Z) : bool := (c =? 32) || ((9 <=? c) && (c <=? 13)).
Fixpoint skip_space (s : bytes) : bytes :=
  match s with c :: r => if is_space c then skip_space r else s | [] => [] end.
Inductive stoi_res := SInvalid | SRange | SVal (z : Z).
(* std::stoi(key): leading white space, an optional sign, then at least one digit; what follows is ignored;
   std::out_of_range when the number is not an int *)
Definition stoi (s : bytes) : stoi_res :=
  let s1 := skip_space s in
  let ns := match s1 with
            | 45 :: r => (true, r)
            | 43 :: r => (false, r)
            | _ => (false, s1)
            end in
  let ds := fst (span is_digit (snd ns)) in
  match ds with
  | [] => SInvalid
  | _ => let v := if fst ns then - Z_of_digits ds else Z_of_digits ds in
         if (-2147483648 <=? v) && (v <=? 2147483647) then SVal v else SRange
  end.

Fixpoint index_of (k : bytes) (l : list bytes) (i : Z) : option Z :=
  match l with
  | [] => None
  | x :: r => if bytes_eqb x k then Some i else index_of k r (i + 1)
  end.

Definition util_fieldindex (ks : option (list bytes)) (key : bytes) (n : Z) : res Z :=
  match (match ks with Some l => index_of key l 0 | None => None end) with
  | Some i => Ok i
  | None =>
      match stoi key with
      | SInvalid => Err EValue
      | SRange => Err EOob                       (* std::out_of_range is not caught *)
      | SVal out => if (0 <=? out) && (out <? n) then Ok out else Err EValue
      end
  end.

Definition util_key (ks : option (list bytes)) (i n : Z) : res bytes :=
  if n <=? i then Err EValue
  else match ks with
       | Some l => get l i                       (* recordlookup->at((size_t)i): out_of_range *)
       | None => Ok (dec_of_Z i)                 (* std::to_string(i), also for negative i *)
       end.

Definition util_haskey (ks : option (list bytes)) (key : bytes) (n : Z) : res bool :=
  match util_fieldindex ks key n with
  | Ok _ => Ok true
  | Err EValue => Ok false                       (* catch (std::invalid_argument) *)
  | Err e => Err e
  end.

Definition util_keys (ks : option (list bytes)) (n : nat) : list bytes :=
  match ks with Some l => l | None => tuple_keys n end.

(* ---- on types: RecordType answers with util::*, list / regular / option types ask their content,
   PrimitiveType / UnknownType throw invalid_argument except numfields = -1, UnionType throws runtime_error *)
Fixpoint t_keys (t : rty) : tres (list bytes) :=
  match t with
  | RNum _ _ _ | RUnk _ _ => TErr TInvalid
  | RList _ _ t' | RReg _ _ _ t' | ROpt _ _ t' => t_keys t'
  | RRec _ _ ks l => TOk (util_keys ks (length l))
  | RUnion _ _ _ => TErr TRuntime
  end.
Fixpoint t_numfields (t : rty) : tres Z :=
  match t with
  | RNum _ _ _ | RUnk _ _ => TOk (-1)
  | RList _ _ t' | RReg _ _ _ t' | ROpt _ _ t' => t_numfields t'
  | RRec _ _ _ l => TOk (zlen l)
  | RUnion _ _ _ => TErr TRuntime
  end.
Fixpoint t_fieldindex (t : rty) (key : bytes) : tres Z :=
  match t with
  | RNum _ _ _ | RUnk _ _ => TErr TInvalid
  | RList _ _ t' | RReg _ _ _ t' | ROpt _ _ t' => t_fieldindex t' key
  | RRec _ _ ks l => tres_of (util_fieldindex ks key (zlen l))
  | RUnion _ _ _ => TErr TRuntime
  end.
Fixpoint t_key (t : rty) (i : Z) : tres bytes :=
  match t with
  | RNum _ _ _ | RUnk _ _ => TErr TInvalid
  | RList _ _ t' | RReg _ _ _ t' | ROpt _ _ t' => t_key t' i
  | RRec _ _ ks l => tres_of (util_key ks i (zlen l))
  | RUnion _ _ _ => TErr TRuntime
  end.
Fixpoint t_haskey (t : rty) (key : bytes) : tres bool :=
  match t with
  | RNum _ _ _ | RUnk _ _ => TErr TInvalid
  | RList _ _ t' | RReg _ _ _ t' | ROpt _ _ t' => t_haskey t' key
  | RRec _ _ ks l => tres_of (util_haskey ks key (zlen l))
  | RUnion _ _ _ => TErr TRuntime
  end.

(* ---- on forms: NumpyForm / EmptyForm throw (haskey: false), UnionForm throws "breaks the one-to-one
   relationship" (haskey: membership in keys()), VirtualForm without a form throws *)
Fixpoint f_fieldindex (f : form) (key : bytes) : res Z :=
  match f with
  | FNumpy _ _ _ _ _ | FEmpty _ | FUnion _ _ _ _ => Err EValue
  | FListOffset _ _ c | FList _ _ _ c | FRegular _ c _ | FIndexed _ _ c | FIndexedOption _ _ c
  | FByteMasked _ _ c _ | FBitMasked _ _ c _ _ | FUnmasked _ c => f_fieldindex c key
  | FRecord _ ks cs => util_fieldindex ks key (zlen cs)
  | FVirtual _ None _ => Err EValue
  | FVirtual _ (Some g) _ => f_fieldindex g key
  end.
Fixpoint f_key (f : form) (i : Z) : res bytes :=
  match f with
  | FNumpy _ _ _ _ _ | FEmpty _ | FUnion _ _ _ _ => Err EValue
  | FListOffset _ _ c | FList _ _ _ c | FRegular _ c _ | FIndexed _ _ c | FIndexedOption _ _ c
  | FByteMasked _ _ c _ | FBitMasked _ _ c _ _ | FUnmasked _ c => f_key c i
  | FRecord _ ks cs => util_key ks i (zlen cs)
  | FVirtual _ None _ => Err EValue
  | FVirtual _ (Some g) _ => f_key g i
  end.
Fixpoint f_haskey (f : form) (key : bytes) : res bool :=
  match f with
  | FNumpy _ _ _ _ _ | FEmpty _ => Ok false
  | FListOffset _ _ c | FList _ _ _ c | FRegular _ c _ | FIndexed _ _ c | FIndexedOption _ _ c
  | FByteMasked _ _ c _ | FBitMasked _ _ c _ _ | FUnmasked _ c => f_haskey c key
  | FUnion _ _ _ cs => do l <- mapM_id (map f_keys cs); Ok (existsb (bytes_eqb key) (keys_intersect l))
  | FRecord _ ks cs => util_haskey ks key (zlen cs)
  | FVirtual _ None _ => Err EValue
  | FVirtual _ (Some g) _ => f_haskey g key
  end.

(* ---- on layouts (the overrides in the Content subclasses) *)
Fixpoint c_fieldindex (c : content) (key : bytes) : res Z :=
  match c with
  | Numpy _ _ _ | Empty | Union _ _ _ _ => Err EValue
  | ListOffset _ _ c' | ListA _ _ _ c' | Regular c' _ _ | Indexed _ _ c' | IndexedOption _ _ c'
  | ByteMasked _ _ c' | BitMasked _ _ _ _ c' | Unmasked c' | Par _ _ c' => c_fieldindex c' key
  | Record cs ks _ => util_fieldindex ks key (zlen cs)
  end.
Fixpoint c_key (c : content) (i : Z) : res bytes :=
  match c with
  | Numpy _ _ _ | Empty | Union _ _ _ _ => Err EValue
  | ListOffset _ _ c' | ListA _ _ _ c' | Regular c' _ _ | Indexed _ _ c' | IndexedOption _ _ c'
  | ByteMasked _ _ c' | BitMasked _ _ _ _ c' | Unmasked c' | Par _ _ c' => c_key c' i
  | Record cs ks _ => util_key ks i (zlen cs)
  end.
Fixpoint c_haskey (c : content) (key : bytes) : res bool :=
  match c with
  | Numpy _ _ _ | Empty => Ok false
  | ListOffset _ _ c' | ListA _ _ _ c' | Regular c' _ _ | Indexed _ _ c' | IndexedOption _ _ c'
  | ByteMasked _ _ c' | BitMasked _ _ _ _ c' | Unmasked c' | Par _ _ c' => c_haskey c' key
  | Union _ _ _ cs => Ok (existsb (bytes_eqb key) (keys_intersect (map c_keys cs)))
  | Record cs ks _ => util_haskey ks key (zlen cs)
  end.

(* ================================================================== lemmas *)
Lemma bytes_ltb_antisym (a : bytes) : forall b', bytes_ltb a b' = false -> bytes_ltb b' a = false -> a = b'.
Proof.
  induction a as [|x a IH]; intros [|y b']; simpl; try discriminate; auto.
  destruct (x <? y) eqn:E1; [discriminate|]. destruct (y <? x) eqn:E2; [discriminate|].
  intros H1 H2. apply Z.ltb_ge in E1, E2. assert (x = y) by lia. subst. f_equal. auto.
Qed.

Lemma pfind_pset_other {V} (a k : bytes) (v : V) (p : list (bytes * V)) :
  bytes_eqb k a = false -> pfind a (pset k v p) = pfind a p.
Proof.
  intros Hk. induction p as [|[k' v'] p IH]; cbn [pset pfind].
  - rewrite Hk. reflexivity.
  - destruct (bytes_ltb k k') eqn:E1.
    + cbn [pfind]. rewrite Hk. reflexivity.
    + destruct (bytes_ltb k' k) eqn:E2.
      * cbn [pfind]. rewrite IH. reflexivity.
      * pose proof (bytes_ltb_antisym k k' E1 E2). subst k'. cbn [pfind]. rewrite Hk. reflexivity.
Qed.

Lemma pfind_perase_other {V} (a k : bytes) (p : list (bytes * V)) :
  bytes_eqb k a = false -> pfind a (perase k p) = pfind a p.
Proof.
  intros Hk. induction p as [|[k' v'] p IH]; cbn [perase pfind]; [reflexivity|].
  destruct (bytes_eqb k' k) eqn:E.
  - apply bytes_eqb_eq in E. subst k'. rewrite Hk. reflexivity.
  - cbn [pfind]. rewrite IH. reflexivity.
Qed.

Lemma pfind_setparameter_other (a k : bytes) v (p : params) :
  bytes_eqb k a = false -> pfind a (setparameter k v p) = pfind a p.
Proof. intros H. unfold setparameter. destruct v; auto using pfind_pset_other, pfind_perase_other. Qed.

Lemma pfind_merge_array (mine : params) : forall op : params,
  pfind k_array (fold_left (fun acc kv => if bytes_eqb (fst kv) k_array then acc
                                          else setparameter (fst kv) (snd kv) acc) mine op) = pfind k_array op.
Proof.
  induction mine as [|[k v] mine IH]; intros op; cbn [fold_left fst snd]; [reflexivity|].
  rewrite IH. destruct (bytes_eqb k k_array) eqn:E; [reflexivity|]. apply pfind_setparameter_other, E.
Qed.

Lemma bytes_ltb_irrefl (a : bytes) : bytes_ltb a a = false.
Proof. induction a as [|x a IH]; simpl; [reflexivity|]. rewrite Z.ltb_irrefl. exact IH. Qed.

Lemma bytes_ltb_trans (a : bytes) : forall b' c, bytes_ltb a b' = true -> bytes_ltb b' c = true -> bytes_ltb a c = true.
Proof.
  induction a as [|x a IH]; intros [|y b'] [|z c]; simpl; try discriminate; auto.
  destruct (Z.ltb_spec x y), (Z.ltb_spec y x), (Z.ltb_spec y z), (Z.ltb_spec z y), (Z.ltb_spec x z), (Z.ltb_spec z x);
    intros A1 A2; try discriminate; try reflexivity; try lia; eauto.
Qed.

Lemma psorted_tail {V} (kv : bytes * V) p : psorted (kv :: p) = true -> psorted p = true.
Proof. destruct kv as [k v]. destruct p as [|[k' v'] r]; [reflexivity|]. cbn [psorted]. intros H. apply andb_true_iff in H as [_ H]. exact H. Qed.

Lemma psorted_gt {V} (p : list (bytes * V)) : forall k v, psorted ((k, v) :: p) = true ->
  forall k' v', In (k', v') p -> bytes_ltb k k' = true.
Proof.
  induction p as [|[k1 v1] p IH]; intros k v Hs k' v' Hin; [contradiction|].
  cbn [psorted] in Hs. apply andb_true_iff in Hs as [H1 H2]. destruct Hin as [Heq|Hin].
  - inversion Heq; subst. exact H1.
  - apply (bytes_ltb_trans k k1 k' H1). exact (IH k1 v1 H2 k' v' Hin).
Qed.

Lemma pfind_none_gt {V} (k : bytes) (p : list (bytes * V)) :
  (forall k' v', In (k', v') p -> bytes_ltb k k' = true) -> pfind k p = None.
Proof.
  induction p as [|[k1 v1] p IH]; intros H; [reflexivity|]. cbn [pfind].
  destruct (bytes_eqb k1 k) eqn:E.
  - apply bytes_eqb_eq in E. subst k1. specialize (H k v1 (or_introl eq_refl)). rewrite bytes_ltb_irrefl in H. discriminate.
  - apply IH. intros k' v' Hin. apply (H k' v'). right. exact Hin.
Qed.

Lemma pfind_perase_self {V} (k : bytes) (p : list (bytes * V)) : psorted p = true -> pfind k (perase k p) = None.
Proof.
  induction p as [|[k1 v1] p IH]; intros Hs; [reflexivity|]. cbn [perase].
  destruct (bytes_eqb k1 k) eqn:E.
  - apply bytes_eqb_eq in E. subst k1. apply pfind_none_gt. exact (psorted_gt p k v1 Hs).
  - cbn [pfind]. rewrite E. apply IH. exact (psorted_tail _ _ Hs).
Qed.

Lemma is_string_params_pfind (p q : params) : pfind k_array p = pfind k_array q -> is_string_params p = is_string_params q.
Proof. intros H. unfold is_string_params, param_is_str. rewrite H. reflexivity. Qed.

Lemma rty_set_params_id t : rty_set_params (rty_params t) t = t.
Proof. destruct t; reflexivity. Qed.

(* the fragment for the depth queries: the __array__ parameter of an IndexedForm node (which Form::type hands to
   the type of its content) is not "string" / "bytestring" (they would turn the content's list type into a
   string, a leaf); if it is "categorical" (which Form::type erases) the parameters are a std::map (sorted keys) *)
Definition idx_node_ok (m : fmeta) : bool :=
  negb (is_string_params (m_params m)) &&
  (negb (param_is_str (m_params m) k_array s_categorical) || psorted (m_params m)).

Fixpoint idx_ok (f : form) : bool :=
  match f with
  | FNumpy _ _ _ _ _ | FEmpty _ | FVirtual _ None _ => true
  | FIndexed m _ c => idx_node_ok m && idx_ok c
  | FListOffset _ _ c | FList _ _ _ c | FRegular _ c _ | FIndexedOption _ _ c
  | FByteMasked _ _ c _ | FBitMasked _ _ c _ _ | FUnmasked _ c => idx_ok c
  | FUnion _ _ _ cs | FRecord _ _ cs => forallb idx_ok cs
  | FVirtual _ (Some g) _ => idx_ok g
  end.

(* the type of an IndexedForm is the type of its content with other parameters *)
Lemma indexed_type_shape ts m i c t :
  type_of_form ts (FIndexed m i c) = Ok t ->
  exists out p', type_of_form ts c = Ok out /\ t = rty_set_params p' out /\
                 (idx_node_ok m = true -> is_string_params p' = is_string_params (rty_params out)).
Proof.
  intros H. destruct (type_of_form ts c) as [out|e] eqn:Ec; [|cbn [type_of_form] in H; rewrite Ec in H; discriminate].
  rewrite (type_of_form_indexed ts m i c out Ec) in H. exists out.
  destruct (m_params m) as [|kv mine] eqn:Em.
  - exists (rty_params out). assert (out = t) by (revert H; destruct (rty_params out); intros H; congruence). subst t.
    split; [reflexivity|]. split; [symmetry; apply rty_set_params_id|reflexivity].
  - assert (Hstr : idx_node_ok m = true -> is_string_params (kv :: mine) = false).
    { rewrite <- Em. unfold idx_node_ok. intros Hn. apply andb_true_iff in Hn as [Hn _]. apply negb_true_iff in Hn. exact Hn. }
    assert (Hsort : idx_node_ok m = true -> param_is_str (kv :: mine) k_array s_categorical = true -> psorted (kv :: mine) = true).
    { rewrite <- Em. unfold idx_node_ok. intros Hn Hc. apply andb_true_iff in Hn as [_ Hn]. rewrite Hc in Hn. exact Hn. }
    assert (Hk : forall v (q : params), pfind k_array (pset k_categorical v q) = pfind k_array q).
    { intros v q. apply pfind_pset_other. reflexivity. }
    revert H. destruct (rty_params out) as [|kv' op] eqn:Eo; cbv iota; intros H; inversion H; subst; clear H.
    + eexists. split; [reflexivity|]. split; [reflexivity|].
      intros Hn. unfold categorical_fix. destruct (param_is_str (kv :: mine) k_array s_categorical) eqn:Ecat.
      * transitivity (is_string_params (@nil (bytes * json))); [|reflexivity]. apply is_string_params_pfind.
        rewrite Hk. apply pfind_perase_self. exact (Hsort Hn eq_refl).
      * rewrite (Hstr Hn). reflexivity.
    + eexists. split; [reflexivity|]. split; [reflexivity|].
      intros Hn. apply is_string_params_pfind. unfold categorical_fix.
      destruct (param_is_str (kv :: mine) k_array s_categorical); rewrite ?Hk;
        exact (pfind_merge_array (kv :: mine) (kv' :: op)).
Qed.

Lemma mapM_id_ok {A} (l : list A) : mapM_id (map Ok l) = Ok l.
Proof. induction l; simpl; [reflexivity|]. rewrite IHl. reflexivity. Qed.

Lemma mapM_id_inv {A} (l : list (res A)) ys : mapM_id l = Ok ys -> l = map Ok ys.
Proof.
  revert ys. induction l as [|[x|e] l IH]; intros ys H; simpl in H.
  - inversion H. reflexivity.
  - destruct (mapM_id l) as [zs|e]; simpl in H; [|discriminate]. inversion H; subst. simpl. f_equal. auto.
  - discriminate.
Qed.

(* transport a per-content agreement through the contents of a union / record *)
Lemma map_query_types {B} ts (P : form -> Prop) (fq : form -> res B) (tq : rty -> B) cs : forall l,
  mapM_id (map (type_of_form ts) cs) = Ok l ->
  Forall (fun f => P f -> forall t, type_of_form ts f = Ok t -> fq f = Ok (tq t)) cs ->
  Forall P cs ->
  map fq cs = map Ok (map tq l).
Proof.
  induction cs as [|c cs IH]; intros l Hl HF HP; simpl in Hl.
  - inversion Hl. reflexivity.
  - destruct (type_of_form ts c) as [t|e] eqn:Et; simpl in Hl; [|discriminate].
    destruct (mapM_id (map (type_of_form ts) cs)) as [l'|e] eqn:El; simpl in Hl; [|discriminate].
    inversion Hl; subst. inversion HF; subst. inversion HP; subst. simpl. f_equal; auto.
Qed.

Lemma forallb_Forall' {A} (p : A -> bool) l : forallb p l = true -> Forall (fun x => p x = true) l.
Proof. intros H. apply Forall_forall. intros x Hx. rewrite forallb_forall in H. auto. Qed.

Lemma zlen_cons {A} (x : A) l : zlen (x :: l) = zlen l + 1.
Proof. unfold zlen. simpl length. lia. Qed.

Lemma is_string_nil : is_string_params [] = false.
Proof. reflexivity. Qed.

(* ================================================================== 1. Form = Type: depth queries *)
Lemma t_purelist_depth_set p t : is_string_params p = is_string_params (rty_params t) ->
  t_purelist_depth (rty_set_params p t) = t_purelist_depth t.
Proof. destruct t; simpl; intros H; try reflexivity; rewrite H; reflexivity. Qed.
Lemma t_minmax_depth_set p t : is_string_params p = is_string_params (rty_params t) ->
  t_minmax_depth (rty_set_params p t) = t_minmax_depth t.
Proof. destruct t; simpl; intros H; try reflexivity; rewrite H; reflexivity. Qed.
Lemma t_branch_depth_set p t : is_string_params p = is_string_params (rty_params t) ->
  t_branch_depth (rty_set_params p t) = t_branch_depth t.
Proof. destruct t; simpl; intros H; try reflexivity; rewrite H; reflexivity. Qed.
Lemma t_purelist_isregular_set p t : t_purelist_isregular (rty_set_params p t) = t_purelist_isregular t.
Proof. destruct t; reflexivity. Qed.

Lemma numpy_type_depths s p dt inner :
  let t := fold_right (fun d t => RReg [] s d t) (RNum p s dt) inner in
  t_purelist_depth t = zlen inner + 1 /\ t_minmax_depth t = (zlen inner + 1, zlen inner + 1) /\
  t_branch_depth t = (false, zlen inner + 1) /\ t_purelist_isregular t = true.
Proof.
  induction inner as [|d inner IH]; cbn zeta in *.
  - repeat split.
  - destruct IH as (H1 & H2 & H3 & H4). cbn [fold_right t_purelist_depth t_minmax_depth t_branch_depth t_purelist_isregular].
    rewrite is_string_nil, H1, H2, H3, H4, zlen_cons. cbn [fst snd]. repeat split.
Qed.

Ltac bind_type H ts c t Et :=
  cbn [type_of_form] in H; destruct (type_of_form ts c) as [t|?] eqn:Et; cbn [bind] in H; [|discriminate];
  inversion H; subst; clear H.

Ltac depth_list_case IH t' Et :=
  match goal with |- context [is_string_params ?p] => destruct (is_string_params p); [reflexivity|] end;
  rewrite (IH _ eq_refl); reflexivity.

Theorem purelist_depth_form_type ts f : idx_ok f = true -> forall t,
  type_of_form ts f = Ok t -> f_purelist_depth f = Ok (t_purelist_depth t).
Proof.
  induction f as [m inner isz fmt dt|m|m o c IH|m s e c IH|m c size IH|m i c IH|m i c IH|m k c vw IH|m k c vw lsb IH
                 |m c IH|m tg i cs IH|m ks cs IH|m hl|m g hl IH] using form_ind'; intros Hok t H; cbn [idx_ok] in Hok.
  - cbn [type_of_form] in H. destruct dt; try discriminate; inversion H; subst;
      cbn [f_purelist_depth]; f_equal; symmetry; apply numpy_type_depths.
  - inversion H. reflexivity.
  - bind_type H ts c t' Et. cbn [f_purelist_depth t_purelist_depth]. destruct (is_string_params (m_params m)); [reflexivity|].
    rewrite (IH Hok _ eq_refl). reflexivity.
  - bind_type H ts c t' Et. cbn [f_purelist_depth t_purelist_depth]. destruct (is_string_params (m_params m)); [reflexivity|].
    rewrite (IH Hok _ eq_refl). reflexivity.
  - bind_type H ts c t' Et. cbn [f_purelist_depth t_purelist_depth]. destruct (is_string_params (m_params m)); [reflexivity|].
    rewrite (IH Hok _ eq_refl). reflexivity.
  - apply andb_true_iff in Hok as [Hn Hok].
    destruct (indexed_type_shape ts m i c t H) as (out & p' & Ho & -> & Hs).
    cbn [f_purelist_depth]. rewrite t_purelist_depth_set by auto. auto.
  - bind_type H ts c t' Et. cbn [f_purelist_depth t_purelist_depth]. auto.
  - bind_type H ts c t' Et. cbn [f_purelist_depth t_purelist_depth]. auto.
  - bind_type H ts c t' Et. cbn [f_purelist_depth t_purelist_depth]. auto.
  - bind_type H ts c t' Et. cbn [f_purelist_depth t_purelist_depth]. auto.
  - cbn [type_of_form] in H. destruct (mapM_id (map (type_of_form ts) cs)) as [l|?] eqn:El; cbn [bind] in H; [|discriminate].
    inversion H; subst; clear H. cbn [f_purelist_depth t_purelist_depth].
    rewrite (map_query_types ts (fun f => idx_ok f = true) f_purelist_depth t_purelist_depth cs l El IH (forallb_Forall' _ _ Hok)).
    destruct (map t_purelist_depth l) as [|d0 rest]; [reflexivity|]. cbn [map bind]. apply depth_scan_ok.
  - cbn [type_of_form] in H. destruct (mapM_id (map (type_of_form ts) cs)) as [l|?] eqn:El; cbn [bind] in H; [|discriminate].
    inversion H; subst; clear H. reflexivity.
  - discriminate.
  - cbn [type_of_form] in H. cbn [f_purelist_depth]. auto.
Qed.

Ltac union_types H ts cs l El :=
  cbn [type_of_form] in H; destruct (mapM_id (map (type_of_form ts) cs)) as [l|?] eqn:El; cbn [bind] in H; [|discriminate];
  inversion H; subst; clear H.

Theorem minmax_depth_form_type ts f : idx_ok f = true -> forall t,
  type_of_form ts f = Ok t -> f_minmax_depth f = Ok (t_minmax_depth t).
Proof.
  induction f as [m inner isz fmt dt|m|m o c IH|m s e c IH|m c size IH|m i c IH|m i c IH|m k c vw IH|m k c vw lsb IH
                 |m c IH|m tg i cs IH|m ks cs IH|m hl|m g hl IH] using form_ind'; intros Hok t H; cbn [idx_ok] in Hok.
  - cbn [type_of_form] in H. destruct dt; try discriminate; inversion H; subst;
      cbn [f_minmax_depth]; f_equal; symmetry; apply numpy_type_depths.
  - inversion H. reflexivity.
  - bind_type H ts c t' Et. cbn [f_minmax_depth t_minmax_depth]. destruct (is_string_params (m_params m)); [reflexivity|].
    rewrite (IH Hok _ eq_refl). reflexivity.
  - bind_type H ts c t' Et. cbn [f_minmax_depth t_minmax_depth]. destruct (is_string_params (m_params m)); [reflexivity|].
    rewrite (IH Hok _ eq_refl). reflexivity.
  - bind_type H ts c t' Et. cbn [f_minmax_depth t_minmax_depth]. destruct (is_string_params (m_params m)); [reflexivity|].
    rewrite (IH Hok _ eq_refl). reflexivity.
  - apply andb_true_iff in Hok as [Hn Hok].
    destruct (indexed_type_shape ts m i c t H) as (out & p' & Ho & -> & Hs).
    cbn [f_minmax_depth]. rewrite t_minmax_depth_set by auto. auto.
  - bind_type H ts c t' Et. cbn [f_minmax_depth t_minmax_depth]. auto.
  - bind_type H ts c t' Et. cbn [f_minmax_depth t_minmax_depth]. auto.
  - bind_type H ts c t' Et. cbn [f_minmax_depth t_minmax_depth]. auto.
  - bind_type H ts c t' Et. cbn [f_minmax_depth t_minmax_depth]. auto.
  - union_types H ts cs l El. cbn [f_minmax_depth t_minmax_depth].
    rewrite (map_query_types ts (fun f => idx_ok f = true) f_minmax_depth t_minmax_depth cs l El IH (forallb_Forall' _ _ Hok)).
    rewrite mapM_id_ok. reflexivity.
  - union_types H ts cs l El. cbn [f_minmax_depth t_minmax_depth].
    rewrite (map_query_types ts (fun f => idx_ok f = true) f_minmax_depth t_minmax_depth cs l El IH (forallb_Forall' _ _ Hok)).
    rewrite mapM_id_ok. reflexivity.
  - discriminate.
  - cbn [type_of_form] in H. cbn [f_minmax_depth]. auto.
Qed.

Lemma mapM_id_types_length ts cs l : mapM_id (map (type_of_form ts) cs) = Ok l -> length l = length cs.
Proof.
  intros H. apply mapM_id_inv in H. apply (f_equal (@length _)) in H. rewrite !map_length in H. auto.
Qed.

Theorem branch_depth_form_type ts f : idx_ok f = true -> forall t,
  type_of_form ts f = Ok t -> f_branch_depth f = Ok (t_branch_depth t).
Proof.
  induction f as [m inner isz fmt dt|m|m o c IH|m s e c IH|m c size IH|m i c IH|m i c IH|m k c vw IH|m k c vw lsb IH
                 |m c IH|m tg i cs IH|m ks cs IH|m hl|m g hl IH] using form_ind'; intros Hok t H; cbn [idx_ok] in Hok.
  - cbn [type_of_form] in H. destruct dt; try discriminate; inversion H; subst;
      cbn [f_branch_depth]; f_equal; symmetry; apply numpy_type_depths.
  - inversion H. reflexivity.
  - bind_type H ts c t' Et. cbn [f_branch_depth t_branch_depth]. destruct (is_string_params (m_params m)); [reflexivity|].
    rewrite (IH Hok _ eq_refl). reflexivity.
  - bind_type H ts c t' Et. cbn [f_branch_depth t_branch_depth]. destruct (is_string_params (m_params m)); [reflexivity|].
    rewrite (IH Hok _ eq_refl). reflexivity.
  - bind_type H ts c t' Et. cbn [f_branch_depth t_branch_depth]. destruct (is_string_params (m_params m)); [reflexivity|].
    rewrite (IH Hok _ eq_refl). reflexivity.
  - apply andb_true_iff in Hok as [Hn Hok].
    destruct (indexed_type_shape ts m i c t H) as (out & p' & Ho & -> & Hs).
    cbn [f_branch_depth]. rewrite t_branch_depth_set by auto. auto.
  - bind_type H ts c t' Et. cbn [f_branch_depth t_branch_depth]. auto.
  - bind_type H ts c t' Et. cbn [f_branch_depth t_branch_depth]. auto.
  - bind_type H ts c t' Et. cbn [f_branch_depth t_branch_depth]. auto.
  - bind_type H ts c t' Et. cbn [f_branch_depth t_branch_depth]. auto.
  - union_types H ts cs l El. cbn [f_branch_depth t_branch_depth].
    rewrite (map_query_types ts (fun f => idx_ok f = true) f_branch_depth t_branch_depth cs l El IH (forallb_Forall' _ _ Hok)).
    rewrite mapM_id_ok. reflexivity.
  - union_types H ts cs l El. cbn [f_branch_depth t_branch_depth].
    pose proof (mapM_id_types_length ts cs l El) as Hlen.
    pose proof (map_query_types ts (fun f => idx_ok f = true) f_branch_depth t_branch_depth cs l El IH (forallb_Forall' _ _ Hok)) as Hm.
    destruct cs as [|c0 cs']; destruct l as [|t0 l']; try discriminate; [reflexivity|].
    rewrite Hm, mapM_id_ok. reflexivity.
  - discriminate.
  - cbn [type_of_form] in H. cbn [f_branch_depth]. auto.
Qed.

(* regularity: no fragment needed (parameters play no role) *)
Theorem purelist_isregular_form_type ts f : forall t,
  type_of_form ts f = Ok t -> f_purelist_isregular f = Ok (t_purelist_isregular t).
Proof.
  induction f as [m inner isz fmt dt|m|m o c IH|m s e c IH|m c size IH|m i c IH|m i c IH|m k c vw IH|m k c vw lsb IH
                 |m c IH|m tg i cs IH|m ks cs IH|m hl|m g hl IH] using form_ind'; intros t H.
  - cbn [type_of_form] in H. destruct dt; try discriminate; inversion H; subst;
      cbn [f_purelist_isregular]; f_equal; symmetry; apply numpy_type_depths.
  - inversion H. reflexivity.
  - bind_type H ts c t' Et. reflexivity.
  - bind_type H ts c t' Et. reflexivity.
  - bind_type H ts c t' Et. cbn [f_purelist_isregular t_purelist_isregular]. auto.
  - destruct (indexed_type_shape ts m i c t H) as (out & p' & Ho & -> & Hs).
    cbn [f_purelist_isregular]. rewrite t_purelist_isregular_set. auto.
  - bind_type H ts c t' Et. cbn [f_purelist_isregular t_purelist_isregular]. auto.
  - bind_type H ts c t' Et. cbn [f_purelist_isregular t_purelist_isregular]. auto.
  - bind_type H ts c t' Et. cbn [f_purelist_isregular t_purelist_isregular]. auto.
  - bind_type H ts c t' Et. cbn [f_purelist_isregular t_purelist_isregular]. auto.
  - union_types H ts cs l El. cbn [f_purelist_isregular t_purelist_isregular].
    rewrite (map_query_types ts (fun _ => True) f_purelist_isregular t_purelist_isregular cs l El).
    + rewrite all_regular_ok. f_equal. clear. induction l; simpl; [reflexivity|]. rewrite IHl. reflexivity.
    + eapply Forall_impl; [|exact IH]. intros x Hx _. exact Hx.
    + apply Forall_forall. auto.
  - union_types H ts cs l El. reflexivity.
  - discriminate.
  - cbn [type_of_form] in H. cbn [f_purelist_isregular]. auto.
Qed.

(* ---- sample forms *)
Definition p_str : params := [(k_array, JStr s_string)].
Definition f_i64 : form := FNumpy meta0 [] 8 [108] (FD DInt64).
Definition f_i64_23 : form := FNumpy meta0 [2; 3] 8 [108] (FD DInt64).
Definition f_rec : form := FRecord meta0 (Some [[120]; [121]]) [FListOffset meta0 Fi64 f_i64; f_i64_23].
Definition f_rec2 : form := FRecord meta0 (Some [[121]; [122]]) [f_i64; FEmpty meta0].
(* var * option[union[2 * {x: var * int64, y: 2 * 3 * int64}, {y: int64, z: unknown}]] (second alternative virtual) *)
Definition f_big : form :=
  FListOffset meta0 Fi64
    (FIndexedOption meta0 Fi64
       (FUnion meta0 Fi8 Fi64 [FRegular meta0 f_rec 2; FVirtual meta0 (Some f_rec2) true])).
(* var * option[categorical-free indexed[2 * {x: var * int64, y: 2 * 3 * int64}]] : union-free, reaches a record *)
Definition f_big_rec : form :=
  FListOffset meta0 Fi64 (FIndexedOption meta0 Fi64
    (FIndexed (mkmeta false [(k_record, JStr [80])] None) Fi64 (FRegular meta0 (FVirtual meta0 (Some f_rec) false) 2))).

(* ---- the fragment is needed: an IndexedForm whose __array__ = "string" sits on a plain list *)
Definition f_idx_str : form := FIndexed (mkmeta false p_str None) Fi64 (FListOffset meta0 Fi64 f_i64).
Example purelist_depth_form_type_refuted :
  exists t, type_of_form [] f_idx_str = Ok t /\
            f_purelist_depth f_idx_str = Ok 2 /\ t_purelist_depth t = 1 /\
            f_minmax_depth f_idx_str = Ok (2, 2) /\ t_minmax_depth t = (1, 1) /\
            f_branch_depth f_idx_str = Ok (false, 2) /\ t_branch_depth t = (false, 1) /\
            erase t = TList None (Some true) (TNum DInt64).
Proof. eexists. repeat split. Qed.

(* ================================================================== 2. Form = Type: field queries *)
Lemma tres_of_ok {A} (r : res A) x : tres_of r = TOk x -> r = Ok x.
Proof. destruct r as [a|[]]; simpl; congruence. Qed.

Lemma t_fields_set p t :
  t_keys (rty_set_params p t) = t_keys t /\ t_numfields (rty_set_params p t) = t_numfields t /\
  (forall k, t_fieldindex (rty_set_params p t) k = t_fieldindex t k) /\
  (forall i, t_key (rty_set_params p t) i = t_key t i) /\
  (forall k, t_haskey (rty_set_params p t) k = t_haskey t k).
Proof. destruct t; repeat split. Qed.

Lemma numpy_type_fields s p dt inner :
  let t := fold_right (fun d t => RReg [] s d t) (RNum p s dt) inner in
  t_keys t = TErr TInvalid /\ t_numfields t = TOk (-1) /\ (forall k, t_fieldindex t k = TErr TInvalid) /\
  (forall i, t_key t i = TErr TInvalid) /\ (forall k, t_haskey t k = TErr TInvalid).
Proof. induction inner as [|d inner IH]; cbn zeta in *; [repeat split|exact IH]. Qed.

Definition fields_imp (f : form) (t : rty) : Prop :=
  (forall ks, t_keys t = TOk ks -> f_keys f = Ok ks) /\
  (forall n, t_numfields t = TOk n -> f_numfields f = Ok n) /\
  (forall k i, t_fieldindex t k = TOk i -> f_fieldindex f k = Ok i) /\
  (forall i k, t_key t i = TOk k -> f_key f i = Ok k) /\
  (forall k b0, t_haskey t k = TOk b0 -> f_haskey f k = Ok b0).

(* whatever the Type answers, the Form answers the same (all form classes, any parameters) *)
Theorem field_queries_form_type ts f : forall t, type_of_form ts f = Ok t -> fields_imp f t.
Proof.
  induction f as [m inner isz fmt dt|m|m o c IH|m s e c IH|m c size IH|m i c IH|m i c IH|m k c vw IH|m k c vw lsb IH
                 |m c IH|m tg i cs IH|m ks cs IH|m hl|m g hl IH] using form_ind'; intros t H.
  - assert (Ht : exists p s, t = fold_right (fun d t => RReg [] s d t) (RNum p s dt) inner).
    { cbn [type_of_form] in H. destruct dt; try discriminate; inversion H; eauto. }
    destruct Ht as (p & s & ->). destruct (numpy_type_fields s p dt inner) as (H1 & H2 & H3 & H4 & H5).
    unfold fields_imp. rewrite H1, H2. repeat split; intros; try rewrite ?H3, ?H4, ?H5 in *; try discriminate.
    cbn [f_numfields]. congruence.
  - inversion H. unfold fields_imp. cbn. repeat split; intros; congruence.
  - bind_type H ts c t' Et. exact (IH _ eq_refl).
  - bind_type H ts c t' Et. exact (IH _ eq_refl).
  - bind_type H ts c t' Et. exact (IH _ eq_refl).
  - destruct (indexed_type_shape ts m i c t H) as (out & p' & Ho & -> & _).
    destruct (t_fields_set p' out) as (H1 & H2 & H3 & H4 & H5). specialize (IH _ Ho).
    unfold fields_imp in *. rewrite H1, H2. setoid_rewrite H3. setoid_rewrite H4. setoid_rewrite H5. exact IH.
  - bind_type H ts c t' Et. exact (IH _ eq_refl).
  - bind_type H ts c t' Et. exact (IH _ eq_refl).
  - bind_type H ts c t' Et. exact (IH _ eq_refl).
  - bind_type H ts c t' Et. exact (IH _ eq_refl).
  - union_types H ts cs l El. unfold fields_imp. cbn. repeat split; intros; discriminate.
  - union_types H ts cs l El. pose proof (mapM_id_types_length ts cs l El) as Hlen.
    assert (Hz : zlen l = zlen cs) by (unfold zlen; rewrite Hlen; reflexivity).
    unfold fields_imp. cbn [t_keys t_numfields t_fieldindex t_key t_haskey f_keys f_numfields f_fieldindex f_key f_haskey].
    rewrite Hz, Hlen. repeat split; intros; try (apply tres_of_ok; assumption).
    + destruct ks; unfold util_keys in *; congruence.
  - discriminate.
  - cbn [type_of_form] in H. exact (IH _ H).
Qed.

(* the form reaches a record through list / option / indexed / virtual nodes only *)
Fixpoint f_record_path (f : form) : bool :=
  match f with
  | FRecord _ _ _ => true
  | FListOffset _ _ c | FList _ _ _ c | FRegular _ c _ | FIndexed _ _ c | FIndexedOption _ _ c
  | FByteMasked _ _ c _ | FBitMasked _ _ c _ _ | FUnmasked _ c => f_record_path c
  | FVirtual _ (Some g) _ => f_record_path g
  | _ => false
  end.

Definition fields_eq (f : form) (t : rty) : Prop :=
  t_keys t = tres_of (f_keys f) /\ t_numfields t = tres_of (f_numfields f) /\
  (forall k, t_fieldindex t k = tres_of (f_fieldindex f k)) /\
  (forall i, t_key t i = tres_of (f_key f i)) /\
  (forall k, t_haskey t k = tres_of (f_haskey f k)).

(* on such a form, Type and Form agree on answers AND on the exception raised *)
Theorem field_queries_form_type_exact ts f : forall t,
  type_of_form ts f = Ok t -> f_record_path f = true -> fields_eq f t.
Proof.
  induction f as [m inner isz fmt dt|m|m o c IH|m s e c IH|m c size IH|m i c IH|m i c IH|m k c vw IH|m k c vw lsb IH
                 |m c IH|m tg i cs IH|m ks cs IH|m hl|m g hl IH] using form_ind'; intros t H Hp; cbn [f_record_path] in Hp;
    try discriminate.
  - bind_type H ts c t' Et. exact (IH _ eq_refl Hp).
  - bind_type H ts c t' Et. exact (IH _ eq_refl Hp).
  - bind_type H ts c t' Et. exact (IH _ eq_refl Hp).
  - destruct (indexed_type_shape ts m i c t H) as (out & p' & Ho & -> & _).
    destruct (t_fields_set p' out) as (H1 & H2 & H3 & H4 & H5). specialize (IH _ Ho Hp).
    unfold fields_eq in *. rewrite H1, H2. setoid_rewrite H3. setoid_rewrite H4. setoid_rewrite H5. exact IH.
  - bind_type H ts c t' Et. exact (IH _ eq_refl Hp).
  - bind_type H ts c t' Et. exact (IH _ eq_refl Hp).
  - bind_type H ts c t' Et. exact (IH _ eq_refl Hp).
  - bind_type H ts c t' Et. exact (IH _ eq_refl Hp).
  - union_types H ts cs l El. pose proof (mapM_id_types_length ts cs l El) as Hlen.
    assert (Hz : zlen l = zlen cs) by (unfold zlen; rewrite Hlen; reflexivity).
    unfold fields_eq. cbn [t_keys t_numfields t_fieldindex t_key t_haskey f_keys f_numfields f_fieldindex f_key f_haskey].
    rewrite Hz, Hlen. repeat split. destruct ks; reflexivity.
  - cbn [type_of_form] in H. exact (IH _ H Hp).
Qed.

(* off that fragment Type and Form differ: a leaf (NumpyForm::keys = {}, haskey = false; PrimitiveType throws
   "type contains no Records") and a union (UnionForm::keys = the common keys, numfields their number;
   UnionType throws the runtime_error "FIXME") *)
Example field_queries_form_type_refuted :
  (exists t, type_of_form [] f_i64 = Ok t /\ f_keys f_i64 = Ok [] /\ t_keys t = TErr TInvalid /\
             f_haskey f_i64 [120] = Ok false /\ t_haskey t [120] = TErr TInvalid) /\
  (exists t, type_of_form [] f_big = Ok t /\ f_keys f_big = Ok [[121]] /\ t_keys t = TErr TRuntime /\
             f_numfields f_big = Ok 1 /\ t_numfields t = TErr TRuntime /\
             f_haskey f_big [121] = Ok true /\ t_haskey t [121] = TErr TRuntime /\
             f_fieldindex f_big [121] = Err EValue /\ t_fieldindex t [121] = TErr TRuntime).
Proof. split; eexists; repeat split. Qed.

(* ================================================================== Content = Form for fieldindex / key / haskey *)
Lemma fieldindex_agree c : forall a r k, f_fieldindex (form_of_p a r c) k = c_fieldindex c k.
Proof.
  induction c using content_ind'; intros a r k; simpl; try reflexivity; try apply IHc.
  unfold zlen. rewrite map_length. reflexivity.
Qed.
Lemma key_agree c : forall a r i, f_key (form_of_p a r c) i = c_key c i.
Proof.
  induction c using content_ind'; intros a r i; simpl; try reflexivity; try apply IHc.
  unfold zlen. rewrite map_length. reflexivity.
Qed.
Lemma haskey_agree c : forall a r k, f_haskey (form_of_p a r c) k = c_haskey c k.
Proof.
  induction c using content_ind'; intros a r k; simpl; try reflexivity; try apply IHc.
  - rewrite (mapM_id_map_ok f_keys (form_of_p None None) c_keys); [reflexivity|].
    apply Forall_forall. intros x _. apply keys_agree.
  - unfold zlen. rewrite map_length. reflexivity.
Qed.

(* a valid layout is in the fragment of the depth theorems *)
Lemma idx_node_ok_record r : idx_node_ok (meta_of None r) = true.
Proof. destruct r; reflexivity. Qed.

Lemma valid_idx_ok c : forall p r, Valid p c -> idx_ok (form_of_p p r c) = true.
Proof.
  induction c using content_ind'; intros p r HV; inversion HV; subst; cbn [form_of_p idx_ok]; auto.
  - match goal with Hp : ParamOk p _, Hs : is_strk p = false -> _ |- _ =>
      destruct p as [[]|]; simpl in Hp; try contradiction;
      try (destruct Hp as (c' & rn & n & d & Hc & ->); inversion Hc; subst; reflexivity);
      eapply IHc; apply Hs; reflexivity end.
  - match goal with Hp : ParamOk p _, Hs : is_strk p = false -> _ |- _ =>
      destruct p as [[]|]; simpl in Hp; try contradiction;
      try (destruct Hp as (c' & rn & n & d & Hc & ->); inversion Hc; subst; reflexivity);
      eapply IHc; apply Hs; reflexivity end.
  - match goal with Hp : ParamOk p _, Hs : is_strk p = false -> _ |- _ =>
      destruct p as [[]|]; simpl in Hp; try contradiction;
      try (destruct Hp as (c' & rn & n & d & Hc & ->); inversion Hc; subst; reflexivity);
      eapply IHc; apply Hs; reflexivity end.
  - match goal with Hp : ParamOk p _ |- _ =>
      destruct p as [[]|]; simpl in Hp; try contradiction;
      try (destruct Hp as (c' & rn & n & d & Hc & _); discriminate Hc) end.
    rewrite idx_node_ok_record. simpl. eauto.
  - rewrite forallb_forall. intros x Hx. apply in_map_iff in Hx as (y & <- & Hy).
    rewrite Forall_forall in H. match goal with HF : Forall (Valid None) cs |- _ => rewrite Forall_forall in HF; eauto end.
  - rewrite forallb_forall. intros x Hx. apply in_map_iff in Hx as (y & <- & Hy).
    rewrite Forall_forall in H. match goal with HF : Forall (Valid None) cs |- _ => rewrite Forall_forall in HF; eauto end.
Qed.

Lemma ok_inj {A} (x y : A) : Ok x = Ok y -> x = y.
Proof. congruence. Qed.

(* Content = Form = Type for a valid layout *)
Theorem queries_content_form_type ts c : Valid None c ->
  exists t, type_of_form ts (form_of c) = Ok t /\ erase t = type_of c /\
    t_purelist_depth t = c_purelist_depth None c /\
    t_minmax_depth t = c_minmax_depth None c /\
    t_branch_depth t = c_branch_depth None c /\
    t_purelist_isregular t = c_purelist_isregular c /\
    (forall ks, t_keys t = TOk ks -> c_keys c = ks) /\
    (forall n, t_numfields t = TOk n -> c_numfields c = n) /\
    (forall k i, t_fieldindex t k = TOk i -> c_fieldindex c k = Ok i) /\
    (forall i k, t_key t i = TOk k -> c_key c i = Ok k) /\
    (forall k b0, t_haskey t k = TOk b0 -> c_haskey c k = Ok b0).
Proof.
  intros HV. pose proof (type_of_form_of_gen ts c None None HV) as Ht. unfold rerase, rmap in Ht.
  fold (form_of c) in Ht. destruct (type_of_form ts (form_of c)) as [t|e] eqn:Et; [|discriminate].
  exists t. split; [reflexivity|]. split; [unfold type_of; congruence|].
  pose proof (valid_np_ok c None HV) as Hnp. pose proof (valid_idx_ok c None None HV) as Hix. fold (form_of c) in Hix.
  destruct (field_queries_form_type ts (form_of c) t Et) as (F1 & F2 & F3 & F4 & F5).
  split; [apply ok_inj; rewrite <- (purelist_depth_form_type ts _ Hix t Et); apply purelist_depth_agree, Hnp|].
  split; [apply ok_inj; rewrite <- (minmax_depth_form_type ts _ Hix t Et); apply minmax_depth_agree, Hnp|].
  split; [apply ok_inj; rewrite <- (branch_depth_form_type ts _ Hix t Et); apply branch_depth_agree, Hnp|].
  split; [apply ok_inj; rewrite <- (purelist_isregular_form_type ts _ t Et); apply purelist_isregular_agree|].
  split; [intros ks Hk; apply ok_inj; rewrite <- (F1 ks Hk); symmetry; apply keys_agree|].
  split; [intros n Hk; apply ok_inj; rewrite <- (F2 n Hk); symmetry; apply numfields_agree|].
  split; [intros k i Hk; rewrite <- (F3 k i Hk); symmetry; apply fieldindex_agree|].
  split; [intros i k Hk; rewrite <- (F4 i k Hk); symmetry; apply key_agree|].
  intros k b0 Hk; rewrite <- (F5 k b0 Hk); symmetry; apply haskey_agree.
Qed.

(* ---- categorical IndexedForm nodes are in the fragment (their __array__ is erased from the type) ... *)
Definition f_cat : form :=
  FListOffset meta0 Fi64 (FIndexed (mkmeta false [(k_array, JStr s_categorical); (k_record, JStr [80])] None) Fi64
                            (FListOffset meta0 Fi64 (FIndexedOption meta0 Fi64 f_rec))).
Example depth_form_type_categorical_example :
  idx_ok f_cat = true /\
  exists t, type_of_form [] f_cat = Ok t /\ is_categorical (rty_params match t with RList _ _ t' => t' | _ => t end) = true /\
            f_purelist_depth f_cat = Ok 3 /\ t_purelist_depth t = 3 /\
            f_minmax_depth f_cat = Ok (4, 5) /\ t_minmax_depth t = (4, 5) /\
            f_branch_depth f_cat = Ok (true, 4) /\ t_branch_depth t = (true, 4).
Proof. split; [reflexivity|]. eexists. repeat split. Qed.

(* ... unless the parameters are not a map: a second __array__ entry surfaces once the first is erased *)
Definition f_cat_dup : form :=
  FIndexed (mkmeta false [(k_array, JStr s_categorical); (k_array, JStr s_string)] None) Fi64 (FListOffset meta0 Fi64 f_i64).
Example depth_form_type_categorical_refuted :
  idx_ok f_cat_dup = false /\
  exists t, type_of_form [] f_cat_dup = Ok t /\ f_purelist_depth f_cat_dup = Ok 2 /\ t_purelist_depth t = 1.
Proof. split; [reflexivity|]. eexists. repeat split. Qed.
