(** C17b, queries part 2: laws relating fieldindex / key / haskey / keys / numfields (util.cpp and the classes
    using it), which of them need distinct keys, and internal consistency laws of the depth queries. *)
From Coq Require Import ZArith List Bool Lia String.
From AwkV Require Import Base Layout LayoutInd Valid Types Proofs_Lists Proofs_C01.
From AwkTypes Require Import Json Forms TypeStr Typing Proofs_Depth Proofs_Types Proofs_Typing Proofs_Json Proofs_Parse
                             Proofs_C17b_Query.
Import ListNotations.
Open Scope Z_scope.

Lemma bytes_eqb_refl (k : bytes) : bytes_eqb k k = true.
Proof. exact (name_eqb_refl k). Qed.

Lemma bytes_eqb_neq (a k : bytes) : bytes_eqb a k = false -> a <> k.
Proof. intros H ->. rewrite bytes_eqb_refl in H. discriminate. Qed.

(* ------------------------------------------------------------------ index_of = first occurrence *)
Lemma index_of_In k l : forall i0, In k l ->
  exists j, index_of k l i0 = Some j /\ i0 <= j < i0 + zlen l /\ get l (j - i0) = Ok k.
Proof.
  induction l as [|a l IH]; intros i0 Hin; [contradiction|]. cbn [index_of]. rewrite zlen_cons.
  pose proof (zlen_nonneg l) as Hl.
  destruct (bytes_eqb a k) eqn:E.
  - apply bytes_eqb_eq in E. subst a. exists i0. split; [reflexivity|]. split; [lia|].
    replace (i0 - i0) with 0 by lia. apply get_cons_0.
  - destruct Hin as [->|Hin]; [rewrite bytes_eqb_refl in E; discriminate|].
    destruct (IH (i0 + 1) Hin) as (j & Hj & Hr & Hg). exists j. split; [exact Hj|]. split; [lia|].
    replace (j - i0) with ((j - (i0 + 1)) + 1) by lia. rewrite get_cons_S by lia. exact Hg.
Qed.

Lemma index_of_None k l : forall i0, index_of k l i0 = None -> ~ In k l.
Proof.
  induction l as [|a l IH]; intros i0 H; [auto|]. cbn [index_of] in H.
  destruct (bytes_eqb a k) eqn:E; [discriminate|]. intros [->|Hin]; [rewrite bytes_eqb_refl in E; discriminate|].
  exact (IH _ H Hin).
Qed.

Lemma index_of_get_nodup l : NoDup l -> forall i0 i k, get l i = Ok k -> index_of k l i0 = Some (i0 + i).
Proof.
  induction 1 as [|a l Hna Hnd IH]; intros i0 i k Hg; [rewrite get_nil in Hg; discriminate|].
  pose proof (get_range _ _ _ Hg) as Hr. cbn [index_of].
  destruct (Z.eq_dec i 0) as [->|Hi].
  - rewrite get_cons_0 in Hg. inversion Hg; subst. rewrite bytes_eqb_refl. f_equal. lia.
  - rewrite get_cons_pos in Hg by lia.
    destruct (bytes_eqb a k) eqn:E.
    + apply bytes_eqb_eq in E. subst a. exfalso. apply Hna. eapply get_In. exact Hg.
    + rewrite (IH (i0 + 1) (i - 1) k Hg). f_equal. lia.
Qed.

(* ------------------------------------------------------------------ std::stoi reads back std::to_string *)
Lemma span_all (f : Z -> bool) s : forallb f s = true -> span f s = (s, []).
Proof.
  induction s as [|c r IH]; simpl; [reflexivity|]. intros H. apply andb_true_iff in H as [H1 H2].
  rewrite H1, (IH H2). reflexivity.
Qed.

Lemma stoi_digit_head c r : is_digit c = true ->
  stoi (c :: r) = let ds := fst (span is_digit (c :: r)) in
                  match ds with
                  | [] => SInvalid
                  | _ => if (-2147483648 <=? Z_of_digits ds) && (Z_of_digits ds <=? 2147483647) then SVal (Z_of_digits ds) else SRange
                  end.
Proof.
  intros Hc.
  assert (Hc' : c = 48 \/ c = 49 \/ c = 50 \/ c = 51 \/ c = 52 \/ c = 53 \/ c = 54 \/ c = 55 \/ c = 56 \/ c = 57).
  { unfold is_digit in Hc. apply andb_true_iff in Hc as [H1 H2]. apply Z.leb_le in H1, H2. lia. }
  repeat (destruct Hc' as [->|Hc']; [reflexivity|]). subst; reflexivity.
Qed.

Lemma stoi_dec i : 0 <= i <= 2147483647 -> stoi (dec_of_Z i) = SVal i.
Proof.
  intros Hi. destruct (Z_of_digits_dec i (proj1 Hi)) as (u & Hu & Hnil & Hz). rewrite Hu.
  pose proof (uint_digits_digits u) as Hd.
  destruct (uint_digits_head u Hnil) as (c & r & Hcr & Hc). rewrite Hcr in *.
  rewrite (stoi_digit_head c r Hc). cbn zeta. rewrite (span_all _ _ Hd). cbn [fst]. rewrite Hz.
  replace ((-2147483648 <=? i) && (i <=? 2147483647)) with true; [reflexivity|].
  symmetry. apply andb_true_iff. split; apply Z.leb_le; lia.
Qed.

(* ------------------------------------------------------------------ util-level laws *)
(* records: a key that is in the lookup is found, at its FIRST occurrence, and key() maps back -- also with duplicates *)
Theorem util_key_of_fieldindex ks k n : In k ks -> zlen ks = n ->
  exists i, util_fieldindex (Some ks) k n = Ok i /\ util_key (Some ks) i n = Ok k /\ util_haskey (Some ks) k n = Ok true.
Proof.
  intros Hin Hn. destruct (index_of_In k ks 0 Hin) as (j & Hj & Hr & Hg). exists j.
  unfold util_haskey, util_fieldindex, util_key. rewrite Hj. split; [reflexivity|]. split; [|reflexivity].
  replace (n <=? j) with false by (symmetry; apply Z.leb_gt; lia). replace (j - 0) with j in Hg by lia. exact Hg.
Qed.

(* records: fieldindex (key i) = i needs distinct keys *)
Theorem util_fieldindex_of_key ks i n : NoDup ks -> 0 <= i < n -> zlen ks = n ->
  exists k, util_key (Some ks) i n = Ok k /\ util_fieldindex (Some ks) k n = Ok i.
Proof.
  intros Hnd Hi Hn. destruct (get_ok ks i) as (k & Hk); [lia|]. exists k.
  unfold util_key, util_fieldindex. replace (n <=? i) with false by (symmetry; apply Z.leb_gt; lia).
  split; [exact Hk|]. rewrite (index_of_get_nodup ks Hnd 0 i k Hk). reflexivity.
Qed.

Example util_fieldindex_of_key_refuted :
  util_key (Some [[97]; [97]]) 1 2 = Ok [97] /\ util_fieldindex (Some [[97]; [97]]) [97] 2 = Ok 0.
Proof. split; reflexivity. Qed.

(* tuples: key i is the decimal string of i, which fieldindex reads back (std::stoi: up to INT_MAX) *)
Theorem util_tuple_roundtrip i n : 0 <= i < n -> i <= 2147483647 ->
  util_key None i n = Ok (dec_of_Z i) /\ util_fieldindex None (dec_of_Z i) n = Ok i /\
  util_haskey None (dec_of_Z i) n = Ok true.
Proof.
  intros Hi Hm. unfold util_haskey, util_key, util_fieldindex. rewrite (stoi_dec i) by lia.
  replace (n <=? i) with false by (symmetry; apply Z.leb_gt; lia).
  replace ((0 <=? i) && (i <? n)) with true; [auto|]. symmetry. apply andb_true_iff. split; [apply Z.leb_le|apply Z.ltb_lt]; lia.
Qed.

(* beyond INT_MAX std::stoi throws std::out_of_range, which util::haskey does not catch *)
Example util_tuple_roundtrip_refuted :
  util_key None 2147483648 2147483650 = Ok (dec_of_Z 2147483648) /\
  util_fieldindex None (dec_of_Z 2147483648) 2147483650 = Err EOob /\
  util_haskey None (bytes_of_string "99999999999") 2 = Err EOob /\
  util_haskey (Some [[120]]) (bytes_of_string "99999999999") 1 = Err EOob.
Proof. vm_compute. repeat split. Qed.

(* haskey is NOT membership in keys(): a numeric string below numfields is a key of every record;
   std::stoi skips white space, takes a sign and ignores what follows the digits; key() of a tuple prints negative
   indexes; key() of a record with a short lookup lets vector::at throw *)
Example haskey_is_membership_refuted :
  util_haskey (Some [[120]]) (bytes_of_string "0") 1 = Ok true /\
  existsb (bytes_eqb (bytes_of_string "0")) (util_keys (Some [[120]]) 1) = false /\
  util_haskey None (bytes_of_string " +1x") 2 = Ok true /\
  existsb (bytes_eqb (bytes_of_string " +1x")) (util_keys None 2) = false /\
  util_fieldindex (Some [bytes_of_string "1"; bytes_of_string "0"]) (bytes_of_string "0") 2 = Ok 1 /\
  util_key None (-1) 2 = Ok (bytes_of_string "-1") /\
  util_key (Some [[97]]) 1 2 = Err EOob.
Proof. vm_compute. repeat split. Qed.

Lemma In_tuple_keys k n : In k (tuple_keys n) -> exists i, 0 <= i < Z.of_nat n /\ k = dec_of_Z i.
Proof.
  unfold tuple_keys. intros H. apply in_map_iff in H as (i & <- & Hi). apply iota_nat_In in Hi. exists i. split; [lia|reflexivity].
Qed.

(* ------------------------------------------------------------------ on forms *)
(* the records reached by the field queries have as many keys as contents; tuples at most 2^31 fields *)
Fixpoint rec_wf (f : form) : bool :=
  match f with
  | FRecord _ (Some l) cs => Nat.eqb (length l) (length cs)
  | FRecord _ None cs => zlen cs <=? 2147483648
  | FListOffset _ _ c | FList _ _ _ c | FRegular _ c _ | FIndexed _ _ c | FIndexedOption _ _ c
  | FByteMasked _ _ c _ | FBitMasked _ _ c _ _ | FUnmasked _ c => rec_wf c
  | FVirtual _ (Some g) _ => rec_wf g
  | _ => true
  end.

(* every key listed by keys() is a key for haskey(), fieldindex() finds it and key() maps back
   (unions: haskey only -- fieldindex / key throw) *)
Theorem keys_have_key f : rec_wf f = true -> forall ks k, f_keys f = Ok ks -> In k ks ->
  f_haskey f k = Ok true /\
  (f_record_path f = true -> exists i, f_fieldindex f k = Ok i /\ f_key f i = Ok k).
Proof.
  induction f as [m inner isz fmt dt|m|m o c IH|m s e c IH|m c size IH|m i c IH|m i c IH|m k0 c vw IH|m k0 c vw lsb IH
                 |m c IH|m tg i cs IH|m rk cs IH|m hl|m g hl IH] using form_ind'; intros Hwf ks k Hk Hin;
    cbn [rec_wf f_keys f_haskey f_record_path f_fieldindex f_key] in *; eauto.
  - inversion Hk; subst. contradiction.
  - inversion Hk; subst. contradiction.
  - destruct (mapM_id (map f_keys cs)) as [l|e]; cbn [bind] in *; [|discriminate]. inversion Hk; subst.
    split; [|discriminate]. f_equal. apply existsb_exists. exists k. split; [exact Hin|apply bytes_eqb_refl].
  - destruct rk as [l|].
    + inversion Hk; subst. apply Nat.eqb_eq in Hwf.
      destruct (util_key_of_fieldindex ks k (zlen cs) Hin) as (i & H1 & H2 & H3); [unfold zlen; rewrite Hwf; reflexivity|].
      split; [exact H3|]. intros _. exists i. split; assumption.
    + inversion Hk; subst. apply Z.leb_le in Hwf. apply In_tuple_keys in Hin as (i & Hi & ->).
      destruct (util_tuple_roundtrip i (zlen cs)) as (H1 & H2 & H3); [unfold zlen; lia|unfold zlen in *; lia|].
      split; [exact H3|]. intros _. exists i. split; assumption.
  - discriminate.
Qed.

(* numfields is the number of keys, or -1 when no record / union is reached *)
Theorem numfields_is_number_of_keys f : rec_wf f = true -> forall n ks,
  f_numfields f = Ok n -> f_keys f = Ok ks -> (n = -1 /\ ks = []) \/ n = zlen ks.
Proof.
  induction f as [m inner isz fmt dt|m|m o c IH|m s e c IH|m c size IH|m i c IH|m i c IH|m k0 c vw IH|m k0 c vw lsb IH
                 |m c IH|m tg i cs IH|m rk cs IH|m hl|m g hl IH] using form_ind'; intros Hwf n ks Hn Hk;
    cbn [rec_wf f_keys f_numfields] in *; eauto.
  - left. split; congruence.
  - left. split; congruence.
  - right. destruct (mapM_id (map f_keys cs)) as [l|e]; cbn [bind] in *; [|discriminate]. congruence.
  - right. inversion Hn; subst. destruct rk as [l|]; inversion Hk; subst.
    + apply Nat.eqb_eq in Hwf. unfold zlen. rewrite Hwf. reflexivity.
    + unfold tuple_keys, zlen. rewrite map_length, iota_nat_length'. reflexivity.
  - discriminate.
Qed.

Definition f_rec_short : form := FRecord meta0 (Some [[97]]) [f_i64; f_i64].
Example numfields_is_number_of_keys_refuted :
  f_numfields f_rec_short = Ok 2 /\ f_keys f_rec_short = Ok [[97]] /\ f_key f_rec_short 1 = Err EOob /\
  f_fieldindex f_rec_short (bytes_of_string "1") = Ok 1.
Proof. vm_compute. repeat split. Qed.

Example keys_have_key_example :
  rec_wf f_big_rec = true /\ f_record_path f_big_rec = true /\ f_keys f_big_rec = Ok [[120]; [121]] /\
  f_fieldindex f_big_rec [121] = Ok 1 /\ f_key f_big_rec 1 = Ok [121] /\ f_numfields f_big_rec = Ok 2 /\
  rec_wf f_big = true /\ f_keys f_big = Ok [[121]] /\ f_haskey f_big [121] = Ok true.
Proof. vm_compute. repeat split. Qed.

(* ------------------------------------------------------------------ the same for layouts *)
Definition c_rec_wf (c : content) : bool := rec_wf (form_of c).
Definition c_record_path (c : content) : bool := f_record_path (form_of c).

Theorem c_keys_have_key c : c_rec_wf c = true -> forall k, In k (c_keys c) ->
  c_haskey c k = Ok true /\
  (c_record_path c = true -> exists i, c_fieldindex c k = Ok i /\ c_key c i = Ok k).
Proof.
  intros Hwf k Hin. destruct (keys_have_key (form_of c) Hwf (c_keys c) k (keys_agree c None None) Hin) as [H1 H2].
  unfold form_of in *. rewrite haskey_agree in H1. split; [exact H1|]. intros Hp. destruct (H2 Hp) as (i & Hi & Hk).
  rewrite fieldindex_agree in Hi. rewrite key_agree in Hk. exists i. split; assumption.
Qed.

(* a valid layout whose tuples have at most 2^31 fields is in the fragment *)
Fixpoint c_tuples_small (c : content) : bool :=
  match c with
  | Record cs None _ => zlen cs <=? 2147483648
  | ListOffset _ _ c' | ListA _ _ _ c' | Regular c' _ _ | Indexed _ _ c' | IndexedOption _ _ c'
  | ByteMasked _ _ c' | BitMasked _ _ _ _ c' | Unmasked c' | Par _ _ c' => c_tuples_small c'
  | _ => true
  end.

Lemma valid_rec_wf c : forall p r, Valid p c -> c_tuples_small c = true -> rec_wf (form_of_p p r c) = true.
Proof.
  induction c using content_ind'; intros p r HV Hs; inversion HV; subst; cbn [form_of_p rec_wf c_tuples_small] in *; eauto.
  - match goal with Hp : ParamOk p _, Hv : is_strk p = false -> _ |- _ =>
      destruct p as [[]|]; simpl in Hp; try contradiction;
      try (destruct Hp as (c' & rn & n & d & Hc & ->); inversion Hc; subst; reflexivity);
      eapply IHc; [apply Hv; reflexivity|exact Hs] end.
  - match goal with Hp : ParamOk p _, Hv : is_strk p = false -> _ |- _ =>
      destruct p as [[]|]; simpl in Hp; try contradiction;
      try (destruct Hp as (c' & rn & n & d & Hc & ->); inversion Hc; subst; reflexivity);
      eapply IHc; [apply Hv; reflexivity|exact Hs] end.
  - match goal with Hp : ParamOk p _, Hv : is_strk p = false -> _ |- _ =>
      destruct p as [[]|]; simpl in Hp; try contradiction;
      try (destruct Hp as (c' & rn & n & d & Hc & ->); inversion Hc; subst; reflexivity);
      eapply IHc; [apply Hv; reflexivity|exact Hs] end.
  - destruct ks as [l|].
    + rewrite map_length. apply Nat.eqb_eq. eauto.
    + unfold zlen in *. rewrite map_length. exact Hs.
Qed.

Theorem valid_keys_have_key c : Valid None c -> c_tuples_small c = true -> forall k, In k (c_keys c) ->
  c_haskey c k = Ok true /\
  (c_record_path c = true -> exists i, c_fieldindex c k = Ok i /\ c_key c i = Ok k).
Proof. intros HV Hs. apply c_keys_have_key. exact (valid_rec_wf c None None HV Hs). Qed.

(* [[{"x": 1, "y": "ab"}, {"x": 2, "y": None}], []] *)
Definition ex_lay : content :=
  ListOffset I64 [0; 2; 2]
    (Record [Numpy DInt64 [2] [DZ 1; DZ 2];
             IndexedOption I32 [0; -1]
               (Par (Some AString) None (ListOffset I32 [0; 2] (Par (Some AChar) None (Numpy DUInt8 [2] [DZ 97; DZ 98]))))]
            (Some [[120]; [121]]) 2).
Example valid_keys_have_key_example :
  validb None ex_lay = true /\ c_tuples_small ex_lay = true /\ c_record_path ex_lay = true /\ c_keys ex_lay = [[120]; [121]] /\
  c_haskey ex_lay [121] = Ok true /\ c_fieldindex ex_lay [121] = Ok 1 /\ c_key ex_lay 1 = Ok [121] /\
  c_haskey ex_lay [122] = Ok false /\ c_haskey ex_lay (bytes_of_string "1") = Ok true.
Proof. vm_compute. repeat split. Qed.

(* ------------------------------------------------------------------ Content = Type on the field queries, exactly
   (answers and exceptions), for a valid layout that reaches a record through list / option / indexed nodes *)
Theorem field_queries_content_type_exact ts c : Valid None c -> c_record_path c = true ->
  exists t, type_of_form ts (form_of c) = Ok t /\
    t_keys t = TOk (c_keys c) /\ t_numfields t = TOk (c_numfields c) /\
    (forall k, t_fieldindex t k = tres_of (c_fieldindex c k)) /\
    (forall i, t_key t i = tres_of (c_key c i)) /\
    (forall k, t_haskey t k = tres_of (c_haskey c k)).
Proof.
  intros HV Hp. destruct (queries_content_form_type ts c HV) as (t & Ht & _). exists t. split; [exact Ht|].
  destruct (field_queries_form_type_exact ts (form_of c) t Ht Hp) as (H1 & H2 & H3 & H4 & H5).
  unfold form_of in *. rewrite (keys_agree c None None) in H1. rewrite (numfields_agree c None None) in H2.
  split; [exact H1|]. split; [exact H2|].
  split; [intros k; rewrite H3, fieldindex_agree; reflexivity|].
  split; [intros i; rewrite H4, key_agree; reflexivity|].
  intros k; rewrite H5, haskey_agree; reflexivity.
Qed.

Example field_queries_content_type_exact_example :
  c_record_path ex_lay = true /\
  exists t, type_of_form [] (form_of ex_lay) = Ok t /\ t_keys t = TOk [[120]; [121]] /\ t_numfields t = TOk 2 /\
            t_fieldindex t [121] = TOk 1 /\ t_fieldindex t [122] = TErr TInvalid /\
            t_fieldindex t (bytes_of_string "99999999999") = TErr TOutOfRange /\
            c_fieldindex ex_lay (bytes_of_string "99999999999") = Err EOob /\ t_key t 1 = TOk [121] /\ t_key t 2 = TErr TInvalid.
Proof. split; [reflexivity|]. eexists. repeat split. Qed.

(* ------------------------------------------------------------------ key(i) = keys()[i] *)
Lemma get_tuple_keys n i : 0 <= i < Z.of_nat n -> get (tuple_keys n) i = Ok (dec_of_Z i).
Proof. intros Hi. unfold tuple_keys. rewrite get_map, (get_iota_nat 0 n i Hi). reflexivity. Qed.

(* every form class: what key(i) answers for i >= 0 is the i-th entry of keys() (tuples print negative i too:
   haskey_is_membership_refuted); on a union-free path to a record also conversely *)
Theorem key_is_keys_entry f : rec_wf f = true -> forall ks i k, f_keys f = Ok ks -> 0 <= i ->
  (f_key f i = Ok k -> get ks i = Ok k) /\ (f_record_path f = true -> get ks i = Ok k -> f_key f i = Ok k).
Proof.
  induction f as [m inner isz fmt dt|m|m o c IH|m s e c IH|m c size IH|m i0 c IH|m i0 c IH|m k0 c vw IH|m k0 c vw lsb IH
                 |m c IH|m tg i0 cs IH|m rk cs IH|m hl|m g hl IH] using form_ind'; intros Hwf ks i k Hk Hi;
    cbn [rec_wf f_keys f_key f_record_path] in *; eauto; try (split; discriminate).
  destruct rk as [l|]; inversion Hk; subst; unfold util_key.
  - apply Nat.eqb_eq in Hwf. assert (Hz : zlen ks = zlen cs) by (unfold zlen; rewrite Hwf; reflexivity).
    destruct (zlen cs <=? i) eqn:E.
    + apply Z.leb_le in E. split; [discriminate|]. intros _ Hg. apply get_range in Hg. lia.
    + split; auto.
  - destruct (zlen cs <=? i) eqn:E.
    + apply Z.leb_le in E. split; [discriminate|]. intros _ Hg. apply get_range in Hg.
      unfold tuple_keys, zlen in *. rewrite map_length, iota_nat_length' in Hg. lia.
    + apply Z.leb_gt in E. rewrite get_tuple_keys by (unfold zlen in E; lia). split; [auto|]. intros _ Hg. exact Hg.
Qed.

(* ------------------------------------------------------------------ when does the Type answer the field queries *)
Lemma t_keys_set p t : t_keys (rty_set_params p t) = t_keys t.
Proof. destruct t; reflexivity. Qed.

(* off the record path the Type never answers keys() (leaf: invalid_argument, union: runtime_error) although
   the Form does (field_queries_form_type_refuted); so: Type::keys answers iff f_record_path *)
Theorem type_keys_answers_iff_record_path ts f : forall t, type_of_form ts f = Ok t ->
  ((exists ks, t_keys t = TOk ks) <-> f_record_path f = true).
Proof.
  induction f as [m inner isz fmt dt|m|m o c IH|m s e c IH|m c size IH|m i c IH|m i c IH|m k0 c vw IH|m k0 c vw lsb IH
                 |m c IH|m tg i cs IH|m rk cs IH|m hl|m g hl IH] using form_ind'; intros t H; cbn [f_record_path].
  - assert (Ht : exists p s, t = fold_right (fun d t => RReg [] s d t) (RNum p s dt) inner).
    { cbn [type_of_form] in H. destruct dt; try discriminate; inversion H; eauto. }
    destruct Ht as (p & s & ->). destruct (numpy_type_fields s p dt inner) as (H1 & _). rewrite H1.
    split; [intros (ks & Hk); discriminate|discriminate].
  - inversion H. cbn. split; [intros (ks & Hk); discriminate|discriminate].
  - bind_type H ts c t' Et. exact (IH _ eq_refl).
  - bind_type H ts c t' Et. exact (IH _ eq_refl).
  - bind_type H ts c t' Et. exact (IH _ eq_refl).
  - destruct (indexed_type_shape ts m i c t H) as (out & p' & Ho & -> & _). rewrite t_keys_set. exact (IH _ Ho).
  - bind_type H ts c t' Et. exact (IH _ eq_refl).
  - bind_type H ts c t' Et. exact (IH _ eq_refl).
  - bind_type H ts c t' Et. exact (IH _ eq_refl).
  - bind_type H ts c t' Et. exact (IH _ eq_refl).
  - union_types H ts cs l El. cbn. split; [intros (ks & Hk); discriminate|discriminate].
  - union_types H ts cs l El. cbn. split; [reflexivity|]. intros _. eexists. reflexivity.
  - discriminate.
  - cbn [type_of_form] in H. exact (IH _ H).
Qed.
