(* C19 — AwkwardForth: the property theorems.  Statements only; every proof is `exact <lemma of Proofs_C19>`.
   `fixed = true` is the single-step path of the CURRENT code (/repo since commit a6624ec; see Forth.v, single_tail /
   exec_exit) — the property theorems are stated for it; `fixed = false` is the tree before that fix, kept for the
   `_refuted` theorems (history). *)
From Coq Require Import ZArith Bool List.
From AwkForth Require Import Forth Proofs_C19.
Import ListNotations.
Open Scope Z_scope.

(* (a) running to completion (resume through pauses, `complete`) = iterating guarded single steps from the same
   state; the final state is one from which nothing continues, so extra steps do not change it. *)
Theorem run_is_iterated_step : forall p e n f m mf,
  complete n f true p e m = Ok mf ->
  can_go mf = false /\ exists k, forall k', iter_step true p e (k + k') m = Ok mf.
Proof. exact run_is_iterated_step_stable_proof. Qed.
Print Assumptions run_is_iterated_step.

(* (a) any split of an execution into (guarded) step / resume segments ends in the same final outcome
   (final state, or the same undefined-behaviour fault). *)
Theorem pause_resume_compose : forall p e segs m m1 r, r <> OutOfFuel ->
  apply_segs true p e segs m = Ok m1 ->
  ((exists n f, complete n f true p e m = r) <-> (exists n f, complete n f true p e m1 = r)).
Proof. exact pause_resume_compose_proof. Qed.
Print Assumptions pause_resume_compose.

(* run / resume / call (single_step = false) were not affected by the fix *)
Theorem run_mode_unpatched : forall f fixed p e t m,
  internal_run f fixed false p e t m = internal_run f true false p e t m.
Proof. exact run_mode_unpatched_proof. Qed.
Print Assumptions run_mode_unpatched.

(* HISTORY — (a) was REFUTED before the fix (fixed = false): `3 0 do i loop` with a 4-cell stack — one call ends with 0 1 2 and no error,
   13 single steps end in stack_overflow with 0 0 0 0 (the loop counter never advances), and nothing continues
   from there. *)
Theorem run_is_iterated_step_refuted :
  exists p m0 mf ms k,
    prog_do_loop = COk p /\ api_begin p (mkEnv []) (init_machine p) = Ok m0 /\
    complete 2 100 false p (mkEnv []) m0 = Ok mf /\ m_stack mf = [2; 1; 0] /\ m_err mf = E_none /\ is_done mf = true /\
    iter_step false p (mkEnv []) k m0 = Ok ms /\ can_go ms = false /\ m_err ms = E_overflow /\ m_stack ms = [0; 0; 0; 0].
Proof. exact run_is_iterated_step_refuted_proof. Qed.
Print Assumptions run_is_iterated_step_refuted.

(* HISTORY — (a) REFUTED before the fix, second defect: `: f 10 -1 if exit then 20 ; f` — one call leaves 10,
   single-stepping leaves 10 20 (`exit` does not leave the word when it is single-stepped). *)
Theorem step_exit_refuted :
  exists p m0 mf ms k,
    prog_exit = COk p /\ api_begin p (mkEnv []) (init_machine p) = Ok m0 /\
    complete 2 100 false p (mkEnv []) m0 = Ok mf /\ m_stack mf = [10] /\ is_done mf = true /\
    iter_step false p (mkEnv []) k m0 = Ok ms /\ is_done ms = true /\ m_err ms = E_none /\ m_stack ms = [20; 10].
Proof. exact step_exit_refuted_proof. Qed.
Print Assumptions step_exit_refuted.

(* HISTORY — before the fix the statement held under the precise side condition that no step boundary falls at the end
   of a do-loop body (or would pop at the target depth) and no `exit` is single-stepped: `clean_run k p e m` checks,
   along the trajectory, `step_clean` = the instruction executed by the step is not `exit` and, after it,
   `end_of_step_plain` (the finished segment that single-stepping pops eagerly is not a do-loop body). *)
Theorem run_is_iterated_step_pinned_partial : forall p e n f m mf,
  complete n f false p e m = Ok mf ->
  exists k, forall k', clean_run (k + k') p e m = true -> iter_step false p e (k + k') m = Ok mf.
Proof. exact run_is_iterated_step_pinned_partial_proof. Qed.
Print Assumptions run_is_iterated_step_pinned_partial.

(* (b) step() is total on every state of every program (before and after the fix): it never runs out of its own fuel
   (the outcome is a new state, possibly with an error code, or an identified undefined behaviour of the C++) *)
Theorem step_total : forall fixed p e m, api_step fixed p e m <> OutOfFuel.
Proof. exact step_total_proof. Qed.
Print Assumptions step_total.

(* (b) faults are documented error codes; after an error nothing executes until reset / begin.
   PARTIAL: does not exclude the outcome `Fault k` (see Proofs_C19, section 9). *)
Theorem faults_are_errors_partial :
  (forall fixed p e m m', doc_err (m_err m) -> api_step fixed p e m = Ok m' -> doc_err (m_err m')) /\
  (forall f fixed p e m m', doc_err (m_err m) -> api_resume f fixed p e m = Ok m' -> doc_err (m_err m')) /\
  (forall f fixed p e m s m', doc_err (m_err m) -> api_call f fixed p e m s = Ok m' -> doc_err (m_err m')) /\
  (forall fixed p e m m', m_err m <> E_none -> api_step fixed p e m = Ok m' -> same_data m m') /\
  (forall f fixed p e m m', m_err m <> E_none -> api_resume f fixed p e m = Ok m' -> same_data m m') /\
  (forall f fixed p e m s m', m_err m <> E_none -> api_call f fixed p e m s = Ok m' -> same_data m m') /\
  (forall p m, m_err (api_reset p m) = E_none /\ m_ready (api_reset p m) = false) /\
  (forall p e m m', api_begin p e m = Ok m' -> can_go m' = true /\ m_stack m' = []).
Proof. exact faults_are_errors_partial_proof. Qed.
Print Assumptions faults_are_errors_partial.

(* (c) the growable output array (any initial size >= 1, any growth function that strictly increases the
   reservation) refines the list semantics used by the machine model ... *)
Theorem growth_refines_lists : forall grow junk initial ops, grow_ok grow -> 1 <= initial ->
  g_obs (g_run grow junk (g_new initial junk) ops) = Some (buf_run [] ops).
Proof. exact growth_refines_lists_proof. Qed.
Print Assumptions growth_refines_lists.

(* ... hence the observable output content does not depend on output_initial_size / output_resize_factor *)
Theorem growth_irrelevant : forall grow1 grow2 junk1 junk2 initial1 initial2 ops,
  grow_ok grow1 -> grow_ok grow2 -> 1 <= initial1 -> 1 <= initial2 ->
  g_obs (g_run grow1 junk1 (g_new initial1 junk1) ops) = g_obs (g_run grow2 junk2 (g_new initial2 junk2) ops).
Proof. exact growth_irrelevant_proof. Qed.
Print Assumptions growth_irrelevant.

(* (d) `/`, `mod`, `/mod` (forth_floor_div / forth_floor_mod) are floor division and modulo for ALL in-range cells with
   d <> 0: r = n mod d has the sign of d, q is n / d reduced to the cell width (it wraps only for INT_MIN / -1),
   and q*d + r = n modulo 2^w — exactly, outside that one case *)
Theorem floor_div_mod_spec : forall w n d, 0 < w -> d <> 0 ->
  - 2 ^ (w - 1) <= n < 2 ^ (w - 1) -> - 2 ^ (w - 1) <= d < 2 ^ (w - 1) ->
  let q := forth_div w n d in let r := forth_mod w n d in
  r = n mod d /\ q = wrap w (n / d) /\ (0 <= r < d \/ d < r <= 0) /\ wrap w (q * d + r) = n /\
  (~ (n = - 2 ^ (w - 1) /\ d = -1) -> q = n / d /\ q * d + r = n).
Proof. exact floor_div_mod_spec_proof. Qed.
Print Assumptions floor_div_mod_spec.

(* (d) the arithmetic words deliver the exact integer result reduced to the cell width *)
Theorem wraparound_spec : forall p e m a b s, 0 < p_w p -> m_stack m = b :: a :: s ->
  let w := p_w p in
  exec_builtin p e m CODE_ADD = continue (set_stack m (wrap w (a + b) :: s)) /\
  exec_builtin p e m CODE_SUB = continue (set_stack m (wrap w (a - b) :: s)) /\
  exec_builtin p e m CODE_MUL = continue (set_stack m (wrap w (a * b) :: s)) /\
  exec_builtin p e m CODE_NEGATE = continue (set_stack m (wrap w (- b) :: a :: s)) /\
  exec_builtin p e m CODE_ADD1 = continue (set_stack m (wrap w (b + 1) :: a :: s)) /\
  exec_builtin p e m CODE_SUB1 = continue (set_stack m (wrap w (b - 1) :: a :: s)) /\
  exec_builtin p e m CODE_ABS = continue (set_stack m (wrap w (Z.abs b) :: a :: s)) /\
  exec_builtin p e m CODE_LSHIFT = continue (set_stack m (wrap w (a * 2 ^ (b mod w)) :: s)) /\
  (forall z, - 2 ^ (w - 1) <= wrap w z < 2 ^ (w - 1) /\ (exists k, wrap w z = z + k * 2 ^ w) /\
             (- 2 ^ (w - 1) <= z < 2 ^ (w - 1) -> wrap w z = z)).
Proof. exact wraparound_spec_proof. Qed.
Print Assumptions wraparound_spec.

(* (e) the model is a function *)
Theorem deterministic : forall fuel fixed p given segs r1 r2,
  session fuel fixed p given segs = r1 -> session fuel fixed p given segs = r2 -> r1 = r2.
Proof. exact deterministic_proof. Qed.
Print Assumptions deterministic.


(* ==================================================================================================================
   C19 extension (agent c19b).  New proof files: Proofs_C19_Words, Proofs_C19_SafeDefs, Proofs_C19_Safe .. Safe8,
   Proofs_C19_Control, Proofs_C19_Reads.
   ================================================================================================================== *)
From AwkForth Require Import Proofs_C19_Words Proofs_C19_SafeDefs Proofs_C19_Safe Proofs_C19_Safe2 Proofs_C19_Safe3
     Proofs_C19_Safe4 Proofs_C19_Safe5 Proofs_C19_Safe6 Proofs_C19_Safe7 Proofs_C19_Safe8.

(* ---- (d) the documented semantics of the individual words: ONE table (`word_eff`, Proofs_C19_Words) of the stack
   effect of each of the 34 stack / arithmetic / comparison / bitwise words of the vocabulary (all of builtin_words except
   i j k; AwkwardForth has no `-rot`), and ONE theorem: on every state whose cells are in range, executing the word gives
   `word_outcome` = the documented function of the top cells with wraparound at the cell width; fewer cells than the word
   consumes = stack_underflow with nothing changed; a net push onto a full stack = stack_overflow with nothing changed;
   a zero divisor = division_by_zero (`/` and `mod` have then dropped the divisor, `/mod` has not). *)
Theorem word_spec : forall p e m x, 0 < p_w p -> Forall (in_cell (p_w p)) (m_stack m) ->
  exec_builtin p e m (word_code x) = word_outcome p m x.
Proof. exact word_spec_proof. Qed.
Print Assumptions word_spec.

(* the table is about the compiler's vocabulary: each name compiles to the opcode, and the table covers all of
   builtin_words but i j k *)
Theorem word_spec_names : forall x, lookup_string (bytes (word_name x)) builtin_words = Some (word_code x).
Proof. exact word_names_compile. Qed.
Print Assumptions word_spec_names.

Theorem word_spec_covers_builtins :
  map (fun x => (bytes (word_name x), word_code x)) all_words
  = map (fun nc => (bytes (fst nc), snd nc)) (skipn 3 builtin_words).
Proof. exact all_words_cover_builtins. Qed.
Print Assumptions word_spec_covers_builtins.

(* ---- (b) faults are errors, WITHOUT the `Fault` escape of faults_are_errors_partial, for programs accepted by the
   static check `check_prog c p` (a boolean checker of the bytecode against a per-segment certificate c; `wf_prog p` =
   the check with the inferred certificate `infer p`): begin / step / resume / run never end in a modelled undefined
   behaviour other than F_count (repeat count * item size overflowing int64 in a `#` read), and leave a state (`api_ok`:
   the invariant `inv` + every target depth below the current depth, unless an error is pending or the machine is not
   ready) from which this holds again.  The check refuses exactly one thing that the compiler accepts: `exit` in a
   segment that can run while a do-loop of an enclosing or calling segment is active.  call() is not covered. *)
Theorem faults_are_errors_checked : forall c p e, check_prog c p = true -> zlen (e_inputs e) = zlen (p_ins p) ->
  (forall m, zlen (m_vars m) = zlen (p_vars p) ->
     exists m', api_begin p e m = Ok m' /\ api_ok c p e m') /\
  (forall m, api_ok c p e m -> api_good c p e (api_step true p e m)) /\
  (forall f m, api_ok c p e m -> api_good c p e (api_resume f true p e m)) /\
  (forall f m, zlen (m_vars m) = zlen (p_vars p) -> api_good c p e (api_run f true p e m)).
Proof. exact faults_are_errors_checked_proof. Qed.
Print Assumptions faults_are_errors_checked.

Theorem iter_step_no_fault : forall c p e k m, check_prog c p = true -> api_ok c p e m ->
  match iter_step true p e k m with Ok m' => api_ok c p e m' | Fault x => x = F_count | OutOfFuel => True end.
Proof. exact iter_step_no_fault_proof. Qed.
Print Assumptions iter_step_no_fault.

(* the invariant is preserved by every single instruction (the core of the proof, also usable on its own) *)
Theorem instruction_preserves_invariant : forall c p e, check_prog c p = true ->
  forall single m t ts, inv c p e m = true -> m_ready m = true -> m_targets m = t :: ts ->
    depth m <> t -> segment_done p m = Ok false -> good c p e (exec_instr true single p e t m).
Proof. exact exec_instr_good. Qed.
Print Assumptions instruction_preserves_invariant.

(* REFUTED without the exclusion: `exit` while a do-loop of a caller is active removes the caller's loop (its `i` then
   reads below the do-stack: F_loopindex); `exit` inside a do-loop at the top level of its word leaves a stale do-stack
   entry (the next word entered at that depth is run as a loop body; here its `exit` unwinds too far: F_exitdepth).
   Both programs are refused by the check. *)
Theorem faults_are_errors_exit_in_do_refuted :
  (exists p, prog_exit_under_caller_loop = COk p /\ wf_prog p = false /\
             api_run 1000 true p (mkEnv []) (init_machine p) = Fault F_loopindex) /\
  (exists p, prog_exit_in_own_loop = COk p /\ wf_prog p = false /\
             api_run 1000 true p (mkEnv []) (init_machine p) = Fault F_exitdepth).
Proof. exact Proofs_C19_Safe8.faults_are_errors_exit_in_do_refuted. Qed.
Print Assumptions faults_are_errors_exit_in_do_refuted.

(* ---- (d) control-flow laws of the run loop (agent c19b-control, Proofs_C19_Control) *)
From AwkForth Require Import Proofs_C19_Control.

Theorem control_goes_trans : forall (p : prog) (e : env) (t : Z) (a b c : machine), goes p e t a b -> goes p e t b c -> goes p e t a c.
Proof. exact goes_trans. Qed.
Print Assumptions control_goes_trans.

Theorem control_goes_ends : forall (p : prog) (e : env) (t : Z) (a b : machine) (r : result machine), goes p e t a b -> ends p e t b r -> ends p e t a r.
Proof. exact goes_ends. Qed.
Print Assumptions control_goes_ends.

Theorem control_goes_run : forall (p : prog) (e : env) (t : Z) (a b : machine) (f : nat) (r : result machine),
  goes p e t a b -> internal_run f true false p e t b = r -> r <> OutOfFuel -> exists f' : nat, internal_run f' true false p e t a = r.
Proof. exact goes_run. Qed.
Print Assumptions control_goes_run.

Theorem control_ends_run : forall (p : prog) (e : env) (t : Z) (a : machine) (r : result machine),
  ends p e t a r -> exists f0 : nat, forall f : nat, internal_run (f0 + f) true false p e t a = r.
Proof. exact ends_run. Qed.
Print Assumptions control_ends_run.

Theorem control_goes_target : forall (p : prog) (e : env) (t : Z) (a b : machine), goes p e t a b -> depth b = t -> ends p e t a (Ok b).
Proof. exact goes_target. Qed.
Print Assumptions control_goes_target.

Theorem call_enter : forall (p : prog) (e : env) (t : Z) (tg : list Z) (rd : bool) (er : Z) (d : data) (which ip : Z) (fr : list (Z * Z)) 
  (dos : list (Z * Z * Z)) (sg len : Z),
  code p which ip = Some (sg + BOUND_DICTIONARY) ->
  seg_len p sg = Some len ->
  free_at dos (zlen fr + 1) = true ->
  t <= zlen fr ->
  zlen fr + 1 <> p_rec_max p -> goes p e t (St tg rd er d ((which, ip) :: fr) dos) (St tg rd er d ((sg, 0) :: (which, ip + 1) :: fr) dos).
Proof. exact call_enter_proof. Qed.
Print Assumptions call_enter.

Theorem call_recursion_limit : forall (p : prog) (e : env) (t : Z) (tg : list Z) (rd : bool) (er : Z) (d : data) (which ip : Z) (fr : list (Z * Z)) 
  (dos : list (Z * Z * Z)) (sg len : Z),
  code p which ip = Some (sg + BOUND_DICTIONARY) ->
  seg_len p sg = Some len ->
  free_at dos (zlen fr + 1) = true ->
  t <= zlen fr ->
  zlen fr + 1 = p_rec_max p -> ends p e t (St tg rd er d ((which, ip) :: fr) dos) (Ok (St tg rd E_recursion d ((which, ip + 1) :: fr) dos)).
Proof. exact call_recursion_limit_proof. Qed.
Print Assumptions call_recursion_limit.

(* a call (user word / control segment) whose segment runs to its end continues after the call cell *)
Theorem call_spec : forall (p : prog) (e : env) (t : Z) (tg : list Z) (rd : bool) (er : Z) (d d' : data) (which ip : Z) (fr : list (Z * Z))
  (dos : list (Z * Z * Z)) (sg : Z),
  code p which ip = Some (sg + BOUND_DICTIONARY) ->
  free_at dos (zlen fr + 1) = true ->
  t <= zlen fr ->
  zlen fr + 1 <> p_rec_max p ->
  seg_goes p e t tg rd er sg ((which, ip + 1) :: fr) dos d d' ->
  goes p e t (St tg rd er d ((which, ip) :: fr) dos) (St tg rd er d' ((which, ip + 1) :: fr) dos).
Proof. exact call_spec_proof. Qed.
Print Assumptions call_spec.

(* if..then = [CODE_IF; seg+66]: v<>0 runs the consequent, v=0 skips it; both continue at ip+2 *)
Theorem if_then_spec : forall (p : prog) (e : env) (t : Z) (tg : list Z) (rd : bool) (er : Z) (d d' : data) (v : Z) (s : list Z) (which ip : Z) 
  (fr : list (Z * Z)) (dos : list (Z * Z * Z)) (sg : Z),
  code p which ip = Some CODE_IF ->
  code p which (ip + 1) = Some (sg + BOUND_DICTIONARY) ->
  free_at dos (zlen fr + 1) = true ->
  t <= zlen fr ->
  d_stack d = v :: s ->
  (v <> 0 -> zlen fr + 1 <> p_rec_max p /\ seg_goes p e t tg rd er sg ((which, ip + 2) :: fr) dos (with_stack d s) d') ->
  (v = 0 -> d' = with_stack d s) -> goes p e t (St tg rd er d ((which, ip) :: fr) dos) (St tg rd er d' ((which, ip + 2) :: fr) dos).
Proof. exact if_then_spec_proof. Qed.
Print Assumptions if_then_spec.

Theorem if_underflow : forall (p : prog) (e : env) (t : Z) (tg : list Z) (rd : bool) (er : Z) (d : data) (which ip : Z) (fr : list (Z * Z)) 
  (dos : list (Z * Z * Z)) (c : Z),
  code p which ip = Some c ->
  c = CODE_IF \/ c = CODE_IF_ELSE ->
  free_at dos (zlen fr + 1) = true ->
  t <= zlen fr -> d_stack d = [] -> ends p e t (St tg rd er d ((which, ip) :: fr) dos) (Ok (St tg rd E_underflow d ((which, ip + 1) :: fr) dos)).
Proof. exact if_underflow_proof. Qed.
Print Assumptions if_underflow.

Theorem if_recursion_limit : forall (p : prog) (e : env) (t : Z) (tg : list Z) (rd : bool) (er : Z) (d : data) (v : Z) (s : list Z) (which ip : Z) 
  (fr : list (Z * Z)) (dos : list (Z * Z * Z)) (sg len : Z),
  code p which ip = Some CODE_IF ->
  code p which (ip + 1) = Some (sg + BOUND_DICTIONARY) ->
  seg_len p sg = Some len ->
  free_at dos (zlen fr + 1) = true ->
  t <= zlen fr ->
  d_stack d = v :: s ->
  v <> 0 ->
  zlen fr + 1 = p_rec_max p ->
  ends p e t (St tg rd er d ((which, ip) :: fr) dos) (Ok (St tg rd E_recursion (with_stack d s) ((which, ip + 2) :: fr) dos)).
Proof. exact if_recursion_limit_proof. Qed.
Print Assumptions if_recursion_limit.

(* if..else..then = [CODE_IF_ELSE; s1+66; s2+66]: v<>0 runs s1, v=0 runs s2; both continue at ip+3 *)
Theorem if_else_then_spec : forall (p : prog) (e : env) (t : Z) (tg : list Z) (rd : bool) (er : Z) (d d' : data) (v : Z) (s : list Z) (which ip : Z) 
  (fr : list (Z * Z)) (dos : list (Z * Z * Z)) (s1 s2 : Z),
  code p which ip = Some CODE_IF_ELSE ->
  code p which (ip + 1) = Some (s1 + BOUND_DICTIONARY) ->
  code p which (ip + 2) = Some (s2 + BOUND_DICTIONARY) ->
  free_at dos (zlen fr + 1) = true ->
  t <= zlen fr ->
  zlen fr + 1 <> p_rec_max p ->
  d_stack d = v :: s ->
  seg_goes p e t tg rd er (if v =? 0 then s2 else s1) ((which, ip + 3) :: fr) dos (with_stack d s) d' ->
  goes p e t (St tg rd er d ((which, ip) :: fr) dos) (St tg rd er d' ((which, ip + 3) :: fr) dos).
Proof. exact if_else_then_spec_proof. Qed.
Print Assumptions if_else_then_spec.

Theorem if_else_recursion_limit : forall (p : prog) (e : env) (t : Z) (tg : list Z) (rd : bool) (er : Z) (d : data) (v : Z) (s : list Z) (which ip : Z) 
  (fr : list (Z * Z)) (dos : list (Z * Z * Z)) (s1 s2 len1 len2 : Z),
  code p which ip = Some CODE_IF_ELSE ->
  code p which (ip + 1) = Some (s1 + BOUND_DICTIONARY) ->
  code p which (ip + 2) = Some (s2 + BOUND_DICTIONARY) ->
  seg_len p s1 = Some len1 ->
  seg_len p s2 = Some len2 ->
  free_at dos (zlen fr + 1) = true ->
  t <= zlen fr ->
  zlen fr + 1 = p_rec_max p ->
  d_stack d = v :: s ->
  ends p e t (St tg rd er d ((which, ip) :: fr) dos) (Ok (St tg rd E_recursion (with_stack d s) ((which, ip + 3) :: fr) dos)).
Proof. exact if_else_recursion_limit_proof. Qed.
Print Assumptions if_else_recursion_limit.

(* do..loop / do..+loop with the passes described by the relation do_iter (test stop<=i first) *)
Theorem do_loop_general : forall (p : prog) (e : env) (t : Z) (tg : list Z) (rd : bool) (er : Z) (is_step : bool) (which ip : Z) (fr : list (Z * Z))
  (dos0 : list (Z * Z * Z)) (body stp : Z),
  code p which ip = Some (do_code is_step) ->
  code p which (ip + 1) = Some (body + BOUND_DICTIONARY) ->
  free_at dos0 (zlen fr + 1) = true ->
  t <= zlen fr ->
  forall (d d' : data) (start : Z) (s : list Z),
  d_stack d = start :: stp :: s ->
  zlen dos0 <> p_rec_max p ->
  (start < stp -> zlen fr + 1 <> p_rec_max p) ->
  do_iter is_step
  (fun (i : Z) (a b : data) => seg_goes p e t tg rd er body ((which, ip + 1) :: fr) ((do_mark is_step (zlen fr + 1), stp, i) :: dos0) a b) stp
  start (with_stack d s) d' -> goes p e t (St tg rd er d ((which, ip) :: fr) dos0) (St tg rd er d' ((which, ip + 2) :: fr) dos0).
Proof. exact do_loop_general_proof. Qed.
Print Assumptions do_loop_general.

(* n m do BODY loop: max 0 (n-m) passes with i = m..n-1 (body = function B of index and data, invariant Inv) *)
Theorem do_loop_iterates : forall (p : prog) (e : env) (t : Z) (tg : list Z) (rd : bool) (er which ip : Z) (fr : list (Z * Z)) (dos0 : list (Z * Z * Z)) 
  (body : Z) (B : Z -> data -> data) (Inv : Z -> data -> Prop) (n m : Z) (s : list Z) (d : data),
  code p which ip = Some CODE_DO ->
  code p which (ip + 1) = Some (body + BOUND_DICTIONARY) ->
  free_at dos0 (zlen fr + 1) = true ->
  t <= zlen fr ->
  zlen dos0 <> p_rec_max p ->
  (m < n -> zlen fr + 1 <> p_rec_max p /\ - 2 ^ 63 <= m /\ n < 2 ^ 63) ->
  d_stack d = m :: n :: s ->
  Inv m (with_stack d s) ->
  (forall (i : Z) (di : data),
  m <= i < n ->
  Inv i di -> seg_goes p e t tg rd er body ((which, ip + 1) :: fr) ((zlen fr + 1, n, i) :: dos0) di (B i di) /\ Inv (i + 1) (B i di)) ->
  goes p e t (St tg rd er d ((which, ip) :: fr) dos0)
  (St tg rd er (iter_from B m (Z.to_nat (n - m)) (with_stack d s)) ((which, ip + 2) :: fr) dos0) /\
  Inv (Z.max m n) (iter_from B m (Z.to_nat (n - m)) (with_stack d s)).
Proof. exact do_loop_iterates_proof. Qed.
Print Assumptions do_loop_iterates.

(* stop <= start: no pass at all, for loop and +loop, whatever the step (deviation from Forth-2012 for negative steps) *)
Theorem do_loop_no_iteration : forall (p : prog) (e : env) (t : Z) (tg : list Z) (rd : bool) (er : Z) (is_step : bool) (which ip : Z) (fr : list (Z * Z))
  (dos0 : list (Z * Z * Z)) (body start stp : Z) (s : list Z) (d : data),
  code p which ip = Some (do_code is_step) ->
  code p which (ip + 1) = Some (body + BOUND_DICTIONARY) ->
  free_at dos0 (zlen fr + 1) = true ->
  t <= zlen fr ->
  zlen dos0 <> p_rec_max p ->
  d_stack d = start :: stp :: s ->
  stp <= start -> goes p e t (St tg rd er d ((which, ip) :: fr) dos0) (St tg rd er (with_stack d s) ((which, ip + 2) :: fr) dos0).
Proof. exact do_loop_no_iteration_proof. Qed.
Print Assumptions do_loop_no_iteration.

(* do..+loop exactly as run: function ploop (test stop<=i before every pass, step popped and added with 64-bit wrap) *)
Theorem plus_loop_iterates : forall (p : prog) (e : env) (t : Z) (tg : list Z) (rd : bool) (er which ip : Z) (fr : list (Z * Z)) (dos0 : list (Z * Z * Z)) 
  (body : Z) (B : Z -> data -> data) (Inv : Z -> data -> Prop) (n m : Z) (s : list Z) (d : data) (fuel : nat) (d' : data),
  code p which ip = Some CODE_DO_STEP ->
  code p which (ip + 1) = Some (body + BOUND_DICTIONARY) ->
  free_at dos0 (zlen fr + 1) = true ->
  t <= zlen fr ->
  zlen dos0 <> p_rec_max p ->
  (m < n -> zlen fr + 1 <> p_rec_max p) ->
  d_stack d = m :: n :: s ->
  Inv m (with_stack d s) ->
  (forall (i : Z) (di : data),
  i < n ->
  Inv i di ->
  seg_goes p e t tg rd er body ((which, ip + 1) :: fr) ((- (zlen fr + 1) - 1, n, i) :: dos0) di (B i di) /\
  (forall (v : Z) (s' : list Z), d_stack (B i di) = v :: s' -> Inv (wrap 64 (i + v)) (with_stack (B i di) s'))) ->
  ploop B n m fuel (with_stack d s) = Some d' ->
  goes p e t (St tg rd er d ((which, ip) :: fr) dos0) (St tg rd er d' ((which, ip + 2) :: fr) dos0).
Proof. exact plus_loop_iterates_proof. Qed.
Print Assumptions plus_loop_iterates.

Theorem do_underflow : forall (p : prog) (e : env) (t : Z) (tg : list Z) (rd : bool) (er : Z) (is_step : bool) (which ip : Z) (fr : list (Z * Z))
  (dos0 : list (Z * Z * Z)) (d : data),
  code p which ip = Some (do_code is_step) ->
  free_at dos0 (zlen fr + 1) = true ->
  t <= zlen fr ->
  (length (d_stack d) < 2)%nat -> ends p e t (St tg rd er d ((which, ip) :: fr) dos0) (Ok (St tg rd E_underflow d ((which, ip + 1) :: fr) dos0)).
Proof. exact do_underflow_proof. Qed.
Print Assumptions do_underflow.

Theorem do_recursion_limit : forall (p : prog) (e : env) (t : Z) (tg : list Z) (rd : bool) (er : Z) (is_step : bool) (which ip : Z) (fr : list (Z * Z))
  (dos0 : list (Z * Z * Z)) (d : data) (start stp : Z) (s : list Z),
  code p which ip = Some (do_code is_step) ->
  free_at dos0 (zlen fr + 1) = true ->
  t <= zlen fr ->
  d_stack d = start :: stp :: s ->
  zlen dos0 = p_rec_max p ->
  ends p e t (St tg rd er d ((which, ip) :: fr) dos0) (Ok (St tg rd E_recursion (with_stack d s) ((which, ip + 1) :: fr) dos0)).
Proof. exact do_recursion_limit_proof. Qed.
Print Assumptions do_recursion_limit.

Theorem do_body_recursion_limit : forall (p : prog) (e : env) (t : Z) (tg : list Z) (rd : bool) (er : Z) (is_step : bool) (which ip : Z) (fr : list (Z * Z))
  (dos0 : list (Z * Z * Z)) (body len : Z) (d : data) (start stp : Z) (s : list Z),
  code p which ip = Some (do_code is_step) ->
  code p which (ip + 1) = Some (body + BOUND_DICTIONARY) ->
  seg_len p body = Some len ->
  free_at dos0 (zlen fr + 1) = true ->
  t <= zlen fr ->
  d_stack d = start :: stp :: s ->
  zlen dos0 <> p_rec_max p ->
  start < stp ->
  zlen fr + 1 = p_rec_max p ->
  ends p e t (St tg rd er d ((which, ip) :: fr) dos0)
  (Ok (St tg rd E_recursion (with_stack d s) ((which, ip + 1) :: fr) ((do_mark is_step (zlen fr + 1), stp, start) :: dos0))).
Proof. exact do_body_recursion_limit_proof. Qed.
Print Assumptions do_body_recursion_limit.

Theorem plus_loop_underflow : forall (p : prog) (e : env) (t : Z) (tg : list Z) (rd : bool) (er which ip : Z) (fr : list (Z * Z)) (dos0 : list (Z * Z * Z)) 
  (body : Z) (d d1 : data) (start stp : Z) (s : list Z),
  code p which ip = Some CODE_DO_STEP ->
  code p which (ip + 1) = Some (body + BOUND_DICTIONARY) ->
  free_at dos0 (zlen fr + 1) = true ->
  t <= zlen fr ->
  d_stack d = start :: stp :: s ->
  zlen dos0 <> p_rec_max p ->
  start < stp ->
  zlen fr + 1 <> p_rec_max p ->
  seg_goes p e t tg rd er body ((which, ip + 1) :: fr) ((- (zlen fr + 1) - 1, stp, start) :: dos0) (with_stack d s) d1 ->
  d_stack d1 = [] ->
  ends p e t (St tg rd er d ((which, ip) :: fr) dos0)
  (Ok (St tg rd E_underflow d1 ((which, ip + 1) :: fr) ((- (zlen fr + 1) - 1, stp, start) :: dos0))).
Proof. exact plus_loop_underflow_proof. Qed.
Print Assumptions plus_loop_underflow.

Theorem until_underflow : forall (p : prog) (e : env) (t : Z) (tg : list Z) (rd : bool) (er which ip : Z) (fr : list (Z * Z)) (dos : list (Z * Z * Z)),
  code p which (ip + 1) = Some CODE_UNTIL ->
  free_at dos (zlen fr + 1) = true ->
  t <= zlen fr ->
  forall d : data,
  d_stack d = [] -> ends p e t (St tg rd er d ((which, ip + 1) :: fr) dos) (Ok (St tg rd E_underflow d ((which, ip + 2) :: fr) dos)).
Proof. exact until_underflow_proof. Qed.
Print Assumptions until_underflow.

Theorem begin_until_general : forall (p : prog) (e : env) (t : Z) (tg : list Z) (rd : bool) (er which ip : Z) (fr : list (Z * Z)) (dos : list (Z * Z * Z)) (body : Z),
  code p which ip = Some (body + BOUND_DICTIONARY) ->
  code p which (ip + 1) = Some CODE_UNTIL ->
  free_at dos (zlen fr + 1) = true ->
  t <= zlen fr ->
  forall d d' : data,
  zlen fr + 1 <> p_rec_max p ->
  until_iter (seg_goes p e t tg rd er body ((which, ip + 1) :: fr) dos) d d' ->
  goes p e t (St tg rd er d ((which, ip) :: fr) dos) (St tg rd er d' ((which, ip + 2) :: fr) dos).
Proof. exact begin_until_general_proof. Qed.
Print Assumptions begin_until_general.

(* begin BODY until: function until_loop (body, pop flag, repeat while zero) *)
Theorem begin_until : forall (p : prog) (e : env) (t : Z) (tg : list Z) (rd : bool) (er which ip : Z) (fr : list (Z * Z)) (dos : list (Z * Z * Z)) 
  (body : Z) (B : data -> data) (Inv : data -> Prop) (fuel : nat) (d d' : data),
  code p which ip = Some (body + BOUND_DICTIONARY) ->
  code p which (ip + 1) = Some CODE_UNTIL ->
  free_at dos (zlen fr + 1) = true ->
  t <= zlen fr ->
  zlen fr + 1 <> p_rec_max p ->
  Inv d ->
  (forall di : data,
  Inv di ->
  seg_goes p e t tg rd er body ((which, ip + 1) :: fr) dos di (B di) /\
  (forall s' : list Z, d_stack (B di) = 0 :: s' -> Inv (with_stack (B di) s'))) ->
  until_loop B fuel d = Some d' -> goes p e t (St tg rd er d ((which, ip) :: fr) dos) (St tg rd er d' ((which, ip + 2) :: fr) dos).
Proof. exact begin_until_proof. Qed.
Print Assumptions begin_until.

Theorem while_underflow : forall (p : prog) (e : env) (t : Z) (tg : list Z) (rd : bool) (er which ip : Z) (fr : list (Z * Z)) (dos : list (Z * Z * Z)),
  code p which (ip + 1) = Some CODE_WHILE ->
  free_at dos (zlen fr + 1) = true ->
  t <= zlen fr ->
  forall d : data,
  d_stack d = [] -> ends p e t (St tg rd er d ((which, ip + 1) :: fr) dos) (Ok (St tg rd E_underflow d ((which, ip + 2) :: fr) dos)).
Proof. exact while_underflow_proof. Qed.
Print Assumptions while_underflow.

Theorem begin_while_repeat_general : forall (p : prog) (e : env) (t : Z) (tg : list Z) (rd : bool) (er which ip : Z) (fr : list (Z * Z)) (dos : list (Z * Z * Z)) (pre post : Z),
  code p which ip = Some (pre + BOUND_DICTIONARY) ->
  code p which (ip + 1) = Some CODE_WHILE ->
  code p which (ip + 2) = Some (post + BOUND_DICTIONARY) ->
  free_at dos (zlen fr + 1) = true ->
  t <= zlen fr ->
  zlen fr + 1 <> p_rec_max p ->
  forall d d' : data,
  while_iter (seg_goes p e t tg rd er pre ((which, ip + 1) :: fr) dos) (seg_goes p e t tg rd er post ((which, ip) :: fr) dos) d d' ->
  goes p e t (St tg rd er d ((which, ip) :: fr) dos) (St tg rd er d' ((which, ip + 3) :: fr) dos).
Proof. exact begin_while_repeat_general_proof. Qed.
Print Assumptions begin_while_repeat_general.

(* begin PRE while POST repeat: function while_loop *)
Theorem begin_while_repeat : forall (p : prog) (e : env) (t : Z) (tg : list Z) (rd : bool) (er which ip : Z) (fr : list (Z * Z)) (dos : list (Z * Z * Z)) 
  (pre post : Z) (Pre Post : data -> data) (Inv : data -> Prop) (fuel : nat) (d d' : data),
  code p which ip = Some (pre + BOUND_DICTIONARY) ->
  code p which (ip + 1) = Some CODE_WHILE ->
  code p which (ip + 2) = Some (post + BOUND_DICTIONARY) ->
  free_at dos (zlen fr + 1) = true ->
  t <= zlen fr ->
  zlen fr + 1 <> p_rec_max p ->
  Inv d ->
  (forall di : data,
  Inv di ->
  seg_goes p e t tg rd er pre ((which, ip + 1) :: fr) dos di (Pre di) /\
  (forall (v : Z) (s' : list Z),
  d_stack (Pre di) = v :: s' ->
  v <> 0 ->
  seg_goes p e t tg rd er post ((which, ip) :: fr) dos (with_stack (Pre di) s') (Post (with_stack (Pre di) s')) /\
  Inv (Post (with_stack (Pre di) s')))) ->
  while_loop Pre Post fuel d = Some d' -> goes p e t (St tg rd er d ((which, ip) :: fr) dos) (St tg rd er d' ((which, ip + 3) :: fr) dos).
Proof. exact begin_while_repeat_proof. Qed.
Print Assumptions begin_while_repeat.

Theorem begin_again_pass : forall (p : prog) (e : env) (t : Z) (tg : list Z) (rd : bool) (er which ip : Z) (fr : list (Z * Z)) (dos : list (Z * Z * Z)) (body : Z),
  code p which ip = Some (body + BOUND_DICTIONARY) ->
  code p which (ip + 1) = Some CODE_AGAIN ->
  free_at dos (zlen fr + 1) = true ->
  t <= zlen fr ->
  zlen fr + 1 <> p_rec_max p ->
  forall d d' : data,
  seg_goes p e t tg rd er body ((which, ip + 1) :: fr) dos d d' ->
  goes p e t (St tg rd er d ((which, ip) :: fr) dos) (St tg rd er d' ((which, ip) :: fr) dos).
Proof. exact begin_again_pass_proof. Qed.
Print Assumptions begin_again_pass.

Theorem begin_again_n : forall (p : prog) (e : env) (t : Z) (tg : list Z) (rd : bool) (er which ip : Z) (fr : list (Z * Z)) (dos : list (Z * Z * Z)) (body : Z),
  code p which ip = Some (body + BOUND_DICTIONARY) ->
  code p which (ip + 1) = Some CODE_AGAIN ->
  free_at dos (zlen fr + 1) = true ->
  t <= zlen fr ->
  zlen fr + 1 <> p_rec_max p ->
  forall (B : data -> data) (Inv : nat -> data -> Prop) (n : nat),
  (forall (j : nat) (di : data),
  (j < n)%nat -> Inv j di -> seg_goes p e t tg rd er body ((which, ip + 1) :: fr) dos di (B di) /\ Inv (S j) (B di)) ->
  forall d : data,
  Inv 0%nat d ->
  goes p e t (St tg rd er d ((which, ip) :: fr) dos) (St tg rd er (Nat.iter n B d) ((which, ip) :: fr) dos) /\ Inv n (Nat.iter n B d).
Proof. exact begin_again_n_proof. Qed.
Print Assumptions begin_again_n.

(* begin..again whose body always runs to its end never ends: left only by exit, halt or an error *)
Theorem begin_again_diverges : forall (p : prog) (e : env) (t : Z) (tg : list Z) (rd : bool) (er which ip : Z) (fr : list (Z * Z)) (dos : list (Z * Z * Z)) (body : Z),
  code p which ip = Some (body + BOUND_DICTIONARY) ->
  code p which (ip + 1) = Some CODE_AGAIN ->
  free_at dos (zlen fr + 1) = true ->
  t <= zlen fr ->
  zlen fr + 1 <> p_rec_max p ->
  forall (B : data -> data) (Inv : data -> Prop),
  (forall di : data, Inv di -> seg_goes p e t tg rd er body ((which, ip + 1) :: fr) dos di (B di) /\ Inv (B di)) ->
  forall (f : nat) (d : data), Inv d -> internal_run f true false p e t (St tg rd er d ((which, ip) :: fr) dos) = OutOfFuel.
Proof. exact begin_again_diverges_proof. Qed.
Print Assumptions begin_again_diverges.

(* exit with exitdepth k leaves k+1 frames; the do-stack is cut by drop_dos (known finding when do-loops are active) *)
Theorem exit_spec : forall (p : prog) (e : env) (t : Z) (tg : list Z) (rd : bool) (er : Z) (d : data) (which ip : Z) (fr : list (Z * Z)) 
  (dos : list (Z * Z * Z)) (k : Z) (dos' : list (Z * Z * Z)),
  code p which ip = Some CODE_EXIT ->
  code p which (ip + 1) = Some k ->
  free_at dos (zlen fr + 1) = true ->
  t <= zlen fr ->
  0 <= k <= zlen fr ->
  drop_dos dos (zlen fr + 1 - k) = dos' ->
  free_at dos' (zlen fr - k) = true -> goes p e t (St tg rd er d ((which, ip) :: fr) dos) (St tg rd er d (skipn (Z.to_nat k) fr) dos').
Proof. exact exit_spec_proof. Qed.
Print Assumptions exit_spec.

Theorem halt_spec : forall (p : prog) (e : env) (t : Z) (tg : list Z) (rd : bool) (er : Z) (d : data) (which ip : Z) (fr : list (Z * Z)) (dos : list (Z * Z * Z)),
  code p which ip = Some CODE_HALT ->
  free_at dos (zlen fr + 1) = true ->
  t <= zlen fr ->
  ends p e t (St tg rd er d ((which, ip) :: fr) dos) (Ok (St match rev tg with
  | [] => []
  | x :: _ => [x]
  end false E_user_halt d [] [])).
Proof. exact halt_spec_proof. Qed.
Print Assumptions halt_spec.

(* i j k (n = 0 1 2) push the counter of the n-th do-stack entry from the top *)
Theorem loop_index_spec : forall (p : prog) (e : env) (t : Z) (tg : list Z) (rd : bool) (er : Z) (d : data) (which ip : Z) (fr : list (Z * Z)) 
  (dos : list (Z * Z * Z)) (n : nat) (dd ds i : Z),
  (n < 3)%nat ->
  code p which ip = Some (CODE_I + Z.of_nat n) ->
  free_at dos (zlen fr + 1) = true ->
  t <= zlen fr ->
  nth_error dos n = Some (dd, ds, i) ->
  zlen (d_stack d) <> p_stack_max p ->
  goes p e t (St tg rd er d ((which, ip) :: fr) dos) (St tg rd er (with_stack d (wrap (p_w p) i :: d_stack d)) ((which, ip + 1) :: fr) dos).
Proof. exact loop_index_spec_proof. Qed.
Print Assumptions loop_index_spec.

Theorem loop_index_overflow : forall (p : prog) (e : env) (t : Z) (tg : list Z) (rd : bool) (er : Z) (d : data) (which ip : Z) (fr : list (Z * Z)) 
  (dos : list (Z * Z * Z)) (n : nat),
  (n < 3)%nat ->
  code p which ip = Some (CODE_I + Z.of_nat n) ->
  free_at dos (zlen fr + 1) = true ->
  t <= zlen fr ->
  zlen (d_stack d) = p_stack_max p ->
  ends p e t (St tg rd er d ((which, ip) :: fr) dos) (Ok (St tg rd E_overflow d ((which, ip + 1) :: fr) dos)).
Proof. exact loop_index_overflow_proof. Qed.
Print Assumptions loop_index_overflow.

Theorem loop_index_fault : forall (p : prog) (e : env) (t : Z) (tg : list Z) (rd : bool) (er : Z) (d : data) (which ip : Z) (fr : list (Z * Z)) 
  (dos : list (Z * Z * Z)) (n : nat),
  (n < 3)%nat ->
  code p which ip = Some (CODE_I + Z.of_nat n) ->
  free_at dos (zlen fr + 1) = true ->
  t <= zlen fr ->
  zlen (d_stack d) <> p_stack_max p -> nth_error dos n = None -> ends p e t (St tg rd er d ((which, ip) :: fr) dos) (Fault F_loopindex).
Proof. exact loop_index_fault_proof. Qed.
Print Assumptions loop_index_fault.

Theorem ex_do_loop : compile 64 64 16
  (bytes
  (String.String (Ascii.Ascii true false false false true true false false)
  (String.String (Ascii.Ascii false false false false true true false false)
  (String.String (Ascii.Ascii false false false false false true false false)
  (String.String (Ascii.Ascii false false false false true true false false)
  (String.String (Ascii.Ascii false false false false false true false false)
  (String.String (Ascii.Ascii false false true false false true true false)
  (String.String (Ascii.Ascii true true true true false true true false)
  (String.String (Ascii.Ascii false false false false false true false false)
  (String.String (Ascii.Ascii true false false true false true true false)
  (String.String (Ascii.Ascii false false false false false true false false)
  (String.String (Ascii.Ascii false false true true false true true false)
  (String.String (Ascii.Ascii true true true true false true true false)
  (String.String (Ascii.Ascii true true true true false true true false)
  (String.String (Ascii.Ascii false false false false true true true false) String.EmptyString))))))))))))))) =
  COk p_do /\
  api_begin p_do {| e_inputs := [] |} (init_machine p_do) = Ok begun /\
  ends p_do {| e_inputs := [] |} 0 begun (Ok (finished [9; 8; 7; 6; 5; 4; 3; 2; 1; 0])) /\
  api_run 100 true p_do {| e_inputs := [] |} (init_machine p_do) = Ok (St [] true 0 (d_of [9; 8; 7; 6; 5; 4; 3; 2; 1; 0]) [] []).
Proof. exact ex_do_loop_proof. Qed.
Print Assumptions ex_do_loop.

Theorem ex_nested_do_loops : compile 64 64 16
  (bytes
  (String.String (Ascii.Ascii false true false false true true false false)
  (String.String (Ascii.Ascii false false false false false true false false)
  (String.String (Ascii.Ascii false false false false true true false false)
  (String.String (Ascii.Ascii false false false false false true false false)
  (String.String (Ascii.Ascii false false true false false true true false)
  (String.String (Ascii.Ascii true true true true false true true false)
  (String.String (Ascii.Ascii false false false false false true false false)
  (String.String (Ascii.Ascii true true false false true true false false)
  (String.String (Ascii.Ascii false false false false false true false false)
  (String.String (Ascii.Ascii false false false false true true false false)
  (String.String (Ascii.Ascii false false false false false true false false)
  (String.String (Ascii.Ascii false false true false false true true false)
  (String.String (Ascii.Ascii true true true true false true true false)
  (String.String (Ascii.Ascii false false false false false true false false)
  (String.String (Ascii.Ascii true false false true false true true false)
  (String.String (Ascii.Ascii false false false false false true false false)
  (String.String (Ascii.Ascii false true false true false true true false)
  (String.String (Ascii.Ascii false false false false false true false false)
  (String.String (Ascii.Ascii true true false true false true false false)
  (String.String (Ascii.Ascii false false false false false true false false)
  (String.String (Ascii.Ascii false false true true false true true false)
  (String.String (Ascii.Ascii true true true true false true true false)
  (String.String (Ascii.Ascii true true true true false true true false)
  (String.String
  (Ascii.Ascii false false false false true true true false)
  (String.String
  (Ascii.Ascii false false false false false true false false)
  (String.String
  (Ascii.Ascii false false true true false true true false)
  (String.String
  (Ascii.Ascii true true true true false true true false)
  (String.String
  (Ascii.Ascii true true true true false true true
  false)
  (String.String
  (Ascii.Ascii false false false false true true
  true false) String.EmptyString)))))))))))))))))))))))))))))) =
  COk p_nested /\
  ends p_nested {| e_inputs := [] |} 0 begun (Ok (finished [3; 2; 1; 2; 1; 0])) /\
  api_run 100 true p_nested {| e_inputs := [] |} (init_machine p_nested) = Ok (St [] true 0 (d_of [3; 2; 1; 2; 1; 0]) [] []).
Proof. exact ex_nested_do_loops_proof. Qed.
Print Assumptions ex_nested_do_loops.

Theorem ex_plus_loop : compile 64 64 16
  (bytes
  (String.String (Ascii.Ascii true false false false true true false false)
  (String.String (Ascii.Ascii false false false false true true false false)
  (String.String (Ascii.Ascii false false false false false true false false)
  (String.String (Ascii.Ascii false false false false true true false false)
  (String.String (Ascii.Ascii false false false false false true false false)
  (String.String (Ascii.Ascii false false true false false true true false)
  (String.String (Ascii.Ascii true true true true false true true false)
  (String.String (Ascii.Ascii false false false false false true false false)
  (String.String (Ascii.Ascii true false false true false true true false)
  (String.String (Ascii.Ascii false false false false false true false false)
  (String.String (Ascii.Ascii true true false false true true false false)
  (String.String (Ascii.Ascii false false false false false true false false)
  (String.String (Ascii.Ascii true true false true false true false false)
  (String.String (Ascii.Ascii false false true true false true true false)
  (String.String (Ascii.Ascii true true true true false true true false)
  (String.String (Ascii.Ascii true true true true false true true false)
  (String.String (Ascii.Ascii false false false false true true true false)
  String.EmptyString)))))))))))))))))) = COk p_ploop /\
  ends p_ploop {| e_inputs := [] |} 0 begun (Ok (finished [9; 6; 3; 0])) /\
  api_run 100 true p_ploop {| e_inputs := [] |} (init_machine p_ploop) = Ok (St [] true 0 (d_of [9; 6; 3; 0]) [] []).
Proof. exact ex_plus_loop_proof. Qed.
Print Assumptions ex_plus_loop.

Theorem ex_begin_until : compile 64 64 16
  (bytes
  (String.String (Ascii.Ascii false false false false true true false false)
  (String.String (Ascii.Ascii false false false false false true false false)
  (String.String (Ascii.Ascii false true false false false true true false)
  (String.String (Ascii.Ascii true false true false false true true false)
  (String.String (Ascii.Ascii true true true false false true true false)
  (String.String (Ascii.Ascii true false false true false true true false)
  (String.String (Ascii.Ascii false true true true false true true false)
  (String.String (Ascii.Ascii false false false false false true false false)
  (String.String (Ascii.Ascii true false false false true true false false)
  (String.String (Ascii.Ascii true true false true false true false false)
  (String.String (Ascii.Ascii false false false false false true false false)
  (String.String (Ascii.Ascii false false true false false true true false)
  (String.String (Ascii.Ascii true false true false true true true false)
  (String.String (Ascii.Ascii false false false false true true true false)
  (String.String (Ascii.Ascii false false false false false true false false)
  (String.String (Ascii.Ascii true false true false true true false false)
  (String.String (Ascii.Ascii false false false false false true false false)
  (String.String (Ascii.Ascii true false true true true true false false)
  (String.String (Ascii.Ascii false false false false false true false false)
  (String.String (Ascii.Ascii true false true false true true true false)
  (String.String (Ascii.Ascii false true true true false true true false)
  (String.String (Ascii.Ascii false false true false true true true false)
  (String.String
  (Ascii.Ascii true false false true false true true false)
  (String.String
  (Ascii.Ascii false false true true false true true false)
  String.EmptyString))))))))))))))))))))))))) =
  COk p_until /\
  ends p_until {| e_inputs := [] |} 0 begun (Ok (finished [5])) /\
  api_run 100 true p_until {| e_inputs := [] |} (init_machine p_until) = Ok (St [] true 0 (d_of [5]) [] []).
Proof. exact ex_begin_until_proof. Qed.
Print Assumptions ex_begin_until.

Theorem ex_begin_while_repeat : compile 64 64 16
  (bytes
  (String.String (Ascii.Ascii false false false false true true false false)
  (String.String (Ascii.Ascii false false false false false true false false)
  (String.String (Ascii.Ascii false true false false false true true false)
  (String.String (Ascii.Ascii true false true false false true true false)
  (String.String (Ascii.Ascii true true true false false true true false)
  (String.String (Ascii.Ascii true false false true false true true false)
  (String.String (Ascii.Ascii false true true true false true true false)
  (String.String (Ascii.Ascii false false false false false true false false)
  (String.String (Ascii.Ascii false false true false false true true false)
  (String.String (Ascii.Ascii true false true false true true true false)
  (String.String (Ascii.Ascii false false false false true true true false)
  (String.String (Ascii.Ascii false false false false false true false false)
  (String.String (Ascii.Ascii true false true false true true false false)
  (String.String (Ascii.Ascii false false false false false true false false)
  (String.String (Ascii.Ascii false false true true true true false false)
  (String.String (Ascii.Ascii false false false false false true false false)
  (String.String (Ascii.Ascii true true true false true true true false)
  (String.String (Ascii.Ascii false false false true false true true false)
  (String.String (Ascii.Ascii true false false true false true true false)
  (String.String (Ascii.Ascii false false true true false true true false)
  (String.String (Ascii.Ascii true false true false false true true false)
  (String.String
  (Ascii.Ascii false false false false false true false false)
  (String.String
  (Ascii.Ascii true false false false true true false false)
  (String.String
  (Ascii.Ascii true true false true false true false false)
  (String.String
  (Ascii.Ascii false false false false false true false false)
  (String.String
  (Ascii.Ascii false true false false true true true false)
  (String.String
  (Ascii.Ascii true false true false false true true false)
  (String.String
  (Ascii.Ascii false false false false true true true
  false)
  (String.String
  (Ascii.Ascii true false true false false true true
  false)
  (String.String
  (Ascii.Ascii true false false false false true
  true false)
  (String.String
  (Ascii.Ascii false false true false true
  true true false) String.EmptyString)))))))))))))))))))))))))))))))) =
  COk p_while /\
  ends p_while {| e_inputs := [] |} 0 begun (Ok (finished [5])) /\
  api_run 100 true p_while {| e_inputs := [] |} (init_machine p_while) = Ok (St [] true 0 (d_of [5]) [] []).
Proof. exact ex_begin_while_repeat_proof. Qed.
Print Assumptions ex_begin_while_repeat.

Theorem ex_begin_again_exit : compile 64 64 16
  (bytes
  (String.String (Ascii.Ascii false true false true true true false false)
  (String.String (Ascii.Ascii false false false false false true false false)
  (String.String (Ascii.Ascii false true true false false true true false)
  (String.String (Ascii.Ascii false false false false false true false false)
  (String.String (Ascii.Ascii false false false false true true false false)
  (String.String (Ascii.Ascii false false false false false true false false)
  (String.String (Ascii.Ascii false true false false false true true false)
  (String.String (Ascii.Ascii true false true false false true true false)
  (String.String (Ascii.Ascii true true true false false true true false)
  (String.String (Ascii.Ascii true false false true false true true false)
  (String.String (Ascii.Ascii false true true true false true true false)
  (String.String (Ascii.Ascii false false false false false true false false)
  (String.String (Ascii.Ascii true false false false true true false false)
  (String.String (Ascii.Ascii true true false true false true false false)
  (String.String (Ascii.Ascii false false false false false true false false)
  (String.String (Ascii.Ascii false false true false false true true false)
  (String.String (Ascii.Ascii true false true false true true true false)
  (String.String (Ascii.Ascii false false false false true true true false)
  (String.String (Ascii.Ascii false false false false false true false false)
  (String.String (Ascii.Ascii true false true false true true false false)
  (String.String (Ascii.Ascii false false false false false true false false)
  (String.String (Ascii.Ascii true false true true true true false false)
  (String.String
  (Ascii.Ascii false false false false false true false false)
  (String.String
  (Ascii.Ascii true false false true false true true false)
  (String.String
  (Ascii.Ascii false true true false false true true false)
  (String.String
  (Ascii.Ascii false false false false false true false false)
  (String.String
  (Ascii.Ascii true false true false false true true false)
  (String.String
  (Ascii.Ascii false false false true true true true
  false)
  (String.String
  (Ascii.Ascii true false false true false true true
  false)
  (String.String
  (Ascii.Ascii false false true false true true
  true false)
  (String.String
  (Ascii.Ascii false false false false false
  true false false)
  (String.String
  (Ascii.Ascii false false true false true
  true true false)
  (String.String
  (Ascii.Ascii false false false true
  false true true false)
  (String.String
  (Ascii.Ascii true false true false
  false true true false)
  (String.String
  (Ascii.Ascii false true true
  true false true true false)
  (String.String
  (Ascii.Ascii false false
  false false false true false
  false)
  (String.String
  (Ascii.Ascii true false false
  false false true true false)
  (String.String
  (Ascii.Ascii true true true
  false false true true false)
  (String.String
  (Ascii.Ascii true false false
  false false true true false)
  (String.String
  (Ascii.Ascii true false false
  true false true true false)
  (String.String
  (Ascii.Ascii false true true
  true false true true false)
  (String.String
  (Ascii.Ascii false false
  false false false true false
  false)
  (String.String
  (Ascii.Ascii true true false
  true true true false false)
  (String.String
  (Ascii.Ascii false false
  false false false true false
  false)
  (String.String
  (Ascii.Ascii false true true
  false false true true false)
  (String.String
  (Ascii.Ascii false false
  false false false true false
  false)
  (String.String
  (Ascii.Ascii true false false
  false true true false false)
  (String.String
  (Ascii.Ascii false false
  false false true true false
  false)
  (String.String
  (Ascii.Ascii false false
  false false true true false
  false) String.EmptyString)))))))))))))))))))))))))))))))))))))))))))))))))) =
  COk p_again /\
  ends p_again {| e_inputs := [] |} 0 begun (Ok (finished [100; 5])) /\
  api_run 100 true p_again {| e_inputs := [] |} (init_machine p_again) = Ok (St [] true 0 (d_of [100; 5]) [] []).
Proof. exact ex_begin_again_exit_proof. Qed.
Print Assumptions ex_begin_again_exit.

Theorem ex_if_else_then : forall (v : Z) (s : list Z),
  zlen s < 64 ->
  compile 64 64 16
  (bytes
  (String.String (Ascii.Ascii true false false true false true true false)
  (String.String (Ascii.Ascii false true true false false true true false)
  (String.String (Ascii.Ascii false false false false false true false false)
  (String.String (Ascii.Ascii true false false false true true false false)
  (String.String (Ascii.Ascii false false false false true true false false)
  (String.String (Ascii.Ascii false false false false false true false false)
  (String.String (Ascii.Ascii true false true false false true true false)
  (String.String (Ascii.Ascii false false true true false true true false)
  (String.String (Ascii.Ascii true true false false true true true false)
  (String.String (Ascii.Ascii true false true false false true true false)
  (String.String (Ascii.Ascii false false false false false true false false)
  (String.String (Ascii.Ascii false true false false true true false false)
  (String.String (Ascii.Ascii false false false false true true false false)
  (String.String (Ascii.Ascii false false false false false true false false)
  (String.String (Ascii.Ascii false false true false true true true false)
  (String.String (Ascii.Ascii false false false true false true true false)
  (String.String (Ascii.Ascii true false true false false true true false)
  (String.String (Ascii.Ascii false true true true false true true false)
  String.EmptyString))))))))))))))))))) = COk p_ifelse /\
  ends p_ifelse {| e_inputs := [] |} 0 (St [0] true 0 (d_of (v :: s)) [(0, 0)] []) (Ok (finished ((if v =? 0 then 20 else 10) :: s))).
Proof. exact ex_if_else_then_proof. Qed.
Print Assumptions ex_if_else_then.

Theorem ex_if_then : forall (v : Z) (s : list Z),
  zlen s < 64 ->
  compile 64 64 16
  (bytes
  (String.String (Ascii.Ascii true false false true false true true false)
  (String.String (Ascii.Ascii false true true false false true true false)
  (String.String (Ascii.Ascii false false false false false true false false)
  (String.String (Ascii.Ascii true false false false true true false false)
  (String.String (Ascii.Ascii false false false false true true false false)
  (String.String (Ascii.Ascii false false false false false true false false)
  (String.String (Ascii.Ascii false false true false true true true false)
  (String.String (Ascii.Ascii false false false true false true true false)
  (String.String (Ascii.Ascii true false true false false true true false)
  (String.String (Ascii.Ascii false true true true false true true false) String.EmptyString))))))))))) =
  COk p_ifthen /\
  ends p_ifthen {| e_inputs := [] |} 0 (St [0] true 0 (d_of (v :: s)) [(0, 0)] []) (Ok (finished (if v =? 0 then s else 10 :: s))).
Proof. exact ex_if_then_proof. Qed.
Print Assumptions ex_if_then.

Theorem ex_if_errors : ends p_ifthen {| e_inputs := [] |} 0 (St [0] true 0 (d_of []) [(0, 0)] []) (Ok (St [0] true E_underflow (d_of []) [(0, 1)] [])) /\
  api_run 100 true p_ifthen {| e_inputs := [] |} (init_machine p_ifthen) = Ok (St [0] true E_underflow (d_of []) [(0, 1)] []) /\
  (let p1 :=
  {|
  p_w := 64; p_segs := [[0; 1; 3; 67]; [0; 10]]; p_words := []; p_vars := []; p_ins := []; p_outs := []; p_stack_max := 64; p_rec_max := 1
  |} in
  compile 64 64 1
  (bytes
  (String.String (Ascii.Ascii true false false false true true false false)
  (String.String (Ascii.Ascii false false false false false true false false)
  (String.String (Ascii.Ascii true false false true false true true false)
  (String.String (Ascii.Ascii false true true false false true true false)
  (String.String (Ascii.Ascii false false false false false true false false)
  (String.String (Ascii.Ascii true false false false true true false false)
  (String.String (Ascii.Ascii false false false false true true false false)
  (String.String (Ascii.Ascii false false false false false true false false)
  (String.String (Ascii.Ascii false false true false true true true false)
  (String.String (Ascii.Ascii false false false true false true true false)
  (String.String (Ascii.Ascii true false true false false true true false)
  (String.String (Ascii.Ascii false true true true false true true false) String.EmptyString))))))))))))) =
  COk p1 /\
  ends p1 {| e_inputs := [] |} 0 (St [0] true 0 (d_of [1]) [(0, 2)] []) (Ok (St [0] true E_recursion (d_of []) [(0, 4)] [])) /\
  api_run 100 true p1 {| e_inputs := [] |} (init_machine p1) = Ok (St [0] true E_recursion (d_of []) [(0, 4)] [])).
Proof. exact ex_if_errors_proof. Qed.
Print Assumptions ex_if_errors.

Theorem ex_i_j_k : forall (a b c : Z) (s : list Z),
  zlen s < 60 ->
  goes p_ijk {| e_inputs := [] |} 0 (St [0] true 0 (d_of s) [(0, 0); (9, 9)] [(5, 100, a); (4, 100, b); (3, 100, c)])
  (St [0] true 0 (d_of (wrap 64 c :: wrap 64 b :: wrap 64 a :: s)) [(0, 3); (9, 9)] [(5, 100, a); (4, 100, b); (3, 100, c)]).
Proof. exact ex_i_j_k_proof. Qed.
Print Assumptions ex_i_j_k.

Theorem ex_do_errors : let p :=
  {| p_w := 64; p_segs := [[0; 1; 5; 67]; [29]]; p_words := []; p_vars := []; p_ins := []; p_outs := []; p_stack_max := 64; p_rec_max := 16 |}
  in
  compile 64 64 16
  (bytes
  (String.String (Ascii.Ascii true false false false true true false false)
  (String.String (Ascii.Ascii false false false false false true false false)
  (String.String (Ascii.Ascii false false true false false true true false)
  (String.String (Ascii.Ascii true true true true false true true false)
  (String.String (Ascii.Ascii false false false false false true false false)
  (String.String (Ascii.Ascii true false false true false true true false)
  (String.String (Ascii.Ascii false false false false false true false false)
  (String.String (Ascii.Ascii false false true true false true true false)
  (String.String (Ascii.Ascii true true true true false true true false)
  (String.String (Ascii.Ascii true true true true false true true false)
  (String.String (Ascii.Ascii false false false false true true true false) String.EmptyString)))))))))))) =
  COk p /\
  ends p {| e_inputs := [] |} 0 (St [0] true 0 (d_of [1]) [(0, 2)] []) (Ok (St [0] true E_underflow (d_of [1]) [(0, 3)] [])) /\
  api_run 100 true p {| e_inputs := [] |} (init_machine p) = Ok (St [0] true E_underflow (d_of [1]) [(0, 3)] []) /\
  (let q :=
  {|
  p_w := 64;
  p_segs := [[0; 2; 0; 0; 5; 67]; [0; 2; 0; 0; 5; 68]; [29]];
  p_words := [];
  p_vars := [];
  p_ins := [];
  p_outs := [];
  p_stack_max := 64;
  p_rec_max := 1
  |} in
  ends q {| e_inputs := [] |} 0 (St [0] true 0 (d_of [0; 2]) [(1, 4); (0, 5)] [(1, 2, 0)])
  (Ok (St [0] true E_recursion (d_of []) [(1, 5); (0, 5)] [(1, 2, 0)]))).
Proof. exact ex_do_errors_proof. Qed.
Print Assumptions ex_do_errors.

(* REFUTED (standard Forth): 0 10 do i -1 +loop leaves nothing (Forth-2012: 10 9 .. 0) *)
Theorem plus_loop_negative_step_refuted : compile 64 64 16
  (bytes
  (String.String (Ascii.Ascii false false false false true true false false)
  (String.String (Ascii.Ascii false false false false false true false false)
  (String.String (Ascii.Ascii true false false false true true false false)
  (String.String (Ascii.Ascii false false false false true true false false)
  (String.String (Ascii.Ascii false false false false false true false false)
  (String.String (Ascii.Ascii false false true false false true true false)
  (String.String (Ascii.Ascii true true true true false true true false)
  (String.String (Ascii.Ascii false false false false false true false false)
  (String.String (Ascii.Ascii true false false true false true true false)
  (String.String (Ascii.Ascii false false false false false true false false)
  (String.String (Ascii.Ascii true false true true false true false false)
  (String.String (Ascii.Ascii true false false false true true false false)
  (String.String (Ascii.Ascii false false false false false true false false)
  (String.String (Ascii.Ascii true true false true false true false false)
  (String.String (Ascii.Ascii false false true true false true true false)
  (String.String (Ascii.Ascii true true true true false true true false)
  (String.String (Ascii.Ascii true true true true false true true false)
  (String.String (Ascii.Ascii false false false false true true true false)
  String.EmptyString))))))))))))))))))) = COk p_negstep /\
  ends p_negstep {| e_inputs := [] |} 0 begun (Ok (finished [])) /\
  (exists mf : machine,
  api_run 100 true p_negstep {| e_inputs := [] |} (init_machine p_negstep) = Ok mf /\
  m_err mf = E_none /\ m_stack mf = [] /\ m_stack mf <> [0; 1; 2; 3; 4; 5; 6; 7; 8; 9; 10]).
Proof. exact plus_loop_negative_step_refuted_proof. Qed.
Print Assumptions plus_loop_negative_step_refuted.

Theorem plus_loop_negative_step_runs_away : let p :=
  {|
  p_w := 64;
  p_segs := [[0; 10; 0; 0; 6; 67]; [29; 0; -1]];
  p_words := [];
  p_vars := [];
  p_ins := [];
  p_outs := [];
  p_stack_max := 8;
  p_rec_max := 16
  |} in
  compile 64 8 16
  (bytes
  (String.String (Ascii.Ascii true false false false true true false false)
  (String.String (Ascii.Ascii false false false false true true false false)
  (String.String (Ascii.Ascii false false false false false true false false)
  (String.String (Ascii.Ascii false false false false true true false false)
  (String.String (Ascii.Ascii false false false false false true false false)
  (String.String (Ascii.Ascii false false true false false true true false)
  (String.String (Ascii.Ascii true true true true false true true false)
  (String.String (Ascii.Ascii false false false false false true false false)
  (String.String (Ascii.Ascii true false false true false true true false)
  (String.String (Ascii.Ascii false false false false false true false false)
  (String.String (Ascii.Ascii true false true true false true false false)
  (String.String (Ascii.Ascii true false false false true true false false)
  (String.String (Ascii.Ascii false false false false false true false false)
  (String.String (Ascii.Ascii true true false true false true false false)
  (String.String (Ascii.Ascii false false true true false true true false)
  (String.String (Ascii.Ascii true true true true false true true false)
  (String.String (Ascii.Ascii true true true true false true true false)
  (String.String (Ascii.Ascii false false false false true true true false)
  String.EmptyString))))))))))))))))))) = COk p /\
  (exists mf : machine,
  api_run 1000 true p {| e_inputs := [] |} (init_machine p) = Ok mf /\
  m_err mf = E_overflow /\ m_stack mf = [-7; -6; -5; -4; -3; -2; -1; 0] /\ m_dos mf = [(-2, 10, -7)]).
Proof. exact plus_loop_negative_step_runs_away_proof. Qed.
Print Assumptions plus_loop_negative_step_runs_away.

Theorem do_loop_empty_range : let p :=
  {|
  p_w := 64;
  p_segs := [[0; 5; 0; 5; 5; 67]; [29]];
  p_words := [];
  p_vars := [];
  p_ins := [];
  p_outs := [];
  p_stack_max := 64;
  p_rec_max := 16
  |} in
  compile 64 64 16
  (bytes
  (String.String (Ascii.Ascii true false true false true true false false)
  (String.String (Ascii.Ascii false false false false false true false false)
  (String.String (Ascii.Ascii true false true false true true false false)
  (String.String (Ascii.Ascii false false false false false true false false)
  (String.String (Ascii.Ascii false false true false false true true false)
  (String.String (Ascii.Ascii true true true true false true true false)
  (String.String (Ascii.Ascii false false false false false true false false)
  (String.String (Ascii.Ascii true false false true false true true false)
  (String.String (Ascii.Ascii false false false false false true false false)
  (String.String (Ascii.Ascii false false true true false true true false)
  (String.String (Ascii.Ascii true true true true false true true false)
  (String.String (Ascii.Ascii true true true true false true true false)
  (String.String (Ascii.Ascii false false false false true true true false) String.EmptyString)))))))))))))) =
  COk p /\
  ends p {| e_inputs := [] |} 0 begun (Ok (finished [])) /\
  api_run 100 true p {| e_inputs := [] |} (init_machine p) = Ok (St [] true 0 (d_of []) [] []).
Proof. exact do_loop_empty_range_proof. Qed.
Print Assumptions do_loop_empty_range.

(* ---- typed reads (agent c19b-reads, Proofs_C19_Reads) *)
From AwkForth Require Import Proofs_C19_Reads.

(* ---- C19 part 3: the read instruction (exec_read).  Requires: From AwkForth Require Import Forth Proofs_C19 Proofs_C19_Reads.
   Vocabulary (Proofs_C19_Reads): read_bc fmt be rep dir = the bytecode ~(fmt + READ_BIGENDIAN? + READ_REPEATED? + READ_DIRECT?);
   pop_count rep m = Some (n, s): the repetition count n (1 when not repeated) and the stack s left after popping it;
   after m0 stack inpos outs frames err = m0 with these five components replaced (variables, do-stack, targets, ready kept);
   updated l l' i v = l' is l with position i replaced by v (determines l', read_updated_unique);
   groups data pos size n = the n slices of `size` bytes at pos, pos+size, ... (read_groups_nth);
   doc_decode size signed bigendian bs = sum byte_k*256^k (le_sum 0) or sum byte_k*256^(size-1-k) (be_sum), reinterpreted
   in two's complement at 8*size bits (twos) when signed. *)

(* the model's decode is the documented decoding, for every group of `size` bytes *)
Theorem read_decode_spec : forall size signed bigendian bs, 0 < size -> zlen bs = size -> bytes_ok bs ->
  decode size signed bigendian bs = doc_decode size signed bigendian bs.
Proof. exact decode_spec_proof. Qed.
Print Assumptions read_decode_spec.

Theorem read_groups_nth : forall data pos size n k, 0 <= k < n ->
  znth (groups data pos size n) k = Some (slice data (pos + k * size) size).
Proof. exact groups_nth. Qed.
Print Assumptions read_groups_nth.

Theorem read_updated_unique : forall A (l l1 l2 : list A) i v, updated l l1 i v -> updated l l2 i v -> l1 = l2.
Proof. exact updated_unique. Qed.
Print Assumptions read_updated_unique.

(* fixed-width formats (every row of fixed_format: ?-> b-> h-> i-> q-> n-> B-> H-> I-> Q-> N->), both byte orders,
   single and repeated, to the stack: the n values are pushed in reading order, wrapped to the cell width; the position of
   this input advances by n*size; nothing else changes except ip (+1, over the input number).  When the stack has room for
   fewer than n cells exactly `room` values are pushed and the machine stops with stack_overflow — the input position has
   nevertheless advanced over all n items. *)
Theorem read_fixed_to_stack :
  forall p e m0 which ip fr seg inp fmt size signed be rep n s data pos,
  m_frames m0 = (which, ip) :: fr -> znth (p_segs p) which = Some seg -> znth seg ip = Some inp ->
  fixed_format fmt = Some (size, signed) -> pop_count rep m0 = Some (n, s) -> 0 <= n ->
  znth (e_inputs e) inp = Some data -> znth (m_inpos m0) inp = Some pos -> 0 <= pos -> bytes_ok data ->
  n * size < 2 ^ 63 -> pos + n * size <= zlen data -> zlen s <= p_stack_max p ->
  exists inpos', updated (m_inpos m0) inpos' inp (pos + n * size) /\
    let vals := map (fun g => wrap (p_w p) (doc_decode size signed be g)) (groups data pos size n) in
    let room := p_stack_max p - zlen s in
    exec_read p e m0 (read_bc fmt be rep false) =
      if n <=? room then Ok (Continue, after m0 (rev vals ++ s) inpos' (m_outs m0) ((which, ip + 1) :: fr) (m_err m0))
      else Ok (Return, after m0 (rev (firstn (Z.to_nat room) vals) ++ s) inpos' (m_outs m0) ((which, ip + 1) :: fr) E_overflow).
Proof. exact read_fixed_to_stack_proof. Qed.
Print Assumptions read_fixed_to_stack.

(* the same, directly to output o of dtype d: the converted values are appended (outputs are most-recent-first lists);
   out_conv is (OUT)value = cast_out d, except that a bool item copied into a bool output keeps its byte (read_out_conv_cast) *)
Theorem read_fixed_direct :
  forall p e m0 which ip fr seg inp fmt size signed be rep n s data pos o d b,
  m_frames m0 = (which, ip) :: fr -> znth (p_segs p) which = Some seg -> znth seg ip = Some inp ->
  fixed_format fmt = Some (size, signed) -> pop_count rep m0 = Some (n, s) -> 0 <= n ->
  znth (e_inputs e) inp = Some data -> znth (m_inpos m0) inp = Some pos -> 0 <= pos -> bytes_ok data ->
  znth seg (ip + 1) = Some o -> out_dtype p o = Some d -> znth (m_outs m0) o = Some b ->
  n * size < 2 ^ 63 -> pos + n * size <= zlen data ->
  exists inpos' outs', updated (m_inpos m0) inpos' inp (pos + n * size) /\
    updated (m_outs m0) outs' o
            (rev (map (fun g => out_conv fmt d (doc_decode size signed be g)) (groups data pos size n)) ++ b) /\
    exec_read p e m0 (read_bc fmt be rep true) = Ok (Continue, after m0 s inpos' outs' ((which, ip + 2) :: fr) (m_err m0)).
Proof. exact read_fixed_direct_proof. Qed.
Print Assumptions read_fixed_direct.

Theorem read_out_conv_cast : forall fmt d v, (fmt <> READ_BOOL \/ d <> DBool \/ v = 0 \/ v = 1) -> out_conv fmt d v = cast_out d v.
Proof. exact out_conv_cast. Qed.
Print Assumptions read_out_conv_cast.

(* read beyond the end of the input: read_beyond, NOTHING consumed or written; the repetition count stays popped and ip
   has moved over the argument cells *)
Theorem read_fixed_beyond :
  forall p e m0 which ip fr seg inp fmt size signed be rep n s data pos dir o,
  m_frames m0 = (which, ip) :: fr -> znth (p_segs p) which = Some seg -> znth seg ip = Some inp ->
  fixed_format fmt = Some (size, signed) -> pop_count rep m0 = Some (n, s) -> 0 <= n ->
  znth (e_inputs e) inp = Some data -> znth (m_inpos m0) inp = Some pos ->
  (dir = true -> znth seg (ip + 1) = Some o) ->
  n * size < 2 ^ 63 -> zlen data < pos + n * size ->
  exec_read p e m0 (read_bc fmt be rep dir) =
  Ok (Return, after m0 s (m_inpos m0) (m_outs m0) ((which, ip + (if dir then 2 else 1)) :: fr) E_read_beyond).
Proof. exact read_fixed_beyond_proof. Qed.
Print Assumptions read_fixed_beyond.

(* EXCLUSION of the three theorems above: a byte count n*size of 2^63 or more overflows int64 in the C++ (undefined
   behaviour); the model reports it as the fault F_count *)
Theorem read_fixed_count_fault :
  forall p e m0 which ip fr seg inp fmt size signed be rep n s data pos dir o,
  m_frames m0 = (which, ip) :: fr -> znth (p_segs p) which = Some seg -> znth seg ip = Some inp ->
  fixed_format fmt = Some (size, signed) -> pop_count rep m0 = Some (n, s) -> 0 <= n ->
  znth (e_inputs e) inp = Some data -> znth (m_inpos m0) inp = Some pos ->
  (dir = true -> znth seg (ip + 1) = Some o) ->
  2 ^ 63 <= n * size -> exec_read p e m0 (read_bc fmt be rep dir) = Fault F_count.
Proof. exact read_fixed_count_fault_proof. Qed.
Print Assumptions read_fixed_count_fault.

(* any repeated read (every format, also varint / zigzag / Nbit): empty stack = stack_underflow; a negative count is
   refused with read_beyond (the count is popped; ip is only past the input number) *)
Theorem read_underflow : forall p e m0 which ip fr seg inp,
  m_frames m0 = (which, ip) :: fr -> znth (p_segs p) which = Some seg -> znth seg ip = Some inp ->
  forall bc, Z.land (- bc - 1) READ_REPEATED <> 0 -> m_stack m0 = [] ->
  exec_read p e m0 bc = Ok (Return, after m0 [] (m_inpos m0) (m_outs m0) ((which, ip + 1) :: fr) E_underflow).
Proof. exact read_underflow_proof. Qed.
Print Assumptions read_underflow.

Theorem read_negative_count : forall p e m0 which ip fr seg inp,
  m_frames m0 = (which, ip) :: fr -> znth (p_segs p) which = Some seg -> znth seg ip = Some inp ->
  forall bc n s, Z.land (- bc - 1) READ_REPEATED <> 0 -> m_stack m0 = n :: s -> n < 0 ->
  exec_read p e m0 bc = Ok (Return, after m0 s (m_inpos m0) (m_outs m0) ((which, ip + 1) :: fr) E_read_beyond).
Proof. exact read_negative_count_proof. Qed.
Print Assumptions read_negative_count.

(* zigzag: (r >> 1) ^ -(r & 1) is the documented map even r -> r/2, odd r -> -(r+1)/2 *)
Theorem read_zigzag_spec : forall r, zigzag r = zigzag_doc r.
Proof. exact zigzag_spec_proof. Qed.
Print Assumptions read_zigzag_spec.

(* varint-> / zigzag-> (varint_fmt zz): varints_doc n bytes = (raw values in reading order, bytes consumed, E_none or the
   error that ended the sequence), built from varint_head (leading bytes >= 128 closed by a byte < 128, value
   sum (byte_k mod 128)*128^k, at most 9 bytes, varint_too_big at the 10th, read_beyond when the input ends inside an item).
   On an error the items decoded before it ARE delivered and the bytes read so far ARE consumed. *)
Theorem read_varint_direct :
  forall p e m0 which ip fr seg inp zz be rep n s data pos o d b,
  m_frames m0 = (which, ip) :: fr -> znth (p_segs p) which = Some seg -> znth seg ip = Some inp ->
  pop_count rep m0 = Some (n, s) -> 0 <= n ->
  znth (e_inputs e) inp = Some data -> znth (m_inpos m0) inp = Some pos -> 0 <= pos <= zlen data -> bytes_ok data ->
  znth seg (ip + 1) = Some o -> out_dtype p o = Some d -> znth (m_outs m0) o = Some b ->
  let r := varints_doc (Z.to_nat n) (skipn (Z.to_nat pos) data) in
  exists inpos' outs', updated (m_inpos m0) inpos' inp (pos + vd_used r) /\
    updated (m_outs m0) outs' o (rev (map (varint_out_value p zz d) (vd_vals r)) ++ b) /\
    exec_read p e m0 (read_bc (varint_fmt zz) be rep true) =
      if vd_err r =? E_none then Ok (Continue, after m0 s inpos' outs' ((which, ip + 2) :: fr) (m_err m0))
      else Ok (Return, after m0 s inpos' outs' ((which, ip + 2) :: fr) (vd_err r)).
Proof. exact read_varint_direct_proof. Qed.
Print Assumptions read_varint_direct.

(* to the stack, when there is room for n cells *)
Theorem read_varint_to_stack :
  forall p e m0 which ip fr seg inp zz be rep n s data pos,
  m_frames m0 = (which, ip) :: fr -> znth (p_segs p) which = Some seg -> znth seg ip = Some inp ->
  pop_count rep m0 = Some (n, s) -> 0 <= n ->
  znth (e_inputs e) inp = Some data -> znth (m_inpos m0) inp = Some pos -> 0 <= pos <= zlen data -> bytes_ok data ->
  zlen s + n <= p_stack_max p ->
  let r := varints_doc (Z.to_nat n) (skipn (Z.to_nat pos) data) in
  exists inpos', updated (m_inpos m0) inpos' inp (pos + vd_used r) /\
    let stack := rev (map (varint_stack_value p zz) (vd_vals r)) ++ s in
    exec_read p e m0 (read_bc (varint_fmt zz) be rep false) =
      if vd_err r =? E_none then Ok (Continue, after m0 stack inpos' (m_outs m0) ((which, ip + 1) :: fr) (m_err m0))
      else Ok (Return, after m0 stack inpos' (m_outs m0) ((which, ip + 1) :: fr) (vd_err r)).
Proof. exact read_varint_to_stack_proof. Qed.
Print Assumptions read_varint_to_stack.

(* a full stack: the item is decoded first — its bytes are consumed — then stack_overflow, nothing pushed *)
Theorem read_varint_overflow :
  forall p e m0 which ip fr seg inp zz be rep n s data pos v u,
  m_frames m0 = (which, ip) :: fr -> znth (p_segs p) which = Some seg -> znth seg ip = Some inp ->
  pop_count rep m0 = Some (n, s) -> 1 <= n ->
  znth (e_inputs e) inp = Some data -> znth (m_inpos m0) inp = Some pos -> 0 <= pos <= zlen data -> bytes_ok data ->
  zlen s = p_stack_max p -> varint_head (skipn (Z.to_nat pos) data) = VOk v u ->
  exists inpos', updated (m_inpos m0) inpos' inp (pos + u) /\
    exec_read p e m0 (read_bc (varint_fmt zz) be rep false) =
      Ok (Return, after m0 s inpos' (m_outs m0) ((which, ip + 1) :: fr) E_overflow).
Proof. exact read_varint_overflow_proof. Qed.
Print Assumptions read_varint_overflow.

(* Nbit-> (argument cells: input, bit width, [output]): widths outside 1..31 are undefined behaviour in the C++ (F_nbit);
   a zero count reads nothing; an exhausted input is read_beyond with nothing consumed.  (The values delivered by a
   successful N-bit read are NOT specified here: see read_nbit_example for a run.) *)
Theorem read_nbit_edges_partial :
  forall p e m0 which ip fr seg inp be rep dir n s bw o data pos,
  m_frames m0 = (which, ip) :: fr -> znth (p_segs p) which = Some seg -> znth seg ip = Some inp ->
  znth seg (ip + 1) = Some bw -> (dir = true -> znth seg (ip + 2) = Some o) ->
  pop_count rep m0 = Some (n, s) -> 0 <= n ->
  let F := (which, ip + (if dir then 3 else 2)) :: fr in
  (bw < 1 \/ 31 < bw -> exec_read p e m0 (read_bc READ_NBIT be rep dir) = Fault F_nbit) /\
  (1 <= bw <= 31 -> n = 0 ->
   exec_read p e m0 (read_bc READ_NBIT be rep dir) = Ok (Continue, after m0 s (m_inpos m0) (m_outs m0) F (m_err m0))) /\
  (1 <= bw <= 31 -> 1 <= n -> znth (e_inputs e) inp = Some data -> znth (m_inpos m0) inp = Some pos -> zlen data <= pos ->
   exec_read p e m0 (read_bc READ_NBIT be rep dir) = Ok (Return, after m0 s (m_inpos m0) (m_outs m0) F E_read_beyond)).
Proof. exact read_nbit_edges_proof. Qed.
Print Assumptions read_nbit_edges_partial.

(* the compiler: every word of input_parser_words (reader_table lists them in order with format / big-endian / repeated;
   the float words are CUnsupported) is compiled to read_bc of its row; Nbit words carry the width *)
Theorem read_parse_reader_table :
  map fst reader_table = input_parser_words /\ Forall reader_row_ok reader_table /\ nbit_words_ok.
Proof. exact parse_reader_table_proof. Qed.
Print Assumptions read_parse_reader_table.
