(** C14 — property theorems (statements only; proofs in Proofs_C14.v). *)
From Coq Require Import ZArith List.
From AwkV Require Import Base Layout.
From AwkBuilder Require Import Builder Spec GbLemmas Invariant Same Phys PhysSeq Growth Proofs_C14.
From AwkBuilder Require Import RecInv Proofs_C14b.
Import ListNotations.
Open Scope Z_scope.

Theorem builder_roundtrip_partial :
  forall o vs, good_opts o -> forallb no_struct vs = true ->
  exists b, run o ab_init (encode_all vs) = Ok b /\ observe b = Ok (unify vs).
Proof. exact Proofs_C14.builder_roundtrip_partial. Qed.
Print Assumptions builder_roundtrip_partial.

Theorem snapshot_stable_values :
  forall o cs1 cs2,
  exists later, fst (run_session o ab_init 0 (cs1 ++ cs2)) = fst (run_session o ab_init 0 cs1) ++ later.
Proof. exact Proofs_C14.snapshot_stable_values. Qed.
Print Assumptions snapshot_stable_values.

(* the same in the form the correspondence runs it: the from_iter commands followed by a snapshot give no error
   event and exactly one snapshot, of length |vs|, whose to_list is the specification *)
Theorem from_iter_session :
  forall o vs, good_opts o -> forallb no_struct vs = true ->
  exists c, fst (run_session o ab_init 0 (map SC (encode_all vs) ++ [SSnapshot]))
            = [EvSnap (length (encode_all vs)) (zlen vs) (Ok c)] /\ to_list c = Ok (unify vs).
Proof. exact Proofs_C14.from_iter_session. Qed.
Print Assumptions from_iter_session.

(* physical half: [bufs] = the GrowableBuffers a state holds (a snapshot shares exactly these), [gid] = allocation
   identity, [prun] = a session with the fresh allocations of every command numbered *)
Theorem snapshot_immutable :
  forall o cs1 cs2,
  let st1 := prun o pinit cs1 in
  let st2 := prun o st1 cs2 in
  forall g g', In g (bufs (fst st1)) -> In g' (bufs (fst st2)) -> gid g' = gid g ->
    glen g <= glen g' /\ take (glen g) (gdata g') = gb_list g.
Proof. exact PhysSeq.snapshot_immutable. Qed.
Print Assumptions snapshot_immutable.

Theorem equal_states_equal_snapshots :
  forall b1 b2, same b1 b2 -> snapshot b1 = snapshot b2.
Proof. exact Proofs_C14.equal_states_equal_snapshots. Qed.
Print Assumptions equal_states_equal_snapshots.

Theorem ill_nested_errors :
  forall o,
  (forall b c, active b = false -> closing_or_inner c -> ab_step o b c = (b, Some EValue)) /\
  (forall K offs ct c, active ct = false -> wrong_closer c ->
     ab_step o (plug K (BList offs ct true)) c = (plug K (BList offs ct true), Some EValue)) /\
  (forall cs len i, i < 0 \/ zlen cs <= i ->
     ab_step o (BTuple cs len true (-1)) (CIndex i) = (BTuple cs len true (-1), Some EValue)) /\
  (forall cs len c, starts_value c ->
     ab_step o (BTuple cs len true (-1)) c = (BTuple cs len true (-1), Some EValue)) /\
  (forall cs keys rn nullp len ntt c, starts_value c ->
     ab_step o (BRecord cs keys rn nullp len true (-1) ntt) c = (BRecord cs keys rn nullp len true (-1) ntt, Some EValue)).
Proof. exact Proofs_C14.ill_nested_errors. Qed.
Print Assumptions ill_nested_errors.

(* ALL sessions (well- or ill-nested, records, tuples, unions, clear, snapshots): the observable events do not depend
   on the initial capacity, the resize policy, or the contents of uninitialised memory *)
Theorem growth_irrelevant :
  forall o1 o2, good_opts o1 -> good_opts o2 ->
  forall cs, fst (run_session o1 ab_init 0 cs) = fst (run_session o2 ab_init 0 cs).
Proof. exact Growth.growth_irrelevant. Qed.
Print Assumptions growth_irrelevant.

(* ------------------------------------------------------------------ the FULL round trip (Proofs_C14b.v)
   every well-formed value list (Spec.pywf: the keys of one dict are distinct): tuples of any arity, records with any
   field sets / orders / names, arbitrarily nested and heterogeneous (unions), None anywhere.  (On the pinned tree an
   unnamed record followed by a record named "" broke it; repaired in /repo by 75cafad, the model follows.) *)
Theorem builder_roundtrip :
  forall o vs, good_opts o -> forallb pywf vs = true ->
  exists b, run o ab_init (encode_all vs) = Ok b /\ observe b = Ok (unify vs).
Proof. exact Proofs_C14b.builder_roundtrip. Qed.
Print Assumptions builder_roundtrip.

(* the session form, as the correspondence runs it *)
Theorem from_iter_session_full :
  forall o vs, good_opts o -> forallb pywf vs = true ->
  exists c, fst (run_session o ab_init 0 (map SC (encode_all vs) ++ [SSnapshot]))
            = [EvSnap (length (encode_all vs)) (zlen vs) (Ok c)] /\ to_list c = Ok (unify vs).
Proof. exact Proofs_C14b.from_iter_session_full. Qed.
Print Assumptions from_iter_session_full.

(* stage corollaries: record/tuple-free values and tuples (any arities) with record/tuple-free slots *)
Theorem builder_roundtrip_tuples_partial :
  forall o vs, good_opts o -> forallb tuple_flat vs = true ->
  exists b, run o ab_init (encode_all vs) = Ok b /\ observe b = Ok (unify vs).
Proof. exact Proofs_C14b.builder_roundtrip_tuples_partial. Qed.
Print Assumptions builder_roundtrip_tuples_partial.

(* record/tuple-free values and records (any field sets, orders, names) with record/tuple-free fields *)
Theorem builder_roundtrip_records_partial :
  forall o vs, good_opts o -> forallb record_flat vs = true ->
  exists b, run o ab_init (encode_all vs) = Ok b /\ observe b = Ok (unify vs).
Proof. exact Proofs_C14b.builder_roundtrip_records_partial. Qed.
Print Assumptions builder_roundtrip_records_partial.
