(** C12 proofs: the modelled pipelines never read or write outside their buffers.
    In the models every buffer access is a checked [get]/[slice] that returns [Err EOob] outside the
    extent, and recursion that is not structural runs on explicit fuel ([Err EFuel]); the theorems say
    that on valid layouts neither can happen.  (Proofs: Proofs_Carry.v, Proofs_AtAxis.v, Proofs_ToList.v.) *)
From Coq Require Import ZifyBool.
From AwkV Require Import Layout Valid Types AtAxis Carry Ops_Struct
                         Proofs_Lists Proofs_ToList Proofs_Carry Proofs_AtAxis Proofs_AtAxisOps.

Lemma carry_no_oob : forall c vs ix,
  Valid None c -> to_list c = Ok vs -> Forall (fun i => 0 <= i < clen c) ix ->
  exists c', carry c ix = Ok c'.
Proof.
  intros c vs ix HV Hl Hix. destruct (carry_spec c vs ix HV Hl Hix) as (c' & Hc & _). exists c'. exact Hc.
Qed.

(* num / local_index / pad_none: the models end in a value or a clean ValueError, never in an
   out-of-bounds access (EOob) or exhausted fuel (EFuel) *)
Definition clean {A} (r : res A) : Prop := match r with Ok _ => True | Err EValue => True | Err _ => False end.

Lemma at_axis_no_oob : forall c axis vs target,
  Valid None c -> frag c = true -> to_list c = Ok vs ->
  clean (num_model axis c) /\ clean (localindex_model axis c) /\ clean (rpad_model target axis c) /\
  clean (rpadclip_model target axis c).
Proof.
  intros c axis vs target HV Hfr Hl. unfold num_model, localindex_model, rpad_model, rpadclip_model, clean.
  repeat split.
  - pose proof (model_ax_refines num_f num_g (Ok (np64 [])) true (fun _ => true) true num_Hg (fchk_true_chk num_g)
                  (fun t l _ _ => ex_intro _ _ eq_refl)
                  (ex_intro _ (np64 []) (conj eq_refl eq_refl)) c axis vs HV Hfr Hl) as H.
    destruct (model_ax num_g (Ok (np64 [])) true c axis) as [?|[]]; auto.
  - pose proof (model_ax_refines localindex_f localindex_g (Ok (np64 [])) true (fun _ => true) true localindex_Hg
                  (fchk_true_chk localindex_g) (fun t l _ _ => ex_intro _ _ eq_refl)
                  (ex_intro _ (np64 []) (conj eq_refl eq_refl)) c axis vs HV Hfr Hl) as H.
    destruct (model_ax localindex_g (Ok (np64 [])) true c axis) as [?|[]]; auto.
  - pose proof (model_ax_refines (rpad_f target) (rpad_g target) (Err EValue) false (fun _ => true) true (rpad_Hg target)
                  (fchk_true_chk (rpad_g target)) (fun t l _ _ => ex_intro _ _ eq_refl) eq_refl c axis vs HV Hfr Hl) as H.
    destruct (model_ax (rpad_g target) (Err EValue) true c axis) as [?|[]]; auto.
  - destruct (target <? 0) eqn:Et; [exact I|].
    assert (Ht : 0 <= target) by lia.
    pose proof (model_ax_refines (rpadclip_f target) (rpadclip_g target) (Err EValue) false (fun _ => true) true
                  (rpadclip_Hg target Ht) (fchk_true_chk (rpadclip_g target)) (fun t l _ _ => ex_intro _ _ eq_refl)
                  eq_refl c axis vs HV Hfr Hl) as H.
    destruct (model_ax (rpadclip_g target) (Err EValue) true c axis) as [?|[]]; auto.
Qed.

