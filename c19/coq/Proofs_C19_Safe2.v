(* C19 — fault freedom, part 2: transitions of the control invariant under push / pop / do / loop-end / exit. *)
From Coq Require Import ZArith Bool List Lia ZifyBool.
From AwkForth Require Import Forth Proofs_C19 Proofs_C19_SafeDefs Proofs_C19_Safe.
Import ListNotations.
Open Scope Z_scope.

Lemma below_succ_notin : forall l n, memz n l = false -> below l (n + 1) = below l n.
Proof.
  induction l as [|d r IH]; intros n H; [reflexivity|]. rewrite memz_cons in H. rewrite !below_cons, IH by lia.
  destruct (d <? n + 1) eqn:E1; destruct (d <? n) eqn:E2; lia.
Qed.
Lemma below_succ_in : forall l n, memz n l = true -> below l n + 1 <= below l (n + 1).
Proof.
  induction l as [|d r IH]; intros n H; [discriminate|]. rewrite memz_cons in H. rewrite !below_cons.
  destruct (d =? n) eqn:E.
  - assert (d = n) by lia. subst d. pose proof (below_mono r n (n + 1) ltac:(lia)).
    destruct (n <? n + 1) eqn:E1; destruct (n <? n) eqn:E2; lia.
  - cbn [orb] in H. specialize (IH n H). destruct (d <? n + 1) eqn:E1; destruct (d <? n) eqn:E2; lia.
Qed.

Lemma cons_above : forall n dl k, k < n -> memz k (n :: dl) = memz k dl /\ below (n :: dl) k = below dl k.
Proof.
  intros n dl k H. rewrite memz_cons, below_cons.
  destruct (n =? k) eqn:E1; destruct (n <? k) eqn:E2; try lia; split; reflexivity.
Qed.
Lemma below_cons_self : forall n dl, below (n :: dl) n = below dl n.
Proof. intros. rewrite below_cons, Z.ltb_irrefl. lia. Qed.

Lemma check_segs_znth : forall c p cs segs w sw, check_segs c p cs segs = true -> znth cs w = Some sw ->
  exists seg, znth segs w = Some seg /\ check_seg c p sw seg = true.
Proof.
  induction cs as [|s cs IH]; intros segs w sw H Hw.
  - unfold znth in Hw. destruct (w <? 0); [discriminate|]. destruct (Z.to_nat w); discriminate.
  - destruct segs as [|seg segs]; [discriminate|]. cbn [check_segs] in H. apply andb_true_iff in H. destruct H as [H1 H2].
    pose proof (znth_range _ _ _ _ Hw) as Hr. destruct (Z.eq_dec w 0) as [->|Hn].
    + rewrite znth_0 in Hw. inv Hw. exists seg. split; [reflexivity|assumption].
    + rewrite znth_cons in Hw by lia. destruct (IH segs (w - 1) sw H2 Hw) as [sg [Hs Hk]].
      exists sg. split; [rewrite znth_cons by lia; assumption|assumption].
Qed.

Section Trans.
  Variables (c : list sctx) (p : prog).
  Hypothesis Hc : check_segs c p c (p_segs p) = true.

  Lemma seg_of : forall w sw, znth c w = Some sw -> exists seg, znth (p_segs p) w = Some seg /\ check_seg c p sw seg = true.
  Proof. intros w sw H. eapply check_segs_znth; eassumption. Qed.

  Lemma zero_boundary : forall t st, znth c t = Some st -> memz 0 (s_B st) = true.
  Proof.
    intros t st H. destruct (seg_of _ _ H) as [seg [_ Hk]]. unfold check_seg in Hk. bsplit. assumption.
  Qed.

  Definition tlt (ts : list Z) (n : Z) : Prop := forall t, In t ts -> t < n.

  Lemma T_setip : forall w ip ip' fr dl ts rdy sw, CT c ((w, ip) :: fr) dl ts rdy -> znth c w = Some sw ->
    memz (zlen fr + 1) dl = false -> memz ip' (s_B sw) = true -> CT c ((w, ip') :: fr) dl ts rdy.
  Proof.
    intros w ip ip' fr dl ts rdy sw [F [D T]] Hw Hm Hb. rewrite zlen_cons in *.
    destruct (frames_ok_top _ _ _ _ _ _ F) as [sw' [Hw' [_ [H2 [H3 [H4 [H5 H6]]]]]]].
    rewrite Hw in Hw'. inv Hw'. split; [|split; rewrite ?zlen_cons; assumption].
    eapply frames_ok_build; try eassumption. rewrite Hm. assumption.
  Qed.

  Lemma T_call : forall w ip fr dl ts rdy sw t, CT c ((w, ip) :: fr) dl ts rdy -> znth c w = Some sw ->
    memz (zlen fr + 1) dl = false -> tlt ts (zlen fr + 1) -> callable c sw t = true ->
    CT c ((t, 0) :: (w, ip) :: fr) dl ts rdy.
  Proof.
    intros w ip fr dl ts rdy sw t [F [D T]] Hw Hm Ht Hcall. rewrite zlen_cons in *.
    destruct (frames_ok_top _ _ _ _ _ _ F) as [sw' [Hw' [_ [H2 [H3 [H4 [H5 H6]]]]]]].
    rewrite Hw in Hw'. inv Hw'.
    unfold callable in Hcall. destruct (znth c t) as [st|] eqn:Et; [|discriminate]. bsplit.
    split; [|split].
    - eapply frames_ok_build; try eassumption; rewrite ?zlen_cons.
      + rewrite (chain_ok_notin _ _ _ _ D) by lia. eapply zero_boundary; eassumption.
      + lia.
      + pose proof (below_mono dl (zlen fr + 1) (zlen fr + 1 + 1) ltac:(lia)). pose proof (below_nonneg dl (zlen fr + 1)). lia.
      + apply forallb_forall. intros t' Ht'. rewrite forallb_forall in H4. specialize (H4 t' Ht'). specialize (Ht t' Ht'). lia.
      + rewrite below_succ_notin by assumption. destruct H5 as [H5|H5]; [left; assumption|right]. rewrite H5 in *. cbn in *. lia.
    - rewrite !zlen_cons. eapply chain_ok_mono; [eassumption|lia].
    - rewrite !zlen_cons. destruct rdy; [eapply chain_ok_mono; [eassumption|lia]|assumption].
  Qed.

  Lemma T_docall : forall w ip fr dl ts rdy sw t, CT c ((w, ip) :: fr) dl ts rdy -> znth c w = Some sw ->
    memz (zlen fr + 1) dl = true -> tlt ts (zlen fr + 1) -> do_child c sw t = true ->
    CT c ((t, 0) :: (w, ip) :: fr) dl ts rdy.
  Proof.
    intros w ip fr dl ts rdy sw t [F [D T]] Hw Hm Ht Hcall. rewrite zlen_cons in *.
    destruct (frames_ok_top _ _ _ _ _ _ F) as [sw' [Hw' [_ [H2 [H3 [H4 [H5 H6]]]]]]].
    rewrite Hw in Hw'. inv Hw'.
    unfold do_child in Hcall. destruct (znth c t) as [st|] eqn:Et; [|discriminate]. bsplit.
    split; [|split].
    - eapply frames_ok_build; try eassumption; rewrite ?zlen_cons.
      + rewrite (chain_ok_notin _ _ _ _ D) by lia. eapply zero_boundary; eassumption.
      + lia.
      + pose proof (below_succ_in dl (zlen fr + 1) Hm). lia.
      + apply forallb_forall. intros t' Ht'. rewrite forallb_forall in H4. specialize (H4 t' Ht'). specialize (Ht t' Ht'). lia.
      + right. assumption.
    - rewrite !zlen_cons. eapply chain_ok_mono; [eassumption|lia].
    - rewrite !zlen_cons. destruct rdy; [eapply chain_ok_mono; [eassumption|lia]|assumption].
  Qed.

  Lemma T_do : forall w ip ip' fr dl ts rdy sw, CT c ((w, ip) :: fr) dl ts rdy -> znth c w = Some sw ->
    memz (zlen fr + 1) dl = false -> memz ip' (s_D sw) = true -> CT c ((w, ip') :: fr) ((zlen fr + 1) :: dl) ts rdy.
  Proof.
    intros w ip ip' fr dl ts rdy sw [F [D T]] Hw Hm Hd. rewrite zlen_cons in *.
    destruct (frames_ok_top _ _ _ _ _ _ F) as [sw' [Hw' [_ [H2 [H3 [H4 [H5 H6]]]]]]].
    rewrite Hw in Hw'. inv Hw'. pose proof (zlen_nonneg _ fr) as Hnn.
    assert (Hb : below ((zlen fr + 1) :: dl) (zlen fr + 1) = below dl (zlen fr + 1)).
    { apply below_cons_self. }
    split; [|split; rewrite ?zlen_cons; [|assumption]].
    - eapply frames_ok_build; try eassumption.
      + rewrite memz_cons. rewrite Z.eqb_refl. assumption.
      + rewrite Hb. assumption.
      + rewrite Hb. assumption.
      + rewrite <- H6. apply frames_ok_dl. intros k Hk. apply cons_above. clear - Hk. lia.
    - cbn [chain_ok]. rewrite (chain_ok_shrink _ _ _ D Hm). lia.
  Qed.

  Lemma T_loopend : forall w ip fr dl ts rdy sw, CT c ((w, ip) :: fr) ((zlen fr + 1) :: dl) ts rdy -> znth c w = Some sw ->
    memz (ip + 1) (s_B sw) = true -> CT c ((w, ip + 1) :: fr) dl ts rdy.
  Proof.
    intros w ip fr dl ts rdy sw [F [D T]] Hw Hb. rewrite zlen_cons in *.
    destruct (frames_ok_top _ _ _ _ _ _ F) as [sw' [Hw' [_ [H2 [H3 [H4 [H5 H6]]]]]]].
    rewrite Hw in Hw'. inv Hw'. pose proof (zlen_nonneg _ fr) as Hnn.
    cbn [chain_ok] in D. assert (D' : chain_ok 1 dl (zlen fr + 1 - 1) = true) by lia.
    assert (Hm : memz (zlen fr + 1) dl = false) by (eapply chain_ok_notin; [eassumption|lia]).
    assert (Hbl : below ((zlen fr + 1) :: dl) (zlen fr + 1) = below dl (zlen fr + 1)).
    { apply below_cons_self. }
    rewrite Hbl in *.
    split; [|split; rewrite ?zlen_cons; [|assumption]].
    - eapply frames_ok_build; try eassumption.
      + rewrite Hm. assumption.
      + rewrite <- H6. symmetry. apply frames_ok_dl. intros k Hk. apply cons_above. clear - Hk. lia.
    - eapply chain_ok_mono; [eassumption|lia].
  Qed.

  Lemma T_pop : forall w ip fr dl ts rdy, CT c ((w, ip) :: fr) dl ts rdy ->
    memz (zlen fr + 1) dl = false -> tlt ts (zlen fr + 1) -> CT c fr dl ts rdy.
  Proof.
    intros w ip fr dl ts rdy [F [D T]] Hm Ht. rewrite zlen_cons in *.
    destruct (frames_ok_top _ _ _ _ _ _ F) as [sw' [Hw' [_ [H2 [H3 [H4 [H5 H6]]]]]]].
    split; [assumption|split].
    - pose proof (chain_ok_shrink _ _ _ D Hm) as D'. replace (zlen fr + 1 - 1) with (zlen fr) in D' by lia. assumption.
    - destruct rdy; [|assumption]. destruct ts as [|t r]; [reflexivity|]. cbn [chain_ok] in *.
      specialize (Ht t (or_introl eq_refl)). lia.
  Qed.

  (* `exit` with no active do-loop: unwind to the caller of the word *)
  Lemma T_exit : forall w ip fr ts rdy sw, CT c ((w, ip) :: fr) [] ts rdy -> znth c w = Some sw ->
    tlt ts (zlen fr + 1) -> CT c (skipn (Z.to_nat (s_ed sw)) fr) [] ts rdy /\ 0 <= s_ed sw <= zlen fr.
  Proof.
    intros w ip fr ts rdy sw [F [D T]] Hw Ht. rewrite zlen_cons in *.
    destruct (frames_ok_top _ _ _ _ _ _ F) as [sw' [Hw' [_ [H2 [H3 [H4 [H5 H6]]]]]]].
    rewrite Hw in Hw'. inv Hw'.
    assert (Hl : zlen (skipn (Z.to_nat (s_ed sw')) fr) = zlen fr - s_ed sw').
    { unfold zlen. rewrite skipn_length. unfold zlen in H2. lia. }
    split; [|lia]. split; [apply frames_ok_skipn; assumption|split; [reflexivity|]].
    rewrite Hl. destruct rdy; [|assumption]. destruct ts as [|t r]; [reflexivity|]. cbn [chain_ok] in *.
    cbn [forallb] in H4. bsplit. specialize (Ht t (or_introl eq_refl)). lia.
  Qed.
End Trans.
