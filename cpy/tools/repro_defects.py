"""Reproducers (under pyshim: the REAL /repo Python layer on the real libawkward) of the defects found by the
Python-half checks of C03 C05 C07 C08 C09 C10.   /venv/bin/python /verif/cpy/tools/repro_defects.py
Each entry: signature, call, what comes back, what the property says."""
import sys
import warnings
sys.path.insert(0, '/verif')
from pyshim.install import install
install()
import awkward as ak  # noqa: E402
import numpy as np  # noqa: E402
warnings.simplefilter('ignore')
A = ak.Array
L = ak.layout


def show(sig, what, f, expected):
    try:
        r = f()
        if isinstance(r, (ak.Array, ak.Record)):
            got = '%r  :: %s' % (ak.to_list(r), ak.type(r))
        elif isinstance(r, tuple):
            got = repr([ak.to_list(x) for x in r])
        else:
            got = repr(r)
    except Exception as e:   # noqa
        got = 'raises %s: %s' % (type(e).__name__, str(e).split('\n')[0][:110])
    print('%-48s %s\n    got:      %s\n    expected: %s' % (sig, what, got, expected))


i64 = lambda *v: L.NumpyArray(np.array(v, dtype=np.int64))          # noqa: E731
ix = lambda *v: L.Index64(np.array(v, dtype=np.int64))              # noqa: E731

# ---- C05
show('unflatten-inner-leading-zero-count', 'ak.unflatten([[1,2],[3]], [0,2,1], axis=1)',
     lambda: ak.unflatten(A([[1, 2], [3]]), [0, 2, 1], axis=1), '[[[], [1, 2]], [[3]]]  (3 new lists, as many as counts)')
show('unflatten-pack-leaves-unreachable-lists', 'ak.unflatten(ByteMasked([[7,6,4],None,None]), [2,1], axis=1)',
     lambda: ak.unflatten(A(L.ByteMaskedArray(L.Index8(np.array([1, 0, 0], np.int8)),
                                              L.ListOffsetArray64(ix(0, 3, 6, 7), i64(7, 6, 4, 4, 6, 8, 3)), True)),
                          [2, 1], axis=1), '[[[7, 6], [4]], None, None]  (what the IndexedOptionArray encoding gives)')
show('completely-flatten-record-untrimmed-fields', 'ak.flatten(RecordArray({x:[1,2,3]}, length=2), axis=None); ak.sum(.., axis=None)',
     lambda: (ak.flatten(A(L.RecordArray([i64(1, 2, 3)], ['x'], 2)), axis=None),
              A([ak.sum(A(L.RecordArray([i64(1, 2, 3)], ['x'], 2)), axis=None)])), '[1, 2] and 3')
show('num-axis0-recordarray-returns-record', 'ak.num([{x:1},{x:2}], axis=0)  vs the same behind an IndexedArray',
     lambda: repr((ak.to_list(ak.num(A([{'x': 1}, {'x': 2}]), axis=0)),
                   ak.num(A(L.IndexedArray64(ix(0, 1), A([{'x': 1}, {'x': 2}]).layout)), axis=0))),
     '2 in both encodings')
# ---- C03
show('argminmax-axis-none-empty-raises', 'ak.argmin([], axis=None)   (ak.min([], axis=None) is None)',
     lambda: ak.argmin(A([]), axis=None), 'None')
# ---- C07
show('cartesian-axis0-nested-grouping', 'ak.cartesian([[1,2],[10,20],[100,200,300]], axis=0, nested=[0])',
     lambda: ak.cartesian([A([1, 2]), A([10, 20]), A([100, 200, 300])], axis=0, nested=[0]),
     '2 groups of 6 tuples (one per element of the first array), as axis=1 does')
show('cartesian-axis0-nested-grouping', 'ak.cartesian([[1,2],[]], axis=0, nested=True)',
     lambda: ak.cartesian([A([1, 2]), A([])], axis=0, nested=True), '[[], []]')
show('axis0-product-indexed-over-option', 'ak.is_valid(ak.combinations([1,None,3], 2, axis=0)) / ak.cartesian([[1,None],[2]], axis=0)',
     lambda: A([ak.is_valid(ak.combinations(A([1, None, 3]), 2, axis=0)), ak.is_valid(ak.cartesian([A([1, None]), A([2])], axis=0))]),
     '[True, True]  (IndexedArray64 directly over an option node is refused by validityerror)')
show('cartesian-dict-nested-not-validated', "ak.cartesian({'x':[[1]],'y':[[2]]}, nested=[5])  (a list raises ValueError)",
     lambda: ak.cartesian({'x': A([[1]]), 'y': A([[2]])}, nested=[5]), 'ValueError')
show('regular-size1-to-size0', 'ak.cartesian([RegularArray(size 0, length 1), [[1,2]]], axis=1)',
     lambda: ak.cartesian([A(L.RegularArray(i64(), 0, 1)), A([[1, 2]])], axis=1), '[[]]')
# ---- C08
show('unmasked-fillna-recurses', 'ak.concatenate([u, u], axis=1) with u = UnmaskedArray([[1,None],[2]]);  ak.fill_none(u, 9, axis=0)',
     lambda: (lambda u: (ak.concatenate([u, u], axis=1), ak.fill_none(u, 9, axis=0)))(
         A(L.UnmaskedArray(A([[1, None], [2]]).layout))), '[[1, None, 1, None], [2, 2]] and [[1, None], [2]]')
show('mergeable-parameters-of-wrapper-node', "ak.concatenate([[None, ['x']], [['a'], []]], axis=1)   (data loss through fill_none(.., []))",
     lambda: ak.concatenate([A([None, ['x']]), A([['a'], []])], axis=1), "[['a'], ['x']]")
show('regular-broadcast-tooffsets-untrimmed-content', 'IndexedOption(RegularArray(size 2, content 3 long)) + ListArray(start 1)',
     lambda: A(L.IndexedOptionArray64(ix(0), L.RegularArray(i64(1, 2, 3), 2))) +
     A(L.ListArray64(ix(1), ix(3), i64(9, 5, 6))), '[[6, 8]]')
# ---- C09
show('is-none-axis-beyond-depth', 'ak.is_none([1,2,3], axis=1); ak.is_none(["ab"], axis=1)',
     lambda: (ak.is_none(A([1, 2, 3]), axis=1), ak.is_none(A(['ab']), axis=1)), 'ValueError (axis exceeds the depth), as ak.num does')
show('unmasked-rpad-and-clip-axis0-no-clip', 'ak.pad_none(UnmaskedArray([1,2,3]), 2, axis=0, clip=True)   (UnmaskedArray::rpad_and_clip calls rpad_axis0(target, false))',
     lambda: ak.pad_none(A(L.UnmaskedArray(i64(1, 2, 3))), 2, axis=0, clip=True), '[1, 2]')
show('negaxis-record-not-resolved', "ak.fill_none([{x:[1,None]}], 0, axis=-1)   (negative axis stays negative at a record with list fields)",
     lambda: ak.fill_none(A([{'x': [1, None]}]), 0, axis=-1), '[{x:[1,0]}]')
show('broadcast-all-same-offsets-regular-zero-length', 'ak.zip([RegularArray(size 2, length 0, content 1 long), ListArray(length 0)], depth_limit=3)',
     lambda: ak.zip([A(L.RegularArray(i64(2), 2)), A(L.ListArray64(ix(), ix(), i64()))], depth_limit=3),
     'ValueError (depth_limit is deeper than the arrays), as for non-empty arrays')
# ---- C10
show('with-field-sole-field-drops-structure', "ak.with_field([[{x:1},{x:2}],[{x:3}]], [[10,20],[30]], 'x')",
     lambda: ak.with_field(A([[{'x': 1}, {'x': 2}], [{'x': 3}]]), A([[10, 20], [30]]), 'x'), '[[{x:10},{x:20}],[{x:30}]]')
show('with-field-sole-field-drops-structure', "ak.with_field([{x:1},{x:2}], 5, 'x')",
     lambda: ak.with_field(A([{'x': 1}, {'x': 2}]), 5, 'x'), '[{x:5},{x:5}]')
show('zip-all-strings-gives-one-record', "ak.zip({'a': ['x','y'], 'b': ['u','v']})",
     lambda: ak.zip({'a': A(['x', 'y']), 'b': A(['u', 'v'])}), "[{a:'x',b:'u'},{a:'y',b:'v'}]  (an array of 2 records)")
