(** Extraction of the Form-driven builder specification (ExtrOcamlBasic only; Z stays inductive). *)
From Coq Require Import Extraction ExtrOcamlBasic.
From AwkV Require Import Layout Valid Types Typing.
From AwkBuilder Require Import LBuilder.
Extraction Language OCaml.
Extraction "c14lbmodel.ml" Z.add Z.mul Z.sub Z.div Z.modulo Z.eqb Z.ltb Z.leb Z.of_nat Z.to_nat Z.opp
  to_list value_eqb valid_b clen type_of has_typeb
  lb_run lb_item lb_encode enc conf constructible unambiguous form_ty first_ok.
