(** C18, proofs about the models in Virtual.v and Partition.v. *)
From Coq Require Import ZArith List Bool Lia Arith ZifyBool.
From AwkV Require Import Base.
From AwkVirt Require Import Virtual Partition.
Import ListNotations.

(* ====================================================================== *)
(** * Virtual arrays *)

Section VirtualProofs.
  Variable A : Type.
  Variable D : Type.
  Variable shape_ok : D -> A -> bool.
  Variable gen : nat -> nat -> outcome A.
  Variable info : nat -> vinfo D.

  Notation state := (state A).
  Notation gac := (generate_and_check A D shape_ok gen info).
  Notation arr := (array A D shape_ok gen info).
  Notation lenq := (length_q A D shape_ok gen info).
  Notation formq := (form_q A D shape_ok gen info).
  Notation execs := (exec A D shape_ok gen info).
  Notation runs := (run A D shape_ok gen info).
  Notation missb := (miss A D info).
  Notation decl k := (vi_decl D (info k)).
  Notation cached k := (vi_has_cache D (info k)).

  (** every entry present in the cache is an output of its generator, at an invocation that has already
      happened, and it passed generate_and_check's test *)
  Definition coherent (s : state) : Prop :=
    forall k a, In (k, a) (st_cache A s) ->
      exists n, (n < st_count A s k)%nat /\ gen k n = GOk a /\ shape_ok (decl k) a = true.

  (* s' has fewer entries and larger counters *)
  Definition shrinks (s s' : state) : Prop :=
    (forall e, In e (st_cache A s') -> In e (st_cache A s)) /\
    (forall k, (st_count A s k <= st_count A s' k)%nat).

  Lemma shrinks_refl : forall s, shrinks s s.
  Proof. intro s; split; auto. Qed.

  Lemma shrinks_trans : forall s1 s2 s3, shrinks s1 s2 -> shrinks s2 s3 -> shrinks s1 s3.
  Proof.
    intros s1 s2 s3 [Ha Hb] [Hc Hd]; split; auto.
    intro k; specialize (Hb k); specialize (Hd k); lia.
  Qed.

  Lemma coherent_shrinks : forall s s', coherent s -> shrinks s s' -> coherent s'.
  Proof.
    intros s s' Hc [Hin Hcnt] k a Hk.
    destruct (Hc k a (Hin _ Hk)) as (n & Hn & Hg & Hs).
    exists n; repeat split; auto. specialize (Hcnt k); lia.
  Qed.

  Lemma In_remove_key : forall k (c : list (nat * A)) e, In e (remove_key A k c) -> In e c.
  Proof. intros k c e H. unfold remove_key in H. apply filter_In in H. tauto. Qed.

  Lemma lookup_In : forall k (c : list (nat * A)) a, lookup A k c = Some a -> In (k, a) c.
  Proof.
    induction c as [|[k' a'] r IH]; simpl; intros a H; [discriminate|].
    destruct (Nat.eqb k' k) eqn:E.
    - apply Nat.eqb_eq in E; subst. inversion H; subst. now left.
    - right; auto.
  Qed.

  Lemma lookup_remove_key : forall k (c : list (nat * A)), lookup A k (remove_key A k c) = None.
  Proof.
    induction c as [|[k' a'] r IH]; simpl; auto.
    destruct (Nat.eqb k' k) eqn:E; simpl; auto. rewrite E. auto.
  Qed.

  Lemma lookup_remove_key_other : forall k k' (c : list (nat * A)), k <> k' ->
    lookup A k' (remove_key A k c) = lookup A k' c.
  Proof.
    induction c as [|[k0 a0] r IH]; simpl; intros Hne; auto.
    destruct (Nat.eqb k0 k) eqn:E; simpl.
    - apply Nat.eqb_eq in E; subst.
      destruct (Nat.eqb k k') eqn:E2; [apply Nat.eqb_eq in E2; congruence|]. auto.
    - destruct (Nat.eqb k0 k'); auto.
  Qed.

  Lemma apply_event_shrinks : forall e s, shrinks s (apply_event A e s).
  Proof.
    intros [k| |] s; split; simpl; auto; try (intros e H; now inversion H).
    intros e H. eapply In_remove_key; eauto.
  Qed.

  Lemma apply_events_shrinks : forall es s, shrinks s (apply_events A es s).
  Proof.
    induction es as [|e es IH]; intro s.
    - apply shrinks_refl.
    - change (apply_events A (e :: es) s) with (apply_events A es (apply_event A e s)).
      eapply shrinks_trans; [apply apply_event_shrinks|apply IH].
  Qed.

  Lemma apply_event_count : forall e s, st_count A (apply_event A e s) = st_count A s.
  Proof. intros [k| |] s; reflexivity. Qed.

  Lemma apply_events_count : forall es s, st_count A (apply_events A es s) = st_count A s.
  Proof.
    induction es as [|e es IH]; intro s; [reflexivity|].
    change (apply_events A (e :: es) s) with (apply_events A es (apply_event A e s)).
    rewrite IH. apply apply_event_count.
  Qed.

  Lemma apply_event_inferred : forall e s, st_inferred A (apply_event A e s) = st_inferred A s.
  Proof. intros [k| |] s; reflexivity. Qed.

  Lemma cache_set_count : forall s k a, st_count A (cache_set A s k a) = st_count A s.
  Proof. intros s k a; unfold cache_set; destruct (st_mode A s); reflexivity. Qed.

  (* an entry that may be stored: justified by the generator *)
  Definition justified (s : state) (k : nat) (a : A) : Prop :=
    exists n, (n < st_count A s k)%nat /\ gen k n = GOk a /\ shape_ok (decl k) a = true.

  Lemma cache_set_coherent : forall s k a, coherent s -> justified s k a -> coherent (cache_set A s k a).
  Proof.
    intros s k a Hc Hj. unfold cache_set. destruct (st_mode A s); auto.
    intros k' a' Hin; simpl in *. destruct Hin as [Heq|Hin].
    - inversion Heq; subst. exact Hj.
    - apply In_remove_key in Hin. exact (Hc _ _ Hin).
  Qed.

  Lemma justified_shrinks : forall s s' k a, justified s k a -> shrinks s s' -> justified s' k a.
  Proof.
    intros s s' k a (n & Hn & Hg & Hs) [_ Hcnt]. exists n; repeat split; auto.
    specialize (Hcnt k); lia.
  Qed.

  Lemma cache_get_justified : forall s k a, coherent s -> cache_get A s k = Some a -> justified s k a.
  Proof.
    intros s k a Hc Hg. unfold cache_get in Hg. destruct (st_mode A s); [|discriminate].
    apply lookup_In in Hg. exact (Hc _ _ Hg).
  Qed.

  (* generate_and_check *)
  Lemma upd_same : forall X (f : nat -> X) k x, upd f k x k = x.
  Proof. intros; unfold upd; now rewrite Nat.eqb_refl. Qed.
  Lemma upd_other : forall X (f : nat -> X) k k' x, k <> k' -> upd f k x k' = f k'.
  Proof.
    intros; unfold upd. destruct (Nat.eqb k' k) eqn:E; auto. apply Nat.eqb_eq in E; congruence.
  Qed.

  Lemma gac_cases : forall k s,
    let r := gac k s in
    st_cache A (snd r) = st_cache A s /\ st_mode A (snd r) = st_mode A s /\
    st_count A (snd r) = upd (st_count A s) k (S (st_count A s k)) /\
    ((exists a, fst r = Ok a /\ gen k (st_count A s k) = GOk a /\ shape_ok (decl k) a = true) \/
     (fst r = Err EValue /\ st_inferred A (snd r) = st_inferred A s /\
      (gen k (st_count A s k) = GFail \/
       exists a, gen k (st_count A s k) = GOk a /\ shape_ok (decl k) a = false))).
  Proof.
    intros k s. unfold generate_and_check. cbv zeta.
    destruct (gen k (st_count A s k)) as [a|] eqn:G.
    - destruct (shape_ok (decl k) a) eqn:S; simpl; repeat split; auto.
      + left; exists a; auto.
      + right; repeat split; auto. right; exists a; auto.
    - simpl; repeat split; auto.
  Qed.

  Lemma gac_shrinks : forall k s, shrinks s (snd (gac k s)).
  Proof.
    intros k s. destruct (gac_cases k s) as (Hc & _ & Hn & _). split.
    - rewrite Hc; auto.
    - intro k'. rewrite Hn. unfold upd. destruct (Nat.eqb k' k) eqn:E; auto.
      apply Nat.eqb_eq in E; subst; lia.
  Qed.

  Lemma gac_ok_justified : forall k s a, fst (gac k s) = Ok a -> justified (snd (gac k s)) k a.
  Proof.
    intros k s a H. destruct (gac_cases k s) as (_ & _ & Hn & [(a' & Ha & Hg & Hs)|(He & _)]).
    - rewrite H in Ha; inversion Ha; subst a'. exists (st_count A s k). rewrite Hn, upd_same. auto.
    - rewrite H in He; discriminate.
  Qed.

  (* array() *)
  Lemma array_shrinks_or_set : forall k mid s, coherent s -> coherent (snd (arr k mid s)).
  Proof.
    intros k mid s Hc. unfold array.
    destruct (if cached k then cache_get A s k else None) as [a|] eqn:Hget.
    - simpl. assert (Hj : justified s k a).
      { destruct (cached k); [|discriminate]. apply cache_get_justified; auto. }
      pose proof (apply_events_shrinks mid s) as Hs.
      destruct (cached k).
      + apply cache_set_coherent; [eapply coherent_shrinks; eauto|eapply justified_shrinks; eauto].
      + eapply coherent_shrinks; eauto.
    - pose proof (gac_shrinks k s) as Hs1. pose proof (gac_ok_justified k s) as Hj.
      destruct (gac k s) as [[a|e] s1]; simpl in *.
      + pose proof (apply_events_shrinks mid s1) as Hs2.
        assert (Hc2 : coherent (apply_events A mid s1)).
        { eapply coherent_shrinks; [|exact Hs2]. eapply coherent_shrinks; eauto. }
        destruct (cached k); auto. apply cache_set_coherent; auto.
        eapply justified_shrinks; eauto.
      + eapply coherent_shrinks; eauto.
  Qed.

  Lemma exec_coherent : forall st s, coherent s -> coherent (execs st s).
  Proof.
    intros [k mid|k|k mid|k mid|e] s Hc; simpl; auto.
    - apply array_shrinks_or_set; auto.
    - unfold length_q. destruct (vi_has_length D (info k)); simpl; auto.
      apply array_shrinks_or_set; auto.
    - unfold form_q. destruct (vi_has_form D (info k)); simpl; auto.
      destruct (st_inferred A s k); simpl; auto. apply array_shrinks_or_set; auto.
    - eapply coherent_shrinks; eauto. apply apply_event_shrinks.
  Qed.

  Lemma run_coherent : forall h s, coherent s -> coherent (runs h s).
  Proof.
    induction h as [|st h IH]; intros s Hc; simpl; auto. apply IH. apply exec_coherent; auto.
  Qed.

  Lemma init_coherent : forall m, coherent (init A m).
  Proof. intros m k a H. inversion H. Qed.

  (** (a) the invariant holds after every history, for every cache mode *)
  Lemma cache_coherent_lemma : forall m h, coherent (runs h (init A m)).
  Proof. intros; apply run_coherent, init_coherent. Qed.

  (** (b) transparency.  [deterministic k a0]: whenever generator k produces something that passes the
      check, it is the payload a0 (what the eager array holds). *)
  Definition deterministic (k : nat) (a0 : A) : Prop :=
    forall n a, gen k n = GOk a -> shape_ok (decl k) a = true -> a = a0.

  Lemma array_ok_justified : forall k mid s a, coherent s ->
    fst (fst (arr k mid s)) = Ok a ->
    exists n, gen k n = GOk a /\ shape_ok (decl k) a = true.
  Proof.
    intros k mid s a Hc H. unfold array in H.
    destruct (if cached k then cache_get A s k else None) as [a'|] eqn:Hget.
    - simpl in H. inversion H; subst a'.
      destruct (cached k); [|discriminate].
      destruct (cache_get_justified _ _ _ Hc Hget) as (n & _ & Hg & Hs). eauto.
    - pose proof (gac_ok_justified k s) as Hj.
      destruct (gac k s) as [[a'|e] s1]; simpl in *; [|discriminate].
      inversion H; subst a'. destruct (Hj a eq_refl) as (n & _ & Hg & Hs). eauto.
  Qed.

  Lemma virtual_transparent_lemma : forall (B : Type) (f : A -> B) m h k mid a0 b,
    deterministic k a0 ->
    fst (apply A D shape_ok gen info f k mid (runs h (init A m))) = Ok b ->
    b = f a0.
  Proof.
    intros B f m h k mid a0 b Hdet H. unfold apply in H. simpl in H.
    destruct (fst (fst (arr k mid (runs h (init A m))))) as [a|e] eqn:E; simpl in H; [|discriminate].
    inversion H; subst b. f_equal.
    destruct (array_ok_justified k mid _ a (cache_coherent_lemma m h) E) as (n & Hg & Hs).
    eapply Hdet; eauto.
  Qed.

  (* the same for a peek: what is visible in the cache is the eager payload *)
  Lemma peek_transparent_lemma : forall m h k a0 a,
    deterministic k a0 -> peek_array A D info k (runs h (init A m)) = Some a -> a = a0.
  Proof.
    intros m h k a0 a Hdet H. unfold peek_array in H.
    destruct (cached k); [|discriminate].
    destruct (st_mode A (runs h (init A m))) eqn:M; [|discriminate].
    destruct (cache_get_justified _ _ _ (cache_coherent_lemma m h) H) as (n & _ & Hg & Hs).
    eapply Hdet; eauto.
  Qed.

  (** (c) laziness: how the invocation counters move *)
  Lemma array_count : forall k mid s k',
    st_count A (snd (arr k mid s)) k' =
    if Nat.eqb k' k && missb s k then S (st_count A s k') else st_count A s k'.
  Proof.
    intros k mid s k'. unfold array, miss.
    destruct (if cached k then cache_get A s k else None) as [a|] eqn:Hget.
    - rewrite andb_false_r. simpl.
      destruct (cached k); [rewrite cache_set_count|]; rewrite apply_events_count; auto.
    - rewrite andb_true_r.
      destruct (gac_cases k s) as (_ & _ & Hn & _).
      destruct (gac k s) as [[a|e] s1]; simpl in *.
      + destruct (cached k); [rewrite cache_set_count|]; rewrite apply_events_count, Hn; unfold upd;
          destruct (Nat.eqb k' k) eqn:E; auto; apply Nat.eqb_eq in E; subst; auto.
      + rewrite Hn. unfold upd. destruct (Nat.eqb k' k) eqn:E; auto. apply Nat.eqb_eq in E; subst; auto.
  Qed.

  Lemma array_called_iff_miss : forall k mid s, snd (fst (arr k mid s)) = missb s k.
  Proof.
    intros k mid s. unfold array, miss.
    destruct (if cached k then cache_get A s k else None) as [a|]; auto.
    destruct (gac k s) as [[a|e] s1]; auto.
  Qed.

  Lemma generator_called_lazily_lemma : forall st s k',
    st_count A (execs st s) k' =
    match materialises A D info st s with
    | Some k => if Nat.eqb k' k && missb s k then S (st_count A s k') else st_count A s k'
    | None => st_count A s k'
    end.
  Proof.
    intros [k mid|k|k mid|k mid|e] s k'; simpl; auto.
    - apply array_count.
    - unfold length_q. destruct (vi_has_length D (info k)); simpl; auto. apply array_count.
    - unfold form_q. destruct (vi_has_form D (info k)); simpl; auto.
      destruct (st_inferred A s k); simpl; auto. apply array_count.
    - now rewrite apply_event_count.
  Qed.

  Lemma declared_queries_are_free_lemma : forall k mid s,
    (vi_has_length D (info k) = true ->
       lenq k mid s = (Ok (FromDecl (decl k)), s)) /\
    (vi_has_form D (info k) = true ->
       formq k mid s = (Ok (FromDecl (decl k)), s)) /\
    (forall k', st_count A (execs (SPeek k) s) k' = st_count A s k') /\
    (forall e k', st_count A (execs (SEvent e) s) k' = st_count A s k').
  Proof.
    intros k mid s. repeat split.
    - intro H. unfold length_q. now rewrite H.
    - intro H. unfold form_q. now rewrite H.
    - intros e k'. simpl. now rewrite apply_event_count.
  Qed.

  (** (d) a payload of the wrong shape: error, cache untouched *)
  Lemma mismatch_errors_lemma : forall s k mid a,
    missb s k = true ->
    gen k (st_count A s k) = GOk a -> shape_ok (decl k) a = false ->
    fst (fst (arr k mid s)) = Err EValue /\
    st_cache A (snd (arr k mid s)) = st_cache A s /\
    st_mode A (snd (arr k mid s)) = st_mode A s.
  Proof.
    intros s k mid a Hm Hg Hs. unfold array. unfold miss in Hm.
    destruct (if cached k then cache_get A s k else None) as [a'|]; [discriminate|].
    destruct (gac_cases k s) as (Hc & Hmo & _ & [(a' & Ha & Hg' & Hs')|(He & _)]).
    - rewrite Hg in Hg'; inversion Hg'; subst a'. congruence.
    - destruct (gac k s) as [[a'|e] s1]; simpl in *; [discriminate|]. inversion He; subst e. auto.
  Qed.

  (** (e) after a failing generation nothing of it is visible, and the next good generation is used *)
  Definition fails_now (s : state) (k : nat) : Prop :=
    gen k (st_count A s k) = GFail \/
    exists a, gen k (st_count A s k) = GOk a /\ shape_ok (decl k) a = false.

  Lemma failing_array : forall s k mid, missb s k = true -> fails_now s k ->
    fst (fst (arr k mid s)) = Err EValue /\
    st_cache A (snd (arr k mid s)) = st_cache A s /\
    st_mode A (snd (arr k mid s)) = st_mode A s /\
    st_count A (snd (arr k mid s)) k = S (st_count A s k).
  Proof.
    intros s k mid Hm Hf. unfold array. unfold miss in Hm.
    destruct (if cached k then cache_get A s k else None) as [a'|]; [discriminate|].
    destruct (gac_cases k s) as (Hc & Hmo & Hn & [(a' & Ha & Hg' & Hs')|(He & _)]).
    - destruct Hf as [Hf|(a & Hg & Hs)]; rewrite Hg' in *; [discriminate|].
      inversion Hg; subst a'. congruence.
    - destruct (gac k s) as [[a'|e] s1]; simpl in *; [discriminate|]. inversion He; subst e.
      repeat split; auto. rewrite Hn. apply upd_same.
  Qed.

  Lemma miss_same_cache : forall s s' k,
    st_cache A s' = st_cache A s -> st_mode A s' = st_mode A s -> missb s' k = missb s k.
  Proof.
    intros s s' k Hc Hm. unfold miss, cache_get. now rewrite Hc, Hm.
  Qed.

  Lemma good_array : forall s k mid a, missb s k = true ->
    gen k (st_count A s k) = GOk a -> shape_ok (decl k) a = true ->
    fst (fst (arr k mid s)) = Ok a /\
    (cached k = true -> st_mode A (apply_events A mid s) = Live ->
       cache_get A (snd (arr k mid s)) k = Some a).
  Proof.
    intros s k mid a Hm Hg Hs. unfold array. unfold miss in Hm.
    destruct (if cached k then cache_get A s k else None) as [a'|]; [discriminate|].
    destruct (gac_cases k s) as (Hc & Hmo & Hn & [(a' & Ha & Hg' & Hs')|(He & _ & [Hf|(a' & Hg' & Hs')])]).
    - rewrite Hg in Hg'; inversion Hg'; subst a'.
      destruct (gac k s) as [[a'|e] s1] eqn:G; simpl in *; [|discriminate]. inversion Ha; subst a'.
      split; auto. intros Hca Hlive. rewrite Hca.
      assert (Hm2 : st_mode A (apply_events A mid s1) = Live).
      { clear - Hmo Hlive. revert s s1 Hmo Hlive.
        induction mid as [|e es IH]; intros s s1 Hmo Hlive; simpl in *; [congruence|].
        eapply IH; [|exact Hlive]. destruct e; simpl; auto. }
      unfold cache_set, cache_get. rewrite Hm2. simpl. now rewrite Nat.eqb_refl.
    - congruence.
    - rewrite Hg in Hg'; inversion Hg'; subst a'. congruence.
  Qed.

  Lemma no_partial_after_failure_lemma : forall s k mid,
    missb s k = true -> fails_now s k ->
    let s' := snd (arr k mid s) in
    fst (fst (arr k mid s)) = Err EValue /\
    st_cache A s' = st_cache A s /\
    missb s' k = true /\
    peek_array A D info k s' = None /\
    (forall mid' a, gen k (st_count A s' k) = GOk a -> shape_ok (decl k) a = true ->
       fst (fst (arr k mid' s')) = Ok a /\
       (cached k = true -> st_mode A (apply_events A mid' s') = Live ->
          cache_get A (snd (arr k mid' s')) k = Some a)).
  Proof.
    intros s k mid Hm Hf s'. destruct (failing_array s k mid Hm Hf) as (He & Hc & Hmo & Hn).
    assert (Hm' : missb s' k = true) by (unfold s'; rewrite (miss_same_cache s _ k Hc Hmo); auto).
    repeat split; auto.
    - unfold peek_array. unfold miss in Hm'. destruct (cached k); auto.
      destruct (st_mode A s'); auto. destruct (cache_get A s' k); auto; discriminate.
    - apply good_array; auto.
    - apply good_array; auto.
  Qed.
End VirtualProofs.

(* ====================================================================== *)
(** * Lists indexed by Z *)

Open Scope Z_scope.

Section ZList.
  Context {X : Type}.
  Implicit Types l m : list X.

  Lemma zlen_nil : zlen (@nil X) = 0.
  Proof. reflexivity. Qed.
  Lemma zlen_cons : forall x l, zlen (x :: l) = zlen l + 1.
  Proof. intros; unfold zlen; simpl length; lia. Qed.
  Lemma zlen_app : forall l m, zlen (l ++ m) = zlen l + zlen m.
  Proof. intros; unfold zlen; rewrite app_length; lia. Qed.
  Lemma zlen_nonneg : forall l, 0 <= zlen l.
  Proof. intros; unfold zlen; lia. Qed.
  Lemma zlen_zero : forall l, zlen l = 0 -> l = [].
  Proof. intros [|x l] H; auto. rewrite zlen_cons in H. pose proof (zlen_nonneg l); lia. Qed.

  Lemma take_nonpos : forall n l, n <= 0 -> take n l = [].
  Proof. intros n l H; unfold take. replace (Z.to_nat n) with O by lia. reflexivity. Qed.
  Lemma drop_nonpos : forall n l, n <= 0 -> drop n l = l.
  Proof. intros n l H; unfold drop. replace (Z.to_nat n) with O by lia. reflexivity. Qed.
  Lemma take_all : forall n l, zlen l <= n -> take n l = l.
  Proof. intros n l H; unfold take. apply firstn_all2. unfold zlen in H; lia. Qed.
  Lemma drop_all : forall n l, zlen l <= n -> drop n l = [].
  Proof. intros n l H; unfold drop. apply skipn_all2. unfold zlen in H; lia. Qed.
  Lemma zlen_take : forall n l, 0 <= n <= zlen l -> zlen (take n l) = n.
  Proof. intros n l H; unfold take, zlen in *. rewrite firstn_length_le; lia. Qed.
  Lemma zlen_drop : forall n l, 0 <= n <= zlen l -> zlen (drop n l) = zlen l - n.
  Proof. intros n l H; unfold drop, zlen in *. rewrite skipn_length; lia. Qed.
  Lemma take_drop_id : forall n l, take n l ++ drop n l = l.
  Proof. intros; apply firstn_skipn. Qed.

  Lemma take_app_le : forall n l m, n <= zlen l -> take n (l ++ m) = take n l.
  Proof.
    intros n l m H; unfold take, zlen in *. rewrite firstn_app.
    replace (Z.to_nat n - length l)%nat with O by lia. simpl. apply app_nil_r.
  Qed.
  Lemma take_app_ge : forall n l m, zlen l <= n -> take n (l ++ m) = l ++ take (n - zlen l) m.
  Proof.
    intros n l m H; unfold take, zlen in *. rewrite firstn_app.
    rewrite firstn_all2 by lia. f_equal. f_equal. lia.
  Qed.
  Lemma drop_app_le : forall n l m, n <= zlen l -> drop n (l ++ m) = drop n l ++ m.
  Proof.
    intros n l m H; unfold drop, zlen in *. rewrite skipn_app.
    replace (Z.to_nat n - length l)%nat with O by lia. reflexivity.
  Qed.
  Lemma drop_app_ge : forall n l m, zlen l <= n -> drop n (l ++ m) = drop (n - zlen l) m.
  Proof.
    intros n l m H; unfold drop, zlen in *. rewrite skipn_app.
    rewrite skipn_all2 by lia. simpl. f_equal. lia.
  Qed.

  Lemma firstn_add : forall (a b : nat) l, firstn (a + b) l = firstn a l ++ firstn b (skipn a l).
  Proof.
    induction a as [|a IH]; intros b l; simpl; auto.
    destruct l as [|x l]; simpl.
    - now rewrite firstn_nil.
    - f_equal. apply IH.
  Qed.
  Lemma skipn_add : forall (a b : nat) l, skipn b (skipn a l) = skipn (a + b) l.
  Proof.
    induction a as [|a IH]; intros b l; simpl; auto.
    destruct l as [|x l]; simpl; auto. now rewrite skipn_nil.
  Qed.
  Lemma take_add : forall a b l, 0 <= a -> 0 <= b -> take (a + b) l = take a l ++ take b (drop a l).
  Proof.
    intros a b l Ha Hb; unfold take, drop. rewrite Z2Nat.inj_add by lia. apply firstn_add.
  Qed.
  Lemma drop_drop : forall a b l, 0 <= a -> 0 <= b -> drop b (drop a l) = drop (a + b) l.
  Proof.
    intros a b l Ha Hb; unfold drop. rewrite Z2Nat.inj_add by lia. apply skipn_add.
  Qed.

  Lemma take_cons_pos : forall n x l, 0 < n -> take n (x :: l) = x :: take (n - 1) l.
  Proof.
    intros n x l H; unfold take. replace (Z.to_nat n) with (S (Z.to_nat (n - 1))) by lia. reflexivity.
  Qed.
  Lemma drop_cons_pos : forall n x l, 0 < n -> drop n (x :: l) = drop (n - 1) l.
  Proof.
    intros n x l H; unfold drop. replace (Z.to_nat n) with (S (Z.to_nat (n - 1))) by lia. reflexivity.
  Qed.

  Lemma get_neg : forall l i, i < 0 -> get l i = Err EOob.
  Proof. intros l i H; unfold get. destruct (i <? 0) eqn:E; auto; lia. Qed.
  Lemma get_cons_0 : forall x l, get (x :: l) 0 = Ok x.
  Proof. reflexivity. Qed.
  Lemma get_cons_pos : forall x l i, 0 < i -> get (x :: l) i = get l (i - 1).
  Proof.
    intros x l i H; unfold get. destruct (i <? 0) eqn:E; [lia|]. destruct (i - 1 <? 0) eqn:E2; [lia|].
    replace (Z.to_nat i) with (S (Z.to_nat (i - 1))) by lia. reflexivity.
  Qed.
  Lemma get_beyond : forall l i, zlen l <= i -> get l i = Err EOob.
  Proof.
    intros l i H; unfold get. destruct (i <? 0); auto.
    destruct (nth_error l (Z.to_nat i)) eqn:E; auto.
    assert (nth_error l (Z.to_nat i) <> None) by congruence.
    apply nth_error_Some in H0. unfold zlen in H; lia.
  Qed.
  Lemma get_ok : forall l i, 0 <= i < zlen l -> exists x, get l i = Ok x.
  Proof.
    intros l i H; unfold get. destruct (i <? 0) eqn:E; [lia|].
    destruct (nth_error l (Z.to_nat i)) eqn:E2; eauto.
    apply nth_error_None in E2. unfold zlen in H; lia.
  Qed.
  Lemma get_ok_range : forall l i x, get l i = Ok x -> 0 <= i < zlen l.
  Proof.
    intros l i x H. destruct (Z_lt_dec i 0); [rewrite get_neg in H by lia; discriminate|].
    destruct (Z_le_dec (zlen l) i); [rewrite get_beyond in H by lia; discriminate|]. lia.
  Qed.
  Lemma get_app_l : forall l m i, i < zlen l -> get (l ++ m) i = get l i.
  Proof.
    intros l m i H; unfold get. destruct (i <? 0) eqn:E; auto.
    rewrite nth_error_app1; auto. unfold zlen in H; lia.
  Qed.
  Lemma get_app_r : forall l m i, zlen l <= i -> get (l ++ m) i = get m (i - zlen l).
  Proof.
    intros l m i H; unfold get. pose proof (zlen_nonneg l).
    destruct (i <? 0) eqn:E; [lia|]. destruct (i - zlen l <? 0) eqn:E2; [lia|].
    rewrite nth_error_app2 by (unfold zlen in H; lia).
    replace (Z.to_nat i - length l)%nat with (Z.to_nat (i - zlen l)) by (unfold zlen in *; lia).
    reflexivity.
  Qed.
  Lemma drop_get : forall l i x, get l i = Ok x -> drop i l = x :: drop (i + 1) l.
  Proof.
    induction l as [|y l IH]; intros i x H.
    - apply get_ok_range in H. rewrite zlen_nil in H; lia.
    - destruct (Z.eq_dec i 0) as [->|Hne].
      + rewrite get_cons_0 in H; inversion H; subst. rewrite drop_nonpos by lia.
        rewrite drop_cons_pos by lia. now rewrite drop_nonpos by lia.
      + pose proof (get_ok_range _ _ _ H). rewrite get_cons_pos in H by lia.
        rewrite drop_cons_pos by lia. rewrite (drop_cons_pos (i + 1)) by lia.
        rewrite (IH _ _ H). f_equal. f_equal. lia.
  Qed.
  Lemma slice_ok : forall l a b, 0 <= a <= b -> b <= zlen l -> slice l a b = Ok (take (b - a) (drop a l)).
  Proof.
    intros l a b H1 H2; unfold slice.
    destruct (0 <=? a) eqn:E1; [|lia]. destruct (a <=? b) eqn:E2; [|lia].
    destruct (b <=? zlen l) eqn:E3; [|lia]. reflexivity.
  Qed.
End ZList.

(* ====================================================================== *)
(** * Partitioned arrays *)

Ltac case_ltb :=
  repeat (match goal with
  | |- context [?a <? ?b] =>
      lazymatch a with context [if _ then _ else _] => fail | _ =>
      lazymatch b with context [if _ then _ else _] => fail | _ =>
      destruct (Z.ltb_spec a b) end end
  end; cbv iota).

Section PartitionProofs.
  Variable A : Type.
  Implicit Types ps : list (list A).

  Notation loop := (pidx_loop).

  (** where position x falls in the partitions ps, numbered from pid, whose first element is at base *)
  Definition loc ps (pid base x : Z) : Z * Z :=
    match pidx_loop (cumstops A base ps) pid base x with
    | Some r => r
    | None => (pid + zlen ps, 0)
    end.

  Lemma loc_nil : forall pid base x, loc [] pid base x = (pid, 0).
  Proof. intros; unfold loc; simpl. f_equal. rewrite zlen_nil; lia. Qed.

  Lemma loc_cons : forall p ps pid base x,
    loc (p :: ps) pid base x =
    if x <? base + zlen p then (pid, x - base) else loc ps (pid + 1) (base + zlen p) x.
  Proof.
    intros; unfold loc; simpl. destruct (x <? base + zlen p); auto.
    destruct (pidx_loop _ _ _ _); auto. f_equal. rewrite zlen_cons; lia.
  Qed.

  Lemma loc_fst_ge : forall ps pid base x, pid <= fst (loc ps pid base x).
  Proof.
    induction ps as [|p ps IH]; intros pid base x.
    - rewrite loc_nil; simpl; lia.
    - rewrite loc_cons. destruct (x <? base + zlen p); simpl; [lia|].
      specialize (IH (pid + 1) (base + zlen p) x). lia.
  Qed.

  Lemma zlen_cumstops : forall ps start, zlen (cumstops A start ps) = zlen ps.
  Proof.
    induction ps as [|p ps IH]; intro start; simpl; auto.
    rewrite !zlen_cons, IH; auto.
  Qed.

  Lemma pidx_is_loc : forall ps x, 0 <= x ->
    partitionid_index_at (cumstops A 0 ps) x = loc ps 0 0 x.
  Proof.
    intros ps x H; unfold partitionid_index_at, loc.
    destruct (x <? 0) eqn:E; [lia|]. now rewrite zlen_cumstops.
  Qed.

  (** j is the offset of position i in partition number p *)
  Definition located ps (p j i : Z) : Prop :=
    exists pre part post, ps = pre ++ part :: post /\ zlen pre = p /\
                          0 <= j < zlen part /\ i = zlen (concat pre) + j.

  Lemma located_cons : forall p0 ps q j y,
    located (p0 :: ps) q j y <->
    (q = 0 /\ 0 <= j < zlen p0 /\ y = j) \/ located ps (q - 1) j (y - zlen p0).
  Proof.
    intros p0 ps q j y; split.
    - intros (pre & part & post & He & Hl & Hj & Hy). destruct pre as [|x pre]; simpl in He.
      + inversion He; subst. left. rewrite zlen_nil in *. simpl. repeat split; try lia.
      + inversion He; subst. right. exists pre, part, post. repeat split; auto; try lia.
        * rewrite zlen_cons; lia.
        * simpl. rewrite zlen_app. lia.
    - intros [(Hq & Hj & Hy)|(pre & part & post & He & Hl & Hj & Hy)].
      + exists [], p0, ps. subst. simpl. rewrite zlen_nil. repeat split; auto; lia.
      + exists (p0 :: pre), part, post. subst ps. repeat split; auto; try lia.
        * rewrite zlen_cons; lia.
        * simpl. rewrite zlen_app. lia.
  Qed.

  Lemma loc_located : forall ps pid base x p j,
    base <= x < base + zlen (concat ps) ->
    (loc ps pid base x = (p, j) <-> located ps (p - pid) j (x - base)).
  Proof.
    induction ps as [|p0 ps IH]; intros pid base x p j Hx.
    - simpl in Hx. rewrite zlen_nil in Hx. lia.
    - rewrite loc_cons, located_cons. simpl in Hx. rewrite zlen_app in Hx.
      pose proof (zlen_nonneg p0) as Hp0.
      destruct (x <? base + zlen p0) eqn:E.
      + split.
        * intro H; inversion H; subst. left. repeat split; lia.
        * intros [(Hq & Hj & Hy)|Hloc].
          -- f_equal; lia.
          -- destruct Hloc as (pre & part & post & _ & _ & Hj & Hy).
             pose proof (zlen_nonneg (concat pre)). lia.
      + rewrite (IH (pid + 1) (base + zlen p0) x p j) by lia.
        replace (p - (pid + 1)) with (p - pid - 1) by lia.
        replace (x - (base + zlen p0)) with (x - base - zlen p0) by lia.
        split; [intro H; now right|].
        intros [(Hq & Hj & Hy)|Hloc]; [lia|auto].
  Qed.

  Lemma back_cumstops : forall ps start, ps <> [] ->
    back (cumstops A start ps) = Ok (start + zlen (concat ps)).
  Proof.
    induction ps as [|p ps IH]; intros start Hne; [congruence|].
    destruct ps as [|p' ps].
    - simpl. rewrite app_nil_r. reflexivity.
    - assert (Hne' : p' :: ps <> []) by congruence.
      specialize (IH (start + zlen p) Hne').
      change (concat (p :: p' :: ps)) with (p ++ concat (p' :: ps)). rewrite zlen_app.
      replace (start + (zlen p + zlen (concat (p' :: ps)))) with (start + zlen p + zlen (concat (p' :: ps))) by lia.
      rewrite <- IH. unfold back. simpl. reflexivity.
  Qed.

  Lemma wf_length : forall pa, wf_parr A pa -> pa_length A pa = Ok (zlen (concat (pa_parts pa))).
  Proof.
    intros pa [Hne Hst]. unfold pa_length. rewrite Hst, back_cumstops by auto. f_equal.
  Qed.

  (** (f1) partitionid_index_at finds exactly the partition that holds position i, and its offset *)
  Lemma partition_index_spec_lemma : forall pa i p j,
    wf_parr A pa -> 0 <= i < zlen (concat (pa_parts pa)) ->
    (partitionid_index_at (pa_stops pa) i = (p, j) <-> located (pa_parts pa) p j i).
  Proof.
    intros pa i p j [Hne Hst] Hi. rewrite Hst, pidx_is_loc by lia.
    rewrite (loc_located (pa_parts pa) 0 0 i p j) by lia.
    now replace (p - 0) with p by lia; replace (i - 0) with i by lia.
  Qed.

  Lemma located_get : forall ps p j i, located ps p j i ->
    exists part, get ps p = Ok part /\ get (concat ps) i = get part j /\ 0 <= j < zlen part.
  Proof.
    intros ps p j i (pre & part & post & He & Hl & Hj & Hi). exists part. subst ps p i.
    repeat split; try lia.
    - rewrite get_app_r by lia. replace (zlen pre - zlen pre) with 0 by lia. apply get_cons_0.
    - rewrite concat_app. simpl. pose proof (zlen_nonneg (concat pre)).
      rewrite get_app_r by lia. replace (zlen (concat pre) + j - zlen (concat pre)) with j by lia.
      apply get_app_l; lia.
  Qed.

  Lemma located_exists : forall pa i, wf_parr A pa -> 0 <= i < zlen (concat (pa_parts pa)) ->
    exists p j, partitionid_index_at (pa_stops pa) i = (p, j) /\ located (pa_parts pa) p j i.
  Proof.
    intros pa i Hwf Hi. destruct (partitionid_index_at (pa_stops pa) i) as [p j] eqn:E.
    exists p, j. split; auto. apply (partition_index_spec_lemma pa i p j Hwf Hi). exact E.
  Qed.

  (** element access through the partitions = element access in the concatenation *)
  Lemma getitem_at_nowrap_concat : forall pa i, wf_parr A pa -> 0 <= i < zlen (concat (pa_parts pa)) ->
    getitem_at_nowrap A pa i = get (concat (pa_parts pa)) i.
  Proof.
    intros pa i Hwf Hi. destruct (located_exists pa i Hwf Hi) as (p & j & Hp & Hloc).
    unfold getitem_at_nowrap. rewrite Hp.
    destruct (located_get _ _ _ _ Hloc) as (part & Hg & Hc & _). rewrite Hg. simpl. now rewrite Hc.
  Qed.

  Lemma getitem_at_concat_lemma : forall pa i, wf_parr A pa ->
    let n := zlen (concat (pa_parts pa)) in
    getitem_at A pa i =
    if (- n <=? i) && (i <? n) then get (concat (pa_parts pa)) (if i <? 0 then i + n else i)
    else Err EValue.
  Proof.
    intros pa i Hwf n. unfold getitem_at. rewrite (wf_length pa Hwf). simpl. fold n.
    destruct (i <? 0) eqn:E.
    - destruct ((0 <=? i + n) && (i + n <? n)) eqn:E2.
      + replace ((- n <=? i) && (i <? n)) with true by lia.
        apply getitem_at_nowrap_concat; auto. fold n. lia.
      + replace ((- n <=? i) && (i <? n)) with false by lia. reflexivity.
    - destruct ((0 <=? i) && (i <? n)) eqn:E2.
      + replace ((- n <=? i) && (i <? n)) with true by lia.
        apply getitem_at_nowrap_concat; auto. fold n. lia.
      + replace ((- n <=? i) && (i <? n)) with false by lia. reflexivity.
  Qed.

  (* ---- getitem_range with step 1 ---- *)
  Notation rup := (range_up A).

  Lemma range_up_past : forall ps pid first last is ie step off,
    last < pid -> rup ps pid first last is ie step off = Ok [].
  Proof.
    intros [|p ps] pid first last is ie step off H; simpl; auto.
    destruct (last <? pid) eqn:E; auto; lia.
  Qed.

  Lemma concat_keep_nonempty : forall (piece : list A) tl,
    concat (keep_nonempty A piece tl) = piece ++ concat tl.
  Proof.
    intros piece tl; unfold keep_nonempty. destruct (0 <? zlen piece) eqn:E; auto.
    assert (zlen piece = 0) by (pose proof (zlen_nonneg piece); lia).
    apply zlen_zero in H. now subst.
  Qed.

  Definition all_nonempty (l : list (list A)) : Prop := Forall (fun p => 0 < zlen p) l.

  Lemma keep_nonempty_all : forall (piece : list A) tl, all_nonempty tl -> all_nonempty (keep_nonempty A piece tl).
  Proof.
    intros piece tl H; unfold keep_nonempty. destruct (0 <? zlen piece) eqn:E; auto.
    constructor; auto; lia.
  Qed.

  (* after the first partition: whole partitions, then a prefix of the last one *)
  Lemma range_up_after : forall ps pid base first last is ie off b,
    first < pid -> base <= b <= base + zlen (concat ps) ->
    loc ps pid base b = (last, ie) ->
    exists pieces, rup ps pid first last is ie 1 off = Ok pieces /\
                   concat pieces = take (b - base) (concat ps) /\ all_nonempty pieces.
  Proof.
    induction ps as [|p ps IH]; intros pid base first last is ie off b Hf Hb Hloc.
    - exists []. simpl. repeat split; auto; [|constructor].
      unfold take; now rewrite firstn_nil.
    - rewrite loc_cons in Hloc. simpl in Hb. rewrite zlen_app in Hb. pose proof (zlen_nonneg p) as Hp.
      simpl rup.
      destruct (b <? base + zlen p) eqn:E.
      + inversion Hloc; subst last ie.
        destruct (pid <? pid) eqn:E1; [lia|].
        replace (pid =? first) with false by lia. replace (pid =? pid) with true by lia. simpl.
        rewrite slice_ok by lia. simpl.
        rewrite range_up_past by lia. simpl.
        eexists; split; [reflexivity|]. split.
        * rewrite concat_keep_nonempty. simpl. rewrite app_nil_r.
          rewrite drop_nonpos by lia. rewrite take_app_le by lia. f_equal; lia.
        * apply keep_nonempty_all. constructor.
      + pose proof (loc_fst_ge ps (pid + 1) (base + zlen p) b) as Hge. rewrite Hloc in Hge. simpl in Hge.
        destruct (last <? pid) eqn:E1; [lia|].
        replace (pid =? first) with false by lia. replace (pid =? last) with false by lia. simpl.
        destruct (IH (pid + 1) (base + zlen p) first last is ie off b) as (tl & Htl & Hc & Hall); auto; try lia.
        rewrite Htl. simpl.
        eexists; split; [reflexivity|]. split.
        * rewrite concat_keep_nonempty, Hc. rewrite take_app_ge by lia. f_equal. f_equal. lia.
        * apply keep_nonempty_all; auto.
  Qed.

  (* at the first partition *)
  Lemma range_up_first : forall p ps base first last is ie off a b,
    base <= a < base + zlen p -> is = a - base ->
    a <= b <= base + zlen (concat (p :: ps)) ->
    loc (p :: ps) first base b = (last, ie) ->
    exists pieces, rup (p :: ps) first first last is ie 1 off = Ok pieces /\
                   concat pieces = take (b - a) (drop (a - base) (concat (p :: ps))) /\
                   all_nonempty pieces.
  Proof.
    intros p ps base first last is ie off a b Ha His Hb Hloc. subst is.
    rewrite loc_cons in Hloc. simpl in Hb. rewrite zlen_app in Hb. simpl rup.
    destruct (b <? base + zlen p) eqn:E.
    - inversion Hloc; subst last ie.
      destruct (first <? first) eqn:E1; [lia|].
      replace (first =? first) with true by lia. simpl.
      rewrite slice_ok by lia. simpl. rewrite range_up_past by lia. simpl.
      eexists; split; [reflexivity|]. split.
      + rewrite concat_keep_nonempty. simpl. rewrite app_nil_r.
        rewrite drop_app_le by lia. rewrite take_app_le by (rewrite zlen_drop; lia). f_equal; lia.
      + apply keep_nonempty_all. constructor.
    - pose proof (loc_fst_ge ps (first + 1) (base + zlen p) b) as Hge. rewrite Hloc in Hge. simpl in Hge.
      destruct (last <? first) eqn:E1; [lia|].
      replace (first =? first) with true by lia. replace (first =? last) with false by lia. simpl.
      rewrite slice_ok by lia. simpl.
      destruct (range_up_after ps (first + 1) (base + zlen p) first last (a - base) ie off b)
        as (tl & Htl & Hc & Hall); auto; try lia.
      rewrite Htl. simpl.
      eexists; split; [reflexivity|]. split.
      + rewrite concat_keep_nonempty, Hc. simpl.
        rewrite drop_app_le by lia.
        rewrite take_app_ge by (rewrite zlen_drop; lia).
        rewrite zlen_drop by lia.
        rewrite (take_all (zlen p - (a - base))) by (rewrite zlen_drop; lia).
        f_equal. f_equal. lia.
      + apply keep_nonempty_all; auto.
  Qed.

  (* skipping to the first partition *)
  Lemma range_up_skip : forall ps pid base first last is ie a b,
    base <= a -> a <= b <= base + zlen (concat ps) ->
    loc ps pid base a = (first, is) -> loc ps pid base b = (last, ie) ->
    exists pieces, rup (drop (first - pid) ps) first first last is ie 1 0 = Ok pieces /\
                   concat pieces = take (b - a) (drop (a - base) (concat ps)) /\
                   all_nonempty pieces.
  Proof.
    induction ps as [|p ps IH]; intros pid base first last is ie a b Ha Hb Hla Hlb.
    - rewrite loc_nil in Hla. inversion Hla; subst. exists []. simpl.
      rewrite drop_nonpos by lia. simpl. repeat split; auto; [|constructor].
      unfold drop, take. now rewrite skipn_nil, firstn_nil.
    - pose proof Hla as Hla'. rewrite loc_cons in Hla'. pose proof (zlen_nonneg p) as Hp.
      destruct (a <? base + zlen p) eqn:E.
      + inversion Hla'; subst first is. replace (pid - pid) with 0 by lia.
        rewrite drop_nonpos by lia.
        apply (range_up_first p ps base pid last (a - base) ie 0 a b); auto; lia.
      + pose proof (loc_fst_ge ps (pid + 1) (base + zlen p) a) as Hge. rewrite Hla' in Hge. simpl in Hge.
        rewrite drop_cons_pos by lia. replace (first - pid - 1) with (first - (pid + 1)) by lia.
        rewrite loc_cons in Hlb. destruct (b <? base + zlen p) eqn:E2; [lia|].
        simpl in Hb. rewrite zlen_app in Hb.
        destruct (IH (pid + 1) (base + zlen p) first last is ie a b) as (pieces & Hr & Hc & Hall); auto; try lia.
        exists pieces. repeat split; auto. rewrite Hc. simpl.
        rewrite drop_app_ge by lia. f_equal. f_equal. lia.
  Qed.

  Lemma mk_parr_wf : forall ps, ps <> [] -> wf_parr A (mk_parr A ps).
  Proof. intros ps H; split; simpl; auto. Qed.

  (** (f2) a range of a partitioned array is the slice of the concatenation *)
  Lemma partition_range_nowrap_lemma : forall pa a b,
    wf_parr A pa -> 0 <= a <= b -> b <= zlen (concat (pa_parts pa)) ->
    exists pa', getitem_range_nowrap A pa a b 1 = Ok pa' /\ wf_parr A pa' /\
                concat (pa_parts pa') = take (b - a) (drop a (concat (pa_parts pa))) /\
                (all_nonempty (pa_parts pa') \/ pa_parts pa' = [[]]).
  Proof.
    intros pa a b Hwf Ha Hb. destruct Hwf as [Hne Hst]. unfold getitem_range_nowrap.
    rewrite Hst, !pidx_is_loc by lia.
    destruct (loc (pa_parts pa) 0 0 a) as [first is] eqn:La.
    destruct (loc (pa_parts pa) 0 0 b) as [last ie] eqn:Lb.
    pose proof (loc_fst_ge (pa_parts pa) 0 0 a) as Hge. rewrite La in Hge. simpl in Hge.
    replace (0 <? 1) with true by lia. destruct (first <? 0) eqn:E; [lia|].
    destruct (range_up_skip (pa_parts pa) 0 0 first last is ie a b) as (pieces & Hr & Hc & Hall); auto; try lia.
    replace (first - 0) with first in Hr by lia. rewrite Hr. simpl.
    replace (a - 0) with a in Hc by lia.
    destruct pieces as [|q pieces].
    - destruct (pa_parts pa) as [|p0 ps] eqn:Ep; [congruence|]. rewrite get_cons_0. simpl.
      eexists; split; [reflexivity|]. split; [apply mk_parr_wf; congruence|]. split; auto.
    - eexists; split; [reflexivity|]. split; [apply mk_parr_wf; congruence|]. split; auto.
  Qed.

  Lemma regularize_pos_bounds : forall start stop n, 0 <= n ->
    let '(a, b) := regularize start stop true n in 0 <= a <= b /\ b <= n.
  Proof.
    intros start stop n Hn. unfold regularize. cbv zeta.
    destruct start as [s|]; destruct stop as [e|]; case_ltb; lia.
  Qed.

  Lemma partition_range_lemma : forall pa start stop,
    wf_parr A pa ->
    let n := zlen (concat (pa_parts pa)) in
    let a := fst (regularize start stop true n) in
    let b := snd (regularize start stop true n) in
    exists pa', getitem_range A pa start stop (Some 1) = Ok pa' /\ wf_parr A pa' /\
                concat (pa_parts pa') = take (b - a) (drop a (concat (pa_parts pa))).
  Proof.
    intros pa start stop Hwf n a b. unfold getitem_range. rewrite (wf_length pa Hwf).
    cbn [bind]. fold n.
    pose proof (regularize_pos_bounds start stop n (zlen_nonneg _)) as Hb.
    replace (0 <? 1) with true by lia.
    subst a b. destruct (regularize start stop true n) as [a b]. cbn [fst snd].
    destruct (partition_range_nowrap_lemma pa a b Hwf) as (pa' & H1 & H2 & H3 & _); try lia.
    exists pa'; auto.
  Qed.

  (* in the words of Base.slice *)
  Lemma partition_range_is_slice_of_concat_lemma : forall pa a b,
    wf_parr A pa -> 0 <= a <= b -> b <= zlen (concat (pa_parts pa)) ->
    rmap (fun p => concat (pa_parts p)) (getitem_range_nowrap A pa a b 1) = slice (concat (pa_parts pa)) a b.
  Proof.
    intros pa a b Hwf Ha Hb.
    destruct (partition_range_nowrap_lemma pa a b Hwf Ha Hb) as (pa' & H1 & _ & H3 & _).
    rewrite H1, slice_ok by lia. simpl. now rewrite H3.
  Qed.

  (* ---- repartition ---- *)
  (** what is still to be consumed when the loop is at (pid, index) *)
  Definition remaining ps (pid index : Z) : list A := drop index (concat (drop pid ps)).

  (* the loop state is inside the source *)
  Definition inside ps (pid index : Z) : Prop :=
    0 <= pid <= zlen ps /\ 0 <= index /\ (pid = zlen ps -> index = 0) /\
    (forall src, get ps pid = Ok src -> index <= zlen src).

  Lemma remaining_end : forall ps, remaining ps (zlen ps) 0 = [].
  Proof. intro ps; unfold remaining. rewrite (drop_all (zlen ps) ps) by lia. reflexivity. Qed.

  Lemma remaining_src : forall ps pid index src, get ps pid = Ok src -> index <= zlen src ->
    remaining ps pid index = drop index src ++ remaining ps (pid + 1) 0.
  Proof.
    intros ps pid index src Hg Hi; unfold remaining.
    rewrite (drop_get _ _ _ Hg). simpl. rewrite drop_app_le by lia.
    now rewrite (drop_nonpos 0) by lia.
  Qed.

  Lemma inside_next : forall ps pid index src, inside ps pid index -> get ps pid = Ok src ->
    inside ps (pid + 1) 0.
  Proof.
    intros ps pid index src (Hp & Hi & He & Hs) Hg. pose proof (get_ok_range _ _ _ Hg).
    repeat split; try lia. intros src' _. apply zlen_nonneg.
  Qed.

  Lemma fill_exit : forall fixed fuel ps len d pid index,
    len <= zlen d -> fill A fixed (S fuel) ps len (Some d) pid index = Ok (d, pid, index).
  Proof.
    intros. simpl. destruct (zlen d <? len) eqn:E; [lia|]. now rewrite app_nil_r.
  Qed.

  Notation dlen := (dst_len A).
  Notation dapp := (dst_app A).

  Lemma dapp_assoc : forall dst (x y : list A), dapp (Some (dapp dst x)) y = dapp dst (x ++ y).
  Proof. intros [d|] x y; simpl; auto. now rewrite app_assoc. Qed.

  Lemma dlen_dapp : forall dst (x : list A), dlen (Some (dapp dst x)) = dlen dst + zlen x.
  Proof. intros [d|] x; simpl; auto. now rewrite zlen_app. Qed.

  Lemma fill_spec : forall fixed fuel ps len dst pid index,
    inside ps pid index ->
    dlen dst <= len ->
    len - dlen dst <= zlen (remaining ps pid index) ->
    (fixed = true \/ 0 < len) ->
    (Z.to_nat (zlen ps - pid) + 2 <= fuel)%nat ->
    exists pid' index',
      fill A fixed fuel ps len dst pid index
        = Ok (dapp dst (take (len - dlen dst) (remaining ps pid index)), pid', index') /\
      inside ps pid' index' /\
      remaining ps pid' index' = drop (len - dlen dst) (remaining ps pid index).
  Proof.
    intros fixed fuel. induction fuel as [|fuel IH]; intros ps len dst pid index Hin Hd Hrem Hfx Hfuel; [lia|].
    pose proof Hin as (Hp & Hi & He & Hs).
    simpl fill.
    destruct (match dst with None => true | Some d => zlen d <? len end) eqn:Econd.
    - (* loop body *)
      destruct (zlen ps <=? pid) eqn:Epid.
      + (* source exhausted *)
        assert (pid = zlen ps) by lia. subst pid. rewrite (He eq_refl) in *.
        rewrite remaining_end in *. rewrite zlen_nil in Hrem.
        assert (Hz : len - dlen dst = 0).
        { destruct dst as [d|]; simpl in *; lia. }
        destruct fixed.
        * simpl. exists (zlen ps), 0. rewrite Hz. rewrite take_nonpos, drop_nonpos by lia.
          rewrite remaining_end. split; [|split]; auto.
        * exfalso. destruct Hfx as [Hfx|Hfx]; [discriminate|].
          destruct dst as [d|]; simpl in *; lia.
      + rewrite andb_false_r.
        destruct (get_ok ps pid) as (src & Hg); [lia|]. rewrite Hg. cbn [bind].
        specialize (Hs src Hg).
        rewrite (remaining_src ps pid index src Hg Hs) in *.
        set (desired := len - dlen dst) in *.
        assert (Hdes : match dst with None => len | Some d => len - zlen d end = desired).
        { unfold desired. destruct dst; simpl; lia. }
        rewrite Hdes.
        assert (Hzd : zlen (drop index src) = zlen src - index) by (apply zlen_drop; lia).
        destruct (zlen src - index <=? desired) eqn:Eav.
        * (* take the rest of this source partition *)
          rewrite slice_ok by lia. cbn [bind].
          rewrite (take_all (zlen src - index)) by lia.
          destruct (IH ps len (Some (dapp dst (drop index src))) (pid + 1) 0) as (pid' & index' & Hf & Hin' & Hrem');
            try lia; auto.
          { eapply inside_next; eauto. }
          { rewrite dlen_dapp. lia. }
          { rewrite dlen_dapp. rewrite zlen_app in Hrem. lia. }
          exists pid', index'. rewrite Hf. rewrite dlen_dapp, dapp_assoc. split; [|split]; auto.
          -- f_equal. f_equal. f_equal. f_equal.
             rewrite take_app_ge by lia. f_equal. f_equal. unfold desired; lia.
          -- rewrite Hrem'. rewrite dlen_dapp. rewrite drop_app_ge by lia. f_equal. unfold desired; lia.
        * (* a strict prefix of what is left in this source partition *)
          rewrite slice_ok by lia. cbn [bind].
          replace (index + desired - index) with desired by lia.
          destruct fuel as [|fuel']; [lia|].
          rewrite fill_exit by (rewrite dlen_dapp || idtac;
                                destruct dst as [d|]; simpl in *; rewrite ?zlen_app, zlen_take by lia; unfold desired in *; simpl in *; lia).
          exists pid, (index + desired). split; [|split].
          -- f_equal. f_equal. f_equal. rewrite take_app_le by lia. reflexivity.
          -- repeat split; try lia.
             intros src' Hg'. rewrite Hg in Hg'; inversion Hg'; subst src'. lia.
          -- rewrite drop_app_le by lia. rewrite drop_drop by lia.
             rewrite <- (remaining_src ps pid (index + desired) src Hg) by lia. reflexivity.
    - (* loop condition false: the target is complete *)
      destruct dst as [d|]; [|discriminate]. simpl in Hd, Hrem |- *.
      assert (len - zlen d = 0) by lia. rewrite H.
      exists pid, index. rewrite take_nonpos, drop_nonpos by lia. split; [|split]; auto.
  Qed.

  (** target stops: a chain starting at prev (strictly increasing when [strict]) *)
  Fixpoint chain (strict : bool) (prev : Z) (stops : list Z) : Prop :=
    match stops with
    | [] => True
    | s :: r => (if strict then prev < s else prev <= s) /\ chain strict s r
    end.

  Lemma last_cons_default : forall (r : list Z) s d, last (s :: r) d = last r s.
  Proof.
    induction r as [|x r IH]; intros s d; auto.
    change (last (s :: x :: r) d) with (last (x :: r) d). rewrite IH.
    change (last (x :: r) s) with (match r with [] => x | _ => last r s end).
    destruct r; auto. rewrite <- (IH x s). reflexivity.
  Qed.

  Lemma chain_last_ge : forall strict stops prev, chain strict prev stops -> prev <= last stops prev.
  Proof.
    induction stops as [|s r IH]; intros prev H; simpl in H; [simpl; lia|].
    destruct H as [H1 H2]. rewrite last_cons_default. specialize (IH s H2).
    destruct strict; lia.
  Qed.

  Lemma repart_loop_spec : forall fixed strict fuel ps stops prev pid index,
    inside ps pid index ->
    chain strict prev stops ->
    (fixed = true \/ strict = true) ->
    last stops prev - prev <= zlen (remaining ps pid index) ->
    (Z.to_nat (zlen ps) + 2 <= fuel)%nat ->
    exists out,
      repart_loop A fixed fuel ps stops prev pid index = Ok out /\
      concat out = take (last stops prev - prev) (remaining ps pid index) /\
      cumstops A prev out = stops.
  Proof.
    intros fixed strict fuel ps. induction stops as [|s r IH]; intros prev pid index Hin Hch Hfs Hrem Hfuel.
    - exists []. simpl. rewrite take_nonpos by lia. auto.
    - simpl in Hch. destruct Hch as [Hps Hch]. rewrite last_cons_default in *.
      pose proof (chain_last_ge _ _ _ Hch) as Hls.
      assert (Hle : prev <= s) by (destruct strict; lia).
      assert (H1 : dst_len A None <= s - prev) by (simpl; lia).
      assert (H2 : s - prev - dst_len A None <= zlen (remaining ps pid index)) by (simpl; lia).
      assert (H3 : fixed = true \/ 0 < s - prev).
      { destruct Hfs as [Hfs|Hfs]; [now left|right; subst strict; lia]. }
      assert (H4 : (Z.to_nat (zlen ps - pid) + 2 <= fuel)%nat) by (destruct Hin as (Hp & _); lia).
      destruct (fill_spec fixed fuel ps (s - prev) None pid index Hin H1 H2 H3 H4)
        as (pid' & index' & Hf & Hin' & Hrem').
      simpl repart_loop. rewrite Hf. cbn [bind]. simpl dst_len in *. simpl dst_app.
      replace (s - prev - 0) with (s - prev) in * by lia.
      destruct (IH s pid' index') as (tl & Htl & Hc & Hcs); auto.
      { rewrite Hrem'. rewrite zlen_drop by lia. lia. }
      rewrite Htl. cbn [bind]. eexists; split; [reflexivity|]. split.
      + simpl. rewrite Hc, Hrem'.
        replace (last r s - prev) with ((s - prev) + (last r s - s)) by lia.
        now rewrite take_add by lia.
      + simpl. rewrite zlen_take by lia. replace (prev + (s - prev)) with s by lia. now rewrite Hcs.
  Qed.

  Lemma list_eqb_Zeqb : forall (l m : list Z), list_eqb Z.eqb l m = true -> l = m.
  Proof.
    induction l as [|x l IH]; intros [|y m] H; simpl in H; try discriminate; auto.
    apply andb_true_iff in H. destruct H as [H1 H2]. apply Z.eqb_eq in H1. subst. f_equal; auto.
  Qed.

  Lemma inside_start : forall ps, inside ps 0 0.
  Proof.
    intro ps. pose proof (zlen_nonneg ps). repeat split; try lia. intros src _. apply zlen_nonneg.
  Qed.

  Lemma remaining_start : forall ps, remaining ps 0 0 = concat ps.
  Proof. intro ps; unfold remaining. now rewrite !drop_nonpos by lia. Qed.

  (** target stops accepted by repartition: non-empty, non-negative, non-decreasing *)
  Definition monotone (stops : list Z) : Prop := stops <> [] /\ chain false 0 stops.
  Definition strictly_monotone (stops : list Z) : Prop := stops <> [] /\ chain true 0 stops.

  Lemma repartition_general : forall fixed strict pa stops' fuel,
    wf_parr A pa -> stops' <> [] -> chain strict 0 stops' -> (fixed = true \/ strict = true) ->
    last stops' 0 = zlen (concat (pa_parts pa)) ->
    (repartition_fuel A pa <= fuel)%nat ->
    exists pa', repartition A fixed fuel pa stops' = Ok pa' /\
                wf_parr A pa' /\ pa_stops pa' = stops' /\
                concat (pa_parts pa') = concat (pa_parts pa).
  Proof.
    intros fixed strict pa stops' fuel Hwf Hne Hch Hfs Hlast Hfuel. unfold repartition.
    destruct (list_eqb Z.eqb stops' (pa_stops pa)) eqn:Eeq.
    - apply list_eqb_Zeqb in Eeq. exists pa; auto.
    - pose proof Hwf as [Hpne Hst].
      assert (Hb : back stops' = Ok (last stops' 0)) by (destruct stops'; [congruence|reflexivity]).
      rewrite Hb. cbn [bind]. fold (pa_length A pa). rewrite (wf_length pa Hwf). cbn [bind].
      rewrite Hlast. rewrite Z.eqb_refl. simpl negb. cbv iota.
      destruct (repart_loop_spec fixed strict fuel (pa_parts pa) stops' 0 0 0) as (out & Ho & Hc & Hcs); auto.
      + apply inside_start.
      + rewrite remaining_start. lia.
      + unfold repartition_fuel in Hfuel. unfold zlen. lia.
      + rewrite Ho. cbn [bind]. eexists; split; [reflexivity|]. simpl.
        split; [|split]; auto.
        * split; simpl; auto. intro Hn; rewrite Hn in Hcs. simpl in Hcs. congruence.
        * rewrite Hc, remaining_start. rewrite take_all by lia. reflexivity.
  Qed.

  (** (f3)+(f4) for the code with the guard: in bounds, enough fuel, same concatenation, requested stops *)
  Lemma repartition_fixed_lemma : forall pa stops',
    wf_parr A pa -> monotone stops' -> last stops' 0 = zlen (concat (pa_parts pa)) ->
    exists pa', repartition A true (repartition_fuel A pa) pa stops' = Ok pa' /\
                wf_parr A pa' /\ pa_stops pa' = stops' /\
                concat (pa_parts pa') = concat (pa_parts pa).
  Proof.
    intros pa stops' Hwf [Hne Hch] Hlast.
    apply (repartition_general true false); auto.
  Qed.

  Lemma repartition_in_bounds_lemma : forall pa stops',
    wf_parr A pa -> monotone stops' -> last stops' 0 = zlen (concat (pa_parts pa)) ->
    exists pa', repartition A true (repartition_fuel A pa) pa stops' = Ok pa'.
  Proof.
    intros pa stops' Hwf Hm Hl. destruct (repartition_fixed_lemma pa stops' Hwf Hm Hl) as (pa' & H & _).
    exists pa'; exact H.
  Qed.

  (* the pinned code is right whenever no target partition is empty *)
  Lemma repartition_pinned_strict_lemma : forall pa stops',
    wf_parr A pa -> strictly_monotone stops' -> last stops' 0 = zlen (concat (pa_parts pa)) ->
    exists pa', repartition A false (repartition_fuel A pa) pa stops' = Ok pa' /\
                wf_parr A pa' /\ pa_stops pa' = stops' /\
                concat (pa_parts pa') = concat (pa_parts pa).
  Proof.
    intros pa stops' Hwf [Hne Hch] Hlast.
    apply (repartition_general false true); auto.
  Qed.
End PartitionProofs.

(** the pinned code refuted: one partition [1,2,3], target stops {3,3} *)
Lemma repartition_refuted_lemma :
  exists (pa : parr Z) (stops' : list Z),
    wf_parr Z pa /\ monotone stops' /\ last stops' 0 = zlen (concat (pa_parts pa)) /\
    repartition Z false (repartition_fuel Z pa) pa stops' = Err EOob /\
    (forall extra, repartition Z false (repartition_fuel Z pa + extra) pa stops' = Err EOob).
Proof.
  exists (mk_parr Z [[1; 2; 3]]), [3; 3].
  split; [split; [discriminate|reflexivity]|].
  split; [split; [discriminate|simpl; lia]|].
  split; [reflexivity|]. split; [reflexivity|]. intro extra; reflexivity.
Qed.

(* ====================================================================== *)
(** * Examples: the hypotheses of the theorems are satisfiable by non-trivial instances *)

Module Examples.
  (* payloads and declarations are numbers; a payload conforms when it is below the declared bound.
     Generator 0 throws at its first invocation, returns a non-conforming payload at the second, and
     the payload 7 from then on; generator 1 always returns 8. *)
  Definition ex_shape (d a : Z) : bool := a <? d.
  Definition ex_gen (k n : nat) : outcome Z :=
    match k, n with
    | O, O => GFail
    | O, S O => GOk 100
    | O, _ => GOk 7
    | _, _ => GOk 8
    end.
  Definition ex_info (k : nat) : vinfo Z :=
    {| vi_decl := 10; vi_has_length := true; vi_has_form := false; vi_has_cache := Nat.eqb k 0 |}.
  Definition ex_h : list step :=
    [SArray 0 []; SLength 0 []; SArray 0 []; SArray 0 [EvEvictAll]; SArray 0 []; SPeek 0;
     SEvent (EvEvict 0); SForm 0 []; SArray 1 []; SArray 0 []].
  Notation ex_run h := (run Z Z ex_shape ex_gen ex_info h (init Z Live)).

  Example ex_deterministic : deterministic Z Z ex_shape ex_gen ex_info 0%nat 7.
  Proof.
    intros n a Hg Hs. destruct n as [|[|n]]; simpl in Hg.
    - discriminate.
    - inversion Hg; subst. discriminate.
    - inversion Hg; auto.
  Qed.

  (* cache_coherent / virtual_transparent: after the history the cache holds the right payload, three
     invocations were needed (one throw, one mismatch, one success; later calls are hits, the form query is
     answered from the inferred form), and an operation sees the payload *)
  Example ex_history :
    st_cache Z (ex_run ex_h) = [(0%nat, 7)] /\
    st_count Z (ex_run ex_h) 0%nat = 4%nat /\
    st_count Z (ex_run ex_h) 1%nat = 1%nat /\
    fst (apply Z Z ex_shape ex_gen ex_info (fun a => a + 1) 0%nat [] (ex_run ex_h)) = Ok 8 /\
    coherent Z Z ex_shape ex_gen ex_info (ex_run ex_h).
  Proof.
    repeat split; try reflexivity. apply cache_coherent_lemma.
  Qed.

  (* generator_called_lazily: the declared length costs nothing, a hit costs nothing, a miss costs one *)
  Example ex_lazy :
    let s := ex_run [SArray 0 []; SArray 0 []; SArray 0 []] in
    st_count Z s 0%nat = 3%nat /\
    st_count Z (exec Z Z ex_shape ex_gen ex_info (SLength 0 []) s) 0%nat = 3%nat /\
    st_count Z (exec Z Z ex_shape ex_gen ex_info (SArray 0 []) s) 0%nat = 3%nat /\
    st_count Z (exec Z Z ex_shape ex_gen ex_info (SArray 0 [])
                  (exec Z Z ex_shape ex_gen ex_info (SEvent EvEvictAll) s)) 0%nat = 4%nat.
  Proof. repeat split; reflexivity. Qed.

  (* mismatch_errors / no_partial_after_failure: their hypotheses hold in the state after one (failed)
     call, where the generator is about to return the non-conforming payload 100 *)
  Example ex_mismatch :
    let s := ex_run [SArray 0 []] in
    miss Z Z ex_info s 0%nat = true /\
    ex_gen 0%nat (st_count Z s 0%nat) = GOk 100 /\ ex_shape (vi_decl Z (ex_info 0%nat)) 100 = false /\
    fails_now Z Z ex_shape ex_gen ex_info s 0%nat.
  Proof.
    repeat split; try reflexivity. right. exists 100. split; reflexivity.
  Qed.

  (* partitions: empty partitions at the start, in the middle and at the end *)
  Definition ex_pa : parr Z := mk_parr Z [[]; [10]; []; [11; 12]; []].

  Example ex_wf : wf_parr Z ex_pa.
  Proof. split; [discriminate|reflexivity]. Qed.

  Example ex_index :
    partitionid_index_at (pa_stops ex_pa) 1 = (3, 0) /\ located Z (pa_parts ex_pa) 3 0 1.
  Proof.
    split; [reflexivity|]. exists [[]; [10]; []], [11; 12], [[]]. repeat split; try reflexivity; lia.
  Qed.

  Example ex_range :
    rmap (fun p => concat (pa_parts p)) (getitem_range_nowrap Z ex_pa 0 2 1) = Ok [10; 11] /\
    getitem_range Z ex_pa (Some (-2)) None (Some 1) = Ok (mk_parr Z [[11; 12]]).
  Proof. split; reflexivity. Qed.

  (* a target with empty partitions in front, in the middle and (after the data) at the end *)
  Example ex_monotone : monotone [0; 2; 2; 3; 3] /\ last [0; 2; 2; 3; 3] 0 = zlen (concat (pa_parts ex_pa)).
  Proof. split; [split; [discriminate|simpl; lia]|reflexivity]. Qed.

  Example ex_repartition :
    repartition Z true (repartition_fuel Z ex_pa) ex_pa [0; 2; 2; 3; 3]
      = Ok {| pa_parts := [[]; [10; 11]; []; [12]; []]; pa_stops := [0; 2; 2; 3; 3] |} /\
    repartition Z false 10 (mk_parr Z [[]; [10]; []; [11; 12]]) [0; 2; 2; 3; 3] = Err EOob /\
    repartition Z false (repartition_fuel Z ex_pa) ex_pa [2; 3]
      = Ok {| pa_parts := [[10; 11]; [12]]; pa_stops := [2; 3] |}.
  Proof. repeat split; reflexivity. Qed.

  Example ex_strict : strictly_monotone [2; 3].
  Proof. split; [discriminate|simpl; lia]. Qed.
End Examples.
