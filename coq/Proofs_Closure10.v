(** C11 (closure), part 10: flatten(axis) keeps validity on EVERY valid layout -- "the input has a value"
    ([Proofs_Closure3.flatten_preserves_valid]) is not needed: the gathers inside [flat_p] are [carry], closed by
    [Proofs_Closure7.carry_valid_len] on validity alone, and the lengths come from the index lists.  The proofs are those of
    Proofs_Closure3.v with the value removed from the invariant; and the summary of all modelled operations. *)
From Coq Require Import ZArith List Bool Lia ZifyBool.
From AwkV Require Import Base Layout LayoutInd Valid Types AtAxis Carry Ops_Struct Ops_Flatten Ops_Option Ops_Getitem
                         Ops_Fields Ops_Sort Ops_SortAxes Ops_Reduce
                         Typing Proofs_Typing Proofs_C11 Proofs_Lists Proofs_ToList Proofs_Carry Proofs_CarryValid
                         Proofs_AtAxis Proofs_AtAxisOps Proofs_Closure Proofs_Closure2 Proofs_Closure3 Proofs_Closure4
                         Proofs_Closure6 Proofs_Closure7 Proofs_Closure8 Proofs_Closure9.
Import ListNotations.
Open Scope Z_scope.
Ltac Zify.zify_post_hook ::= Z.to_euclidean_division_equations.

(* gathering a list of ranges out of a valid layout: success is enough *)
Lemma ranges_content_ok' c lc bs fc :
  Valid None c -> Forall (rng_ok lc) bs -> ranges_content c bs = Ok fc ->
  Valid None fc /\ clen fc = sumZ (lens_of bs) /\ optionlike fc = optionlike c.
Proof.
  intros HV Hb H. unfold ranges_content in H. destruct (carry_valid_len c _ fc HV H) as (A & B & C & _).
  split; [exact A|]. split; [rewrite B; eapply zlen_ranges; exact Hb|exact C].
Qed.

(* the invariant of [flat_p], without values *)
Definition flat_ok' (c : content) (r : list Z * content) : Prop :=
  Valid None (snd r) /\
  match fst r with
  | [] => clen c <= clen (snd r) /\ (optionlike c = false -> optionlike (snd r) = false)
  | _ => sorted_in (fst r) (clen (snd r))
  end.

Lemma at_list_ok' rec p d ax b c c' rewrap r :
  Valid p c -> list_content c = Some c' -> Forall (pair_ok (clen c')) b -> clen c <= zlen b ->
  (is_strk p = false -> Valid None c') -> ParamOk p c ->
  (rec = flat_p None c' (d + 1) ax) ->
  (forall r0, rec = Ok r0 -> Valid None c' -> flat_ok' c' r0) ->
  rewrap_ok c c' rewrap ->
  fl_at_list rec p d ax b c' rewrap = Ok r -> flat_ok' c r.
Proof.
  intros HV Hc Hb Hn Hvc Hp Hrec IH Hrw H. subst rec. unfold fl_at_list in H.
  assert (Hb' : Forall (pair_ok (Z.max 0 (clen c'))) b) by (eapply Forall_impl; [|exact Hb]; intros ab; apply pair_ok_mono; lia).
  destruct (squash_rng (Z.max 0 (clen c')) b ltac:(lia) Hb') as [Hsq Hsl]. fold (squash b) in H.
  destruct (ax =? d + 1) eqn:E.
  - destruct (is_strk p) eqn:Es; [discriminate|]. specialize (Hvc eq_refl).
    apply bind_Ok in H as (fc & Hfc & H). inversion H; subst r.
    destruct (ranges_content_ok' _ _ _ _ Hvc Hsq Hfc) as (X1 & X3 & _).
    split; [exact X1|]. cbn [fst snd]. destruct (offsets_from 0 (lens_of b)) eqn:Eo; [exfalso; eapply offsets_from_nonempty, Eo|].
    rewrite <- Eo. apply offsets_sorted; [eapply lens_of_nonneg, Hb|rewrite X3, Hsl; lia].
  - apply bind_Ok in H as ([inner fc] & Hr & H).
    assert (HVc : Valid None c').
    { destruct (is_strk p) eqn:Es; [|auto]. exfalso.
      destruct (ParamOk_str _ _ Hp Es) as (c0 & k & rn & n & dd & Hc0 & -> & _). rewrite Hc in Hc0. inversion Hc0; subst.
      eapply flat_p_chars, Hr. }
    destruct (IH _ Hr HVc) as (Y1 & Y2). cbn [fst snd] in Y1, Y2.
    destruct inner as [|i0 inner'].
    + inversion H; subst r. destruct Y2 as (Y2 & Y3). destruct (Hrw fc Y1 Y2 Y3) as (Z1 & Z2 & Z3).
      split; [exact Z1|]. cbn [fst snd]. split; assumption.
    + apply bind_Ok in H as (s & Hs & H). apply bind_Ok in H as (e & He & H). inversion H; subst r.
      destruct (remap_pairs _ _ Y2 (squash b) s e) as (A & B & C); [|exact Hs|exact He|].
      { eapply Forall_impl; [|exact Hsq]. unfold rng_ok. intros ab. lia. }
      unfold squash in B, C. rewrite zlen_map in B, C.
      split; [constructor; [exact I|lia|exact A|intros _; exact Y1]|]. cbn [fst snd clen].
      split; [lia|reflexivity].
Qed.

Lemma at_option_ok' rec ix c c' rewrap r :
  (forall r0, rec = Ok r0 -> flat_ok' c' r0) -> rewrap_ok c c' rewrap -> optionlike c = true ->
  fl_at_option rec ix rewrap = Ok r -> flat_ok' c r.
Proof.
  intros IH Hrw Hoc H. unfold fl_at_option in H. apply bind_Ok in H as ([inner fc] & Hr & H).
  destruct (IH _ Hr) as (Y1 & Y2). cbn [fst snd] in Y1, Y2. destruct inner as [|i0 inner'].
  - inversion H; subst r. destruct Y2 as (Y2 & Y3). destruct (Hrw fc Y1 Y2 Y3) as (Z1 & Z2 & Z3).
    split; [exact Z1|]. cbn [fst snd]. split; assumption.
  - apply bind_Ok in H as (rs & Hrs & H). apply bind_Ok in H as (fc' & Hfc' & H). inversion H; subst r.
    assert (Hrng : Forall (rng_ok (Z.max 0 (clen fc))) rs).
    { apply Forall_forall. intros ab Hab. destruct (mapM_In_inv _ _ _ _ Hrs Hab) as (i & _ & Hi).
      destruct (i <? 0); [inversion Hi; subst; unfold rng_ok; cbn [fst snd]; lia|].
      apply bind_Ok in Hi as (a & Ha & Hi). apply bind_Ok in Hi as (b & Hb & Hi). inversion Hi; subst.
      destruct (Y2 i (i + 1) a b ltac:(lia) Ha Hb) as (P1 & P2 & P3). unfold rng_ok. cbn [fst snd]. lia. }
    destruct (ranges_content_ok' _ _ _ _ Y1 Hrng Hfc') as (X1 & X3 & _).
    split; [exact X1|]. cbn [fst snd]. destruct (offsets_from 0 (lens_of rs)) eqn:Eo; [exfalso; eapply offsets_from_nonempty, Eo|].
    rewrite <- Eo. apply offsets_sorted; [eapply lens_of_rng, Hrng|lia].
Qed.

Lemma flat_valid_all' c : forall p d axis r,
  Valid p c -> flat_p p c d axis = Ok r -> flat_ok' c r.
Proof.
  induction c as [dt shape data| |w o c IHc|w s e c IHc|c size zl IHc|w ix c IHc|w ix c IHc|m vw c IHc
                 |m vw lsb n c IHc|c IHc|w t ix cs IHcs|cs ks n IHcs|arr rn c IHc] using content_ind';
    intros p d axis r HV H; pose proof HV as HV0; inversion HV; subst;
    rewrite flat_p_eq in H; apply bind_Ok in H as (ax & _ & H); unfold flat_body in H;
    (destruct (ax =? d) eqn:Ed; [discriminate|]); try discriminate.
  - (* Empty *)
    inversion H; subst r. split; [constructor; exact I|]. cbn [fst snd clen].
    intros i j x y _ Hx Hy. apply get_In in Hx. apply get_In in Hy. destruct Hx as [<-|[]]. destruct Hy as [<-|[]]. lia.
  - (* ListOffset *)
    destruct o as [|a o']; [discriminate|].
    eapply (at_list_ok' _ p d ax (pairs (a :: o')) (ListOffset w (a :: o') c) c); try eassumption; try reflexivity.
    + cbn [clen]. rewrite zlen_pairs by discriminate. lia.
    + intros r0 Hr0 HVc. eapply IHc; eassumption.
    + intros fc HVf Hn _. split; [|split; [cbn [clen]; lia|reflexivity]].
      constructor; [exact I|assumption| |intros _; exact HVf].
      match goal with Hq : Forall (pair_ok (clen c)) _ |- _ => eapply Forall_impl; [|exact Hq] end. intros ab. apply pair_ok_mono, Hn.
  - (* ListA *)
    destruct (zlen e <? zlen s) eqn:Ez; [discriminate|].
    eapply (at_list_ok' _ p d ax (zip s e) (ListA w s e c) c); try eassumption; try reflexivity.
    + cbn [clen]. rewrite zlen_zip. lia.
    + intros r0 Hr0 HVc. eapply IHc; eassumption.
    + intros fc HVf Hn _. split; [|split; [cbn [clen]; lia|reflexivity]].
      constructor; [exact I|assumption| |intros _; exact HVf].
      match goal with Hq : Forall (pair_ok (clen c)) _ |- _ => eapply Forall_impl; [|exact Hq] end. intros ab. apply pair_ok_mono, Hn.
  - (* Regular *)
    apply bind_Ok in H as ([b cc] & Hb & H). cbn [fst] in H.
    destruct (list_bounds_valid _ _ _ _ HV0 Hb) as (Hcc & Hn & Hp & Hvc). cbn [list_content] in Hcc. inversion Hcc; subst cc.
   
    eapply (at_list_ok' _ p d ax b (Regular c size zl) c); try eassumption; try reflexivity.
    + intros r0 Hr0 HVc. eapply IHc; eassumption.
    + intros fc HVf Hn' _. split; [constructor; [exact I|assumption|assumption|intros _; exact HVf]|]. split; [|reflexivity].
      cbn [clen]. destruct (size =? 0) eqn:Ez; [lia|]. apply Z.div_le_mono; lia.
  - (* Indexed *)
   
    eapply (at_option_ok' _ ix (Indexed w ix c) c); [|apply rewrap_opt; [reflexivity|assumption|]|reflexivity|exact H].
    + intros r0 Hr0. eapply (IHc None); eassumption.
    + intros fc HVf Hn Ho. split; [|cbn [clen]; lia]. constructor; [exact I| |exact Ho|exact HVf].
      match goal with Hq : Forall _ ix |- _ => eapply Forall_impl; [|exact Hq] end. cbv beta. intros i Hi. lia.
  - (* IndexedOption *)
   
    eapply (at_option_ok' _ ix (IndexedOption w ix c) c); [|apply rewrap_opt; [reflexivity|assumption|]|reflexivity|exact H].
    + intros r0 Hr0. eapply (IHc None); eassumption.
    + intros fc HVf Hn Ho. split; [|cbn [clen]; lia]. constructor; [exact I| |exact Ho|exact HVf].
      match goal with Hq : Forall _ ix |- _ => eapply Forall_impl; [|exact Hq] end. cbv beta. intros i Hi. lia.
  - (* ByteMasked *)
    apply bind_Ok in H as (oi & _ & H).
    eapply (at_option_ok' _ (fst oi) (ByteMasked m vw c) c); [|apply rewrap_opt; [reflexivity|assumption|]|reflexivity|exact H].
    + intros r0 Hr0. eapply (IHc None); eassumption.
    + intros fc HVf Hn Ho. split; [|cbn [clen]; lia]. constructor; [exact I|lia|exact Ho|exact HVf].
  - (* BitMasked *)
    apply bind_Ok in H as (oi & _ & H).
    eapply (at_option_ok' _ (fst oi) (BitMasked m vw lsb n c) c); [|apply rewrap_opt; [reflexivity|assumption|]|reflexivity|exact H].
    + intros r0 Hr0. eapply (IHc None); eassumption.
    + intros fc HVf Hn Ho. split; [|cbn [clen]; lia]. constructor; [exact I|assumption|assumption|lia|exact Ho|exact HVf].
  - (* Unmasked *)
    apply bind_Ok in H as ([inner fc] & Hr & H).
    match goal with HVc : Valid None c |- _ => destruct (IHc None _ _ _ HVc Hr) as (Y1 & Y2) end. cbn [fst snd] in Y1, Y2.
    destruct inner as [|i0 inner'].
    + inversion H; subst r. destruct Y2 as (Y2 & Y3). split; [constructor; [exact I|auto|exact Y1]|]. cbn [fst snd clen].
      split; [exact Y2|discriminate].
    + inversion H; subst r. split; [exact Y1|exact Y2].
  - (* Record *)
    destruct (ax =? d + 1); [discriminate|]. apply bind_Ok in H as (cs' & Hcs' & H). inversion H; subst r.
    apply fl_fields_inv in Hcs'.
    match goal with HVs : Forall (Valid None) cs |- _ => rename HVs into HVs0 end.
    assert (HF : Forall2 (fun x y => Valid None y /\ clen x <= clen y) cs cs').
    { eapply Forall2_impl_In; [exact Hcs'|]. cbv beta. intros x y Hx Hxy. rewrite Forall_forall in IHcs, HVs0.
      destruct (IHcs x Hx None _ _ _ (HVs0 x Hx) Hxy) as (Y1 & Y2 & _). cbn [fst snd] in *. auto. }
    split; [|cbn [fst snd clen]; split; [lia|reflexivity]]. cbn [snd].
    constructor; [exact I|assumption| | |].
    + match goal with Hn : Forall (fun x => n <= clen x) cs |- _ => rewrite Forall_forall in Hn; rename Hn into Hn0 end.
      eapply Forall2_Forall_r; [exact HF|]. cbv beta. intros x y Hx (_ & X2). specialize (Hn0 x Hx). lia.
    + intros k Hk. rewrite (Forall2_length _ _ _ HF). auto.
    + eapply Forall2_Forall_r; [exact HF|]. cbv beta. intros x y _ (X1 & _). exact X1.
  - (* Par *)
   
    match goal with HVc : Valid arr c |- _ => destruct (IHc arr _ _ _ HVc H) as (Y1 & Y2) end.
    split; [exact Y1|]. destruct (fst r); [|exact Y2]. cbn [clen]. rewrite optionlike_Par. exact Y2.
Qed.


(* every valid layout, every axis *)
Theorem flatten_preserves_valid_full : forall axis c c',
  Valid None c -> flatten_model axis c = Ok c' -> Valid None c'.
Proof.
  intros axis c c' HV H. unfold flatten_model in H. apply bind_Ok in H as (r & Hr & H). inversion H; subst.
  exact (proj1 (flat_valid_all' (expand c) None 0 axis r (expand_valid_p c None HV) Hr)).
Qed.

(* a string whose character buffer is too short to have a value, next to the lists that are flattened *)
Example flatten_preserves_valid_full_ex :
  let bad := Par (Some AString) None (ListOffset I64 [0; 2; 3; 3] (Par (Some AChar) None (Numpy DUInt8 [5] [DZ 97]))) in
  let c := IndexedOption I64 [1; -1; 0]
             (ListOffset I64 [0; 2; 3]
                (ByteMasked [1; 0; 1] true
                   (Record [ListA I64 [0; 4; 1] [1; 4; 3] (Numpy DInt64 [3; 1] [DZ 1; DZ 2; DZ 3]); bad] (Some [[120]; [121]]) 3))) in
  valid_b c = true /\ to_list c = Err EValue /\
  (do r <- flatten_model 1 c; Ok (valid_b r)) = Ok true.
Proof. vm_compute. repeat split. Qed.

(* ---------------------------------------------------------------- all modelled operations, flatten without hypothesis *)
(* the statement of [Proofs_Closure9.closure_all_modelled] with the flatten line strengthened; the table of remaining
   hypotheses in Proofs_Closure9.v applies with "flatten: none" *)
Theorem closure_all_modelled_full : forall c, Valid None c ->
  (forall axis c', num_model axis c = Ok c' -> Valid None c') /\
  (forall axis c', localindex_model axis c = Ok c' -> Valid None c') /\
  (forall target axis c', ax_frag Qpad c axis = true -> rpad_model target axis c = Ok c' -> Valid None c') /\
  (forall target axis c', ax_frag Qpad c axis = true -> rpadclip_model target axis c = Ok c' -> Valid None c') /\
  (forall n repl axis c', ax_frag Qcomb c axis = true -> comb_model n repl axis c = Ok c' -> Valid None c') /\
  (forall k c', fc_frag k false c = true -> field_content k c = Ok c' -> Valid None c') /\
  (forall ks c', fields_content ks c = Ok c' -> Valid None c') /\
  (forall k what c', Valid None what -> setfield_model k c what = Ok c' -> Valid None c') /\
  (forall value c', Valid None value -> unionlike value = false -> fn_frag c = true ->
                    fillna_model value c = Ok c' -> Valid None c') /\
  (forall axis c', flatten_model axis c = Ok c' -> Valid None c') /\
  (forall asc argsort axis c', sort_model asc argsort axis c = Ok c' -> Valid None c') /\
  (forall asc axis c', sort_axes_model asc axis c = Ok c' -> Valid None c') /\
  (forall asc argsort axis c', sort_model_all asc argsort axis c = Ok c' -> Valid None c') /\
  (forall r axis mask keepdims c', red_frag mask keepdims c axis = true ->
                                   reduce_model r axis mask keepdims c = Ok c' -> Valid None c') /\
  (forall ix c', carry c ix = Ok c' -> Valid None c') /\
  (forall a b c', crange c a b = Ok c' -> Valid None c') /\
  (forall items c', nostr c = true -> gi_frag c = true -> getitem_model items c = Ok c' -> Valid None c').
Proof.
  intros c HV.
  destruct (closure_all_modelled c HV) as (A1 & A2 & A3 & A4 & A5 & A6 & A7 & A8 & A9 & _ & A11 & A12 & A13 & A14 & A15 & A16 & A17).
  repeat split; try assumption.
  intros axis c'. apply flatten_preserves_valid_full, HV.
Qed.

(* the operations closed on EVERY valid layout with no hypothesis at all *)
Corollary closure_unconditional_full : forall c, Valid None c ->
  Valid None (expand c) /\
  (forall axis c', num_model axis c = Ok c' -> Valid None c') /\
  (forall axis c', localindex_model axis c = Ok c' -> Valid None c') /\
  (forall ks c', fields_content ks c = Ok c' -> Valid None c') /\
  (forall k what c', Valid None what -> setfield_model k c what = Ok c' -> Valid None c') /\
  (forall axis c', flatten_model axis c = Ok c' -> Valid None c') /\
  (forall asc argsort axis c', sort_model_all asc argsort axis c = Ok c' -> Valid None c') /\
  (forall r axis mask keepdims c', keepdims || negb mask = true -> reduce_model r axis mask keepdims c = Ok c' -> Valid None c') /\
  (forall ix c', carry c ix = Ok c' -> Valid None c') /\
  (forall a b c', crange c a b = Ok c' -> Valid None c').
Proof.
  intros c HV. destruct (closure_unconditional c HV) as (B0 & B1 & B2 & B3 & B4 & B5 & B6 & B7 & B8).
  repeat split; try assumption. intros axis c'. apply flatten_preserves_valid_full, HV.
Qed.
