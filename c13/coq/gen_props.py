#!/usr/bin/env python3
"""regenerates Props_C13.v from the `Theorem`s of Proofs_C13.v (statement copied verbatim, proof = exact lemma)."""
import re
KERNEL = {   # theorem-name prefix -> kernel name in kernel-specification.yml
    'ListArray_num': 'awkward_ListArray_num', 'RegularArray_num': 'awkward_RegularArray_num',
    'flatten_offsets': 'awkward_ListOffsetArray_flatten_offsets', 'localindex': 'awkward_localindex',
    'ByteMasked_toIndexedOption': 'awkward_ByteMaskedArray_toIndexedOptionArray',
    'UnionArray_fillna': 'awkward_UnionArray_fillna', 'NumpyArray_fill': 'awkward_NumpyArray_fill',
    'IndexedArray_fill': 'awkward_IndexedArray_fill', 'UnionArray_filltags': 'awkward_UnionArray_filltags',
    'UnionArray_fillindex': 'awkward_UnionArray_fillindex', 'ListArray_validity': 'awkward_ListArray_validity',
    'IndexedArray_validity': 'awkward_IndexedArray_validity', 'UnionArray_validity': 'awkward_UnionArray_validity',
    'RegularArray_broadcast_tooffsets': 'awkward_RegularArray_broadcast_tooffsets',
    'ListOffsetArray_compact_offsets': 'awkward_ListOffsetArray_compact_offsets',
    'RegularArray_compact_offsets': 'awkward_RegularArray_compact_offsets',
    'RegularArray_getitem_next_at': 'awkward_RegularArray_getitem_next_at',
    'ListArray_getitem_next_at': 'awkward_ListArray_getitem_next_at',
    'ByteMasked_nextcarry': 'awkward_ByteMaskedArray_getitem_nextcarry',
    'IndexedArray_flatten_nextcarry': 'awkward_IndexedArray_flatten_nextcarry',
    'combinations_count': 'awkward_ListArray_combinations_length',
    'ListArray_compact_offsets': 'awkward_ListArray_compact_offsets',
    'ListArray_combinations_length': 'awkward_ListArray_combinations_length',
    'reduce_count': 'awkward_reduce_count_64', 'reduce_sum': 'awkward_reduce_sum',
    'IndexedArray_getitem_nextcarry': 'awkward_IndexedArray_getitem_nextcarry',
    'IndexedArray_numnull': 'awkward_IndexedArray_numnull',
    'RegularArray_localindex': 'awkward_RegularArray_localindex', 'ListArray_localindex': 'awkward_ListArray_localindex',
    'RegularArray_getitem_carry': 'awkward_RegularArray_getitem_carry', 'ListArray_getitem_carry': 'awkward_ListArray_getitem_carry',
    'RegularArray_getitem_next_range': 'awkward_RegularArray_getitem_next_range',
    'ListArray_min_range': 'awkward_ListArray_min_range',
    'ListArray_rpad_and_clip_length_axis1': 'awkward_ListArray_rpad_and_clip_length_axis1',
    'ListOffsetArray_rpad_length_axis1': 'awkward_ListOffsetArray_rpad_length_axis1',
    'index_rpad_and_clip_axis0': 'awkward_index_rpad_and_clip_axis0', 'index_rpad_and_clip_axis1': 'awkward_index_rpad_and_clip_axis1',
    'RegularArray_rpad_and_clip_axis1': 'awkward_RegularArray_rpad_and_clip_axis1',
    'regularize_rangeslice': 'awkward_ListArray_getitem_next_range',
    'regularize_arrayslice': 'awkward_regularize_arrayslice',
    'sorting_ranges_length': 'awkward_sorting_ranges_length',
    'reduce_local_nextparents': 'awkward_ListOffsetArray_reduce_local_nextparents_64',
    'RegularArray_broadcast_tooffsets_size1': 'awkward_RegularArray_broadcast_tooffsets_size1',
    'ListArray_broadcast_tooffsets': 'awkward_ListArray_broadcast_tooffsets',
    'ByteMasked_nextcarry_outindex': 'awkward_ByteMaskedArray_getitem_nextcarry_outindex',
    'BitMasked_to_ByteMasked': 'awkward_BitMaskedArray_to_ByteMaskedArray',
    'ListArray_fill': 'awkward_ListArray_fill', 'unique': 'awkward_unique',
    'reduce_countnonzero': 'awkward_reduce_countnonzero', 'reduce_max': 'awkward_reduce_max', 'reduce_min': 'awkward_reduce_min',
    'NumpyArray_copy': 'awkward_NumpyArray_copy', 'reduce_prod': 'awkward_reduce_prod', 'reduce_generic': 'awkward_reduce_sum', 'reduce_argmax': 'awkward_reduce_argmax', 'reduce_argmin': 'awkward_reduce_argmin',
    # Proofs_C13e.v (models of Kernels2.v)
    'ByteMaskedArray_getitem_carry': 'awkward_ByteMaskedArray_getitem_carry', 'ByteMaskedArray_mask': 'awkward_ByteMaskedArray_mask',
    'ByteMaskedArray_overlay_mask': 'awkward_ByteMaskedArray_overlay_mask', 'Index_to_Index64': 'awkward_Index_to_Index64',
    'IndexedArray_fill_count': 'awkward_IndexedArray_fill_count', 'UnionArray_fillindex_count': 'awkward_UnionArray_fillindex_count',
    'UnionArray_filltags_const': 'awkward_UnionArray_filltags_const', 'IndexedArray_getitem_carry': 'awkward_IndexedArray_getitem_carry',
    'IndexedArray_mask': 'awkward_IndexedArray_mask', 'IndexedArray_overlay_mask': 'awkward_IndexedArray_overlay_mask',
    'IndexedArray_simplify': 'awkward_IndexedArray_simplify', 'index_carry': 'awkward_index_carry',
    'index_carry_nocheck': 'awkward_index_carry_nocheck', 'const_mask': 'awkward_one_mask',
    'NumpyArray_contiguous_init': 'awkward_NumpyArray_contiguous_init', 'NumpyArray_fill_frombool': 'awkward_NumpyArray_fill_frombool',
    'NumpyArray_fill_tobool': 'awkward_NumpyArray_fill_tobool', 'NumpyArray_getitem_next_at': 'awkward_NumpyArray_getitem_next_at',
    'NumpyArray_getitem_next_array_advanced': 'awkward_NumpyArray_getitem_next_array_advanced',
    'Identities32_to_Identities64': 'awkward_Identities32_to_Identities64',
    'IndexedArray_reduce_next_fix_offsets': 'awkward_IndexedArray_reduce_next_fix_offsets_64',
    'ListOffsetArray_reduce_global_startstop': 'awkward_ListOffsetArray_reduce_global_startstop_64',
    'reduce_prod_int_bool': 'awkward_reduce_prod_int64_bool_64', 'combinations': 'awkward_combinations',
    'ByteMaskedArray_numnull': 'awkward_ByteMaskedArray_numnull',
    'ByteMaskedArray_reduce_next': 'awkward_ByteMaskedArray_reduce_next_64',
    'ByteMaskedArray_reduce_next_nonlocal_nextshifts': 'awkward_ByteMaskedArray_reduce_next_nonlocal_nextshifts_64',
    'ByteMaskedArray_reduce_next_nonlocal_nextshifts_fromshifts': 'awkward_ByteMaskedArray_reduce_next_nonlocal_nextshifts_fromshifts_64',
    'Content_getitem_next_missing_jagged_getmaskstartstop': 'awkward_Content_getitem_next_missing_jagged_getmaskstartstop',
    'Index_iscontiguous': 'awkward_Index_iscontiguous',
    'Index_nones_as_index': 'awkward_Index_nones_as_index',
    'IndexedArray_index_of_nulls': 'awkward_IndexedArray_index_of_nulls',
    'IndexedArray_reduce_next': 'awkward_IndexedArray_reduce_next_64',
    'IndexedArray_reduce_next_nonlocal_nextshifts': 'awkward_IndexedArray_reduce_next_nonlocal_nextshifts_64',
    'IndexedArray_reduce_next_nonlocal_nextshifts_fromshifts': 'awkward_IndexedArray_reduce_next_nonlocal_nextshifts_fromshifts_64',
    'IndexedOptionArray_rpad_and_clip_mask_axis1': 'awkward_IndexedOptionArray_rpad_and_clip_mask_axis1',
    'ListArray_getitem_jagged_carrylen': 'awkward_ListArray_getitem_jagged_carrylen',
    'MaskedArray_getitem_next_jagged_project': 'awkward_MaskedArray_getitem_next_jagged_project',
    'NumpyArray_contiguous_next': 'awkward_NumpyArray_contiguous_next',
    'NumpyArray_getitem_next_range': 'awkward_NumpyArray_getitem_next_range',
    'NumpyArray_reduce_mask_ByteMaskedArray': 'awkward_NumpyArray_reduce_mask_ByteMaskedArray_64',
    'UnionArray_simplify': 'awkward_UnionArray_simplify',
    'UnionArray_simplify_one': 'awkward_UnionArray_simplify_one',
    'carry_SliceMissing64_outindex': 'awkward_carry_SliceMissing64_outindex',
    'missing_repeat': 'awkward_missing_repeat',
    'slicemissing_check_same': 'awkward_slicemissing_check_same',
    # Proofs_C13f.v
    'ListOffsetArray_toRegularArray': 'awkward_ListOffsetArray_toRegularArray',
    'NumpyArray_getitem_next_array': 'awkward_NumpyArray_getitem_next_array',
    'NumpyArray_getitem_next_range_advanced': 'awkward_NumpyArray_getitem_next_range_advanced',
    'RegularArray_getitem_jagged_expand': 'awkward_RegularArray_getitem_jagged_expand',
    'UnionArray_regular_index_getsize': 'awkward_UnionArray_regular_index_getsize',
    'UnionArray_regular_index': 'awkward_UnionArray_regular_index', 'UnionArray_project': 'awkward_UnionArray_project',
    'NumpyArray_reduce_adjust_starts': 'awkward_NumpyArray_reduce_adjust_starts_64',
    'NumpyArray_reduce_adjust_starts_shifts': 'awkward_NumpyArray_reduce_adjust_starts_shifts_64',
    'Identities_extend': 'awkward_Identities_extend', 'Identities_getitem_carry': 'awkward_Identities_getitem_carry',
    'sort_isort_perm': 'awkward_sort', 'sort_isort_sorted': 'awkward_sort', 'sort_isort_stable': 'awkward_argsort',
    'sort': 'awkward_sort', 'argsort': 'awkward_argsort',
    'ListOffsetArray_local_preparenext': 'awkward_ListOffsetArray_local_preparenext_64',
    # Proofs_C13g.v
    'ListArray_getitem_jagged_descend': 'awkward_ListArray_getitem_jagged_descend',
    'ListArray_getitem_jagged_numvalid': 'awkward_ListArray_getitem_jagged_numvalid',
    'carry_SliceJagged64_offsets': 'awkward_carry_SliceJagged64_offsets',
}
import sys
files = sys.argv[1:] or ['Proofs_C13.v']
out = ['(** Props_C13.v -- the property theorems of C13: statements only, each proved by [exact] of a lemma of',
       '    the Proofs_C13*.v files, each followed by Print Assumptions.  Tags (* @kernel kind *) are read by the harness. *)',
       'From Coq Require Import ZArith List Bool.',
       'From AwkV Require Import Base.',
       'From AwkKernels Require Import Kernels KLemmas %s.' % ' '.join(f[:-2] for f in files),
       'Import ListNotations.', 'Open Scope Z_scope.', '']
n = 0
for fn in files:
    src = open(fn).read()
    for m in re.finditer(r'^Theorem (\w+)((?:\s+\w+)*)\s*:\s*(.*?)\.\s*\nProof\.', src, re.S | re.M):
        name, binders, stmt = m.group(1), m.group(2).split(), m.group(3).strip()
        mm = re.match(r'^(.*)_(safe|spec|width|binom)$', name)
        if not mm:
            raise SystemExit('theorem name without kind: ' + name)
        pre, kind = mm.group(1), mm.group(2)
        kind = {'safe': 'k_safe', 'spec': 'k_spec', 'width': 'k_width', 'binom': 'k_spec'}[kind]
        if pre in ('regularize_rangeslice', 'reduce_generic'):
            kind = 'aux'
        if pre not in KERNEL:
            raise SystemExit('no kernel for theorem prefix ' + pre)
        fa = ('forall %s,\n  ' % ' '.join(binders)) if binders else ''
        out.append('(* @%s %s *)' % (KERNEL[pre], kind))
        out.append('Theorem C13_%s :\n  %s%s.' % (name, fa, stmt))
        out.append('Proof. exact %s. Qed.' % name)
        out.append('Print Assumptions C13_%s.\n' % name)
        n += 1
open('Props_C13.v', 'w').write('\n'.join(out))
print(n, 'theorems')
