(** C04 — MODEL of src/awkward/_util.py [broadcast_and_apply] -> [apply] (+ broadcast_pack/unpack), of the
    [getfunction] of _connect/_numpy.array_ufunc (deregulate + NumPy on n-d arrays) and of
    operations/structure.broadcast_arrays, and of the C++ normalisers they call
    (compact_offsets64, broadcast_tooffsets64 for ListOffsetArray / ListArray / RegularArray incl. the
    size-1 kernel, toRegularArray of an n-d NumpyArray, project, bytemask).
    Same order of cases as the Python code (pinned tree 1.4.0).  Recursion is through carried
    contents: explicit fuel, [Err EFuel] when it runs out.  MODEL ONLY: no proofs in this file.

    Not modelled (named gaps): UnionArray inputs (the combos branch) -> the runner skips them;
    parameters / custom behaviours / strings; VirtualArray and PartitionedArray. *)
From AwkV Require Export Carry AtAxis.
From AwkBroadcast Require Export BroadcastSpec.

Inductive minput :=
| MC (c : content)
| MS (isbool : bool) (z : Z).          (* a Python scalar: not a Content, passed along unchanged *)

Definition contents_of (l : list minput) : list content :=
  flat_map (fun i => match i with MC c => [c] | MS _ _ => [] end) l.

(* ---- node classes (the isinstance tests of apply) ---- *)
Definition is_list_node (c : content) : bool :=
  match c with ListOffset _ _ _ | ListA _ _ _ _ | Regular _ _ _ => true | _ => false end.
Definition is_regular_node (c : content) : bool := match c with Regular _ _ _ => true | _ => false end.
Definition is_option_node (c : content) : bool :=
  match c with IndexedOption _ _ _ | ByteMasked _ _ _ | BitMasked _ _ _ _ _ | Unmasked _ => true | _ => false end.
Definition is_indexed_node (c : content) : bool := match c with Indexed _ _ _ => true | _ => false end.
Definition is_union_node (c : content) : bool := match c with Union _ _ _ _ => true | _ => false end.
Definition is_record_node (c : content) : bool := match c with Record _ _ _ => true | _ => false end.
Definition is_empty_node (c : content) : bool := match c with Empty => true | _ => false end.
Definition is_numpy_node (c : content) : bool := match c with Numpy _ _ _ => true | _ => false end.
Definition is_numpy_nd (c : content) : bool :=
  match c with Numpy _ (_ :: _ :: _) _ => true | _ => false end.

(* Form::purelist_depth / purelist_isregular *)
Fixpoint pl_depth (c : content) : Z :=
  match c with
  | Numpy _ shape _ => zlen shape
  | Empty => 1
  | ListOffset _ _ c' | ListA _ _ _ c' | Regular c' _ _ => 1 + pl_depth c'
  | Indexed _ _ c' | IndexedOption _ _ c' | ByteMasked _ _ c' | BitMasked _ _ _ _ c' | Unmasked c' => pl_depth c'
  | Union _ _ _ cs =>
      match (fix go (l : list content) : list Z := match l with [] => [] | x :: xs => pl_depth x :: go xs end) cs with
      | [] => -1
      | d :: ds => if forallb (Z.eqb d) ds then d else -1
      end
  | Record _ _ _ => 1
  | Par _ _ c' => pl_depth c'
  end.
Fixpoint pl_isreg (c : content) : bool :=
  match c with
  | Numpy _ _ _ | Empty | Record _ _ _ => true
  | ListOffset _ _ _ | ListA _ _ _ _ => false
  | Regular c' _ _ => pl_isreg c'
  | Indexed _ _ c' | IndexedOption _ _ c' | ByteMasked _ _ c' | BitMasked _ _ _ _ c' | Unmasked c' => pl_isreg c'
  | Union _ _ _ cs =>
      (fix go (l : list content) : bool := match l with [] => true | x :: xs => pl_isreg x && go xs end) cs
  | Par _ _ c' => pl_isreg c'
  end.

(* obj = RegularArray(obj, 1, len(obj)), k times *)
Fixpoint wrap1 (k : nat) (c : content) : content :=
  match k with O => c | S k' => let w := wrap1 k' c in Regular w 1 (clen w) end.

Definition all_eq (l : list Z) : bool := match l with [] => true | x :: r => forallb (Z.eqb x) r end.
Definition checklength (cs : list content) : bool := all_eq (map clen cs).

(* ---- C++ getitem_range_nowrap(a, b) (keeps the node class) and carry with its identity short-cut ---- *)
Fixpoint grange (c : content) (a b : Z) {struct c} : res content :=
  if negb ((0 <=? a) && (a <=? b) && (b <=? clen c)) then Err EOob else
  match c with
  | Numpy dt shape data =>
      match shape with
      | [] => Err EValue
      | n :: dims => let rs := prodZ dims in Ok (Numpy dt ((b - a) :: dims) (take ((b - a) * rs) (drop (a * rs) data)))
      end
  | Empty => Ok Empty
  | ListOffset w o c' => do o' <- slice o a (b + 1); Ok (ListOffset w o' c')
  | ListA w s e c' => do s' <- slice s a b; do e' <- slice e a b; Ok (ListA w s' e' c')
  | Regular c' size _ => do c'' <- grange c' (a * size) (b * size); Ok (Regular c'' size (b - a))
  | Indexed w ix c' => do ix' <- slice ix a b; Ok (Indexed w ix' c')
  | IndexedOption w ix c' => do ix' <- slice ix a b; Ok (IndexedOption w ix' c')
  | ByteMasked m vw c' => do m' <- slice m a b; do c'' <- grange c' a b; Ok (ByteMasked m' vw c'')
  | BitMasked m vw lsb n c' =>
      do bm <- bytemask_of_bits m lsb n; do m' <- slice bm a b; do c'' <- grange c' a b; Ok (ByteMasked m' vw c'')
  | Unmasked c' => do c'' <- grange c' a b; Ok (Unmasked c'')
  | Union w t ix cs => do t' <- slice t a b; do ix' <- slice (take (zlen t) ix) a b; Ok (Union w t' ix' cs)
  | Record cs ks n =>
      match cs with
      | [] => Ok (Record [] ks (b - a))
      | _ =>
          if (a =? 0) && (b =? n) then Ok c else
          do cs' <- (fix all (l : list content) : res (list content) :=
                       match l with
                       | [] => Ok []
                       | x :: xs => do y <- grange x a b; do ys <- all xs; Ok (y :: ys)
                       end) cs;
          Ok (Record cs' ks (b - a))
      end
  | Par p r c' => do c'' <- grange c' a b; Ok (Par p r c'')
  end.
(* Python x[:n] *)
Definition pyslice (c : content) (n : Z) : res content := grange c 0 (Z.max 0 (Z.min n (clen c))).
(* Content::carry: an index 0,1,..,k-1 is served by a shallow copy / a range *)
Definition ccarry (c : content) (ix : list Z) : res content :=
  if list_eqb Z.eqb ix (iota (zlen ix)) then
    (if zlen ix =? clen c then Ok c else grange c 0 (zlen ix))
  else carry c ix.

(* ---- C++ normalisers ---- *)
(* compact_offsets64(start_at_zero = true) *)
Definition compact_offsets (c : content) : res (list Z) :=
  match c with
  | ListOffset _ o _ => match o with [] => Err EValue | o0 :: _ => Ok (map (fun x => x - o0) o) end
  | ListA _ s e _ =>
      do lens <- mapM (fun i => do a <- get s i; do b <- get e i; if b <? a then Err EValue else Ok (b - a)) (iota (zlen s));
      Ok (offsets_from 0 lens)
  | Regular c' size zl => Ok (map (fun i => i * size) (iota (clen c + 1)))
  | _ => Err EValue
  end.

(* awkward_ListArray_broadcast_tooffsets: the carry, or the error *)
Definition bto_kernel (offsets starts stops : list Z) (lencontent : Z) : res (list Z) :=
  rmap (@concat Z)
    (mapM (fun iab : Z * (Z * Z) =>
             let (i, ab) := iab in let (a, b) := ab in
             do start <- get starts i; do stop <- get stops i;
             if negb (start =? stop) && (lencontent <? stop) then Err EValue else
             let count := b - a in
             if count <? 0 then Err EValue else
             if negb (stop - start =? count) then Err EValue else Ok (range start stop))
          (zip (iota (zlen offsets - 1)) (pairs offsets))).
Definition bto_size1_kernel (offsets : list Z) : res (list Z) :=
  rmap (@concat Z)
    (mapM (fun iab : Z * (Z * Z) =>
             let (i, ab) := iab in let (a, b) := ab in
             if b - a <? 0 then Err EValue else Ok (repeat i (Z.to_nat (b - a))))
          (zip (iota (zlen offsets - 1)) (pairs offsets))).
(* x.broadcast_tooffsets64(offsets).content *)
Definition bto (offsets : list Z) (c : content) : res content :=
  match offsets with
  | [] => Err EValue
  | o0 :: _ =>
      if negb (o0 =? 0) then Err EValue else
      match c with
      | ListOffset _ o c' =>
          if zlen o - 1 <? zlen offsets - 1 then Err EValue else
          do ix <- bto_kernel offsets (removelast o) (tl o) (clen c'); ccarry c' ix
      | ListA _ s e c' =>
          if zlen s <? zlen offsets - 1 then Err EValue else
          do ix <- bto_kernel offsets s e (clen c'); ccarry c' ix
      | Regular c' size zl =>
          if negb (zlen offsets - 1 =? clen c) then Err EValue else
          if size =? 1 then do ix <- bto_size1_kernel offsets; ccarry c' ix
          else if forallb (fun ab : Z * Z => (0 <=? snd ab - fst ab) && (snd ab - fst ab =? size)) (pairs offsets)
               then grange c' 0 (clen c * size)   (* content_.getitem_range_nowrap(0, len * size_) *)
               else Err EValue
      | _ => Err EValue
      end
  end.

(* NumpyArray::toRegularArray of an n-d array *)
Definition np_to_regular (c : content) : content :=
  match c with
  | Numpy dt (n :: dims) data => np_regular dt n dims (take (prodZ (n :: dims)) data)
  | _ => c
  end.

(* positions kept by a mask (true = missing) *)
Definition kept {A} (l : list A) (mask : list bool) : list A :=
  flat_map (fun xm : A * bool => if snd xm then [] else [fst xm]) (zip l mask).
Definition bytemask_of (c : content) : res (list bool) :=
  do oi <- option_index c; Ok (map (fun i => i <? 0) (fst oi)).
Fixpoint or_masks (a b : list bool) : list bool :=
  match a, b with x :: r, y :: s => (x || y) :: or_masks r s | _, _ => [] end.
Fixpoint count_index (k : Z) (mask : list bool) : list Z :=
  match mask with [] => [] | true :: r => -1 :: count_index k r | false :: r => k :: count_index (k + 1) r end.

(* ---- all_same_offsets ---- *)
Definition same_step (st : option (option (list Z))) (c : content) : option (option (list Z)) :=
  (* None = "return False"; Some None = offsets not yet known; Some (Some o) = offsets *)
  match st with
  | None => None
  | Some known =>
      match c with
      | ListOffset _ o _ =>
          (* lists that do not start at zero never take the shortcut *)
          match o with
          | [] => None
          | o0 :: _ =>
              if negb (o0 =? 0) then None else
              match known with None => Some (Some o) | Some o' => if list_eqb Z.eqb o' o then st else None end
          end
      | ListA _ s e _ =>
          if negb (list_eqb Z.eqb (tl s) (removelast e)) then None else
          if match s with [] => false | s0 :: _ => negb (s0 =? 0) end then None else
          match known with
          | None => Some (Some (match s with [] => [0] | _ => s ++ [last e 0] end))
          | Some o' =>
              if negb (list_eqb Z.eqb (removelast o') s) || (negb (zlen e =? 0) && negb (last o' 0 =? last e 0))
              then None else st
          end
      | Regular c' size _ =>
          let mine := if size =? 0 then [] else map (fun i => i * size) (iota ((clen c' + size - 1) / size)) in
          match known with None => Some (Some mine) | Some o' => if list_eqb Z.eqb o' mine then st else None end
      | _ => None
      end
  end.
Definition all_same_offsets (cs : list content) : bool :=
  match fold_left same_step cs (Some None) with Some _ => true | None => false end.

(* ---- the leaf engine: NumPy on n-d arrays ---- *)
Definition datum_z (d : datum) : res Z := match d with DZ z => Ok z | _ => Err EValue end.
Definition dt_isbool (dt : dtype) : bool := match dt with DBool => true | _ => false end.

(* is_fully_regular: RegularArray chain down to a NumpyArray: (sizes, leaf) *)
Fixpoint reg_chain (c : content) : option (list Z * content) :=
  match c with
  | Regular c' size _ =>
      match c' with
      | Numpy _ _ _ => Some ([size], c')
      | Regular _ _ _ => match reg_chain c' with Some (ss, leaf) => Some (size :: ss, leaf) | None => None end
      | _ => None
      end
  | _ => None
  end.
(* _connect/_numpy.py deregulate: the first prod(shape) rows of the leaf buffer, reshaped *)
Definition deregulate (c : content) : res content :=
  match reg_chain c with
  | Some (sizes, Numpy dt sh data) =>
      let shape := clen c :: sizes in
      let inner := prodZ (tl sh) in
      let count := prodZ shape in
      if Z.min count (hd 0 sh) * inner =? count * inner
      then Ok (Numpy dt (shape ++ tl sh) (take (count * inner) data)) else Err EValue
  | _ => Ok c
  end.

Definition nparr : Type := (bool * (list Z * list Z))%type.      (* is-boolean, shape, row-major data *)
Definition to_nparr (i : minput) : res (option nparr) :=
  match i with
  | MS b z => Ok (Some (b, ([], [z])))
  | MC c =>
      do d <- deregulate c;
      match d with
      | Numpy dt sh data =>
          if zlen data <? prodZ sh then Err EValue else
          do zs <- mapM datum_z (take (prodZ sh) data);
          Ok (Some (dt_isbool dt, (sh, map (fun z => if dt_isbool dt then b2z (negb (z =? 0)) else z) zs)))
      | _ => Ok None
      end
  end.
Fixpoint all_somes {A} (l : list (option A)) : option (list A) :=
  match l with
  | [] => Some []
  | Some x :: r => match all_somes r with Some xs => Some (x :: xs) | None => None end
  | None :: _ => None
  end.
Definition pad_shape (r : nat) (s : list Z) : list Z := repeat 1 (r - length s) ++ s.
Fixpoint multi (shape : list Z) : list (list Z) :=
  match shape with
  | [] => [[]]
  | d :: ds => flat_map (fun i => map (cons i) (multi ds)) (iota d)
  end.
(* flat row-major position in an array of (padded) shape [sh] of the element that broadcasts to result index [m] *)
Fixpoint flat_ix (acc : Z) (sh m : list Z) : Z :=
  match sh, m with
  | d :: ds, i :: is => flat_ix (acc * d + (if d =? 1 then 0 else i)) ds is
  | _, _ => acc
  end.

Section Model.
  Variable op : leafop.
  Variable bcast_k : option nat.     (* None: a ufunc / operator; Some k: output k of ak.broadcast_arrays *)

  Definition m_allow_rec : bool := match bcast_k with Some _ => true | None => false end.

  Definition nd_apply (arrs : list nparr) : res content :=
    let r := fold_right Nat.max O (map (fun a => length (fst (snd a))) arrs) in
    let shapes := map (fun a => pad_shape r (fst (snd a))) arrs in
    do rshape <- mapM dim_target (transpose r shapes);
    let kinds := map fst arrs in
    do out <- mapM (fun m =>
                      do xs <- mapM (fun sd : list Z * list Z => get (snd sd) (flat_ix 0 (fst sd) m))
                                    (zip shapes (map (fun a => snd (snd a)) arrs));
                      Ok (DZ (lf op kinds xs)))
                   (multi rshape);
    Ok (Numpy (if lk op kinds then DBool else DInt64) rshape out).

  (* getfunction: Some result when the leaves are reached *)
  Definition getfunction (inputs : list minput) : res (option content) :=
    match bcast_k with
    | Some k =>
        if forallb (fun i => match i with MC c => is_numpy_node c | MS _ _ => false end) inputs
        then match nth_error (contents_of inputs) k with Some c => Ok (Some c) | None => Err EValue end
        else Ok None
    | None =>
        do arrs <- mapM to_nparr inputs;
        match all_somes arrs with
        | Some l => rmap Some (nd_apply l)
        | None => Ok None
        end
    end.

  Definition map_c (f : content -> res content) (inputs : list minput) : res (list minput) :=
    mapM (fun i => match i with MC c => rmap MC (f c) | MS _ _ => Ok i end) inputs.

  (* ---- the branches of apply's switch; [rec] is the recursive call apply(nextinputs, depth(+1), user) ---- *)
  Section Branches.
    Variable rec : list minput -> res content.

    (* option types: combine the masks, project the present elements, recurse, re-insert None *)
    Definition opt_branch (inputs : list minput) : res content :=
      let cs := contents_of inputs in
      do masks <- mapM bytemask_of (filter is_option_node cs);
      match masks with
      | [] => Err EValue
      | m0 :: ms =>
          let mask := fold_left or_masks ms m0 in
          do next <- map_c (fun c =>
                              if is_option_node c then
                                do oi <- option_index c; ccarry (snd oi) (kept (fst oi) mask)
                              else ccarry c (kept (iota (zlen mask)) mask)) inputs;
          do out <- rec next;
          Ok (IndexedOption I64 (count_index 0 mask) out)
      end.

    (* every list input is a RegularArray: NumPy-like broadcasting of one regular dimension *)
    Definition reg_branch (inputs : list minput) : res content :=
      let lists := filter is_list_node (contents_of inputs) in
      let sizes := flat_map (fun c => match c with Regular _ s _ => [s] | _ => [] end) lists in
      let maxsize := fold_right Z.max 0 sizes in
      do next <- map_c (fun c =>
                          match c with
                          | Regular c' size _ =>
                              if (1 <? maxsize) && (size =? 1) then
                                do t <- pyslice c' (clen c * size);
                                ccarry t (concat (map (fun i => repeat i (Z.to_nat maxsize)) (iota (clen c))))
                              else if size =? maxsize then pyslice c' (clen c * size)
                              else Err EValue
                          | _ => Ok c
                          end) inputs;
      let maxlen := fold_right Z.max 0 (map clen (contents_of next)) in
      do out <- rec next;
      Ok (Regular out maxsize maxlen).

    (* lists with different offsets: everything is brought to the compact offsets of the first one *)
    Definition gen_branch (inputs : list minput) : res content :=
      match filter (fun c => is_list_node c && negb (is_regular_node c)) (contents_of inputs) with
      | [] => Err EValue
      | first :: _ =>
          do offsets <- compact_offsets first;
          do next <- map_c (fun c =>
                              if is_list_node c then bto offsets c
                              else bto offsets (Regular c 1 (clen c))) inputs;
          do out <- rec next;
          Ok (ListOffset I64 offsets out)
      end.

    (* all lists have the same (zero-based) offsets: the contents are used as they are *)
    Definition same_branch (inputs : list minput) : res content :=
      let cs := contents_of inputs in
      do next <- map_c (fun c =>
                          match c with
                          | ListOffset _ o c' => pyslice c' (last o 0)
                          | ListA _ s e c' =>
                              if (zlen s =? 0) || (zlen e =? 0) then pyslice c' 0
                              else pyslice c' (fold_right Z.max (hd 0 e) e)
                          | _ => Ok c
                          end) inputs;
      do out <- rec next;
      (* the node class of the LAST ListOffsetArray, else of the last ListArray *)
      match rev (filter (fun c => match c with ListOffset _ _ _ => true | _ => false end) cs) with
      | ListOffset w o _ :: _ => Ok (ListOffset w o out)
      | _ =>
          match rev (filter (fun c => match c with ListA _ _ _ _ => true | _ => false end) cs) with
          | ListA w s e _ :: _ => Ok (ListA w s e out)
          | _ => Err EValue
          end
      end.

    Definition list_branch (inputs : list minput) : res content :=
      let cs := contents_of inputs in
      if forallb is_regular_node (filter is_list_node cs) then reg_branch inputs
      else if negb (all_same_offsets cs) then gen_branch inputs
      else same_branch inputs.

    (* records with the same keys, field by field (only ak.broadcast_arrays allows records) *)
    Definition rec_branch (inputs : list minput) : res content :=
      let cs := contents_of inputs in
      if negb m_allow_rec then Err EValue else
      let recs := filter is_record_node cs in
      let keysets := flat_map (fun c => match c with Record fs ks _ => [keys_of ks (length fs)] | _ => [] end) recs in
      match keysets with
      | [] => Err EValue
      | keys :: others =>
          if negb (forallb (same_keyset keys) others) then Err EValue else
          if negb (all_eq (map clen recs)) then Err EValue else
          match keys with
          | [] => Err EOob            (* range(None): TypeError in the Python code *)
          | _ =>
              do outs <- mapM (fun key =>
                                 do sub <- map_c (fun c =>
                                                    match c with
                                                    | Record fs ks n =>
                                                        do i <- index_of key (keys_of ks (length fs)) 0;
                                                        do f <- get fs i; grange f 0 n
                                                    | _ => Ok c
                                                    end) inputs;
                                 rec sub) keys;
              Ok (Record outs
                         (if forallb (fun c => match c with Record _ None _ => true | _ => false end) recs
                          then None else Some keys)
                         (match recs with r :: _ => clen r | [] => 0 end))
          end
      end.

    (* one call of apply *)
    Definition dispatch (inputs : list minput) : res content :=
      let cs := contents_of inputs in
      (* implicit right-broadcasting: all-regular inputs of different depth *)
      let md := fold_right Z.max (-1) (map pl_depth cs) in
      if existsb is_list_node cs && (0 <? md) && forallb pl_isreg cs && existsb (fun c => pl_depth c <? md) cs then
        rec (map (fun i => match i with MC c => MC (wrap1 (Z.to_nat (md - pl_depth c)) c) | _ => i end) inputs)
      else if negb (checklength cs) then Err EValue else
      do custom <- getfunction inputs;
      match custom with
      | Some out => Ok out
      | None =>
          if existsb is_empty_node cs then
            rec (map (fun i => match i with MC Empty => MC (Numpy DBool [0] []) | _ => i end) inputs)
          else if existsb is_numpy_nd cs then
            rec (map (fun i => match i with MC c => MC (if is_numpy_nd c then np_to_regular c else c) | _ => i end) inputs)
          else if existsb is_indexed_node cs then
            do next <- map_c (fun c => match c with Indexed _ ix c' => ccarry c' ix | _ => Ok c end) inputs;
            rec next
          else if existsb is_union_node cs then Err EValue          (* named gap *)
          else if existsb is_option_node cs then opt_branch inputs
          else if existsb is_list_node cs then list_branch inputs
          else if existsb is_record_node cs then rec_branch inputs
          else Err EValue
      end.
  End Branches.

  Fixpoint apply (fuel : nat) (inputs : list minput) : res content :=
    match fuel with
    | O => Err EFuel
    | S fuel' => dispatch (apply fuel') inputs
    end.

  (* broadcast_pack / apply / broadcast_unpack *)
  Definition pack (i : minput) : minput := match i with MC c => MC (Regular c (clen c) 1) | _ => i end.
  Definition unpack (c : content) : res content :=
    match c with
    | Regular c' size _ => if clen c =? 0 then grange c' 0 0 (* getitem_nothing *) else grange c' 0 size
    | Numpy dt (l :: n :: dims) data =>
        if l =? 0 then Ok (Numpy dt (0 :: dims) []) else Ok (Numpy dt (n :: dims) (take (prodZ (n :: dims)) data))
    | _ => Err EValue
    end.
  Definition broadcast_and_apply (fuel : nat) (inputs : list minput) : res content :=
    if negb (existsb (fun i => match i with MC _ => true | _ => false end) inputs) then Err EValue else
    (* ak.broadcast_arrays turns a scalar into a length-1 NumpyArray first *)
    let inputs' := match bcast_k with
                   | Some _ => map (fun i => match i with MS b z => MC (Numpy (if b then DBool else DInt64) [1] [DZ z]) | _ => i end) inputs
                   | None => inputs
                   end in
    do out <- apply fuel (map pack inputs');
    unpack out.
End Model.

Definition model_fuel : nat := 200.
