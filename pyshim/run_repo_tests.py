#!/venv/bin/python
"""Run /repo/tests/*.py under pyshim. One pytest process per file (isolation, timeout), 8 at a time.

usage: run_repo_tests.py [-j N] [-k SUBSTR] [--timeout SEC] [files...]
Writes junit xml + logs to /verif/.build/pyshim_tests and a summary to stdout
(and /verif/.build/pyshim_tests/summary.json).
"""
import concurrent.futures
import glob
import json
import os
import subprocess
import sys
import xml.etree.ElementTree as ET

OUT = "/verif/.build/pyshim_tests"
TESTS = "/repo/tests"


def run_one(path, timeout):
    name = os.path.basename(path)[:-3]
    xml = os.path.join(OUT, name + ".xml")
    log = os.path.join(OUT, name + ".log")
    if os.path.exists(xml):
        os.remove(xml)
    env = dict(os.environ)
    env["PYTHONPATH"] = "/verif"
    env["PYTHONDONTWRITEBYTECODE"] = "1"
    env["PYTHONHASHSEED"] = "0"
    cmd = ["/venv/bin/python", "-m", "pytest", path, "-q", "-x" if False else "-q", "-p", "pyshim.pytest_plugin",
           "-p", "no:cacheprovider", "--tb=short", "--junitxml=" + xml, "--rootdir=" + OUT, "-o", "addopts="]
    res = {"file": name, "passed": 0, "failed": 0, "errors": 0, "skipped": 0, "status": "ok", "failures": []}
    try:
        with open(log, "w") as f:
            p = subprocess.run(cmd, stdout=f, stderr=subprocess.STDOUT, env=env, timeout=timeout, cwd=OUT)
        res["returncode"] = p.returncode
    except subprocess.TimeoutExpired:
        res["status"] = "timeout"
        return res
    if not os.path.exists(xml):
        res["status"] = "no-xml"
        return res
    root = ET.parse(xml).getroot()
    for tc in root.iter("testcase"):
        kind = "passed"
        msg = ""
        for child in tc:
            if child.tag in ("failure",):
                kind = "failed"; msg = (child.get("message") or "")[:300]
            elif child.tag == "error":
                kind = "errors"; msg = (child.get("message") or "")[:300]
            elif child.tag == "skipped":
                kind = "skipped"; msg = (child.get("message") or "")[:300]
        res[kind] += 1
        if kind in ("failed", "errors"):
            res["failures"].append((tc.get("name"), msg))
        if kind == "skipped":
            res.setdefault("skips", []).append((tc.get("name"), msg))
    return res


def main():
    args = sys.argv[1:]
    jobs, timeout, sub, files = 8, 900, None, []
    i = 0
    while i < len(args):
        if args[i] == "-j":
            jobs = int(args[i + 1]); i += 2
        elif args[i] == "-k":
            sub = args[i + 1]; i += 2
        elif args[i] == "--timeout":
            timeout = int(args[i + 1]); i += 2
        else:
            files.append(args[i]); i += 1
    if not files:
        files = sorted(glob.glob(os.path.join(TESTS, "test_*.py")))
    if sub:
        files = [f for f in files if sub in f]
    os.makedirs(OUT, exist_ok=True)
    results = []
    with concurrent.futures.ThreadPoolExecutor(jobs) as ex:
        for r in ex.map(lambda f: run_one(f, timeout), files):
            results.append(r)
            flag = "" if (r["failed"] == 0 and r["errors"] == 0 and r["status"] == "ok") else "  <<<"
            print("%-60s pass=%-4d fail=%-3d err=%-3d skip=%-3d %s%s" % (
                r["file"], r["passed"], r["failed"], r["errors"], r["skipped"], r["status"], flag), flush=True)
    tot = {k: sum(r[k] for r in results) for k in ("passed", "failed", "errors", "skipped")}
    tot["files"] = len(results)
    tot["files_clean"] = sum(1 for r in results if r["failed"] == 0 and r["errors"] == 0 and r["status"] == "ok")
    tot["timeouts"] = [r["file"] for r in results if r["status"] != "ok"]
    print("TOTAL", json.dumps(tot))
    with open(os.path.join(OUT, "summary.json"), "w") as f:
        json.dump({"total": tot, "results": results}, f, indent=1)


if __name__ == "__main__":
    main()
