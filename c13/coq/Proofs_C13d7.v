(** Proofs_C13d7.v -- k_spec (pointwise characterisations) for kernels that fill variable-size blocks, blocks in two
    phases (copy then pad), and pairs of buffers block-wise *)
From Coq Require Import ZArith List Bool Lia ZifyBool.
From AwkV Require Import Base.
From AwkKernels Require Import Kernels KLemmas Proofs_C13 Proofs_C13b Proofs_C13c Proofs_C13d Proofs_C13d2.
Import ListNotations.
Open Scope Z_scope.

Ltac Zify.zify_post_hook ::= Z.to_euclidean_division_equations.

(* ================================================================================================ *)
(** * a flat fill written as a [kfor] of [kupd] *)
Lemma kfor_upd_filled lo n off (g : Z -> Z) out :
  0 <= off -> 0 <= n -> off + n <= zlen out ->
  kfor lo (lo + n) (fun j o => kupd o (off + (j - lo)) (g (j - lo))) out = KOk (filled off n g out).
Proof.
  intros Hoff Hn Hcap.
  destruct (kfor_inv (fun j o => kupd o (off + (j - lo)) (g (j - lo)))
              (fun j o => o = filled off (j - lo) g out) lo (lo + n) out) as (s' & E & P); try lia.
  - rewrite Z.sub_diag. now rewrite filled_0.
  - intros j s Hj ->. rewrite kupd_ok by (rewrite zlen_filled; lia). eexists; split; [reflexivity|].
    rewrite filled_step by lia. f_equal. lia.
  - rewrite E, P. f_equal. f_equal. lia.
Qed.

(** splitting a loop *)
Lemma kfor_nat_app {S} (body : Z -> S -> kres S) a b i s :
  kfor_nat (a + b) i body s = let* s' := kfor_nat a i body s in kfor_nat b (i + Z.of_nat a) body s'.
Proof.
  revert i s; induction a; intros i s; cbn [kfor_nat Nat.add kbind].
  - now rewrite Z.add_0_r.
  - destruct (body i s); cbn [kbind]; auto.
    replace (i + Z.of_nat (Datatypes.S a)) with (i + 1 + Z.of_nat a) by lia. apply IHa.
Qed.
Lemma kfor_split {S} (body : Z -> S -> kres S) lo mid hi s :
  lo <= mid <= hi -> kfor lo hi body s = let* s' := kfor lo mid body s in kfor mid hi body s'.
Proof.
  intros H. unfold kfor. replace (Z.to_nat (hi - lo)) with (Z.to_nat (mid - lo) + Z.to_nat (hi - mid))%nat by lia.
  rewrite kfor_nat_app. replace (lo + Z.of_nat (Z.to_nat (mid - lo))) with mid by lia. reflexivity.
Qed.

(** copy phase then pad phase = one fill *)
Lemma two_phase_fill off s t (g h : Z -> Z) out :
  0 <= off -> 0 <= s <= t -> off + t <= zlen out ->
  (let* o1 := kfor 0 s (fun j o => kupd o (off + j) (g j)) out in kfor s t (fun j o => kupd o (off + j) (h j)) o1)
  = KOk (filled off t (fun j => if j <? s then g j else h j) out).
Proof.
  intros Hoff Hs Hcap.
  pose proof (kfor_upd_filled 0 t off (fun j => if j <? s then g j else h j) out Hoff ltac:(lia) Hcap) as F.
  rewrite Z.add_0_l in F. rewrite (kfor_split _ 0 s t) in F by lia.
  rewrite <- F.
  rewrite (kfor_ext (fun j o => kupd o (off + j) (g j))
                    (fun j o => kupd o (off + (j - 0)) (if j - 0 <? s then g (j - 0) else h (j - 0))) 0 s out).
  2:{ intros j o Hj. rewrite Z.sub_0_r. now replace (j <? s) with true by lia. }
  destruct (kfor 0 s _ out); cbn [kbind]; auto.
  apply kfor_ext. intros j o Hj. rewrite Z.sub_0_r. now replace (j <? s) with false by lia.
Qed.

(* ================================================================================================ *)
(** * awkward_RegularArray_rpad_and_clip_axis1 / awkward_ListOffsetArray_rpad_and_clip_axis1 *)
Theorem RegularArray_rpad_and_clip_axis1_spec toindex target size length :
  0 <= target -> 0 <= size -> 0 <= length -> length * target <= zlen toindex ->
  exists out, RegularArray_rpad_and_clip_axis1 toindex target size length = KOk out /\ zlen out = zlen toindex /\
    forall q, 0 <= q ->
      at_ out q = if q <? length * target
                  then (if q mod target <? Z.min target size then (q / target) * size + q mod target else -1)
                  else at_ toindex q.
Proof.
  intros Ht Hs Hn Hcap. unfold RegularArray_rpad_and_clip_axis1.
  replace (if target <? size then target else size) with (Z.min target size) by (destruct (target <? size) eqn:E; lia).
  apply (kfor_blocks_spec length target (fun i j => if j <? Z.min target size then i * size + j else -1)); auto.
  intros i o Hi Lo. assert (0 <= i * target /\ i * target + target <= length * target) by nia.
  rewrite (two_phase_fill (i * target) (Z.min target size) target (fun j => i * size + j) (fun _ => -1)) by lia.
  rewrite (kfill_spec (i * target) target _ (fun j => if j <? Z.min target size then i * size + j else -1)); try lia; auto.
  now rewrite Z.max_r by lia.
Qed.

Theorem ListOffsetArray_rpad_and_clip_axis1_spec toindex fromoffsets length target :
  0 <= target -> 0 <= length -> length + 1 <= zlen fromoffsets -> length * target <= zlen toindex ->
  (forall i, 0 <= i < length -> at_ fromoffsets i <= at_ fromoffsets (i + 1)) ->
  exists out, ListOffsetArray_rpad_and_clip_axis1 toindex fromoffsets length target = KOk out /\ zlen out = zlen toindex /\
    forall q, 0 <= q ->
      at_ out q = if q <? length * target
                  then (if q mod target <? at_ fromoffsets (q / target + 1) - at_ fromoffsets (q / target)
                        then at_ fromoffsets (q / target) + q mod target else -1)
                  else at_ toindex q.
Proof.
  intros Ht Hn H1 Hcap Hm. unfold ListOffsetArray_rpad_and_clip_axis1.
  apply (kfor_blocks_spec length target
           (fun i j => if j <? at_ fromoffsets (i + 1) - at_ fromoffsets i then at_ fromoffsets i + j else -1)); auto.
  intros i o Hi Lo. assert (0 <= i * target /\ i * target + target <= length * target) by nia.
  specialize (Hm i Hi).
  rewrite (kget_at fromoffsets (i + 1)), (kget_at fromoffsets i) by lia. cbn [kbind]. cbv zeta.
  set (len := at_ fromoffsets (i + 1) - at_ fromoffsets i) in *.
  replace (if target <? len then target else len) with (Z.min target len) by (destruct (target <? len) eqn:E; lia).
  rewrite (two_phase_fill (i * target) (Z.min target len) target (fun j => at_ fromoffsets i + j) (fun _ => -1)) by lia.
  rewrite (kfill_spec (i * target) target _ (fun j => if j <? len then at_ fromoffsets i + j else -1)); try lia; auto.
  rewrite Z.max_r by lia. f_equal. unfold filled. do 2 f_equal. apply map_ext_in. intros j Hj. apply in_iota in Hj.
  destruct (j <? Z.min target len) eqn:E1; destruct (j <? len) eqn:E2; auto; lia.
Qed.

(* ================================================================================================ *)
(** * variable-size blocks:  for i < n, for q in [lo i, hi i):  out[q] = f i q   (blocks ordered and disjoint) *)
Lemma kfor_varblocks_spec n (lo hi : Z -> Z) (f : Z -> Z -> Z) (body : Z -> list Z -> kres (list Z)) out :
  0 <= n ->
  (forall i, 0 <= i < n -> 0 <= lo i <= hi i /\ hi i <= zlen out) ->
  (forall i i', 0 <= i < i' -> i' < n -> hi i <= lo i') ->
  (forall i o, 0 <= i < n -> zlen o = zlen out ->
     body i o = KOk (filled (lo i) (hi i - lo i) (fun k => f i (lo i + k)) o)) ->
  exists out', kfor 0 n body out = KOk out' /\ zlen out' = zlen out /\
    (forall i q, 0 <= i < n -> lo i <= q < hi i -> at_ out' q = f i q) /\
    (forall q, 0 <= q -> (forall i, 0 <= i < n -> ~ (lo i <= q < hi i)) -> at_ out' q = at_ out q).
Proof.
  intros Hn Hb Hd Hbody.
  destruct (kfor_inv body
    (fun j o => zlen o = zlen out /\
                (forall i q, 0 <= i < j -> lo i <= q < hi i -> at_ o q = f i q) /\
                (forall q, 0 <= q -> (forall i, 0 <= i < j -> ~ (lo i <= q < hi i)) -> at_ o q = at_ out q))
    0 n out) as (s' & E & P); auto.
  - split; auto. split; [intros; lia|auto].
  - intros j o Hj (L & A & B). rewrite Hbody by auto. eexists; split; [reflexivity|].
    destruct (Hb j Hj) as (B1 & B2).
    split; [rewrite zlen_filled; lia|]. split.
    + intros i q Hi Hq. destruct (Hb i ltac:(lia)) as (C1 & C2).
      rewrite at_filled by lia. destruct (Z.eq_dec i j) as [->|D].
      * replace ((lo j <=? q) && (q <? lo j + (hi j - lo j))) with true by lia. f_equal. lia.
      * pose proof (Hd i j ltac:(lia) ltac:(lia)).
        replace ((lo j <=? q) && (q <? lo j + (hi j - lo j))) with false by lia. apply A; auto. lia.
    + intros q Hq Hnot. rewrite at_filled by lia.
      pose proof (Hnot j ltac:(lia)).
      replace ((lo j <=? q) && (q <? lo j + (hi j - lo j))) with false by lia.
      apply B; auto. intros i Hi. apply Hnot. lia.
  - exists s'. destruct P as (L & A & B). auto.
Qed.

Lemma kfor_upd_range lo hi (v : Z -> Z) out :
  0 <= lo <= hi -> hi <= zlen out ->
  kfor lo hi (fun j o => kupd o j (v j)) out = KOk (filled lo (hi - lo) (fun k => v (lo + k)) out).
Proof.
  intros H1 H2. pose proof (kfor_upd_filled lo (hi - lo) lo (fun k => v (lo + k)) out ltac:(lia) ltac:(lia) ltac:(lia)) as F.
  replace (lo + (hi - lo)) with hi in F by lia. rewrite <- F. apply kfor_ext. intros j o Hj.
  replace (lo + (j - lo)) with j by lia. reflexivity.
Qed.

(* awkward_ListArray_localindex *)
Theorem ListArray_localindex_spec toindex offsets length :
  0 <= length -> length + 1 <= zlen offsets -> 0 <= at_ offsets 0 -> at_ offsets length <= zlen toindex ->
  (forall i i', 0 <= i <= i' -> i' <= length -> at_ offsets i <= at_ offsets i') ->
  exists out, ListArray_localindex toindex offsets length = KOk out /\ zlen out = zlen toindex /\
    (forall i q, 0 <= i < length -> at_ offsets i <= q < at_ offsets (i + 1) -> at_ out q = q - at_ offsets i) /\
    (forall q, 0 <= q -> ~ (at_ offsets 0 <= q < at_ offsets length) -> at_ out q = at_ toindex q).
Proof.
  intros Hn H1 H0 Hcap Hm. unfold ListArray_localindex.
  destruct (kfor_varblocks_spec length (fun i => at_ offsets i) (fun i => at_ offsets (i + 1))
              (fun i q => q - at_ offsets i)
              (fun i out => let* start := kget offsets i in let* stop := kget offsets (i + 1) in
                            kfor start stop (fun j out => kupd out j (j - start)) out) toindex)
    as (out & E & L & A & B); auto.
  - intros i Hi. pose proof (Hm 0 i ltac:(lia) ltac:(lia)). pose proof (Hm i (i + 1) ltac:(lia) ltac:(lia)).
    pose proof (Hm (i + 1) length ltac:(lia) ltac:(lia)). lia.
  - intros i i' Hi Hi'. apply Hm; lia.
  - intros i o Hi Lo. rewrite (kget_at offsets i), (kget_at offsets (i + 1)) by lia. cbn [kbind].
    pose proof (Hm 0 i ltac:(lia) ltac:(lia)). pose proof (Hm i (i + 1) ltac:(lia) ltac:(lia)).
    pose proof (Hm (i + 1) length ltac:(lia) ltac:(lia)).
    rewrite (kfor_upd_range (at_ offsets i) (at_ offsets (i + 1)) (fun j => j - at_ offsets i)) by lia. reflexivity.
  - exists out. split; auto. split; auto. split; auto.
    intros q Hq Hout. apply B; auto. intros i Hi Hin.
    pose proof (Hm 0 i ltac:(lia) ltac:(lia)). pose proof (Hm (i + 1) length ltac:(lia) ltac:(lia)). lia.
Qed.

(* awkward_ListOffsetArray_reduce_local_nextparents_64 *)
Theorem ListOffsetArray_reduce_local_nextparents_64_spec nextparents offsets length :
  0 <= length -> length + 1 <= zlen offsets -> at_ offsets length - at_ offsets 0 <= zlen nextparents ->
  (forall i i', 0 <= i <= i' -> i' <= length -> at_ offsets i <= at_ offsets i') ->
  exists out, reduce_local_nextparents nextparents offsets length = KOk out /\ zlen out = zlen nextparents /\
    (forall i q, 0 <= i < length -> at_ offsets i - at_ offsets 0 <= q < at_ offsets (i + 1) - at_ offsets 0 -> at_ out q = i) /\
    (forall q, at_ offsets length - at_ offsets 0 <= q -> at_ out q = at_ nextparents q).
Proof.
  intros Hn H1 Hcap Hm. unfold reduce_local_nextparents. rewrite (kget_at offsets 0) by lia. cbn [kbind].
  destruct (kfor_varblocks_spec length (fun i => at_ offsets i - at_ offsets 0) (fun i => at_ offsets (i + 1) - at_ offsets 0)
              (fun i _ => i)
              (fun i out => let* a := kget offsets i in let* b := kget offsets (i + 1) in
                            kfor (a - at_ offsets 0) (b - at_ offsets 0) (fun j out => kupd out j i) out) nextparents)
    as (out & E & L & A & B); auto.
  - intros i Hi. pose proof (Hm 0 i ltac:(lia) ltac:(lia)). pose proof (Hm i (i + 1) ltac:(lia) ltac:(lia)).
    pose proof (Hm (i + 1) length ltac:(lia) ltac:(lia)). lia.
  - intros i i' Hi Hi'. pose proof (Hm (i + 1) i' ltac:(lia) ltac:(lia)). lia.
  - intros i o Hi Lo. rewrite (kget_at offsets i), (kget_at offsets (i + 1)) by lia. cbn [kbind].
    pose proof (Hm 0 i ltac:(lia) ltac:(lia)). pose proof (Hm i (i + 1) ltac:(lia) ltac:(lia)).
    pose proof (Hm (i + 1) length ltac:(lia) ltac:(lia)).
    rewrite (kfor_upd_range (at_ offsets i - at_ offsets 0) (at_ offsets (i + 1) - at_ offsets 0) (fun _ => i)) by lia.
    reflexivity.
  - exists out. split; auto. split; auto. split; auto.
    intros q Hq. pose proof (Hm 0 length ltac:(lia) ltac:(lia)). apply B; [lia|]. intros i Hi Hin.
    pose proof (Hm (i + 1) length ltac:(lia) ltac:(lia)). lia.
Qed.

(* awkward_ListArray_getitem_next_range_spreadadvanced *)
Theorem ListArray_getitem_next_range_spreadadvanced_spec toadvanced fromadvanced fromoffsets lenstarts :
  0 <= lenstarts -> lenstarts + 1 <= zlen fromoffsets -> lenstarts <= zlen fromadvanced ->
  0 <= at_ fromoffsets 0 -> at_ fromoffsets lenstarts <= zlen toadvanced ->
  (forall i i', 0 <= i <= i' -> i' <= lenstarts -> at_ fromoffsets i <= at_ fromoffsets i') ->
  exists out, ListArray_getitem_next_range_spreadadvanced TIdeal toadvanced fromadvanced fromoffsets lenstarts = KOk out /\
    zlen out = zlen toadvanced /\
    (forall i q, 0 <= i < lenstarts -> at_ fromoffsets i <= q < at_ fromoffsets (i + 1) -> at_ out q = at_ fromadvanced i) /\
    (forall q, 0 <= q -> ~ (at_ fromoffsets 0 <= q < at_ fromoffsets lenstarts) -> at_ out q = at_ toadvanced q).
Proof.
  intros Hn H1 H2 H0 Hcap Hm. unfold ListArray_getitem_next_range_spreadadvanced.
  destruct (kfor_varblocks_spec lenstarts (fun i => at_ fromoffsets i) (fun i => at_ fromoffsets (i + 1))
              (fun i _ => at_ fromadvanced i)
              (fun i out => let* o1 := kget fromoffsets (i + 1) in let* o0 := kget fromoffsets i in
                            let count := wrap TIdeal (o1 - o0) in let* a := kget fromadvanced i in
                            kfor 0 count (fun j out => kupd out (o0 + j) a) out) toadvanced)
    as (out & E & L & A & B); auto.
  - intros i Hi. pose proof (Hm 0 i ltac:(lia) ltac:(lia)). pose proof (Hm i (i + 1) ltac:(lia) ltac:(lia)).
    pose proof (Hm (i + 1) lenstarts ltac:(lia) ltac:(lia)). lia.
  - intros i i' Hi Hi'. apply Hm; lia.
  - intros i o Hi Lo. rewrite (kget_at fromoffsets (i + 1)), (kget_at fromoffsets i) by lia. cbn [kbind wrap]. cbv zeta.
    rewrite (kget_at fromadvanced) by lia. cbn [kbind].
    pose proof (Hm 0 i ltac:(lia) ltac:(lia)). pose proof (Hm i (i + 1) ltac:(lia) ltac:(lia)).
    pose proof (Hm (i + 1) lenstarts ltac:(lia) ltac:(lia)).
    pose proof (kfor_upd_filled 0 (at_ fromoffsets (i + 1) - at_ fromoffsets i) (at_ fromoffsets i)
                  (fun _ => at_ fromadvanced i) o ltac:(lia) ltac:(lia) ltac:(lia)) as F.
    rewrite Z.add_0_l in F. rewrite <- F. apply kfor_ext. intros j o' Hj. now rewrite Z.sub_0_r.
  - exists out. split; auto. split; auto. split; auto.
    intros q Hq Hout. apply B; auto. intros i Hi Hin.
    pose proof (Hm 0 i ltac:(lia) ltac:(lia)). pose proof (Hm (i + 1) lenstarts ltac:(lia) ltac:(lia)). lia.
Qed.

(* ================================================================================================ *)
(** * pairs of buffers filled block-wise (array slices) *)
Lemma blocks_step n m j (g : Z -> Z -> Z) o out :
  0 <= m -> 0 <= j < n -> n * m <= zlen out -> zlen o = zlen out ->
  (forall q, 0 <= q -> at_ o q = if q <? j * m then g (q / m) (q mod m) else at_ out q) ->
  forall q, 0 <= q -> at_ (filled (j * m) m (g j) o) q = if q <? (j + 1) * m then g (q / m) (q mod m) else at_ out q.
Proof.
  intros Hm Hj Hcap L A q Hq. assert (B : 0 <= j * m /\ j * m + m <= n * m) by nia.
  rewrite at_filled by lia. rewrite A by lia.
  destruct ((j * m <=? q) && (q <? j * m + m)) eqn:E1.
  - replace (q <? (j + 1) * m) with true by lia.
    assert (D : j = q / m) by (apply (Z.div_unique q m j (q - j * m)); lia).
    assert (M : q - j * m = q mod m) by (apply (Z.mod_unique q m j (q - j * m)); lia).
    now rewrite <- D, <- M.
  - destruct (q <? j * m) eqn:E2.
    + replace (q <? (j + 1) * m) with true by lia. reflexivity.
    + replace (q <? (j + 1) * m) with false by lia. reflexivity.
Qed.

Lemma kfor_pair_fill off n (g1 g2 : Z -> Z) a b :
  0 <= off -> 0 <= n -> off + n <= zlen a -> off + n <= zlen b ->
  kfor 0 n (fun j (st : list Z * list Z) => let '(x, y) := st in
              let* x' := kupd x (off + j) (g1 j) in let* y' := kupd y (off + j) (g2 j) in KOk (x', y')) (a, b)
  = KOk (filled off n g1 a, filled off n g2 b).
Proof.
  intros H0 Hn Ha Hb.
  match goal with |- kfor 0 n ?body _ = _ =>
    destruct (kfor_inv body (fun j st => st = (filled off j g1 a, filled off j g2 b)) 0 n (a, b)) as (s' & E & P); auto end.
  - now rewrite !filled_0.
  - intros j st Hj ->. rewrite kupd_ok by (rewrite zlen_filled; lia). cbn [kbind].
    rewrite kupd_ok by (rewrite zlen_filled; lia). cbn [kbind]. rewrite !filled_step by lia. eauto.
  - now rewrite E, P.
Qed.

Lemma kfor_blocks2_spec n m (g1 g2 : Z -> Z -> Z) (body : Z -> list Z * list Z -> kres (list Z * list Z)) a b :
  0 <= n -> 0 <= m -> n * m <= zlen a -> n * m <= zlen b ->
  (forall i x y, 0 <= i < n -> zlen x = zlen a -> zlen y = zlen b ->
     body i (x, y) = KOk (filled (i * m) m (g1 i) x, filled (i * m) m (g2 i) y)) ->
  exists x y, kfor 0 n body (a, b) = KOk (x, y) /\ zlen x = zlen a /\ zlen y = zlen b /\
    forall q, 0 <= q ->
      at_ x q = (if q <? n * m then g1 (q / m) (q mod m) else at_ a q) /\
      at_ y q = (if q <? n * m then g2 (q / m) (q mod m) else at_ b q).
Proof.
  intros Hn Hm Ha Hb Hbody.
  destruct (kfor_inv body
    (fun j (st : list Z * list Z) => zlen (fst st) = zlen a /\ zlen (snd st) = zlen b /\
       (forall q, 0 <= q -> at_ (fst st) q = if q <? j * m then g1 (q / m) (q mod m) else at_ a q) /\
       (forall q, 0 <= q -> at_ (snd st) q = if q <? j * m then g2 (q / m) (q mod m) else at_ b q))
    0 n (a, b)) as ([x y] & E & P); auto.
  - cbn [fst snd]. repeat split; auto; intros q Hq; now replace (q <? 0 * m) with false by lia.
  - intros j [x y] Hj (L1 & L2 & A1 & A2). cbn [fst snd] in *. rewrite Hbody by auto.
    assert (B : 0 <= j * m /\ j * m + m <= n * m) by nia.
    eexists; split; [reflexivity|]. cbn [fst snd]. rewrite !zlen_filled by lia.
    split; auto. split; auto. split.
    + apply (blocks_step n); auto.
    + apply (blocks_step n); auto.
  - cbn [fst snd] in P. destruct P as (L1 & L2 & A1 & A2). exists x, y. repeat split; auto.
Qed.

(* awkward_RegularArray_getitem_next_array *)
Theorem RegularArray_getitem_next_array_spec tocarry toadvanced fromarray length lenarray size :
  0 <= length -> 0 <= lenarray -> lenarray <= zlen fromarray ->
  length * lenarray <= zlen tocarry -> length * lenarray <= zlen toadvanced ->
  exists tc ta, RegularArray_getitem_next_array tocarry toadvanced fromarray length lenarray size = KOk (tc, ta) /\
    zlen tc = zlen tocarry /\ zlen ta = zlen toadvanced /\
    forall q, 0 <= q ->
      at_ tc q = (if q <? length * lenarray then (q / lenarray) * size + at_ fromarray (q mod lenarray) else at_ tocarry q) /\
      at_ ta q = (if q <? length * lenarray then q mod lenarray else at_ toadvanced q).
Proof.
  intros Hn Hm H1 H2 H3. unfold RegularArray_getitem_next_array.
  apply (kfor_blocks2_spec length lenarray (fun i j => i * size + at_ fromarray j) (fun _ j => j)); auto.
  intros i x y Hi Lx Ly. assert (B : 0 <= i * lenarray /\ i * lenarray + lenarray <= length * lenarray) by nia.
  rewrite <- (kfor_pair_fill (i * lenarray) lenarray (fun j => i * size + at_ fromarray j) (fun j => j) x y) by lia.
  apply kfor_ext. intros j [x' y'] Hj. rewrite (kget_at fromarray) by lia. reflexivity.
Qed.

(* awkward_ListArray_getitem_next_array: for in-range (possibly negative) indexes *)
Theorem ListArray_getitem_next_array_spec tocarry toadvanced starts stops fromarray lenstarts lenarray lencontent :
  0 <= lenstarts -> 0 <= lenarray -> lenstarts <= zlen starts -> lenstarts <= zlen stops -> lenarray <= zlen fromarray ->
  lenstarts * lenarray <= zlen tocarry -> lenstarts * lenarray <= zlen toadvanced ->
  (forall i, 0 <= i < lenstarts -> at_ starts i <= at_ stops i /\ (at_ starts i = at_ stops i \/ at_ stops i <= lencontent)) ->
  (forall i j, 0 <= i < lenstarts -> 0 <= j < lenarray ->
     - (at_ stops i - at_ starts i) <= at_ fromarray j < at_ stops i - at_ starts i) ->
  exists tc ta,
    ListArray_getitem_next_array tocarry toadvanced starts stops fromarray lenstarts lenarray lencontent = KOk (tc, ta) /\
    zlen tc = zlen tocarry /\ zlen ta = zlen toadvanced /\
    forall q, 0 <= q ->
      at_ tc q = (if q <? lenstarts * lenarray
                  then at_ starts (q / lenarray)
                       + (if at_ fromarray (q mod lenarray) <? 0
                          then at_ fromarray (q mod lenarray) + (at_ stops (q / lenarray) - at_ starts (q / lenarray))
                          else at_ fromarray (q mod lenarray))
                  else at_ tocarry q) /\
      at_ ta q = (if q <? lenstarts * lenarray then q mod lenarray else at_ toadvanced q).
Proof.
  intros Hn Hm H1 H2 H3 H4 H5 Hv Hr. unfold ListArray_getitem_next_array.
  apply (kfor_blocks2_spec lenstarts lenarray
           (fun i j => at_ starts i + (if at_ fromarray j <? 0 then at_ fromarray j + (at_ stops i - at_ starts i) else at_ fromarray j))
           (fun _ j => j)); auto.
  intros i x y Hi Lx Ly. assert (B : 0 <= i * lenarray /\ i * lenarray + lenarray <= lenstarts * lenarray) by nia.
  destruct (Hv i Hi) as (V1 & V2).
  rewrite (kget_at starts), (kget_at stops) by lia. cbn [kbind].
  replace (at_ stops i <? at_ starts i) with false by lia. cbn [kcheck kbind].
  replace (negb (at_ starts i =? at_ stops i) && (lencontent <? at_ stops i)) with false by lia. cbn [kcheck kbind]. cbv zeta.
  rewrite <- (kfor_pair_fill (i * lenarray) lenarray
                (fun j => at_ starts i + (if at_ fromarray j <? 0 then at_ fromarray j + (at_ stops i - at_ starts i) else at_ fromarray j))
                (fun j => j) x y) by lia.
  apply kfor_ext. intros j [x' y'] Hj. rewrite (kget_at fromarray) by lia. cbn [kbind]. specialize (Hr i j Hi Hj).
  match goal with |- context [kcheck ?c _] => replace c with false by (destruct (at_ fromarray j <? 0) eqn:E; lia) end.
  reflexivity.
Qed.
