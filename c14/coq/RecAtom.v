(** C14 — records and tuples: one atomic value (null / bool / int / real / string) received by ANY inactive builder
    described by the ghost-history relation [rep] (RecInv.v): the [rep] version of Push.atom_step, covering inactive
    RecordBuilder / TupleBuilder nodes and unions with records / tuples / lists among their alternatives. *)
From Coq Require Import ZArith List Bool Lia.
From AwkV Require Import Base Layout.
From AwkBuilder Require Import Builder Spec GbLemmas Invariant StepLemmas AtomStep Push RecInv RecRep.
Import ListNotations.
Open Scope Z_scope.

(* ------------------------------------------------------------------ atoms *)
Definition acmd (pv : pyval) : option cmd :=
  match pv with
  | PNone => Some CNull | PBool b => Some (CBool b) | PInt z => Some (CInt z) | PFloat z => Some (CReal z)
  | PStr e s => Some (CStr e s) | _ => None
  end.

Lemma acmd_atomval pv c : acmd pv = Some c -> atomval c = Some (val_of pv).
Proof. destruct pv; cbn [acmd]; intro H; inversion H; subst; reflexivity. Qed.
Lemma acmd_atomic pv c : acmd pv = Some c -> atomic pv = true.
Proof. destruct pv; cbn [acmd]; intro H; try discriminate; reflexivity. Qed.
Lemma acmd_nonnone pv c : acmd pv = Some c -> c <> CNull -> nonnone pv = true.
Proof. destruct pv; cbn [acmd]; intros H N; inversion H; subst; try reflexivity. congruence. Qed.
Lemma acmd_null pv : acmd pv = Some CNull -> pv = PNone.
Proof. destruct pv; cbn [acmd]; intro H; inversion H; reflexivity. Qed.
Lemma acmd_kind pv c : acmd pv = Some c -> c <> CNull -> kind_of c = KAtom.
Proof. intros H N. eapply kind_atom; [now apply acmd_atomval in H; exact H|exact N]. Qed.

(* ------------------------------------------------------------------ leaves *)
(* the four value-holding leaf classes *)
Definition aleaf (b : builder) : bool :=
  match b with BBool _ | BInt _ | BFloat _ | BString _ _ _ => true | _ => false end.
Definition leafish (b : builder) : bool :=
  match b with BUnknown _ => true | _ => aleaf b end.

Lemma aleaf_leafish b : aleaf b = true -> leafish b = true.
Proof. destruct b; cbn; auto. Qed.
Lemma aleaf_altok b : aleaf b = true -> altok b = true.
Proof. destruct b; cbn; auto; discriminate. Qed.
Lemma aleaf_bkind b : aleaf b = true -> bkind b = None.
Proof. destruct b; cbn; auto; discriminate. Qed.
Lemma aleaf_wrappable b : aleaf b = true -> wrappable b = true.
Proof. destruct b; cbn; auto; discriminate. Qed.

Lemma rep_leafish b vs : leafish b = true -> (rep b vs <-> leafrep b vs).
Proof. destruct b; cbn [leafish aleaf]; intro H; try discriminate; cbn [rep]; tauto. Qed.

Lemma leafrep_pushed x x' vs pv :
  leafrep x vs -> pushed x x' (val_of pv) -> atomic pv = true -> leafrep x' (vs ++ [pv]).
Proof.
  intros (W & A & E) (W' & _ & V) Ha. split; [exact W'|split].
  - rewrite forallb_snoc, A, Ha. reflexivity.
  - rewrite map_app, E, V. reflexivity.
Qed.

Lemma val_of_none v : val_of v = VNone -> v = PNone.
Proof. destruct v; cbn; intro H; try discriminate; reflexivity. Qed.

Lemma map_val_of_nones vs : forall k, map val_of vs = repeat VNone k -> vs = repeat PNone k.
Proof.
  induction vs as [|v t IH]; intros [|k] H; try discriminate; [reflexivity|].
  cbn [map repeat] in *. inversion H as [[H1 H2]]. apply val_of_none in H1. rewrite H1.
  f_equal. apply IH. rewrite H2, H1. reflexivity.
Qed.

Lemma rep_unknown n vs : rep (BUnknown n) vs -> 0 <= n /\ vs = repeat PNone (Z.to_nat n).
Proof. intros (W & _ & E). cbn [wf bvals] in *. split; [exact W|]. now apply map_val_of_nones. Qed.

Section WithOpts.
Variable o : opts.
Hypothesis Ho : good_opts o.

(* ------------------------------------------------------------------ the class of a fresh node / of a node after its own atom *)
Lemma fresh_aleaf c nb : kind_of c = KAtom -> fresh_after o c = Ok nb -> aleaf nb = true.
Proof.
  intros K F. destruct c; try discriminate K; unfold fresh_after in F.
  - destruct (gb_empty o); cbn [bind] in F; [|discriminate]. destruct (gb_append o a _); cbn [bind] in F; [|discriminate].
    inversion F; reflexivity.
  - destruct (gb_empty o); cbn [bind] in F; [|discriminate]. destruct (gb_append o a _); cbn [bind] in F; [|discriminate].
    inversion F; reflexivity.
  - destruct (gb_empty o); cbn [bind] in F; [|discriminate]. destruct (gb_append o a _); cbn [bind] in F; [|discriminate].
    inversion F; reflexivity.
  - destruct (gb_empty o); cbn [bind] in F; [|discriminate]. destruct (gb_append o a _); cbn [bind] in F; [|discriminate].
    unfold string_after in F.
    destruct (gb_extend o a s); cbn [bind] in F; [|discriminate]. destruct (gb_append o a0 _); cbn [bind] in F; [|discriminate].
    inversion F; reflexivity.
Qed.

Lemma takes_aleaf c x : kind_of c = KAtom -> takes c x = true -> aleaf x = true.
Proof. intros K T. destruct c; try discriminate K; destruct x; try discriminate T; reflexivity. Qed.

Lemma takes_step_aleaf c x x' r :
  kind_of c = KAtom -> takes c x = true -> step o x c = SOk x' r -> aleaf x' = true.
Proof.
  intros K T S. destruct c; try discriminate K; destruct x; try discriminate T; cbn [step] in S.
  - destruct (gb_append o buf _); cbn [withgb] in S; [|discriminate]. inversion S; reflexivity.
  - destruct (gb_append o buf _); cbn [withgb] in S; [|discriminate]. inversion S; reflexivity.
  - destruct (gb_append o buf _); cbn [withgb] in S; [|discriminate]. inversion S; reflexivity.
  - cbn [takes] in T. apply Bool.eqb_prop in T. subst isstr0. rewrite Bool.eqb_reflx in S. unfold string_after in S.
    destruct (gb_extend o content s); cbn [bind withb] in S; [|discriminate].
    destruct (gb_append o offsets _); cbn [bind withb] in S; [|discriminate]. inversion S; reflexivity.
Qed.

(* ------------------------------------------------------------------ a fresh node after its first atom *)
Lemma xfresh_atom pv c : acmd pv = Some c -> c <> CNull ->
  exists nb, fresh_after o c = Ok nb /\ rep nb [pv] /\ altok nb = true /\ bkind nb = None /\ blen nb = 1.
Proof.
  intros Ha Hc.
  destruct (fresh_atom o Ho c (val_of pv) (acmd_atomval _ _ Ha) Hc) as (nb & En & Wn & An & Vn & Bn).
  pose proof (fresh_aleaf c nb (acmd_kind _ _ Ha Hc) En) as L.
  exists nb. split; [exact En|split; [|split; [now apply aleaf_altok|split; [now apply aleaf_bkind|exact Bn]]]].
  apply rep_leafish; [now apply aleaf_leafish|]. split; [exact Wn|split].
  - cbn [forallb]. rewrite (acmd_atomic _ _ Ha). reflexivity.
  - cbn [map]. now rewrite Vn.
Qed.

(* ------------------------------------------------------------------ OptionBuilder::fromvalids + null *)
Lemma xoption_null b vs : rep b vs -> wrappable b = true ->
  exists idx, option_null o b = SOk b (Some (BOption idx b)) /\ rep (BOption idx b) (vs ++ [PNone]).
Proof.
  intros R T. unfold option_null. pose proof (rep_len b vs R) as Lb. pose proof (zlen_nonneg vs) as Hn.
  rewrite Lb.
  destruct (gb_arange_ok o (zlen vs) Ho Hn) as (g & E & Wg & L & N & _). rewrite E. cbn [withgb].
  destruct (gb_append_ok o g (-1) Ho Wg) as (g' & E' & W' & L' & N' & _). rewrite E'. cbn [withgb].
  exists g'. split; [reflexivity|]. apply rep_option_null; auto.
  - eapply rep_nonnone; eauto.
  - now rewrite L', L.
Qed.

(* ------------------------------------------------------------------ UnionBuilder::fromsingle + an atom that b does not take *)
Lemma xunion_wrap_atom b vs pv c : rep b vs -> altok b = true -> acmd pv = Some c -> c <> CNull ->
  exists u, union_wrap o b c = SOk b (Some u) /\ rep u (vs ++ [pv]).
Proof.
  intros R T Ha Hc. unfold union_wrap. pose proof (rep_len b vs R) as Lb. pose proof (zlen_nonneg vs) as Hn.
  rewrite Lb.
  destruct (gb_full_ok o 0 (zlen vs) Ho Hn) as (gt & Et & Wt & Lt & Nt & _). rewrite Et. cbn [withgb].
  destruct (gb_arange_ok o (zlen vs) Ho Hn) as (gi & Ei & Wi & Li & Ni & _). rewrite Ei. cbn [withgb].
  destruct (xfresh_atom pv c Ha Hc) as (nb & En & Rn & An & Kn & Bn). rewrite En. cbn [withb].
  rewrite (acmd_kind _ _ Ha Hc).
  destruct (gb_append_ok o gt 1 Ho Wt) as (gt' & Et' & Wt' & Lt' & Nt' & _). rewrite Et'. cbn [withgb].
  destruct (gb_append_ok o gi 0 Ho Wi) as (gi' & Ei' & Wi' & Li' & Ni' & _). rewrite Ei'. cbn [withgb].
  eexists; split; [reflexivity|].
  change [b; nb] with ([b] ++ [nb]).
  apply (rep_union_push gt gi [b] vs nb pv gt' gi').
  - apply rep_union_single; assumption.
  - exact Rn.
  - exact An.
  - intros k Hk. congruence.
  - exact Wt'.
  - exact Wi'.
  - rewrite Lt'. reflexivity.
  - exact Li'.
Qed.

(* ------------------------------------------------------------------ a leaf taking an atom of its own class *)
Lemma leaf_takes_rep x x' pv c :
  aleaf x = true -> acmd pv = Some c -> pushed x x' (val_of pv) -> aleaf x' = true ->
  forall ws, rep x ws -> rep x' (ws ++ [pv]).
Proof.
  intros Lx Ha P Lx' ws R. apply rep_leafish; [now apply aleaf_leafish|].
  apply rep_leafish in R; [|now apply aleaf_leafish]. eapply leafrep_pushed; eauto. eapply acmd_atomic; eauto.
Qed.

Lemma xtakes_atom x vs pv c : rep x vs -> acmd pv = Some c -> c <> CNull -> takes c x = true ->
  exists x', step o x c = SOk x' None /\ rep x' (vs ++ [pv]) /\ aleaf x' = true /\
             (forall ws, rep x ws -> rep x' (ws ++ [pv])).
Proof.
  intros R Ha Hc T. pose proof (acmd_kind _ _ Ha Hc) as K. pose proof (takes_aleaf c x K T) as Lx.
  assert (wf x) as Wx. { apply rep_leafish in R; [|now apply aleaf_leafish]. apply R. }
  destruct (takes_atom o Ho x c _ Wx (acmd_atomval _ _ Ha) Hc T) as (x' & Ex & Px).
  pose proof (takes_step_aleaf c x x' None K T Ex) as Lx'.
  exists x'. split; [exact Ex|]. pose proof (leaf_takes_rep x x' pv c Lx Ha Px Lx') as G.
  split; [now apply G|split; [exact Lx'|exact G]].
Qed.

(* ------------------------------------------------------------------ the tail of UnionBuilder::X for an atom *)
Lemma xunion_after_update tags idx pre x post x' vs pv (s1 : builder) (s2 : gb -> builder) :
  rep (BUnion tags idx (pre ++ x :: post) (-1)) vs ->
  (forall ws, rep x ws -> rep x' (ws ++ [pv])) -> bkind x' = bkind x -> altok x' = true ->
  exists u,
    withgb (gb_append o tags (Z.of_nat (length pre))) s1 (fun tags' =>
    withgb (gb_append o idx (blen x)) (s2 tags') (fun idx' =>
    SOk (BUnion tags' idx' (pre ++ x' :: post) (-1)) None)) = SOk u None /\
    rep u (vs ++ [pv]).
Proof.
  intros R Hx Ek Ta. pose proof R as R0. apply rep_union in R0. destruct R0 as (_ & Wt & Wi & _).
  destruct (gb_append_ok o tags (Z.of_nat (length pre)) Ho Wt) as (t' & Et & Wt' & Lt & Nt & _). rewrite Et. cbn [withgb].
  destruct (gb_append_ok o idx (blen x) Ho Wi) as (i' & Ei & Wi' & Li & Ni & _). rewrite Ei. cbn [withgb].
  eexists; split; [reflexivity|]. eapply rep_union_update; eauto.
Qed.

Lemma xunion_after_push tags idx cs nb vs pv (s1 : builder) (s2 : gb -> builder) :
  rep (BUnion tags idx cs (-1)) vs -> rep nb [pv] -> altok nb = true -> bkind nb = None ->
  exists u,
    withgb (gb_append o tags (Z.of_nat (length cs))) s1 (fun tags' =>
    withgb (gb_append o idx 0) (s2 tags') (fun idx' =>
    SOk (BUnion tags' idx' (cs ++ [nb]) (-1)) None)) = SOk u None /\
    rep u (vs ++ [pv]).
Proof.
  intros R Rn Ta Kn. pose proof R as R0. apply rep_union in R0. destruct R0 as (_ & Wt & Wi & _).
  destruct (gb_append_ok o tags (Z.of_nat (length cs)) Ho Wt) as (t' & Et & Wt' & Lt & Nt & _). rewrite Et. cbn [withgb].
  destruct (gb_append_ok o idx 0 Ho Wi) as (i' & Ei & Wi' & Li & Ni & _). rewrite Ei. cbn [withgb].
  eexists; split; [reflexivity|]. eapply rep_union_push; eauto. intros k Hk. congruence.
Qed.

Lemma xunion_atom tags idx cs c pv vs :
  rep (BUnion tags idx cs (-1)) vs -> acmd pv = Some c -> c <> CNull ->
  exists u, step o (BUnion tags idx cs (-1)) c = SOk u None /\ rep u (vs ++ [pv]).
Proof.
  intros R Ha Hc. pose proof (acmd_kind _ _ Ha Hc) as K. pose proof (acmd_atomval _ _ Ha) as Hv.
  pose proof R as R0. apply rep_union in R0. destruct R0 as (_ & _ & _ & _ & vss & _ & AL).
  cbn [step]. change (negb (-1 =? -1)) with false. cbv iota.
  rewrite K.
  destruct (find_app (fun x => step o x c) (takes c) cs 0) as [[[i x] r]|] eqn:F.
  - apply find_app_spec in F. destruct F as (pre & post & -> & -> & T & ->).
    destruct (ualts_app_inv pre x post vss AL) as (hpre & ws & hpost & _ & _ & _ & Rx & _).
    destruct (xtakes_atom x ws pv c Rx Ha Hc T) as (x' & Ex & _ & Lx' & G). rewrite Ex.
    pose proof (takes_aleaf c x K T) as Lx.
    cbn [Nat.add]. rewrite upd_nth_app. apply xunion_after_update; auto.
    + rewrite !aleaf_bkind; auto.
    + now apply aleaf_altok.
  - assert (forall (s1 : builder -> builder) (s2 : builder -> gb -> builder), exists u,
              withb (fresh_after o c) (BUnion tags idx cs (-1)) (fun nb =>
                withgb (gb_append o tags (Z.of_nat (length cs))) (s1 nb) (fun tags' =>
                withgb (gb_append o idx 0) (s2 nb tags') (fun idx' =>
                SOk (BUnion tags' idx' (cs ++ [nb]) (-1)) None))) = SOk u None /\
              rep u (vs ++ [pv])) as Fresh.
    { intros s1 s2. destruct (xfresh_atom pv c Ha Hc) as (nb & En & Rn & An & Kn & Bn). rewrite En. cbn [withb].
      apply xunion_after_push; auto. }
    pose proof (Fresh (fun nb => BUnion tags idx (cs ++ [nb]) (-1)) (fun nb tags' => BUnion tags' idx (cs ++ [nb]) (-1))) as Fresh'.
    cbv beta in Fresh'.
    destruct c; try discriminate Hv; try congruence; try (exact Fresh').
    (* real: an Int64Builder alternative is converted in place *)
    destruct (find_app (fun x => x) is_int cs 0) as [[[i x] r]|] eqn:G; [|exact Fresh'].
    apply find_app_spec in G. destruct G as (pre & post & -> & -> & T & ->).
    destruct x; try discriminate T.
    destruct (ualts_app_inv pre (BInt buf) post vss AL) as (hpre & ws & hpost & _ & _ & _ & Rx & _).
    assert (gbwf buf) as Wx by apply Rx.
    destruct (gb_convert_ok o buf Ho Wx) as (gf & Ef & Wf & Lf & Nf & _). rewrite Ef. cbn [withgb].
    destruct (gb_append_ok o gf z Ho Wf) as (gf' & Ef' & Wf' & Lf' & Nf' & _). rewrite Ef'. cbn [withgb].
    cbn [Nat.add]. rewrite upd_nth_app. rewrite Nf.
    change (glen buf) with (blen (BInt buf)).
    apply xunion_after_update; auto.
    destruct pv; try discriminate Ha. cbn [acmd] in Ha. inversion Ha; subst z0.
    intros ws' (W' & A' & E'). cbn [rep]. split; [exact Wf'|split].
    + rewrite forallb_snoc, A'. reflexivity.
    + rewrite map_app, E'. cbn [bvals map val_of]. rewrite Lf', Lf, map_app. reflexivity.
Qed.

(* ------------------------------------------------------------------ one atom through any inactive builder *)
Ltac t_null R :=
  destruct (xoption_null _ _ R eq_refl) as (?idx & ?E & ?P);
  match goal with E : option_null _ _ = _ |- _ => rewrite E end;
  do 2 eexists; split; [reflexivity|assumption].
Ltac t_wrap R Ha Hc :=
  destruct (xunion_wrap_atom _ _ _ _ R eq_refl Ha Hc) as (?u & ?E & ?P);
  match goal with E : union_wrap _ _ _ = _ |- _ => rewrite E end;
  do 2 eexists; split; [reflexivity|assumption].
Ltac t_takes R Ha Hc T :=
  destruct (xtakes_atom _ _ _ _ R Ha Hc T) as (?x' & ?E & ?P & _);
  match goal with E : step _ _ _ = _ |- _ => rewrite E end;
  do 2 eexists; split; [reflexivity|assumption].

Lemma xatom_step c : forall pv cmd vs,
  rep c vs -> acmd pv = Some cmd ->
  exists s r, step o c cmd = SOk s r /\ rep (pick s r) (vs ++ [pv]).
Proof.
  induction c using builder_ind'; intros pv cmd vs R Ha;
    pose proof (acmd_atomval _ _ Ha) as Hv; pose proof (acmd_atomic _ _ Ha) as Hat.
  - (* Unknown *)
    destruct (rep_unknown n vs R) as [Hn Evs].
    destruct (cmd_eq_null cmd) as [->|Hc].
    + apply acmd_null in Ha. subst pv. cbn [step kind_of]. do 2 eexists; split; [reflexivity|]. cbn [pick].
      destruct R as (_ & A & E). cbn [rep]. split; [cbn [wf]; lia|split].
      * rewrite forallb_snoc, A. reflexivity.
      * rewrite map_app, E. cbn [bvals map val_of]. now rewrite repeat_snoc by lia.
    + cbn [step]. rewrite (acmd_kind _ _ Ha Hc). unfold unknown_start.
      destruct (xfresh_atom pv cmd Ha Hc) as (nb & En & Rn & An & Kn & Bn). rewrite En. cbn [withb].
      destruct (n =? 0) eqn:E0.
      * apply Z.eqb_eq in E0. subst n. subst vs. do 2 eexists; split; [reflexivity|]. exact Rn.
      * destruct (gb_full_ok o (-1) n Ho Hn) as (g & E & W & L & N & _). rewrite E. cbn [withgb].
        rewrite (acmd_kind _ _ Ha Hc).
        destruct (gb_append_ok o g 0 Ho W) as (g' & E' & W' & L' & N' & _). rewrite E'. cbn [withgb].
        do 2 eexists; split; [reflexivity|]. cbn [pick]. subst vs.
        apply rep_option_nulls_then; auto.
        -- eapply acmd_nonnone; eauto.
        -- now rewrite L', L.
  - (* Bool *)
    destruct (cmd_eq_null cmd) as [->|Hc].
    + apply acmd_null in Ha. subst pv. cbn [step]. t_null R.
    + destruct cmd; try discriminate Hv; try congruence.
      * t_takes R Ha Hc (eq_refl true).
      * cbn [step kind_of]. t_wrap R Ha Hc.
      * cbn [step kind_of]. t_wrap R Ha Hc.
      * cbn [step kind_of]. t_wrap R Ha Hc.
  - (* Int *)
    destruct (cmd_eq_null cmd) as [->|Hc].
    + apply acmd_null in Ha. subst pv. cbn [step]. t_null R.
    + destruct cmd; try discriminate Hv; try congruence.
      * cbn [step kind_of]. t_wrap R Ha Hc.
      * t_takes R Ha Hc (eq_refl true).
      * (* real: becomes a Float64Builder *)
        cbn [step]. destruct R as (W & A & E). cbn [wf] in W.
        destruct (gb_convert_ok o g Ho W) as (gf & Ef & Wf & Lf & Nf & _). rewrite Ef. cbn [withgb].
        destruct (gb_append_ok o gf z Ho Wf) as (gf' & Ef' & Wf' & Lf' & Nf' & _). rewrite Ef'. cbn [withgb].
        do 2 eexists; split; [reflexivity|]. cbn [pick].
        destruct pv; try discriminate Ha. cbn [acmd] in Ha. inversion Ha; subst z0.
        cbn [rep]. split; [exact Wf'|split].
        -- rewrite forallb_snoc, A. reflexivity.
        -- rewrite map_app, E. cbn [bvals map val_of]. rewrite Lf', Lf, map_app. reflexivity.
      * cbn [step kind_of]. t_wrap R Ha Hc.
  - (* Float *)
    destruct (cmd_eq_null cmd) as [->|Hc].
    + apply acmd_null in Ha. subst pv. cbn [step]. t_null R.
    + destruct cmd; try discriminate Hv; try congruence.
      * cbn [step kind_of]. t_wrap R Ha Hc.
      * cbn [step]. destruct R as (W & A & E). cbn [wf] in W.
        destruct (gb_append_ok o g z Ho W) as (g' & E' & W' & L' & N' & _). rewrite E'. cbn [withgb].
        do 2 eexists; split; [reflexivity|]. cbn [pick].
        destruct pv; try discriminate Ha. cbn [acmd] in Ha. inversion Ha; subst z0.
        cbn [rep]. split; [exact W'|split].
        -- rewrite forallb_snoc, A. reflexivity.
        -- rewrite map_app, E. cbn [bvals map val_of]. rewrite L', map_app. reflexivity.
      * t_takes R Ha Hc (eq_refl true).
      * cbn [step kind_of]. t_wrap R Ha Hc.
  - (* String *)
    destruct (cmd_eq_null cmd) as [->|Hc].
    + apply acmd_null in Ha. subst pv. cbn [step]. t_null R.
    + destruct cmd; try discriminate Hv; try congruence.
      * cbn [step kind_of]. t_wrap R Ha Hc.
      * cbn [step kind_of]. t_wrap R Ha Hc.
      * cbn [step kind_of]. t_wrap R Ha Hc.
      * destruct (Bool.eqb e isstr) eqn:Ee.
        -- assert (takes (CStr isstr s) (BString e a b) = true) as T.
           { cbn [takes]. apply Bool.eqb_prop in Ee. subst. apply Bool.eqb_reflx. }
           t_takes R Ha Hc T.
        -- cbn [step]. rewrite Ee. t_wrap R Ha Hc.
  - (* Option *)
    pose proof (rep_inactive _ _ R) as A. cbn [active] in A.
    pose proof R as (Wi & ws & OH & Rc).
    cbn [step]. rewrite A. cbn [negb].
    destruct (cmd_eq_null cmd) as [->|Hc].
    + apply acmd_null in Ha. subst pv. cbn [kind_of].
      destruct (gb_append_ok o idx (-1) Ho Wi) as (i' & Ei & Wi' & Li & Ni & _). rewrite Ei. cbn [withgb].
      do 2 eexists; split; [reflexivity|]. cbn [pick]. eapply rep_option_none; eauto.
    + rewrite (acmd_kind _ _ Ha Hc).
      destruct (IHc pv cmd ws Rc Ha) as (s & r & Es & Rn). rewrite Es.
      destruct (gb_append_ok o idx (blen c) Ho Wi) as (i' & Ei & Wi' & Li & Ni & _). rewrite Ei. cbn [withgb].
      do 2 eexists; split; [reflexivity|]. cbn [pick].
      apply (rep_option_update idx c vs (pick s r) pv i'); auto.
      * intros ws' R'. destruct (IHc pv cmd ws' R' Ha) as (s' & r' & Es' & Rn'). rewrite Es in Es'.
        inversion Es'; subst. exact Rn'.
      * eapply acmd_nonnone; eauto.
  - (* List, not begun *)
    pose proof R as (Eb & _). subst begun. cbn [step negb].
    destruct (cmd_eq_null cmd) as [->|Hc].
    + apply acmd_null in Ha. subst pv. t_null R.
    + destruct cmd; try discriminate Hv; try congruence; cbn [kind_of]; t_wrap R Ha Hc.
  - (* Record, not begun *)
    pose proof R as R0. apply rep_record in R0. destruct R0 as (Eb & _). subst begun.
    destruct (cmd_eq_null cmd) as [->|Hc].
    + apply acmd_null in Ha. subst pv. cbn [step negb]. t_null R.
    + destruct cmd; try discriminate Hv; try congruence; cbn [step negb kind_of]; t_wrap R Ha Hc.
  - (* Tuple, not begun *)
    pose proof R as R0. apply rep_tuple in R0. destruct R0 as (Eb & _). subst begun.
    destruct (cmd_eq_null cmd) as [->|Hc].
    + apply acmd_null in Ha. subst pv. cbn [step negb]. t_null R.
    + destruct cmd; try discriminate Hv; try congruence; cbn [step negb kind_of]; t_wrap R Ha Hc.
  - (* Union *)
    pose proof R as R0. apply rep_union in R0. destruct R0 as (Ec & _). subst cur.
    destruct (cmd_eq_null cmd) as [->|Hc].
    + apply acmd_null in Ha. subst pv. cbn [step]. change (negb (-1 =? -1)) with false. cbv iota. cbn [kind_of].
      t_null R.
    + destruct (xunion_atom tags idx cs cmd pv vs R Ha Hc) as (u & E & P). rewrite E.
      do 2 eexists; split; [reflexivity|exact P].
Qed.

End WithOpts.
