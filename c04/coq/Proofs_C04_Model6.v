(** C04 — model = specification, part 6: the entry points.  [broadcast_and_apply] (broadcast_pack, apply, broadcast_unpack)
    against [spec_broadcast] (type-level pass + element-level pass on the packed arrays) for two arrays of the fragment:
    the array dimension is a regular dimension, so a length-1 array is repeated (NumPy's rule).
    The full statement is false of the model (and of the code: known finding regular-size1-to-size0): a length-1 array is
    not repeated to length 0 unless both arrays are 1-d NumpyArrays. *)
From AwkV Require Import LayoutInd Proofs_Lists Proofs_ToList Proofs_Typing Proofs_Carry Proofs_AtAxisOps Proofs_C05 Ops_Struct.
From AwkBroadcast Require Import Broadcast Proofs_C04 Proofs_C04_Model1 Proofs_C04_Model2 Proofs_C04_Model3 Proofs_C04_Model4
  Proofs_C04_Model5.
From Coq Require Import Lia ZifyBool.

(* ------------------------------------------------------------------ NumPy's rule for one dimension, two sizes *)
Lemma dim_target_2 a b :
  dim_target [a; b] = if a =? 1 then Ok b else if b =? 1 then Ok a else if a =? b then Ok a else Err EValue.
Proof.
  unfold dim_target. cbn [filter]. destruct (a =? 1) eqn:Ea; destruct (b =? 1) eqn:Eb; cbn [negb forallb].
  - f_equal. lia.
  - reflexivity.
  - reflexivity.
  - now rewrite andb_true_r.
Qed.

(* a column of [N] elements out of a list of [N] elements or of one element *)
Definition bcol {A} (l : list A) (N : Z) : list A := match l with [x] => repeat x (Z.to_nat N) | _ => l end.

Lemma map_repeat' {A B} (f : A -> B) x n : map f (repeat x n) = repeat (f x) n.
Proof. induction n as [|n IH]; [reflexivity|]. cbn [repeat map]. now rewrite IH. Qed.
Lemma bcol_map {A B} (f : A -> B) l N : bcol (map f l) N = map f (bcol l N).
Proof. destruct l as [|x [|y l]]; try reflexivity. cbn [map bcol]. now rewrite map_repeat'. Qed.
Lemma bcol_same {A} (l : list A) N : zlen l = N -> bcol l N = l.
Proof. destruct l as [|x [|y l]]; try reflexivity. intros <-. reflexivity. Qed.
Lemma bcol_In {A} (l : list A) N x : In x (bcol l N) -> In x l.
Proof. destruct l as [|a [|b l]]; try (intros H; exact H). cbn [bcol]. intros H. apply repeat_spec in H. subst. now left. Qed.
Lemma zlen_bcol {A} (l : list A) n N : zlen l = n -> n = N \/ n = 1 -> 0 <= N -> zlen (bcol l N) = N.
Proof.
  intros Hl Hn HN. destruct l as [|x [|y l]].
  - cbn [bcol]. rewrite zlen_nil in *. lia.
  - cbn [bcol]. rewrite zlen_repeat. lia.
  - cbn [bcol]. rewrite !zlen_cons in *. pose proof (zlen_nonneg l). lia.
Qed.
Lemma get_repeat {A} (x y : A) k i : get (repeat x k) i = Ok y -> y = x.
Proof. intros H. apply get_In in H. now apply repeat_spec in H. Qed.
Lemma get_bcol {A} (l : list A) n N i x :
  zlen l = n -> n = N \/ n = 1 -> get (bcol l N) i = Ok x -> get l (if n =? 1 then 0 else i) = Ok x.
Proof.
  intros Hl Hn Hg. destruct l as [|a [|b l]].
  - cbn [bcol] in Hg. rewrite get_nil in Hg. discriminate.
  - cbn [bcol] in Hg. apply get_repeat in Hg. subst x. rewrite zlen_cons, zlen_nil in Hl. subst n. reflexivity.
  - cbn [bcol] in Hg. rewrite !zlen_cons in Hl. pose proof (zlen_nonneg l). destruct (n =? 1) eqn:E; [lia|exact Hg].
Qed.
Lemma gather_repeat0 {A} (x : A) k : mapM (get [x]) (repeat 0 k) = Ok (repeat x k).
Proof. induction k as [|k IH]; [reflexivity|]. cbn [repeat]. rewrite mapM_cons, IH. reflexivity. Qed.

(* ------------------------------------------------------------------ the specification on two packed arrays *)
Lemma jagT_pure_depth t : jagT t = true -> pure_reg t = true -> rdepth t = 0.
Proof.
  destruct t as [dt| |[z|] [b|] t0|t0|ks fs|alts]; try discriminate; try reflexivity. cbn [jagT pure_reg rdepth].
  intros H P. apply andb_prop in H as [H Ho]. destruct t0 as [dt| |[z|] [b|] t1|t1|ks fs|alts]; try discriminate; reflexivity.
Qed.

Definition packT (n : Z) (t : ty) : ty := TList (Some n) None t.

Lemma packed_pad_zero t1 t2 n1 n2 :
  jagT t1 = true -> jagT t2 = true -> rpad_cond [packT n1 t1; packT n2 t2] = true ->
  Z.to_nat (maxdepth [packT n1 t1; packT n2 t2] - rdepth (packT n1 t1)) = 0%nat /\
  Z.to_nat (maxdepth [packT n1 t1; packT n2 t2] - rdepth (packT n2 t2)) = 0%nat.
Proof.
  intros H1 H2 Hc. unfold rpad_cond in Hc. cbn [existsb forallb packT is_listT pure_reg orb andb] in Hc.
  apply andb_prop in Hc as [P1 P2]. rewrite andb_true_r in P2.
  unfold maxdepth. cbn [map fold_right packT rdepth].
  rewrite (jagT_pure_depth t1 H1 P1), (jagT_pure_depth t2 H2 P2). split; reflexivity.
Qed.
Lemma rpad_packed t1 t2 n1 n2 v1 v2 :
  jagT t1 = true -> jagT t2 = true ->
  rpad [(packT n1 t1, v1); (packT n2 t2, v2)] = [(packT n1 t1, v1); (packT n2 t2, v2)].
Proof.
  intros H1 H2. unfold rpad. cbn [map fst].
  destruct (rpad_cond [packT n1 t1; packT n2 t2]) eqn:Hc; [|reflexivity].
  destruct (packed_pad_zero t1 t2 n1 n2 H1 H2 Hc) as [Z1 Z2]. rewrite Z1, Z2. reflexivity.
Qed.
Lemma rpad_t_packed t1 t2 n1 n2 :
  jagT t1 = true -> jagT t2 = true -> rpad_t [packT n1 t1; packT n2 t2] = [packT n1 t1; packT n2 t2].
Proof.
  intros H1 H2. unfold rpad_t.
  destruct (rpad_cond [packT n1 t1; packT n2 t2]) eqn:Hc; [|reflexivity].
  destruct (packed_pad_zero t1 t2 n1 n2 H1 H2 Hc) as [Z1 Z2]. cbn [map]. rewrite Z1, Z2. reflexivity.
Qed.

Lemma column_packed N t (vs : list value) n :
  zlen vs = n -> n = N \/ n = 1 -> column N (packT n t, VList vs) = Ok (map (fun x => (t, x)) (bcol vs N)).
Proof.
  intros Hl Hn. unfold column, packT. destruct (Z.eq_dec n 1) as [->|Hne].
  - destruct vs as [|x [|y vs]].
    + rewrite zlen_nil in Hl. discriminate.
    + cbn [bcol]. now rewrite map_repeat'.
    + rewrite !zlen_cons in Hl. pose proof (zlen_nonneg vs). lia.
  - assert (HN : n = N) by lia. subst N.
    assert (Hb : bcol vs n = vs) by (apply bcol_same; exact Hl). rewrite Hb.
    assert (Hq : (zlen vs =? n) = true) by lia.
    destruct n as [|[p|p|]|p]; try (exfalso; apply Hne; reflexivity); now rewrite Hq.
Qed.

Lemma rows_of_cols t1 t2 (c1 c2 : list value) :
  map (fun ab : sarg * sarg => [fst ab; snd ab]) (zip (map (fun x => (t1, x)) c1) (map (fun x => (t2, x)) c2)) = rows2 t1 t2 c1 c2.
Proof. unfold rows2. rewrite zip_map, map_map. reflexivity. Qed.

Lemma dim_target_2_inv a b N : dim_target [a; b] = Ok N -> (a = N \/ a = 1) /\ (b = N \/ b = 1) /\ (N = a \/ N = b).
Proof.
  rewrite dim_target_2. destruct (a =? 1) eqn:Ea; [intros H; inversion H; lia|].
  destruct (b =? 1) eqn:Eb; [intros H; inversion H; lia|]. destruct (a =? b) eqn:Eab; [intros H; inversion H; lia|discriminate].
Qed.
Lemma dim_target_2_err a b e : dim_target [a; b] = Err e -> e = EValue /\ a <> 1 /\ b <> 1 /\ a <> b.
Proof.
  rewrite dim_target_2. destruct (a =? 1) eqn:Ea; [discriminate|]. destruct (b =? 1) eqn:Eb; [discriminate|].
  destruct (a =? b) eqn:Eab; [discriminate|]. intros H; inversion H. repeat split; lia.
Qed.

(* the element-level pass on two packed arrays: NumPy's rule for the array dimension, then row by row *)
Lemma spec_v_packed op f t1 t2 vs1 vs2 :
  jagT t1 = true -> jagT t2 = true ->
  spec_v op false (S f) [(packT (zlen vs1) t1, VList vs1); (packT (zlen vs2) t2, VList vs2)] =
  do N <- dim_target [zlen vs1; zlen vs2];
  rmap VList (mapM (spec_v op false f) (rows2 t1 t2 (bcol vs1 N) (bcol vs2 N))).
Proof.
  intros H1 H2. rewrite spec_v_S. cbv zeta. rewrite rpad_packed by assumption. unfold packT.
  cbn [map fst existsb badT is_optT is_listT orb]. unfold list_target. cbn [map fst filter is_listT forallb is_regT andb somes sizeT].
  destruct (dim_target [zlen vs1; zlen vs2]) as [N|e] eqn:ED; cbn [bind]; [|reflexivity].
  destruct (dim_target_2_inv _ _ _ ED) as (A1 & A2 & A3).
  assert (HN : 0 <= N) by (pose proof (zlen_nonneg vs1); pose proof (zlen_nonneg vs2); lia).
  cbn [mapM]. fold (packT (zlen vs1) t1). fold (packT (zlen vs2) t2).
  rewrite (column_packed N t1 vs1 (zlen vs1) eq_refl A1), (column_packed N t2 vs2 (zlen vs2) eq_refl A2). cbn [bind].
  rewrite transpose2.
  - now rewrite rows_of_cols.
  - rewrite map_length. apply Nat2Z.inj. rewrite Z2Nat.id by lia. exact (zlen_bcol vs1 _ N eq_refl A1 HN).
  - rewrite map_length. apply Nat2Z.inj. rewrite Z2Nat.id by lia. exact (zlen_bcol vs2 _ N eq_refl A2 HN).
Qed.

(* the type-level pass never fails on types of the fragment (with the fuel) *)
Lemma spec_t_jag op : forall f t1 t2,
  jagT t1 = true -> jagT t2 = true -> (tsize t1 + tsize t2 <= f)%nat -> exists rt, spec_t op false f [t1; t2] = Ok rt.
Proof.
  induction f as [|f IH]; intros t1 t2 H1 H2 Hf; [pose proof (tsize_pos t1); lia|].
  rewrite spec_t_S. cbv zeta. rewrite rpad_t_nocond by (now apply jagT_rpad).
  cbn [existsb]. rewrite (jagT_notbad t1 H1), (jagT_notbad t2 H2). cbn [orb].
  destruct (is_optT t1 || is_optT t2) eqn:Ho.
  - rewrite orb_false_r, Ho. cbn [map].
    destruct (jagT_strip t1 H1) as (J1 & S1 & S1'). destruct (jagT_strip t2 H2) as (J2 & S2 & S2').
    assert (Hsz : (tsize (strip_opt_t t1) + tsize (strip_opt_t t2) <= f)%nat).
    { destruct (is_optT t1) eqn:O1; [specialize (S1' eq_refl); lia|]. cbn [orb] in Ho. specialize (S2' Ho). lia. }
    destruct (IH _ _ J1 J2 Hsz) as [rt Hrt]. rewrite Hrt. eexists; reflexivity.
  - rewrite orb_false_r, Ho. apply orb_false_elim in Ho as [O1 O2].
    destruct (is_listT t1 || is_listT t2) eqn:Hl.
    + rewrite orb_false_r, Hl.
      assert (P : forall t, jagT t = true -> is_listT t = true -> is_regT t = false).
      { intros t Ht Hlt. destruct t as [| |[z|] [b|] t0| | |]; try discriminate; reflexivity. }
      assert (Hreg : forallb is_regT (filter is_listT [t1; t2]) = false).
      { cbn [filter]. destruct (is_listT t1) eqn:L1.
        - cbn [forallb]. now rewrite (P t1 H1 L1).
        - cbn [orb] in Hl. rewrite Hl. cbn [forallb]. now rewrite (P t2 H2 Hl). }
      rewrite Hreg. cbn [map].
      destruct (jagT_elem t1 H1 O1) as (J1 & S1 & S1'). destruct (jagT_elem t2 H2 O2) as (J2 & S2 & S2').
      assert (Hsz : (tsize (elemT t1) + tsize (elemT t2) <= f)%nat).
      { destruct (is_listT t1) eqn:L1; [specialize (S1' eq_refl); lia|]. cbn [orb] in Hl. specialize (S2' Hl). lia. }
      destruct (IH _ _ J1 J2 Hsz) as [rt Hrt]. rewrite Hrt. eexists; reflexivity.
    + rewrite orb_false_r, Hl. apply orb_false_elim in Hl as [L1 L2].
      assert (R1 : is_recT t1 = false) by (destruct t1 as [| |[z|] [b|] t0| | |]; try discriminate; reflexivity).
      assert (R2 : is_recT t2 = false) by (destruct t2 as [| |[z|] [b|] t0| | |]; try discriminate; reflexivity).
      rewrite R1, R2. cbn [orb]. eexists; reflexivity.
Qed.

Lemma spec_t_packed op f t1 t2 n1 n2 :
  jagT t1 = true -> jagT t2 = true -> (tsize t1 + tsize t2 <= f)%nat ->
  exists rt, spec_t op false (S f) [packT n1 t1; packT n2 t2] = do size <- dim_target [n1; n2]; Ok (TList (Some size) None rt).
Proof.
  intros H1 H2 Hf. destruct (spec_t_jag op f t1 t2 H1 H2 Hf) as [rt Hrt]. exists rt.
  rewrite spec_t_S. cbv zeta. rewrite rpad_t_packed by assumption.
  cbn [existsb packT badT is_optT is_listT orb filter forallb is_regT andb map sizeT somes elemT].
  rewrite Hrt. destruct (dim_target [n1; n2]); reflexivity.
Qed.

(* spec_broadcast on two arrays of the fragment *)
Lemma spec_broadcast_packed op f t1 t2 vs1 vs2 :
  jagT t1 = true -> jagT t2 = true -> (tsize t1 + tsize t2 <= f)%nat ->
  spec_broadcast op false (S f) [SArr t1 vs1; SArr t2 vs2] =
  do N <- dim_target [zlen vs1; zlen vs2];
  mapM (spec_v op false f) (rows2 t1 t2 (bcol vs1 N) (bcol vs2 N)).
Proof.
  intros H1 H2 Hf. unfold spec_broadcast. cbn [existsb is_sarr orb negb map pack_s fst].
  fold (packT (zlen vs1) t1). fold (packT (zlen vs2) t2).
  destruct (spec_t_packed op f t1 t2 (zlen vs1) (zlen vs2) H1 H2 Hf) as [rt Hrt]. rewrite Hrt.
  rewrite spec_v_packed by assumption.
  destruct (dim_target [zlen vs1; zlen vs2]) as [N|e]; cbn [bind]; [|reflexivity].
  destruct (mapM (spec_v op false f) _); reflexivity.
Qed.

(* ------------------------------------------------------------------ the model on two packed arrays: which branch *)
Definition packC (c : content) : content := Regular c (clen c) 1.

Lemma clen_packC c : 0 <= clen c -> clen (packC c) = 1.
Proof. intros H. unfold packC. cbn [clen]. destruct (clen c =? 0) eqn:E; [reflexivity|]. apply Z.div_same. lia. Qed.

Lemma jag_isreg_depth c : jag c = true -> pl_isreg c = true -> pl_depth c = 1.
Proof.
  destruct c as [dt shape data| |w o c'|w s e c'|c' size zl|w ix0 c'|w ix0 c'|m vw c'|m vw lsb n c'|c'|w t ix0 cs|cs ks n|arr rn c'];
    try discriminate.
  - destruct shape as [|n [|d ds]]; try discriminate. reflexivity.
  - cbn [jag pl_isreg pl_depth]. intros H P. apply andb_prop in H as [H Ho].
    destruct c' as [dt shape data| |w1 o c''|w1 s e c''|c'' size zl|w1 ix1 c''|w1 ix1 c''|m vw c''|m vw lsb n c''|c''|w1 t ix1 cs|cs ks n|arr rn c''];
      try discriminate.
    destruct shape as [|n [|d ds]]; try discriminate. reflexivity.
Qed.

Lemma packed_rcond c1 c2 : jag c1 = true -> jag c2 = true ->
  (let cs := [packC c1; packC c2] in
   let md := fold_right Z.max (-1) (map pl_depth cs) in
   existsb is_list_node cs && (0 <? md) && forallb pl_isreg cs && existsb (fun c => pl_depth c <? md) cs) = false.
Proof.
  intros H1 H2. cbv zeta. unfold packC. cbn [existsb forallb map fold_right is_list_node pl_isreg pl_depth orb].
  destruct (pl_isreg c1) eqn:P1; [|now rewrite !andb_false_r].
  destruct (pl_isreg c2) eqn:P2; [|cbn [andb]; now rewrite !andb_false_r].
  rewrite (jag_isreg_depth c1 H1 P1), (jag_isreg_depth c2 H2 P2). reflexivity.
Qed.

Lemma deregulate_pack dt n d : 0 <= n -> deregulate (packC (Numpy dt [n] d)) = Ok (Numpy dt [1; n] (take n d)).
Proof.
  intros Hn. unfold deregulate. unfold packC at 1. cbn [reg_chain clen].
  fold (packC (Numpy dt [n] d)). rewrite (clen_packC (Numpy dt [n] d)) by exact Hn. cbv zeta.
  cbn [tl hd app]. unfold prodZ. cbn [fold_right].
  assert (Hc : (Z.min (1 * (n * 1)) n * 1 =? 1 * (n * 1) * 1) = true) by lia. rewrite Hc.
  do 3 f_equal. lia.
Qed.

Lemma to_nparr_pack_numpy dt n d :
  forallb is_dz d = true -> 0 <= n -> n <= zlen d ->
  to_nparr (MC (packC (Numpy dt [n] d))) = Ok (Some (dt_isbool dt, ([1; n], map (leaf_z dt) (take n d)))).
Proof.
  intros Hd Hn0 Hn. unfold to_nparr. rewrite deregulate_pack by exact Hn0. cbn [bind].
  unfold prodZ. cbn [fold_right]. replace (1 * (n * 1)) with n by lia.
  rewrite zlen_take by lia. destruct (n <? n) eqn:E; [lia|].
  assert (Ht : take n (take n d) = take n d) by (unfold take; rewrite firstn_firstn; f_equal; lia). rewrite Ht.
  rewrite datum_z_all by (unfold take; now apply forallb_firstn). cbn [bind]. rewrite map_map. reflexivity.
Qed.
Lemma to_nparr_pack_other c : jag c = true -> is_numpy_node c = false -> to_nparr (MC (packC c)) = Ok None.
Proof. intros Hj Hn. destruct c; try discriminate; reflexivity. Qed.
Lemma to_nparr_pack_total c vs : jag c = true -> to_list c = Ok vs ->
  exists r, to_nparr (MC (packC c)) = Ok r /\ (is_numpy_node c = false -> r = None).
Proof.
  intros Hj Hl. destruct (is_numpy_node c) eqn:Hn.
  - destruct c as [dt sh d| | | | | | | | | | | |]; try discriminate. destruct sh as [|n [|x sh]]; try discriminate.
    destruct (to_list_numpy1 _ _ _ _ Hl) as (Hn0 & Hd & _). cbn [jag] in Hj.
    rewrite (to_nparr_pack_numpy dt n d Hj Hn0 Hd). eexists. split; [reflexivity|discriminate].
  - rewrite (to_nparr_pack_other c Hj Hn). exists None. auto.
Qed.
Lemma getfunction_none_packed op c1 c2 vs1 vs2 :
  jag c1 = true -> jag c2 = true -> to_list c1 = Ok vs1 -> to_list c2 = Ok vs2 ->
  is_numpy_node c1 && is_numpy_node c2 = false ->
  getfunction op None [MC (packC c1); MC (packC c2)] = Ok None.
Proof.
  intros H1 H2 L1 L2 Hn. unfold getfunction. cbn [mapM].
  destruct (to_nparr_pack_total c1 vs1 H1 L1) as (r1 & E1 & N1). destruct (to_nparr_pack_total c2 vs2 H2 L2) as (r2 & E2 & N2).
  rewrite E1, E2. cbn [bind].
  destruct (is_numpy_node c1) eqn:A1.
  - cbn [andb] in Hn. rewrite (N2 Hn). cbn [all_somes]. now destruct r1.
  - rewrite (N1 eq_refl). reflexivity.
Qed.

(* ------------------------------------------------------------------ NumPy on two buffers of shape (1, n1) and (1, n2) *)
Lemma multi_1N N : multi [1; N] = map (fun j => [0; j]) (iota N).
Proof.
  cbn [multi]. change (iota 1) with [0]. cbn [flat_map]. rewrite app_nil_r.
  assert (Hm : flat_map (fun i : Z => map (cons i) [[]]) (iota N) = map (fun i => [i]) (iota N)).
  { induction (iota N) as [|i l IH]; [reflexivity|]. cbn [flat_map map app]. f_equal; exact IH. }
  rewrite Hm, map_map. reflexivity.
Qed.

Lemma nd_apply_2d op b1 b2 zs1 zs2 n1 n2 N :
  zlen zs1 = n1 -> zlen zs2 = n2 -> dim_target [n1; n2] = Ok N ->
  nd_apply op [(b1, ([1; n1], zs1)); (b2, ([1; n2], zs2))] =
  Ok (Numpy (if lk op [b1; b2] then DBool else DInt64) [1; N]
        (map (fun xy : Z * Z => DZ (lf op [b1; b2] [fst xy; snd xy])) (zip (bcol zs1 N) (bcol zs2 N)))).
Proof.
  intros <- <- HD. destruct (dim_target_2_inv _ _ _ HD) as (A1 & A2 & A3).
  assert (HN : 0 <= N) by (pose proof (zlen_nonneg zs1); pose proof (zlen_nonneg zs2); lia).
  unfold nd_apply. cbn [map fst snd length fold_right Nat.max pad_shape Nat.sub repeat app].
  change (transpose 2 [[1; zlen zs1]; [1; zlen zs2]]) with [[1; 1]; [zlen zs1; zlen zs2]]. cbn [mapM].
  change (dim_target [1; 1]) with (@Ok Z 1). rewrite HD. cbn [bind].
  rewrite multi_1N, mapM_map.
  rewrite (mapM_iota_zip _ (fun xy : Z * Z => DZ (lf op [b1; b2] [fst xy; snd xy])) (bcol zs1 N) (bcol zs2 N) N);
    [reflexivity|exact (zlen_bcol zs1 _ N eq_refl A1 HN)|exact (zlen_bcol zs2 _ N eq_refl A2 HN)|].
  intros i x y Hx Hy. cbn [zip mapM fst snd flat_ix].
  apply (get_bcol zs1 _ N i x eq_refl A1) in Hx. apply (get_bcol zs2 _ N i y eq_refl A2) in Hy.
  assert (F1 : (0 * 1 + (if 1 =? 1 then 0 else 0)) * zlen zs1 + (if zlen zs1 =? 1 then 0 else i) = (if zlen zs1 =? 1 then 0 else i))
    by (change (1 =? 1) with true; cbv iota; destruct (zlen zs1 =? 1); lia).
  assert (F2 : (0 * 1 + (if 1 =? 1 then 0 else 0)) * zlen zs2 + (if zlen zs2 =? 1 then 0 else i) = (if zlen zs2 =? 1 then 0 else i))
    by (change (1 =? 1) with true; cbv iota; destruct (zlen zs2 =? 1); lia).
  rewrite F1, F2, Hx, Hy. reflexivity.
Qed.
Lemma nd_apply_2d_err op b1 b2 zs1 zs2 n1 n2 e :
  dim_target [n1; n2] = Err e ->
  nd_apply op [(b1, ([1; n1], zs1)); (b2, ([1; n2], zs2))] = Err e.
Proof.
  intros HD. unfold nd_apply. cbn [map fst snd length fold_right Nat.max pad_shape Nat.sub repeat app].
  change (transpose 2 [[1; n1]; [1; n2]]) with [[1; 1]; [n1; n2]]. cbn [mapM].
  change (dim_target [1; 1]) with (@Ok Z 1). rewrite HD. reflexivity.
Qed.

(* the values NumPy leaves in the buffer of shape (1, N), unpacked, are what the specification computes row by row *)
Lemma is_dz_bcol (d : list datum) N x : forallb is_dz d = true -> In x (bcol d N) -> is_dz x = true.
Proof. intros H Hin. apply bcol_In in Hin. rewrite forallb_forall in H. now apply H. Qed.

Lemma packed_leaf_values op f' dt1 dt2 (t1 t2 : list datum) N :
  forallb is_dz t1 = true -> forallb is_dz t2 = true -> zlen (bcol t1 N) = N -> zlen (bcol t2 N) = N -> 0 <= N ->
  agrees (obs (unpack (Numpy (if lk op [dt_isbool dt1; dt_isbool dt2] then DBool else DInt64) [1; N]
                 (map (fun xy : Z * Z => DZ (lf op [dt_isbool dt1; dt_isbool dt2] [fst xy; snd xy]))
                      (zip (bcol (map (leaf_z dt1) t1) N) (bcol (map (leaf_z dt2) t2) N))))))
         (mapM (spec_v op false (S f')) (rows2 (TNum dt1) (TNum dt2) (bcol (map (leaf dt1) t1) N) (bcol (map (leaf dt2) t2) N))).
Proof.
  intros D1 D2 Z1 Z2 HN.
  set (ks := [dt_isbool dt1; dt_isbool dt2]). set (rdt := if lk op ks then DBool else DInt64).
  rewrite !bcol_map, zip_map, map_map. cbn [fst snd].
  set (outd := map (fun x : datum * datum => DZ (lf op ks [leaf_z dt1 (fst x); leaf_z dt2 (snd x)])) (zip (bcol t1 N) (bcol t2 N))).
  assert (Hzo : zlen outd = N) by (unfold outd; rewrite zlen_map, zlen_zip, Z1, Z2; apply Z.min_id).
  cbn [unpack]. change (1 =? 0) with false. cbv iota. unfold obs. cbn [bind]. unfold prodZ. cbn [fold_right].
  assert (Htk : take (N * 1) outd = outd) by (apply take_all; lia). rewrite Htk.
  rewrite to_list_numpy1_ok by lia. rewrite take_all by lia.
  unfold rows2. rewrite zip_map, map_map, mapM_map.
  rewrite (mapM_ext_in _ (fun xy : datum * datum =>
                            Ok (leaf rdt (DZ (lf op ks [leaf_z dt1 (fst xy); leaf_z dt2 (snd xy)]))))).
  - rewrite mapM_pure. cbn [agrees]. unfold outd. now rewrite map_map.
  - intros [x y] Hin. cbn [fst snd]. apply zip_In in Hin as [Hx Hy].
    rewrite (spec_leaf_row op false f' dt1 dt2 x y (is_dz_bcol t1 N x D1 Hx) (is_dz_bcol t2 N y D2 Hy)). f_equal. fold ks.
    unfold mk_leaf, leaf, rdt. destruct (lk op ks); reflexivity.
Qed.

(* ------------------------------------------------------------------ the regular step (reg_branch) on one packed input *)
Definition reg_next (M : Z) (c : content) (n : Z) : res content :=
  if (1 <? M) && (n =? 1) then
    do t <- pyslice c (1 * n); ccarry t (concat (map (fun i => repeat i (Z.to_nat M)) (iota 1)))
  else if n =? M then pyslice c (1 * n) else Err EValue.

Lemma reg_next_ok M c vs :
  jag c = true -> to_list c = Ok vs -> zlen vs = M \/ (zlen vs = 1 /\ 1 < M) ->
  exists m, reg_next M c (zlen vs) = Ok m /\ jag m = true /\ to_list m = Ok (bcol vs M) /\
            type_of m = type_of c /\ csize m = csize c.
Proof.
  intros Hj Hl Hn. pose proof (to_list_len _ _ Hl) as Hlen. pose proof (zlen_nonneg vs) as Hn0.
  assert (Hps : pyslice c (1 * zlen vs) = grange c 0 (zlen vs)) by (unfold pyslice; f_equal; lia).
  destruct (grange0_jag c vs (zlen vs) Hj Hl ltac:(lia)) as (t & Hg & Hjt & Hlt & Htt & Hst & Hct & _).
  rewrite take_all in Hlt by lia.
  unfold reg_next. rewrite Hps, Hg. cbn [bind].
  destruct ((1 <? M) && (zlen vs =? 1)) eqn:Eb.
  - (* repeated *)
    assert (H1 : zlen vs = 1) by lia. assert (HM : 1 < M) by lia.
    destruct vs as [|x [|y vs]]; [rewrite zlen_nil in H1; discriminate| |rewrite !zlen_cons in H1; pose proof (zlen_nonneg vs); lia].
    change (iota 1) with [0]. cbn [map concat]. rewrite app_nil_r.
    destruct (ccarry_jag t [x] (repeat 0 (Z.to_nat M)) Hjt Hlt) as (m & Hc & Hjm & Hlm & Htm & Hsm & _).
    { apply Forall_forall. intros i Hi. apply repeat_spec in Hi. subst i. rewrite Hct, H1. lia. }
    exists m. split; [exact Hc|]. repeat split; try congruence.
    rewrite Hlm. cbn [bcol]. apply gather_repeat0.
  - assert (HM : zlen vs = M) by lia. rewrite HM, Z.eqb_refl. rewrite <- HM.
    exists t. split; [reflexivity|]. repeat split; try assumption. now rewrite bcol_same.
Qed.
Lemma reg_next_err M c vs :
  jag c = true -> to_list c = Ok vs -> zlen vs <> M -> ~ (zlen vs = 1 /\ 1 < M) -> reg_next M c (zlen vs) = Err EValue.
Proof.
  intros Hj Hl Hne Hn1. unfold reg_next.
  destruct ((1 <? M) && (zlen vs =? 1)) eqn:Eb; [exfalso; apply Hn1; lia|].
  destruct (zlen vs =? M) eqn:E; [lia|reflexivity].
Qed.

(* reg_branch on the two packed inputs *)
Lemma reg_branch_packed rec c1 c2 n1 n2 z1 z2 :
  clen (Regular c1 n1 z1) = 1 -> clen (Regular c2 n2 z2) = 1 ->
  reg_branch rec [MC (Regular c1 n1 z1); MC (Regular c2 n2 z2)] =
  (let M := Z.max n1 (Z.max n2 0) in
   do m1 <- reg_next M c1 n1; do m2 <- reg_next M c2 n2;
   do out <- rec [MC m1; MC m2];
   Ok (Regular out M (Z.max (clen m1) (Z.max (clen m2) 0)))).
Proof.
  intros G1 G2. unfold reg_branch. cbn [contents_of flat_map app filter is_list_node fold_right]. rewrite map_c2.
  cbv beta iota zeta. rewrite G1, G2. unfold reg_next.
  destruct (if (1 <? Z.max n1 (Z.max n2 0)) && (n1 =? 1) then _ else _) as [m1|]; [|reflexivity]. cbn [bind].
  destruct (if (1 <? Z.max n1 (Z.max n2 0)) && (n2 =? 1) then _ else _) as [m2|]; reflexivity.
Qed.

(* ------------------------------------------------------------------ one call of apply on the packed inputs *)
(* a length-1 array against a length-0 array, not both 1-d NumpyArrays: known finding regular-size1-to-size0 *)
Definition size1_vs_size0 (c1 c2 : content) : bool :=
  negb (is_numpy_node c1 && is_numpy_node c2) &&
  (((clen c1 =? 1) && (clen c2 =? 0)) || ((clen c1 =? 0) && (clen c2 =? 1))).

Lemma dispatch_packed_head op rec c1 c2 :
  jag c1 = true -> jag c2 = true -> 0 <= clen c1 -> 0 <= clen c2 ->
  dispatch op None rec [MC (packC c1); MC (packC c2)] =
  do custom <- getfunction op None [MC (packC c1); MC (packC c2)];
  match custom with Some out => Ok out | None => reg_branch rec [MC (packC c1); MC (packC c2)] end.
Proof.
  intros H1 H2 G1 G2. unfold dispatch. cbn [contents_of flat_map app].
  pose proof (packed_rcond c1 c2 H1 H2) as Hr. cbv zeta in Hr. cbv zeta. rewrite Hr.
  unfold checklength, all_eq. cbn [map forallb]. rewrite (clen_packC c1 G1), (clen_packC c2 G2). cbn [Z.eqb andb negb].
  destruct (getfunction op None [MC (packC c1); MC (packC c2)]) as [[out|]|]; reflexivity.
Qed.

Lemma unpack_regular out M ys :
  jag out = true -> to_list out = Ok ys -> zlen ys = M ->
  exists r, unpack (Regular out M M) = Ok r /\ to_list r = Ok ys.
Proof.
  intros Hj Hl Hz. pose proof (to_list_len _ _ Hl) as Hlen. pose proof (zlen_nonneg ys) as Hn0.
  destruct (grange0_jag out ys M Hj Hl ltac:(lia)) as (r & Hg & _ & Hlr & _). rewrite take_all in Hlr by lia.
  exists r. split; [|exact Hlr]. unfold unpack. cbn [clen].
  destruct (M =? 0) eqn:E0.
  - rewrite E0. assert (HM0 : M = 0) by lia. rewrite HM0 in Hg. exact Hg.
  - assert (Hd : clen out / M = 1) by (rewrite <- Hlen, Hz; apply Z.div_same; lia). rewrite Hd. exact Hg.
Qed.

(* ------------------------------------------------------------------ the theorem *)
(* PARTIAL: the full statement (without the last hypothesis) is false, see [broadcast_refines_spec_refuted] below.
   hypothesis added: [size1_vs_size0 c1 c2 = false], i.e. NOT (one array has length 1, the other length 0, and they are not
   both 1-d NumpyArrays).  Why: broadcast_pack makes the array dimension a RegularArray dimension; in apply's
   all-RegularArray branch maxsize = max(1, 0) = 1, so the "maxsize > 1 and size == 1" repetition is not taken and the
   size-0 input fails "size == maxsize": ValueError, where NumPy's rule (the specification, and the model/code when both
   inputs are NumpyArrays, which go through NumPy itself) repeats the single element zero times and returns [].
   [size1_vs_size0_differs_lemma] shows that this is the only difference.
   Fuel: one call for the packed level + [model_fuel_bound] (one call per node of the two layouts); the same fuel is given
   to the specification; the out-of-fuel case is excluded by the bound (the conclusion allows only value errors). *)
Theorem broadcast_refines_spec_partial_lemma op fuel c1 c2 vs1 vs2 :
  jag c1 = true -> jag c2 = true -> to_list c1 = Ok vs1 -> to_list c2 = Ok vs2 ->
  (S (model_fuel_bound c1 c2) <= fuel)%nat ->
  size1_vs_size0 c1 c2 = false ->
  agrees (obs (broadcast_and_apply op None fuel [MC c1; MC c2]))
         (spec_broadcast op false fuel [SArr (type_of c1) vs1; SArr (type_of c2) vs2]).
Proof.
  unfold model_fuel_bound. intros H1 H2 L1 L2 Hf Hs.
  destruct fuel as [|f]; [lia|]. assert (Hf' : (csize c1 + csize c2 <= f)%nat) by lia. clear Hf.
  destruct (type_of_jag c1 H1) as (JT1 & _). destruct (type_of_jag c2 H2) as (JT2 & _).
  pose proof (to_list_len _ _ L1) as Hn1. pose proof (to_list_len _ _ L2) as Hn2.
  pose proof (zlen_nonneg vs1) as Hp1. pose proof (zlen_nonneg vs2) as Hp2.
  rewrite spec_broadcast_packed by (try assumption; rewrite (tsize_jag c1 H1), (tsize_jag c2 H2); exact Hf').
  unfold broadcast_and_apply. cbn [existsb orb negb map pack]. fold (packC c1). fold (packC c2).
  rewrite apply_S. rewrite dispatch_packed_head by (try assumption; lia).
  destruct (is_numpy_node c1 && is_numpy_node c2) eqn:Hn.
  - (* two 1-d NumpyArrays: NumPy on shapes (1, n1) and (1, n2) *)
    apply andb_prop in Hn as [N1 N2].
    destruct c1 as [dt1 sh1 d1| | | | | | | | | | | |]; try discriminate. destruct c2 as [dt2 sh2 d2| | | | | | | | | | | |]; try discriminate.
    destruct sh1 as [|n1 [|x1 sh1]]; try discriminate. destruct sh2 as [|n2 [|x2 sh2]]; try discriminate.
    cbn [jag] in H1, H2. cbn [clen] in Hn1, Hn2.
    destruct (to_list_numpy1 _ _ _ _ L1) as (_ & Hd1 & E1). destruct (to_list_numpy1 _ _ _ _ L2) as (_ & Hd2 & E2).
    unfold getfunction. cbn [mapM].
    rewrite (to_nparr_pack_numpy dt1 n1 d1 H1 ltac:(lia) Hd1), (to_nparr_pack_numpy dt2 n2 d2 H2 ltac:(lia) Hd2). cbn [bind all_somes].
    rewrite Hn1, Hn2. subst vs1 vs2. cbn [type_of type_of_p tl numpy_ty].
    set (t1 := take n1 d1) in *. set (t2 := take n2 d2) in *.
    assert (Ht1 : zlen t1 = n1) by (unfold t1; apply zlen_take; lia).
    assert (Ht2 : zlen t2 = n2) by (unfold t2; apply zlen_take; lia).
    assert (Hdz1 : forallb is_dz t1 = true) by (unfold t1, take; now apply forallb_firstn).
    assert (Hdz2 : forallb is_dz t2 = true) by (unfold t2, take; now apply forallb_firstn).
    assert (Hf1 : exists f', f = S f') by (clear - Hf'; destruct f as [|f']; [cbn [csize] in Hf'; lia|now exists f']).
    destruct Hf1 as [f' ->].
    destruct (dim_target [n1; n2]) as [N|e] eqn:ED.
    + assert (Hz1 : zlen (map (leaf_z dt1) t1) = n1) by (now rewrite zlen_map).
      assert (Hz2 : zlen (map (leaf_z dt2) t2) = n2) by (now rewrite zlen_map).
      rewrite (nd_apply_2d op _ _ _ _ n1 n2 N Hz1 Hz2 ED). cbn [rmap bind].
      destruct (dim_target_2_inv _ _ _ ED) as (A1 & A2 & A3).
      assert (HN : 0 <= N) by (clear - A3 Hn1 Hn2 Hp1 Hp2; lia).
      apply packed_leaf_values; try assumption.
      * apply (zlen_bcol t1 n1 N Ht1 A1 HN).
      * apply (zlen_bcol t2 n2 N Ht2 A2 HN).
    + rewrite (nd_apply_2d_err op _ _ _ _ n1 n2 e ED). cbn [rmap bind obs agrees].
      destruct (dim_target_2_err _ _ _ ED) as (-> & _). split; reflexivity.
  - (* at least one deeper input: the regular branch, then apply on the repeated / sliced contents *)
    pose proof (getfunction_none_packed op c1 c2 vs1 vs2 H1 H2 L1 L2 Hn) as Hgf.
    rewrite Hgf. cbn [bind]. unfold packC. rewrite reg_branch_packed by (apply clen_packC; lia). cbv zeta.
    rewrite <- Hn1, <- Hn2. set (M := Z.max (zlen vs1) (Z.max (zlen vs2) 0)).
    unfold size1_vs_size0 in Hs. rewrite Hn in Hs. cbn [negb andb] in Hs. rewrite <- Hn1, <- Hn2 in Hs.
    destruct (dim_target [zlen vs1; zlen vs2]) as [N|e] eqn:ED.
    + destruct (dim_target_2_inv _ _ _ ED) as (A1 & A2 & A3).
      assert (HMN : M = N) by (unfold M; lia). rewrite <- HMN in *. clear HMN.
      destruct (reg_next_ok M c1 vs1 H1 L1 ltac:(unfold M in *; lia)) as (m1 & R1 & Jm1 & Lm1 & Tm1 & Sm1).
      destruct (reg_next_ok M c2 vs2 H2 L2 ltac:(unfold M in *; lia)) as (m2 & R2 & Jm2 & Lm2 & Tm2 & Sm2).
      rewrite R1, R2. cbn [bind].
      assert (HM0 : 0 <= M) by (unfold M; lia).
      assert (Zb1 : zlen (bcol vs1 M) = M) by (apply (zlen_bcol vs1 (zlen vs1) M eq_refl); [unfold M in *; lia|exact HM0]).
      assert (Zb2 : zlen (bcol vs2 M) = M) by (apply (zlen_bcol vs2 (zlen vs2) M eq_refl); [unfold M in *; lia|exact HM0]).
      assert (Cm1 : clen m1 = M) by (rewrite <- (to_list_len _ _ Lm1); exact Zb1).
      assert (Cm2 : clen m2 = M) by (rewrite <- (to_list_len _ _ Lm2); exact Zb2).
      rewrite Cm1, Cm2. replace (Z.max M (Z.max M 0)) with M by lia.
      destruct (apply_rows op f m1 m2 _ _ Jm1 Jm2 Lm1 Lm2 ltac:(congruence) ltac:(rewrite Sm1, Sm2; exact Hf')) as [Ha Hj].
      rewrite Tm1, Tm2 in Ha. cbn [bind].
      destruct (mapM (spec_v op false f) (rows2 (type_of c1) (type_of c2) (bcol vs1 M) (bcol vs2 M))) as [ys|e] eqn:Em; cbn [agrees_c agrees] in *.
      * destruct Ha as (out & Hrec & Hout). rewrite Hrec. cbn [bind].
        destruct (Hj out Hrec) as [Jo _].
        assert (Hzy : zlen ys = M).
        { rewrite (mapM_zlen _ _ _ Em). unfold rows2. rewrite zlen_map, zlen_zip, Zb1, Zb2. lia. }
        destruct (unpack_regular out M ys Jo Hout Hzy) as (r & Hu & Hr). rewrite Hu. unfold obs. cbn [bind]. exact Hr.
      * destruct Ha as [-> Hrec]. rewrite Hrec. cbn [bind obs]. split; reflexivity.
    + destruct (dim_target_2_err _ _ _ ED) as (-> & D1 & D2 & D3). cbn [bind agrees]. split; [reflexivity|].
      destruct (Z_lt_le_dec (zlen vs1) (zlen vs2)) as [Hlt|Hge].
      * rewrite (reg_next_err M c1 vs1 H1 L1) by (unfold M; lia). reflexivity.
      * destruct (reg_next_ok M c1 vs1 H1 L1 ltac:(unfold M; lia)) as (m1 & R1 & _). rewrite R1. cbn [bind].
        rewrite (reg_next_err M c2 vs2 H2 L2) by (unfold M; lia). reflexivity.
Qed.

(* ------------------------------------------------------------------ the full statement is false: a length-1 array of lists
   against a length-0 array of lists.  NumPy (and the specification) repeat the single element zero times; the model,
   like _util.apply (all-RegularArray branch: "x.size == maxsize" with maxsize = 1), refuses. *)
Definition cex_c1 : content := ListOffset I64 [0; 2] (Numpy DInt64 [2] [DZ 1; DZ 2]).     (* [[1, 2]] *)
Definition cex_c2 : content := ListOffset I64 [0] (Numpy DInt64 [0] []).                  (* [] : var * int64 *)
Example broadcast_refines_spec_refuted :
  jag cex_c1 = true /\ jag cex_c2 = true /\
  to_list cex_c1 = Ok [VList [VNum (DZ 1); VNum (DZ 2)]] /\ to_list cex_c2 = Ok [] /\
  (S (model_fuel_bound cex_c1 cex_c2) <= 10)%nat /\
  obs (broadcast_and_apply (ufn_op UAdd) None 10 [MC cex_c1; MC cex_c2]) = Err EValue /\
  spec_broadcast (ufn_op UAdd) false 10 [SArr (type_of cex_c1) [VList [VNum (DZ 1); VNum (DZ 2)]]; SArr (type_of cex_c2) []] = Ok [] /\
  size1_vs_size0 cex_c1 cex_c2 = true.
Proof. repeat split; vm_compute; try reflexivity. lia. Qed.

(* ... and that is the only way to differ: on the excluded inputs the model always refuses and the specification always
   returns the empty array *)
Theorem size1_vs_size0_differs_lemma op fuel c1 c2 vs1 vs2 :
  jag c1 = true -> jag c2 = true -> to_list c1 = Ok vs1 -> to_list c2 = Ok vs2 ->
  (S (model_fuel_bound c1 c2) <= fuel)%nat ->
  size1_vs_size0 c1 c2 = true ->
  broadcast_and_apply op None fuel [MC c1; MC c2] = Err EValue /\
  spec_broadcast op false fuel [SArr (type_of c1) vs1; SArr (type_of c2) vs2] = Ok [].
Proof.
  unfold model_fuel_bound. intros H1 H2 L1 L2 Hf Hs.
  destruct fuel as [|f]; [lia|]. assert (Hf' : (csize c1 + csize c2 <= f)%nat) by lia. clear Hf.
  destruct (type_of_jag c1 H1) as (JT1 & _). destruct (type_of_jag c2 H2) as (JT2 & _).
  pose proof (to_list_len _ _ L1) as Hn1. pose proof (to_list_len _ _ L2) as Hn2.
  unfold size1_vs_size0 in Hs. apply andb_prop in Hs as [Hn Hs]. apply negb_true_iff in Hn. rewrite <- Hn1, <- Hn2 in Hs.
  split.
  - unfold broadcast_and_apply. cbn [existsb orb negb map pack]. fold (packC c1). fold (packC c2).
    rewrite apply_S. rewrite dispatch_packed_head by (try assumption; pose proof (zlen_nonneg vs1); pose proof (zlen_nonneg vs2); lia).
    pose proof (getfunction_none_packed op c1 c2 vs1 vs2 H1 H2 L1 L2 Hn) as Hgf.
    rewrite Hgf. cbn [bind]. unfold packC. rewrite reg_branch_packed by (apply clen_packC; pose proof (zlen_nonneg vs1); pose proof (zlen_nonneg vs2); lia). cbv zeta.
    rewrite <- Hn1, <- Hn2. set (M := Z.max (zlen vs1) (Z.max (zlen vs2) 0)).
    destruct (Z.eq_dec (zlen vs1) 1) as [E1|E1].
    + (* M = 1: the first input is kept, the second (length 0) is refused *)
      destruct (reg_next_ok M c1 vs1 H1 L1 ltac:(unfold M; lia)) as (m1 & R1 & _). rewrite R1. cbn [bind].
      rewrite (reg_next_err M c2 vs2 H2 L2) by (unfold M; lia). reflexivity.
    + rewrite (reg_next_err M c1 vs1 H1 L1) by (unfold M; lia). reflexivity.
  - rewrite spec_broadcast_packed by (try assumption; rewrite (tsize_jag c1 H1), (tsize_jag c2 H2); exact Hf').
    assert (HD : dim_target [zlen vs1; zlen vs2] = Ok 0).
    { rewrite dim_target_2. destruct (zlen vs1 =? 1) eqn:E1; [f_equal; lia|]. destruct (zlen vs2 =? 1) eqn:E2; [f_equal; lia|]. lia. }
    rewrite HD. cbn [bind].
    assert (B : bcol vs1 0 = [] \/ bcol vs2 0 = []).
    { destruct (Z.eq_dec (zlen vs1) 0) as [E|E]; [left; apply zlen_0_nil in E; subst; reflexivity|].
      right. assert (E2 : zlen vs2 = 0) by lia. apply zlen_0_nil in E2. subst. reflexivity. }
    assert (Hr : rows2 (type_of c1) (type_of c2) (bcol vs1 0) (bcol vs2 0) = []).
    { unfold rows2. destruct B as [-> | ->]; [reflexivity|]. destruct (bcol vs1 0); reflexivity. }
    rewrite Hr. reflexivity.
Qed.

(* ------------------------------------------------------------------ example: the hypotheses are satisfiable *)
(* [[[3,4],[5]], [[6,7,8]]] + [[10, None], [30]] through the entry points; and a length-1 array that is repeated *)
Definition ex_c4 : content := ListA I32 [1] [3] (Numpy DInt32 [4] (map DZ [0; 100; 200; 0])).   (* [[100, 200]] *)
Definition ex_v4 : list value := [VList [VNum (DZ 100); VNum (DZ 200)]].

Example broadcast_refines_spec_nonvacuous :
  jag ex_c1 = true /\ jag ex_c2 = true /\ jag ex_c3 = true /\ jag ex_c4 = true /\
  to_list ex_c1 = Ok ex_v1 /\ to_list ex_c2 = Ok ex_v2 /\ to_list ex_c3 = Ok ex_v3 /\ to_list ex_c4 = Ok ex_v4 /\
  size1_vs_size0 ex_c1 ex_c2 = false /\ size1_vs_size0 ex_c1 ex_c3 = false /\ size1_vs_size0 ex_c4 ex_c2 = false /\
  (S (model_fuel_bound ex_c1 ex_c2) <= 7)%nat /\ (S (model_fuel_bound ex_c1 ex_c3) <= 7)%nat /\ (S (model_fuel_bound ex_c4 ex_c2) <= 7)%nat /\
  (* values *)
  obs (broadcast_and_apply (ufn_op UAdd) None 7 [MC ex_c1; MC ex_c2]) =
    Ok [VList [VList [VNum (DZ 13); VNum (DZ 14)]; VNone]; VList [VList [VNum (DZ 36); VNum (DZ 37); VNum (DZ 38)]]] /\
  spec_broadcast (ufn_op UAdd) false 7 [SArr (type_of ex_c1) ex_v1; SArr (type_of ex_c2) ex_v2] =
    Ok [VList [VList [VNum (DZ 13); VNum (DZ 14)]; VNone]; VList [VList [VNum (DZ 36); VNum (DZ 37); VNum (DZ 38)]]] /\
  (* the error half: lists of lengths (2, 1) against (1, 2) *)
  obs (broadcast_and_apply (ufn_op UAdd) None 7 [MC ex_c1; MC ex_c3]) = Err EValue /\
  spec_broadcast (ufn_op UAdd) false 7 [SArr (type_of ex_c1) ex_v1; SArr (type_of ex_c3) ex_v3] = Err EValue /\
  (* a length-1 array is repeated: [[100,200]] + [[10,None],[30]] fails on the second row (lengths 2 and 1) ... *)
  obs (broadcast_and_apply (ufn_op UAdd) None 7 [MC ex_c4; MC ex_c2]) = Err EValue /\
  (* ... and succeeds against one row of the same length *)
  obs (broadcast_and_apply (ufn_op UMul) None 7 [MC ex_c4; MC (ListOffset I64 [0; 2; 4] (Numpy DInt64 [4] (map DZ [1; 2; 3; 4])))]) =
    Ok [VList [VNum (DZ 100); VNum (DZ 400)]; VList [VNum (DZ 300); VNum (DZ 800)]].
Proof. repeat split; vm_compute; try reflexivity; lia. Qed.
