(** C05 property theorems (proofs in Proofs_C05.v). *)
From AwkV Require Import Layout Valid Types AtAxis Ops_Struct Ops_Flatten.
