(** C17, model of the Lark parser: the text Type::string_parameters prints for a parameter map with scalar values
    (null, booleans, integers, strings without escapes) is read back by the def_option production as that map. *)
From Coq Require Import ZArith List Bool Lia DecimalZ DecimalPos.
From AwkV Require Import Base Layout.
From AwkTypes Require Import Json Forms TypeStr Proofs_Json Proofs_Parse Lark Proofs_C17b_Lark.
Import ListNotations.
Open Scope Z_scope.

(* values *)
Definition jscalar (j : json) : bool :=
  match j with
  | JNull | JBool _ | JInt _ => true
  | JStr s => lkey_ok s
  | _ => false
  end.
(* what follows a value in the printed parameters *)
Definition jfollow (rest : bytes) : Prop := exists r, rest = 44 :: r \/ rest = 125 :: r.

Lemma jfollow_skip rest : jfollow rest -> skip_ws rest = rest.
Proof. intros (r & [-> | ->]); reflexivity. Qed.

Lemma lk_exp_follow rest : jfollow rest -> lk_exp rest = ([], rest).
Proof. intros (r & [-> | ->]); reflexivity. Qed.

Lemma lk_number_nat u rest : u <> Decimal.Nil -> jfollow rest ->
  lk_number (uint_digits u ++ rest) = Ok (JInt (Z_of_digits (uint_digits u)), rest).
Proof.
  intros Hnil Hf. destruct (uint_digits_head u Hnil) as (c & r & Hcr & Hd).
  destruct (digit_tests2 c Hd) as (Hws & _ & _ & _ & _ & _ & H43 & H45 & _).
  unfold lk_number. rewrite Hcr. change ((c :: r) ++ ?y) with (c :: (r ++ y)).
  rewrite (skip_ws_nows c _ Hws). rewrite H43, H45.
  change (c :: r ++ rest) with ((c :: r) ++ rest). rewrite <- Hcr.
  assert (Hnd : match rest with [] => True | c0 :: _ => is_digit c0 = false end) by (destruct Hf as (r0 & [-> | ->]); reflexivity).
  rewrite (span_word is_digit _ _ (uint_digits_digits u) Hnd).
  assert (Hdot : match rest with c0 :: _ => c0 =? 46 | [] => false end = false) by (destruct Hf as (r0 & [-> | ->]); reflexivity).
  rewrite Hdot. rewrite Hcr. rewrite (lk_exp_follow rest Hf). reflexivity.
Qed.

Lemma lk_number_neg u rest : u <> Decimal.Nil -> jfollow rest ->
  lk_number (45 :: uint_digits u ++ rest) = Ok (JInt (- Z_of_digits (uint_digits u)), rest).
Proof.
  intros Hnil Hf. destruct (uint_digits_head u Hnil) as (c & r & Hcr & Hd).
  unfold lk_number. rewrite (skip_ws_nows 45) by reflexivity. change (45 =? 43) with false. change (45 =? 45) with true. cbv iota.
  assert (Hnd : match rest with [] => True | c0 :: _ => is_digit c0 = false end) by (destruct Hf as (r0 & [-> | ->]); reflexivity).
  rewrite (span_word is_digit _ _ (uint_digits_digits u) Hnd).
  assert (Hdot : match rest with c0 :: _ => c0 =? 46 | [] => false end = false) by (destruct Hf as (r0 & [-> | ->]); reflexivity).
  rewrite Hdot. rewrite Hcr. rewrite (lk_exp_follow rest Hf). reflexivity.
Qed.

Lemma lk_number_dec z rest : jfollow rest -> lk_number (dec_of_Z z ++ rest) = Ok (JInt z, rest).
Proof.
  intros Hf. destruct z as [|p|p].
  - destruct (Z_of_digits_dec 0 ltac:(lia)) as (u & Hu & Hnil & Hval). rewrite Hu, (lk_number_nat u rest Hnil Hf), Hval. reflexivity.
  - destruct (Z_of_digits_dec (Zpos p) ltac:(lia)) as (u & Hu & Hnil & Hval). rewrite Hu, (lk_number_nat u rest Hnil Hf), Hval. reflexivity.
  - destruct (Z_of_digits_dec (Zpos p) ltac:(lia)) as (u & Hu & Hnil & Hval).
    change (dec_of_Z (Zneg p)) with (45 :: dec_of_Z (Zpos p)). rewrite Hu. cbn [app].
    rewrite (lk_number_neg u rest Hnil Hf), Hval. reflexivity.
Qed.

Lemma dec_head z : exists c r, dec_of_Z z = c :: r /\ (is_digit c = true \/ c = 45).
Proof.
  destruct z as [|p|p].
  - exists 48, []. split; [reflexivity|left; reflexivity].
  - destruct (Z_of_digits_dec (Zpos p) ltac:(lia)) as (u & Hu & Hnil & _). rewrite Hu.
    destruct (uint_digits_head u Hnil) as (c & r & Hcr & Hd). exists c, r. split; [exact Hcr|left; exact Hd].
  - exists 45, (dec_of_Z (Zpos p)). split; [reflexivity|right; reflexivity].
Qed.

Lemma lk_json_scalar fuel j rest : jscalar j = true -> jfollow rest ->
  lk_json (S fuel) (json_print j ++ rest) = Ok (j, rest).
Proof.
  intros Hj Hf. destruct j as [|b|z|t|s|l|m]; try discriminate Hj.
  - reflexivity.
  - destruct b; reflexivity.
  - cbn [json_print]. destruct (dec_head z) as (c & r & Hcr & Hc).
    cbn [lk_json]. rewrite Hcr. change ((c :: r) ++ rest) with (c :: (r ++ rest)).
    assert (Hws : is_ws c = false) by (destruct Hc as [Hd| ->]; [exact (proj1 (digit_tests2 c Hd))|reflexivity]).
    rewrite (skip_ws_nows c _ Hws).
    assert (H123 : (c =? 123) = false) by (destruct Hc as [Hd| ->]; [exact (proj1 (proj2 (proj2 (proj2 (digit_tests2 c Hd)))))|reflexivity]).
    assert (H91 : (c =? 91) = false) by (destruct Hc as [Hd| ->]; [exact (proj1 (proj2 (proj2 (proj2 (proj2 (digit_tests2 c Hd))))))|reflexivity]).
    assert (H34 : (c =? 34) || (c =? 92) = false).
    { destruct Hc as [Hd| ->]; [|reflexivity]. unfold is_digit in Hd. apply andb_true_iff in Hd as [H1 H2]. apply Z.leb_le in H1, H2.
      apply orb_false_iff; split; apply Z.eqb_neq; lia. }
    assert (Hnum : is_numstart c = true) by (destruct Hc as [Hd| ->]; [exact (proj1 (proj2 (proj2 (proj2 (proj2 (proj2 (digit_tests2 c Hd)))))))|reflexivity]).
    rewrite H123, H91, H34, Hnum. change (c :: r ++ rest) with ((c :: r) ++ rest). rewrite <- Hcr.
    apply lk_number_dec, Hf.
  - cbn [json_print jscalar] in *. cbn [lk_json]. rewrite (quote_plain s Hj). cbn [app].
    rewrite (skip_ws_nows 34) by reflexivity. change (34 =? 123) with false. change (34 =? 91) with false.
    change ((34 =? 34) || (34 =? 92)) with true. cbv iota.
    change (34 :: (s ++ [34]) ++ rest) with ((34 :: s ++ [34]) ++ rest). rewrite <- (quote_plain s Hj).
    rewrite (lk_string_quote s rest Hj). reflexivity.
Qed.

Lemma lk_json_space fuel x : lk_json fuel (32 :: x) = lk_json fuel x.
Proof. destruct fuel; reflexivity. Qed.

(* "k": v, ... } *)
Definition pair_text (kv : bytes * json) : bytes := quote (fst kv) ++ p_colon ++ json_print (snd kv).

Lemma lk_jpairs_space subj fuel x : lk_jpairs subj fuel (32 :: x) = lk_jpairs subj fuel x.
Proof. destruct fuel; reflexivity. Qed.

Lemma lk_jpairs_ok f : forall (p : params) fuel rest, p <> [] ->
  forallb (fun kv => lkey_ok (fst kv) && jscalar (snd kv)) p = true -> (length p <= fuel)%nat ->
  lk_jpairs (lk_json (S f)) fuel (sep_concat p_comma (map pair_text p) ++ 125 :: rest) = Ok (p, rest).
Proof.
  induction p as [|[k v] p IH]; intros fuel rest Hne Hok Hf; [congruence|].
  cbn [forallb fst snd] in Hok. apply andb_true_iff in Hok as [Hkv Hok]. apply andb_true_iff in Hkv as [Hk Hv].
  destruct fuel as [|fuel]; [simpl in Hf; lia|].
  destruct p as [|kv2 p].
  - cbn [map sep_concat]. unfold pair_text at 1. cbn [fst snd]. rewrite <- !app_assoc. cbn [lk_jpairs].
    rewrite (lk_string_quote k _ Hk). cbn [bind fst snd].
    change (expect [58] (p_colon ++ ?x)) with (@Ok bytes (32 :: x)). cbn [bind]. rewrite lk_json_space.
    rewrite (lk_json_scalar f v (125 :: rest) Hv) by (exists rest; right; reflexivity).
    cbn [bind fst snd]. rewrite (skip_ws_nows 125) by reflexivity. change (125 =? 125) with true. reflexivity.
  - cbn [map]. rewrite sep_concat_cons2. unfold pair_text at 1. cbn [fst snd]. rewrite <- !app_assoc. cbn [lk_jpairs].
    rewrite (lk_string_quote k _ Hk). cbn [bind fst snd].
    change (expect [58] (p_colon ++ ?x)) with (@Ok bytes (32 :: x)). cbn [bind]. rewrite lk_json_space.
    rewrite (lk_json_scalar f v _ Hv) by (eexists; left; reflexivity).
    cbn [bind fst snd]. change (p_comma ++ ?x) with (44 :: 32 :: x).
    rewrite (skip_ws_nows 44) by reflexivity. cbv iota beta. change (44 =? 125) with false. change (44 =? 44) with true. cbv iota.
    rewrite lk_jpairs_space.
    change (pair_text kv2 :: map pair_text p) with (map pair_text (kv2 :: p)).
    rewrite (IH fuel rest); [reflexivity|discriminate|exact Hok|simpl in *; lia].
Qed.

(* a sorted map is what inserting its pairs one after the other builds *)
Fixpoint all_lt (k : bytes) (m : params) : bool :=
  match m with [] => true | (k', _) :: r => bytes_ltb k' k && all_lt k r end.

Lemma pset_append k v (m : params) : all_lt k m = true -> pset k v m = m ++ [(k, v)].
Proof.
  induction m as [|[k' v'] m IH]; intros H; [reflexivity|].
  cbn [all_lt] in H. apply andb_true_iff in H as [H1 H2]. cbn [pset].
  rewrite (bytes_ltb_asym _ _ H1), H1, (IH H2). reflexivity.
Qed.

Lemma all_lt_app k m k' v' : all_lt k m = true -> bytes_ltb k' k = true -> all_lt k (m ++ [(k', v')]) = true.
Proof. induction m as [|[a b] m IH]; simpl; intros H H'; [rewrite H'; reflexivity|]. apply andb_true_iff in H as [H1 H2]. rewrite H1, (IH H2 H'). reflexivity. Qed.

Lemma all_lt_trans k k' m : all_lt k m = true -> bytes_ltb k k' = true -> all_lt k' m = true.
Proof.
  induction m as [|[a b] m IH]; simpl; intros H H'; [reflexivity|]. apply andb_true_iff in H as [H1 H2].
  rewrite (bytes_ltb_trans _ _ _ H1 H'), (IH H2 H'). reflexivity.
Qed.

Lemma fold_pset_sorted (p : params) : forall acc,
  psorted p = true -> match p with [] => True | (k, _) :: _ => all_lt k acc = true end ->
  fold_left (fun a kv => pset (fst kv) (snd kv) a) p acc = acc ++ p.
Proof.
  induction p as [|[k v] p IH]; intros acc Hs Hacc; [rewrite app_nil_r; reflexivity|].
  cbn [fold_left fst snd]. rewrite (pset_append k v acc Hacc).
  rewrite IH.
  - rewrite <- app_assoc. reflexivity.
  - cbn [psorted] in Hs. destruct p as [|[k2 v2] p2]; [reflexivity|]. apply andb_true_iff in Hs as [_ Hs]. exact Hs.
  - destruct p as [|[k2 v2] p2]; [exact I|]. cbn [psorted] in Hs. apply andb_true_iff in Hs as [Hlt _].
    apply all_lt_app; [exact (all_lt_trans _ _ _ Hacc Hlt)|exact Hlt].
Qed.

Lemma params_of_pairs_sorted (p : params) : psorted p = true -> params_of_pairs p = p.
Proof. intros H. unfold params_of_pairs. rewrite (fold_pset_sorted p [] H); [reflexivity|destruct p as [|[k v] r]; [exact I|reflexivity]]. Qed.

(* the parameter maps covered: non-empty, sorted, no "__categorical__", keys without escapes, scalar values *)
Definition pok (p : params) : bool :=
  nonempty p && psorted p &&
  forallb (fun kv => negb (bytes_eqb (fst kv) k_categorical)) p &&
  forallb (fun kv => lkey_ok (fst kv) && jscalar (snd kv)) p.

Lemma filter_all {A} (f : A -> bool) l : forallb f l = true -> filter f l = l.
Proof. induction l as [|x l IH]; simpl; [reflexivity|]. intros H. apply andb_true_iff in H as [H1 H2]. rewrite H1, (IH H2). reflexivity. Qed.

Lemma string_parameters_pok p : pok p = true ->
  string_parameters p = p_parameters_eq ++ sep_concat p_comma (map pair_text p) ++ [125].
Proof.
  intros H. unfold pok in H. repeat (apply andb_true_iff in H as [H ?]).
  unfold string_parameters. rewrite (filter_all _ p) by assumption. reflexivity.
Qed.

Lemma pairs_len (l : params) : (length l <= fold_right (fun q n => (length q + n)%nat) O (map pair_text l))%nat.
Proof.
  induction l as [|x l IH]; cbn [map fold_right length]; [lia|].
  assert (1 <= length (pair_text x))%nat by (unfold pair_text, quote; cbn [app length]; lia). lia.
Qed.

Theorem lk_def_option_ok p rest : pok p = true -> lk_def_option (string_parameters p ++ rest) = Ok (p, rest).
Proof.
  intros H. rewrite (string_parameters_pok p H). unfold pok in H. repeat (apply andb_true_iff in H as [H ?]).
  unfold lk_def_option. rewrite <- !app_assoc.
  change (p_parameters_eq ++ ?x) with (w_parameters ++ 61 :: 123 :: x).
  change (expect w_parameters (w_parameters ++ ?x)) with (@Ok bytes x). cbn [bind].
  change (expect [61] (61 :: ?x)) with (@Ok bytes x). cbn [bind].
  unfold lk_dict. change (expect [123] (123 :: ?x)) with (@Ok bytes x). cbn [bind].
  destruct p as [|[k v] p']; [discriminate|].
  assert (Hhead : exists r', sep_concat p_comma (map pair_text ((k, v) :: p')) ++ [125] ++ rest = 34 :: r').
  { cbn [map]. destruct (map pair_text p'); cbn [sep_concat]; unfold pair_text, quote; cbn [app fst]; eexists; reflexivity. }
  destruct Hhead as (r' & Hr'). rewrite Hr'. rewrite (skip_ws_nows 34) by reflexivity. change (34 =? 125) with false. cbv iota.
  rewrite <- Hr'. cbn [app length].
  match goal with |- context [lk_jpairs (lk_json (S ?n)) (S ?n) _] =>
    rewrite (lk_jpairs_ok n ((k, v) :: p') (S n) rest) end.
  - cbn [bind fst snd]. rewrite params_of_pairs_sorted by assumption. reflexivity.
  - discriminate.
  - assumption.
  - pose proof (sep_concat_length p_comma (map pair_text ((k, v) :: p'))) as Hl.
    rewrite app_length.
    pose proof (pairs_len ((k, v) :: p')) as Hge. lia.
Qed.

Example lk_def_option_ex :
  pok [([97], JStr [120; 32; 121]); ([98], JInt (-12)); ([99], JNull); ([100], JBool true)] = true.
Proof. vm_compute. reflexivity. Qed.
