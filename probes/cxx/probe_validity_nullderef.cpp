#include <iostream>
#include "awkward/Index.h"
#include "awkward/array/NumpyArray.h"
#include "awkward/array/ListOffsetArray.h"
#include "awkward/array/IndexedArray.h"
using namespace awkward;
Index64 mk(std::vector<int64_t> v){ Index64 out((int64_t)v.size()); for(size_t i=0;i<v.size();i++) out.setitem_at_nowrap((int64_t)i,v[i]); return out;}
int main(){
  ContentPtr leaf = std::make_shared<NumpyArray>(mk({104,105}));
  util::Parameters pchar; pchar["__array__"] = "\"char\"";
  util::Parameters pstr; pstr["__array__"] = "\"string\"";
  ContentPtr ix = std::make_shared<IndexedArray64>(Identities::none(), pchar, mk({0,1}), leaf);
  ContentPtr s = std::make_shared<ListOffsetArray64>(Identities::none(), pstr, mk({0,2}), ix);
  std::cout << "calling validityerror" << std::endl;
  std::cout << "[" << s->validityerror("layout") << "]" << std::endl;
  return 0;
}
