(** C04 — model = specification, the other option encodings at the top of TWO array inputs (each input: a layout of [jag],
    or a ByteMasked / BitMasked / Unmasked / IndexedOption node over a non-option layout of [jag]). *)
From AwkV Require Import LayoutInd Proofs_Lists Proofs_ToList Proofs_Typing Proofs_Carry Proofs_AtAxisOps Proofs_C05 Ops_Struct.
From AwkBroadcast Require Import Broadcast Proofs_C04 Proofs_C04_Model1 Proofs_C04_Model2 Proofs_C04_Model3 Proofs_C04_Model4
  Proofs_C04_Model5 Proofs_C04_Model6 Proofs_C04_Scal1 Proofs_C04_Scal2 Proofs_C04_Scal3 Proofs_C04_Opt1.
From Coq Require Import Lia ZifyBool.

Lemma jagO_nonopt c : jagO c = true -> is_option_node c = false -> jag c = true.
Proof. destruct c; try discriminate; auto. Qed.

Lemma jagO_type c : jagO c = true ->
  jagT (type_of c) = true /\ is_optT (type_of c) = is_option_node c /\ is_listT (type_of c) = is_list_node c.
Proof.
  intros H. destruct (is_option_node c) eqn:Ho.
  - destruct c; try discriminate; cbn [jagO] in H; apply andb_prop in H as [Hj Hn];
      destruct (type_of_jag _ Hj) as (H1 & H2 & _); unfold type_of in *;
      cbn [type_of_p strflag jagT is_optT is_listT is_option_node is_list_node]; rewrite H1, H2, Hn; auto.
  - rewrite <- Ho. apply type_of_jag. now apply jagO_nonopt.
Qed.

Lemma jagO_flags c : jagO c = true ->
  is_empty_node c = false /\ is_numpy_nd c = false /\ is_indexed_node c = false /\ is_union_node c = false /\
  (is_list_node c = true -> pl_isreg c = false).
Proof.
  intros H. destruct (is_option_node c) eqn:Ho.
  - destruct c; try discriminate; repeat split; try reflexivity; discriminate.
  - destruct (jag_nodes c (jagO_nonopt c H Ho)) as (A1 & A2 & A3 & A4 & _ & _ & A7 & _). auto.
Qed.

Lemma jagO_rcond c1 c2 : jagO c1 = true -> jagO c2 = true ->
  (let cs := [c1; c2] in
   let md := fold_right Z.max (-1) (map pl_depth cs) in
   existsb is_list_node cs && (0 <? md) && forallb pl_isreg cs && existsb (fun c => pl_depth c <? md) cs) = false.
Proof.
  intros H1 H2. cbv zeta. cbn [existsb forallb].
  destruct (jagO_flags c1 H1) as (_ & _ & _ & _ & R1). destruct (jagO_flags c2 H2) as (_ & _ & _ & _ & R2).
  destruct (is_list_node c1) eqn:L1; [rewrite (R1 eq_refl); cbn; now rewrite !andb_false_r|].
  destruct (is_list_node c2) eqn:L2; [rewrite (R2 eq_refl); cbn; now rewrite !andb_false_r|].
  reflexivity.
Qed.

Lemma jagO_values c vs : jagO c = true -> is_option_node c = false -> to_list c = Ok vs -> Forall (fun v => is_none v = false) vs.
Proof. intros H Ho. apply jag_nonopt_values; [now apply jagO_nonopt|exact Ho]. Qed.

(* the projection of one input by the option step, for both kinds of inputs *)
Lemma opt_nextJ c vs mask :
  jagO c = true -> to_list c = Ok vs ->
  Forall2 (fun (v : value) (b : bool) => is_none v = true -> b = true) vs mask ->
  exists next, opt_proj mask c = Ok next /\ jag next = true /\ is_option_node next = false /\
               to_list next = Ok (kept vs mask) /\ type_of next = strip_opt_t (type_of c) /\
               (csize next <= osize c)%nat /\ (is_option_node c = true -> (csize next < osize c)%nat).
Proof.
  intros Hj Hl Hsub. unfold osize. destruct (is_option_node c) eqn:Ho.
  - destruct (opt_nextO c vs mask Hj Ho Hl Hsub) as (n & P & J & NO & T & Ty & S).
    exists n. repeat split; try assumption; try lia.
  - destruct (opt_next c vs mask (jagO_nonopt c Hj Ho) Hl Hsub) as (n & P & J & NO & T & Ty & S & S').
    exists n. repeat split; try assumption. discriminate.
Qed.

Lemma to_nparr_jagO c vs : jagO c = true -> to_list c = Ok vs ->
  exists r, to_nparr (MC c) = Ok r /\ (is_option_node c = true -> r = None).
Proof.
  intros Hj Hl. destruct (is_option_node c) eqn:Ho.
  - exists None. split; [now apply to_nparr_option|reflexivity].
  - destruct (to_nparr_jag c vs (jagO_nonopt c Hj Ho) Hl) as (r & E & _). exists r. split; [exact E|discriminate].
Qed.

Lemma osize_pos c : (1 <= osize c)%nat.
Proof. unfold osize. destruct (is_option_node c); [lia|apply csize_pos]. Qed.

(* PARTIAL (what remains excluded): ByteMasked / BitMasked / Unmasked nodes below the top node of an input; more than two
   arrays; apply on the two arrays as variable-length lists (equal lengths required, as in [model_refines_spec]). *)
Theorem option_encodings_refine_spec_partial_lemma op fuel c1 c2 vs1 vs2 :
  jagO c1 = true -> jagO c2 = true -> to_list c1 = Ok vs1 -> to_list c2 = Ok vs2 ->
  (osize c1 + osize c2 <= fuel)%nat ->
  agrees_c (Broadcast.apply op None fuel [MC c1; MC c2])
           (unlist (spec_v op false (S fuel) [arr_arg c1 vs1; arr_arg c2 vs2])).
Proof.
  intros H1 H2 L1 L2 Hf.
  destruct (is_option_node c1 || is_option_node c2) eqn:Ho.
  2:{ apply orb_false_elim in Ho as [O1 O2]. unfold osize in Hf. rewrite O1, O2 in Hf.
      apply model_refines_spec_strong_lemma; try assumption; try (now apply jagO_nonopt). }
  destruct (jagO_type c1 H1) as (JT1 & OT1 & LT1). destruct (jagO_type c2 H2) as (JT2 & OT2 & LT2).
  unfold arr_arg. rewrite spec_row_LL by (try assumption; reflexivity). cbn [elemT].
  destruct fuel as [|f]; [pose proof (osize_pos c1) as Hp1; clear - Hf Hp1; lia|].
  rewrite apply_S. unfold dispatch. cbn [contents_of flat_map app].
  pose proof (jagO_rcond c1 c2 H1 H2) as Hr. cbv zeta in Hr. cbv zeta. rewrite Hr.
  unfold checklength, all_eq. cbn [map forallb]. rewrite <- (to_list_len _ _ L1), <- (to_list_len _ _ L2).
  destruct (Z.eqb_spec (zlen vs2) (zlen vs1)) as [Hz|Hz].
  2:{ destruct (Z.eqb_spec (zlen vs1) (zlen vs2)) as [E'|E']; [symmetry in E'; contradiction|].
      cbn [andb negb unlist bind agrees_c]. split; reflexivity. }
  symmetry in Hz. rewrite Hz, Z.eqb_refl. cbn [andb negb]. rewrite unlist_rmap.
  (* getfunction: at least one option node *)
  assert (Hgf : getfunction op None [MC c1; MC c2] = Ok None).
  { unfold getfunction. cbn [mapM].
    destruct (to_nparr_jagO c1 vs1 H1 L1) as (r1 & E1 & N1). destruct (to_nparr_jagO c2 vs2 H2 L2) as (r2 & E2 & N2).
    rewrite E1, E2. cbn [bind]. destruct (is_option_node c1) eqn:O1.
    - rewrite (N1 eq_refl). reflexivity.
    - cbn [orb] in Ho. rewrite (N2 Ho). cbn [all_somes]. now destruct r1. }
  rewrite Hgf. cbn [bind].
  destruct (jagO_flags c1 H1) as (A1 & A2 & A3 & A4 & _). destruct (jagO_flags c2 H2) as (B1 & B2 & B3 & B4 & _).
  cbn [existsb]. rewrite A1, A2, A3, A4, B1, B2, B3, B4. cbn [orb]. rewrite orb_false_r, Ho.
  (* the option step, as in opt_case *)
  set (m1 := map is_none vs1). set (m2 := map is_none vs2). set (mask := or_masks m1 m2).
  assert (Hlm : length m1 = length m2) by (unfold m1, m2; rewrite !map_length; apply zlen_eq_length; exact Hz).
  assert (Hnn : forall v, forallb negb (map is_none v) = true <-> Forall (fun x => is_none x = false) v).
  { induction v as [|x v IH]; [split; [constructor|reflexivity]|]. cbn [map forallb]. split.
    - intros H. apply andb_prop in H as [Hx Hv]. constructor; [now destruct (is_none x)|now apply IH].
    - intros H. inversion H; subst. rewrite H4. cbn. now apply IH. }
  assert (Hmask : exists m0 ms, mapM bytemask_of (filter is_option_node [c1; c2]) = Ok (m0 :: ms) /\ fold_left or_masks ms m0 = mask).
  { destruct (is_option_node c1) eqn:O1; destruct (is_option_node c2) eqn:O2; try discriminate; cbn [filter]; rewrite ?O1, ?O2; cbn [mapM].
    - rewrite (bytemask_jagO _ _ H1 O1 L1), (bytemask_jagO _ _ H2 O2 L2). cbn [bind]. eexists _, _. split; reflexivity.
    - rewrite (bytemask_jagO _ _ H1 O1 L1). cbn [bind]. eexists _, _. split; [reflexivity|].
      cbn [fold_left]. unfold mask. symmetry. apply or_masks_false_r; [exact Hlm|]. apply Hnn. now apply (jagO_values c2).
    - rewrite (bytemask_jagO _ _ H2 O2 L2). cbn [bind]. eexists _, _. split; [reflexivity|].
      cbn [fold_left]. unfold mask. symmetry. apply or_masks_false_l; [exact Hlm|]. apply Hnn. now apply (jagO_values c1). }
  destruct Hmask as (m0 & ms & Hmasks & Hfold).
  destruct (opt_nextJ c1 vs1 mask H1 L1) as (n1 & P1 & J1 & NO1 & T1 & Ty1 & S1 & S1').
  { apply (Forall2_map_l is_none (fun (x m : bool) => x = true -> m = true) vs1 mask). apply (sub_or_l m1 m2 Hlm). }
  destruct (opt_nextJ c2 vs2 mask H2 L2) as (n2 & P2 & J2 & NO2 & T2 & Ty2 & S2 & S2').
  { apply (Forall2_map_l is_none (fun (x m : bool) => x = true -> m = true) vs2 mask). apply (sub_or_r m1 m2 Hlm). }
  assert (Hlmask1 : length mask = length vs1) by (unfold mask; rewrite or_masks_length by exact Hlm; unfold m1; now rewrite map_length).
  assert (Hlmask2 : length mask = length vs2) by (rewrite Hlmask1; apply zlen_eq_length; exact Hz).
  assert (Hzk : zlen (kept vs1 mask) = zlen (kept vs2 mask)) by (rewrite !zlen_kept by assumption; reflexivity).
  assert (Hsz : (csize n1 + csize n2 <= f)%nat).
  { clear - S1 S2 S1' S2' Ho Hf. destruct (is_option_node c1) eqn:O1; [specialize (S1' eq_refl); lia|]. cbn [orb] in Ho. specialize (S2' Ho). lia. }
  destruct (apply_rows op f n1 n2 _ _ J1 J2 T1 T2 Hzk Hsz) as [IHa _].
  assert (Hopt : opt_branch (Broadcast.apply op None f) [MC c1; MC c2] =
                 do out <- Broadcast.apply op None f [MC n1; MC n2]; Ok (IndexedOption I64 (count_index 0 mask) out)).
  { unfold opt_branch. cbn [contents_of flat_map app]. rewrite Hmasks. cbn [bind]. cbv zeta. rewrite Hfold.
    unfold map_c. cbn [mapM]. change (if is_option_node c1 then _ else _) with (opt_proj mask c1).
    change (if is_option_node c2 then _ else _) with (opt_proj mask c2). rewrite P1, P2. reflexivity. }
  rewrite Hopt.
  set (t1 := type_of c1) in *. set (t2 := type_of c2) in *. set (rows := rows2 t1 t2 vs1 vs2).
  assert (Hisn : map none_in rows = mask).
  { unfold rows, mask, m1, m2. apply (rows2_none t1 t2 vs1 vs2).
    - apply zlen_eq_length; exact Hz.
    - intros E. apply (jagO_values c1 vs1 H1); [congruence|exact L1].
    - intros E. apply (jagO_values c2 vs2 H2); [congruence|exact L2]. }
  pose proof (mapM_scatter (spec_v op false (S f)) (fun r => spec_v op false f (map strip_opt r)) none_in rows) as Hsc.
  rewrite Hisn in Hsc.
  assert (Hrows' : mapM (fun r => spec_v op false f (map strip_opt r)) (kept rows mask) =
                   mapM (spec_v op false f) (rows2 (type_of n1) (type_of n2) (kept vs1 mask) (kept vs2 mask))).
  { rewrite <- (mapM_map (spec_v op false f) (map strip_opt)). unfold rows. rewrite rows2_kept_strip. now rewrite Ty1, Ty2. }
  rewrite Hrows' in Hsc.
  assert (Hg : forall r, In r rows -> spec_v op false (S f) r = if none_in r then Ok VNone else spec_v op false f (map strip_opt r)).
  { intros r Hin. unfold rows, rows2 in Hin. apply in_map_iff in Hin as ([x y] & <- & _). cbn [fst snd].
    apply spec_opt_row; [exact JT1|exact JT2|]. rewrite OT1, OT2. exact Ho. }
  specialize (Hsc Hg).
  destruct (mapM (spec_v op false f) (rows2 (type_of n1) (type_of n2) (kept vs1 mask) (kept vs2 mask))) as [ys|e] eqn:Einner.
  - rewrite Hsc. cbn [agrees_c] in IHa |- *. destruct IHa as (out & Hrec & Hout). rewrite Hrec. cbn [bind].
    eexists. split; [reflexivity|]. rewrite to_list_IndexedOption, Hout. cbn [bind].
    assert (Hny : nfalse mask = zlen ys).
    { rewrite (mapM_zlen _ _ _ Einner). unfold rows2. rewrite zlen_map, zlen_zip, !zlen_kept by assumption. symmetry. apply Z.min_id. }
    exact (count_index_scatter ys mask [] Hny).
  - rewrite Hsc. cbn [agrees_c] in IHa |- *. destruct IHa as [-> IHa]. split; [reflexivity|]. rewrite IHa. reflexivity.
Qed.

Theorem option_encodings_refine_spec_lemma op fuel c1 c2 vs1 vs2 :
  jagO c1 = true -> jagO c2 = true -> to_list c1 = Ok vs1 -> to_list c2 = Ok vs2 ->
  (osize c1 + osize c2 <= fuel)%nat ->
  agrees (obs (Broadcast.apply op None fuel [MC c1; MC c2]))
         (unlist (spec_v op false (S fuel) [arr_arg c1 vs1; arr_arg c2 vs2])).
Proof. intros. apply agrees_c_obs. now apply option_encodings_refine_spec_partial_lemma. Qed.

(* [1, None, 3] (ByteMasked, valid_when = false) + [None, 2, 3] (ByteMasked, valid_when = true); BitMasked + a list array *)
Definition exo_byte2 : content := ByteMasked [0; 1; 1] true (Numpy DInt64 [3] (map DZ [1; 2; 3])).
Definition exo_unm2 : content := Unmasked (ListOffset I64 [0; 2; 3] (Numpy DInt64 [3] (map DZ [10; 20; 30]))).
Example option_encodings_nonvacuous :
  jagO exo_byte = true /\ jagO exo_byte2 = true /\ jagO exo_bit = true /\ jagO exo_unm2 = true /\
  to_list exo_byte2 = Ok [VNone; VNum (DZ 2); VNum (DZ 3)] /\
  (osize exo_byte + osize exo_byte2 <= 4)%nat /\ (osize exo_unm2 + osize ex_c2 <= 6)%nat /\
  obs (Broadcast.apply (ufn_op UAdd) None 4 [MC exo_byte; MC exo_byte2]) = Ok [VNone; VNone; VNum (DZ 6)] /\
  unlist (spec_v (ufn_op UAdd) false 5 [arr_arg exo_byte [VNum (DZ 1); VNone; VNum (DZ 3)]; arr_arg exo_byte2 [VNone; VNum (DZ 2); VNum (DZ 3)]]) =
    Ok [VNone; VNone; VNum (DZ 6)] /\
  obs (Broadcast.apply (ufn_op UAdd) None 4 [MC exo_bit; MC exo_byte2]) = Ok [VNone; VNone; VNum (DZ 6)] /\
  obs (Broadcast.apply (ufn_op UAdd) None 6 [MC exo_unm2; MC ex_c2]) = Ok [VList [VNum (DZ 20); VNone]; VList [VNum (DZ 60)]].
Proof. repeat split; vm_compute; try reflexivity; lia. Qed.
