(* forthrun: runs the extracted AwkwardForth model on the session lines that forthdrv reads and prints the
   observable final state in the same format (without the decompiled text). *)
module M = Forthmodel

(* ---- Z <-> decimal text, through the extracted arithmetic only *)
let rec pos_of_int n = if n = 1 then M.XH else if n land 1 = 0 then M.XO (pos_of_int (n lsr 1)) else M.XI (pos_of_int (n lsr 1))
let z_of_small n = if n = 0 then M.Z0 else if n > 0 then M.Zpos (pos_of_int n) else M.Zneg (pos_of_int (- n))
let ten = z_of_small 10
let z_of_string (s : string) : M.z =
  let neg = String.length s > 0 && s.[0] = '-' in
  let acc = ref M.Z0 in
  String.iteri (fun i c ->
      if i = 0 && c = '-' then ()
      else if c >= '0' && c <= '9' then acc := M.Z.add (M.Z.mul !acc ten) (z_of_small (Char.code c - 48))
      else failwith ("bad integer " ^ s)) s;
  if neg then M.Z.opp !acc else !acc
let rec int_of_pos = function M.XH -> 1 | M.XO p -> 2 * int_of_pos p | M.XI p -> 2 * int_of_pos p + 1
let int_of_z = function M.Z0 -> 0 | M.Zpos p -> int_of_pos p | M.Zneg p -> - (int_of_pos p)
let string_of_z (z : M.z) : string =
  match z with
  | M.Z0 -> "0"
  | _ ->
    let neg, a = (match z with M.Zneg p -> true, M.Zpos p | _ -> false, z) in
    let buf = Buffer.create 24 in
    let rec go a = if a = M.Z0 then () else begin
        let q = M.Z.div a ten and r = M.Z.modulo a ten in
        go q; Buffer.add_char buf (Char.chr (48 + int_of_z r)) end in
    go a;
    (if neg then "-" else "") ^ Buffer.contents buf

let rec nat_of_int n = let r = ref M.O in for _ = 1 to n do r := M.S !r done; !r

let bytes_of_string (s : string) : M.z list = List.init (String.length s) (fun i -> z_of_small (Char.code s.[i]))
let string_of_bytes (l : M.z list) : string = String.concat "" (List.map (fun b -> String.make 1 (Char.chr (int_of_z b))) l)

let dtype_name = function
  | M.DBool -> "bool" | M.DInt8 -> "int8" | M.DInt16 -> "int16" | M.DInt32 -> "int32" | M.DInt64 -> "int64"
  | M.DUInt8 -> "uint8" | M.DUInt16 -> "uint16" | M.DUInt32 -> "uint32" | M.DUInt64 -> "uint64"
  | M.DFloat32 -> "float32" | M.DFloat64 -> "float64"

let atoms = function Sx.L l -> List.map (function Sx.A a -> a | _ -> failwith "atom expected") l | _ -> failwith "list expected"
let tail = function Sx.L (_ :: t) -> t | _ -> failwith "list expected"

let fuel_default = 400000

let handle (fixed : bool) (fuel : int) (line : string) : string =
  match Sx.parse line with
  | Sx.L [Sx.A id; Sx.A machine; src; inputs; settings; segs] ->
    let w = if machine = "forth64" then 64 else 32 in
    let srcb = List.map (function Sx.A a -> z_of_string a | _ -> failwith "src") (tail src) in
    let given = List.map (function
        | Sx.L [Sx.A n; bs] -> (bytes_of_string n, List.map z_of_string (atoms bs))
        | _ -> failwith "inputs") (tail inputs) in
    let st = List.map int_of_string (atoms (Sx.L (tail settings))) in
    let stack_max = List.nth st 0 and rec_max = List.nth st 1 in
    let sg = List.map (function
        | Sx.A "run" -> M.SRun | Sx.A "begin" -> M.SBegin | Sx.A "reset" -> M.SReset | Sx.A "step" -> M.SStep
        | Sx.A "resume" -> M.SResume
        | Sx.L [Sx.A "steps"; Sx.A k] -> M.SSteps (z_of_string k)
        | Sx.L [Sx.A "stepall"; Sx.A k] -> M.SStepAll (z_of_string k)
        | Sx.L [Sx.A "finish"; Sx.A k] -> M.SFinish (z_of_string k)
        | Sx.L [Sx.A "call"; Sx.A n] -> M.SCall (bytes_of_string n)
        | _ -> failwith "segment") (tail segs) in
    (match M.compile (z_of_small w) (z_of_small stack_max) (z_of_small rec_max) srcb with
     | M.CErr -> Printf.sprintf "(%s err compile)" id
     | M.CErrOther -> Printf.sprintf "(%s err compile-other)" id
     | M.CUnsupported -> Printf.sprintf "(%s unsupported)" id
     | M.CFuel -> Printf.sprintf "(%s fuel)" id
     | M.COk p ->
       (match M.session (nat_of_int fuel) fixed p given sg with
        | M.SErrValue -> Printf.sprintf "(%s err value)" id
        | M.SErrRuntime -> Printf.sprintf "(%s err runtime)" id
        | M.SFault k -> Printf.sprintf "(%s fault %s)" id (string_of_z k)
        | M.SFuel -> Printf.sprintf "(%s fuel)" id
        | M.SOk (m, rets_rev) ->
          let zs l = String.concat "" (List.map (fun z -> " " ^ string_of_z z) l) in
          let stack = zs (List.rev m.M.m_stack) in
          let vars = String.concat "" (List.map2 (fun n v -> Printf.sprintf " (%s %s)" (string_of_bytes n) (string_of_z v))
                                         p.M.p_vars m.M.m_vars) in
          let rec index_of n l i = match l with [] -> None | h :: t -> if h = n then Some i else index_of n t (i + 1) in
          let inpos = String.concat "" (List.map (fun (n, _) ->
              let v = match index_of n p.M.p_ins 0 with
                | Some i when i < List.length m.M.m_inpos -> string_of_z (List.nth m.M.m_inpos i)
                | _ -> "none" in
              Printf.sprintf " (%s %s)" (string_of_bytes n) v) given) in
          let outs = String.concat "" (List.mapi (fun i (n, d) ->
              if i < List.length m.M.m_outs then
                Printf.sprintf " (%s %s (%s))" (string_of_bytes n) (dtype_name d)
                  (String.concat " " (List.map string_of_z (List.rev (List.nth m.M.m_outs i))))
              else Printf.sprintf " (%s none)" (string_of_bytes n)) p.M.p_outs) in
          Printf.sprintf "(%s ok (stack%s) (vars%s) (inpos%s) (outs%s) (err %s) (ready %d) (done %d) (rets%s))"
            id stack vars inpos outs (string_of_z m.M.m_err) (if m.M.m_ready then 1 else 0)
            (if M.is_done m then 1 else 0) (zs (List.rev rets_rev))))
  | _ -> failwith "bad session line"

let () =
  let fixed = ref true and fuel = ref fuel_default in   (* --pinned: the single-step path before the fix *)
  Array.iteri (fun i a -> if a = "--fixed" then fixed := true else if a = "--pinned" then fixed := false
                else if a = "--fuel" && i + 1 < Array.length Sys.argv then fuel := int_of_string Sys.argv.(i + 1)) Sys.argv;
  try
    while true do
      let line = input_line stdin in
      if String.length line > 0 && line.[0] <> '#' then begin
        let out = (try handle !fixed !fuel line with
            | Stack_overflow -> (match Sx.parse line with Sx.L (Sx.A id :: _) -> Printf.sprintf "(%s fuel)" id | _ -> "(? bad)")
            | Failure msg -> (match (try Sx.parse line with _ -> Sx.A "?") with
                | Sx.L (Sx.A id :: _) -> Printf.sprintf "(%s bad (%s))" id msg | _ -> "(? bad)")) in
        print_endline out
      end
    done
  with End_of_file -> ()
