(* lbrun: runs the extracted specification of the Form-driven builder (c14/coq/LBuilder.v: lb_run) on the sessions the
   implementation ran (impl/drv/lbdrv.cpp: awkward::LayoutBuilder) and compares what an observer sees.

   input : (id lb (opts INITIAL RESIZE_PERCENT) (form FORM) (cmds CMD...) [(vals V...)]
                  [(impl ok (events..) (final..)) | (impl crash|timeout|err C)])
   output: (id VERDICT (problem)... (nsnap N) (ncmp N))   VERDICT in
     agree      every observation the specification speaks about agrees
     viol       the implementation differs from the specification on the specified fragment (value, type, a
                conforming prefix raised, a misfit was never reported, a snapshot changed after it was taken,
                or it crashed / hung; LayoutBuilder::length() differing from the snapshot's length is
                noted apart as (blen N ..) and does not enter the verdict word
     skip       the session leaves the specified fragment before anything could be compared (LUnspec at the first
                command, or a form the builder cannot be made from and the constructor refused it)
     bad        the case could not be evaluated (harness / syntax; also: (vals ..) given but the commands are not
                their encoding lb_encode, or they do not conform)
   Without (impl ...) the specification's answers are printed: (id model (p POS RESULT)...).

   How a session is judged.  plain = the commands without the snapshot markers.  r(k) = lb_run form (first k plain
   commands).  An LErr / LUnspec answer persists for every longer prefix, so there is a first offending command; every
   implementation event BEFORE that command executes is compared:
     an error event                          -> viol (conforming-prefix-raised)
     a snapshot, r = LOk vs                  -> layout readable + valid (core valid_b), to_list = vs, type = form_ty
     a snapshot, r = LPartial vs             -> to_list = vs if the layout is valid; an invalid layout in the middle of
                                                an element is reported as (partial-invalid) -- viol
   At / after the first offending command: LUnspec -> nothing more is compared.  LErr -> the first event at or after it
   must be an error event (the call itself or a later call or the next snapshot raised); a snapshot that returns a
   value with no error raised in between is (misfit-not-reported) -- viol.  After that nothing is compared.
   Always: every snapshot dumped when taken = dumped again at the end (snapshot-changed), and LayoutBuilder::length()
   = length of the snapshot taken at the same moment (builder-length).
   Values are compared with the extracted [value_eqb] after the extracted core [to_list] has been applied to the
   implementation's dumped layout; never buffers.  Types are compared as printed core types ([type_of]); a form with
   a UnionForm anywhere is exempt (simplify_uniontype at snapshot time merges alternatives; C08's subject). *)
open C14lbmodel
open Sx
open Rd

(* ---------------------------------------------------------------- readers *)
let rec nat_of_int n = if n <= 0 then O else S (nat_of_int (n - 1))
let rec int_of_nat = function O -> 0 | S n -> 1 + int_of_nat n

let rec form_of_sx (x : Sx.t) : lform =
  match x with
  | L [A "np"; A dt] -> LNumpy (dtype_of dt)
  | L [A "empty"] -> LEmpty
  | L [A "lo"; A w; c] -> LListOffset (width_of w, None, form_of_sx c)
  | L [A "par"; A "string"; A "none"; L [A "lo"; A w; L [A "par"; A "char"; A "none"; c]]] ->
    LListOffset (width_of w, Some true, form_of_sx c)
  | L [A "par"; A "bytestring"; A "none"; L [A "lo"; A w; L [A "par"; A "byte"; A "none"; c]]] ->
    LListOffset (width_of w, Some false, form_of_sx c)
  | L [A "la"; A w; c] -> LList (width_of w, form_of_sx c)
  | L [A "reg"; n; c] -> LRegular (z_of_sx n, form_of_sx c)
  | L [A "ix"; A w; c] -> LIndexed (width_of w, form_of_sx c)
  | L [A "ixo"; A w; c] -> LIndexedOption (width_of w, form_of_sx c)
  | L [A "bym"; vw; c] -> LByteMasked (bool_of_sx vw, form_of_sx c)
  | L [A "bim"; vw; lsb; c] -> LBitMasked (bool_of_sx vw, bool_of_sx lsb, form_of_sx c)
  | L [A "unm"; c] -> LUnmasked (form_of_sx c)
  | L (A "un" :: A w :: cs) -> LUnion (width_of w, List.map form_of_sx cs)
  | L (A "rec" :: A "tuple" :: cs) -> LRecord (None, List.map form_of_sx cs)
  | L (A "rec" :: L ks :: cs) ->
    LRecord (Some (List.map (function A k -> name_of_string k | _ -> bad "key") ks), List.map form_of_sx cs)
  | _ -> bad ("form: " ^ Sx.to_string x)

type scmd = Snap | C of lbcmd

let cmd_of_sx (x : Sx.t) : scmd =
  match x with
  | A "snapshot" -> Snap
  | A "null" -> C KNull
  | A "beginlist" -> C KBegin
  | A "endlist" -> C KEnd
  | L [A "bool"; v] -> C (KBool (bool_of_sx v))
  | L [A "int"; v] -> C (KInt (z_of_sx v))
  | L [A "real"; v] -> C (KReal (datum_of_sx v))
  | L (A "str" :: bs) -> C (KStr (true, List.map z_of_sx bs))
  | L (A "bytes" :: bs) -> C (KStr (false, List.map z_of_sx bs))
  | L [A "tag"; t] -> C (KTag (z_of_sx t))
  | L [A "index"; t] -> C (KIndex (z_of_sx t))
  | _ -> bad ("command: " ^ Sx.to_string x)

let rec value_of_sx (x : Sx.t) : value =
  match x with
  | A "none" -> VNone
  | A "true" -> VBool true
  | A "false" -> VBool false
  | L [A "n"; d] -> VNum (datum_of_sx d)
  | L (A "s" :: bs) -> VStr (true, List.map z_of_sx bs)
  | L (A "b" :: bs) -> VStr (false, List.map z_of_sx bs)
  | L (A "l" :: vs) -> VList (List.map value_of_sx vs)
  | L (A "t" :: vs) -> VTup (List.map value_of_sx vs)
  | L (A "r" :: fs) ->
    VRec (List.map (function L [A k; v] -> (name_of_string k, value_of_sx v) | y -> bad ("field: " ^ Sx.to_string y)) fs)
  | _ -> bad ("value: " ^ Sx.to_string x)

(* ---------------------------------------------------------------- types *)
let string_of_dtype = function
  | DBool -> "bool" | DInt8 -> "int8" | DInt16 -> "int16" | DInt32 -> "int32" | DInt64 -> "int64"
  | DUInt8 -> "uint8" | DUInt16 -> "uint16" | DUInt32 -> "uint32" | DUInt64 -> "uint64"
  | DFloat32 -> "float32" | DFloat64 -> "float64"
let rec string_of_ty (t : ty) : string =
  match t with
  | TNum dt -> string_of_dtype dt
  | TUnk -> "unknown"
  | TList (Some n, _, t') -> "(reg " ^ string_of_z n ^ " " ^ string_of_ty t' ^ ")"
  | TList (None, Some true, _) -> "string"
  | TList (None, Some false, _) -> "bytes"
  | TList (None, None, t') -> "(var " ^ string_of_ty t' ^ ")"
  | TOpt t' -> "(opt " ^ string_of_ty t' ^ ")"
  | TRec (None, ts) -> "(tuple" ^ String.concat "" (List.map (fun t -> " " ^ string_of_ty t) ts) ^ ")"
  | TRec (Some ks, ts) ->
    "(rec" ^ String.concat "" (List.map2 (fun k t -> " (" ^ string_of_name k ^ " " ^ string_of_ty t ^ ")")
                                 ks (if List.length ks = List.length ts then ts else List.map (fun _ -> TUnk) ks)) ^ ")"
  | TUnion ts -> "(union" ^ String.concat "" (List.map (fun t -> " " ^ string_of_ty t) ts) ^ ")"

let rec has_union_form (f : lform) : bool =
  match f with
  | LUnion _ -> true
  | LNumpy _ | LEmpty -> false
  | LListOffset (_, _, c) | LList (_, c) | LRegular (_, c) | LIndexed (_, c) | LIndexedOption (_, c)
  | LByteMasked (_, c) | LBitMasked (_, _, c) | LUnmasked c -> has_union_form c
  | LRecord (_, cs) -> List.exists has_union_form cs

(* ---------------------------------------------------------------- observations *)
type snapobs = { pos : int; blen : string; len : string; v : obs; t : string; raw : string; valid : bool }
type evobs = OE of int * string | OS of snapobs

let impl_snap (pos : Sx.t) (blen : string) (len : Sx.t) (d : Sx.t) : snapobs =
  let p = small_int_of_z (z_of_sx pos) in
  let len = (match len with A l -> l | _ -> "?") in
  try
    let c = content_of_sx d in
    { pos = p; blen; len; v = obs_of_list (to_list c); t = string_of_ty (type_of c); raw = Sx.to_string d; valid = valid_b c }
  with Bad s -> { pos = p; blen; len; v = OBad s; t = "?"; raw = Sx.to_string d; valid = false }
     | Stack_overflow -> { pos = p; blen; len; v = OBad "absurd index (stack overflow in to_list)"; t = "?"; raw = Sx.to_string d; valid = false }

let impl_events (evs : Sx.t list) : evobs list =
  List.map (function
      | L [A "e"; p; A c] -> OE (small_int_of_z (z_of_sx p), c)
      | L [A "s"; p; A blen; len; d] -> OS (impl_snap p blen len d)
      | x -> bad ("impl event: " ^ Sx.to_string x)) evs

let string_of_vs vs = string_of_value (VList vs)
let errclass = function EValue -> "misfit" | EOob -> "oob" | EFuel -> "fuel"
let string_of_lbres = function
  | LOk vs -> "(ok " ^ string_of_vs vs ^ ")"
  | LPartial vs -> "(partial " ^ string_of_vs vs ^ ")"
  | LErr e -> "(err " ^ errclass e ^ ")"
  | LUnspec -> "unspec"

let find_field (h : string) (l : Sx.t list) : Sx.t option = List.find_opt (fun x -> Sx.head x = h) l

let rec take n l = if n <= 0 then [] else match l with [] -> [] | x :: t -> x :: take (n - 1) t

let verdict (id : string) (rest : Sx.t list) : string =
  let f = (match find_field "form" rest with Some (L [_; x]) -> form_of_sx x | _ -> bad "no form") in
  let cmds = (match find_field "cmds" rest with Some (L (_ :: cs)) -> List.map cmd_of_sx cs | _ -> bad "no cmds") in
  let vals = (match find_field "vals" rest with Some (L (_ :: vs)) -> Some (List.map value_of_sx vs) | _ -> None) in
  let plain = List.filter_map (function C c -> Some c | Snap -> None) cmds in
  let nplain = List.length plain in
  (* number of plain commands before original position p *)
  let before = Array.make (List.length cmds + 1) 0 in
  List.iteri (fun i c -> before.(i + 1) <- before.(i) + (match c with C _ -> 1 | Snap -> 0)) cmds;
  (* original position of the k-th plain command (0-based) *)
  let opos = Array.make (nplain + 1) (List.length cmds) in
  (let k = ref 0 in List.iteri (fun i c -> match c with C _ -> (opos.(!k) <- i; incr k) | Snap -> ()) cmds);
  let memo = Hashtbl.create 16 in
  let r k = (match Hashtbl.find_opt memo k with Some x -> x | None ->
      let x = lb_run f (take k plain) in Hashtbl.add memo k x; x) in
  (* (vals ..): the generator's claim that the session is the encoding of conforming values, checked against the
     extracted lb_encode / conf; then the specification's final answer must be those values (lb_roundtrip, run) *)
  (match vals with
   | None -> ()
   | Some vs ->
     if not (constructible f && unambiguous f) then bad "vals given for a form outside the fragment";
     if not (List.for_all (fun v -> conf f v) vs) then bad "vals do not conform to the form";
     if lb_encode f vs <> plain then bad "cmds are not lb_encode of vals";
     (match r nplain with
      | LOk ws when List.length ws = List.length vs && List.for_all2 value_eqb ws vs -> ()
      | x -> bad ("specification does not return the encoded values: " ^ string_of_lbres x)));
  (* first offending command: smallest k with r k = LErr / LUnspec; found by bisection (the answer persists) *)
  let is_off k = (match r k with LErr _ | LUnspec -> true | _ -> false) in
  let first_off =
    if not (is_off nplain) then None
    else begin
      let lo = ref 0 and hi = ref nplain in     (* invariant: not off lo (or lo = 0 unknown), off hi *)
      if is_off 0 then Some 0 else begin
        while !hi - !lo > 1 do
          let mid = (!lo + !hi) / 2 in
          if is_off mid then hi := mid else lo := mid
        done;
        Some !hi
      end
    end in
  (* position (in the original numbering) from which on the session is off: the position of command number k-1 *)
  let off_pos, off_kind = (match first_off with
      | None -> max_int, "none"
      | Some 0 -> 0, (match r 0 with LUnspec -> "unspec" | _ -> "err")
      | Some k -> opos.(k - 1), (match r k with LUnspec -> "unspec" | _ -> "err")) in
  match find_field "impl" rest with
  | None ->
    let pts = List.filter_map (fun x -> x)
        (List.mapi (fun i c -> match c with Snap -> Some (Printf.sprintf " (p %d %s)" i (string_of_lbres (r before.(i)))) | _ -> None) cmds) in
    Printf.sprintf "(%s model%s (end %s) (off %s %s))" id (String.concat "" pts) (string_of_lbres (r nplain))
      (if off_pos = max_int then "-" else string_of_int off_pos) off_kind
  | Some (L (A "impl" :: A ("crash" | "timeout" as w) :: _)) ->
    Printf.sprintf "(%s viol (%s) (off %s))" id w off_kind
  | Some (L [A "impl"; A "err"; A c]) ->
    if not (constructible f) then Printf.sprintf "(%s skip (constructor-refused-unsupported-form %s))" id c
    else Printf.sprintf "(%s viol (constructor-raised %s))" id c
  | Some (L [A "impl"; A "ok"; L (A "events" :: ievs); L (A "final" :: fins)]) ->
    let iev = impl_events ievs in
    let problems = ref [] in
    let add s = problems := s :: !problems in
    let ncmp = ref 0 in
    (* immutability on the real code: dumped when taken vs dumped at the end *)
    let isnaps = List.filter_map (function OS s -> Some s | _ -> None) iev in
    if List.length fins <> List.length isnaps then bad "final/snapshot count";
    List.iter2 (fun s fn ->
        match fn with
        | L [p; len; d] ->
          let fs = impl_snap p "?" len d in
          if fs.pos <> s.pos then bad "final order";
          if fs.raw <> s.raw then
            add (Printf.sprintf "(snapshot-changed %d (taken %s) (final %s))" s.pos s.raw fs.raw)
        | _ -> bad "final entry") isnaps fins;
    (* LayoutBuilder::length() against the snapshot taken at the same moment: reported apart, as (blen N ...) *)
    let blen = List.filter (fun s -> s.blen <> s.len) isnaps in
    let blen_note = (match blen with [] -> "" | s :: _ ->
        Printf.sprintf " (blen %d (at %d (length %s) (snapshot %s)))" (List.length blen) s.pos s.blen s.len) in
    if not (constructible f) then
      Printf.sprintf "(%s %s%s (unsupported-form-accepted)%s)" id (if !problems = [] then "skip" else "viol")
        (String.concat "" (List.map (fun s -> " " ^ s) (List.rev !problems))) blen_note
    else begin
      let typed = not (has_union_form f) in
      let want_t = string_of_ty (form_ty f) in
      let stop = ref false in
      List.iter (fun e ->
          if not !stop then
            match e with
            | OE (p, c) ->
              if p < off_pos then (incr ncmp; add (Printf.sprintf "(conforming-prefix-raised %d %s)" p c))
              else stop := true          (* off: unspec -> nothing claimed; err -> reported, as required *)
            | OS s ->
              if s.pos <= off_pos then begin
                incr ncmp;
                (match r before.(s.pos) with
                 | LOk vs ->
                   (match s.v with
                    | OVal _ when not s.valid -> add (Printf.sprintf "(snapshot-invalid-layout %d %s)" s.pos s.raw)
                    | OVal _ ->
                      if not (obs_eq s.v (OVal (VList vs))) then
                        add (Printf.sprintf "(value %d (impl %s) (spec %s))" s.pos (string_of_obs s.v) (string_of_vs vs))
                      else if typed && s.t <> want_t then
                        add (Printf.sprintf "(type %d (impl %s) (spec %s))" s.pos s.t want_t)
                    | _ -> add (Printf.sprintf "(snapshot-unreadable-layout %d %s)" s.pos s.raw))
                 | LPartial vs ->
                   (match s.v with
                    | OVal _ when s.valid ->
                      if not (obs_eq s.v (OVal (VList vs))) then
                        add (Printf.sprintf "(partial-value %d (impl %s) (spec %s))" s.pos (string_of_obs s.v) (string_of_vs vs))
                    | _ -> add (Printf.sprintf "(partial-invalid %d %s)" s.pos s.raw))
                 | LErr _ | LUnspec -> bad "internal: off before off_pos")
              end else begin
                if off_kind = "err" then add (Printf.sprintf "(misfit-not-reported %d (off %d))" s.pos off_pos);
                stop := true
              end) iev;
      let k = if !problems <> [] then "viol"
        else if !ncmp = 0 && off_kind = "unspec" then "skip" else "agree" in
      Printf.sprintf "(%s %s%s (nsnap %d) (ncmp %d) (off %s)%s)" id k (String.concat "" (List.map (fun s -> " " ^ s) (List.rev !problems)))
        (List.length isnaps) !ncmp off_kind blen_note
    end
  | Some x -> bad ("impl: " ^ Sx.to_string x)

let () =
  try
    while true do
      let line = input_line stdin in
      if String.length line > 0 && line.[0] <> '#' then begin
        let id = ref "?" in
        (try
           match Sx.parse line with
           | L (A i :: A "lb" :: rest) -> id := i; print_endline (verdict i rest)
           | _ -> bad "case syntax"
         with
         | Bad s -> Printf.printf "(%s bad (%s))\n" !id s
         | Sx.Parse s -> Printf.printf "(%s bad (parse %s))\n" !id s
         | Stack_overflow -> Printf.printf "(%s bad (stack overflow))\n" !id
         | Invalid_argument s -> Printf.printf "(%s bad (invalid_argument %s))\n" !id s
         | Not_found -> Printf.printf "(%s bad (not found))\n" !id)
      end
    done
  with End_of_file -> ()
