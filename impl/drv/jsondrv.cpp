// jsondrv: JSON entry points of /repo's libawkward on textual cases (property C15).
// One case per line on stdin (S-expressions; every text is a list of byte values):
//
//   (id tojson (opts PRETTY MAXDECIMALS (nan B...|none) (inf ...) (minf ...) (creal ...) (cimag ...)) LAYOUT)
//        -> (id ok (bytes B...))      Content::tojson, string form.  The FILE* form is run too (scratch file under
//                                     the build directory) and compared inside the driver: mismatch = `err other`.
//   (id fromjson (opts (nan ...) (inf ...) (minf ...) INITIAL RESIZE_PERCENT BUFFERSIZE) (text B...))
//        -> (id ok (res DUMP))        FromJsonString; FromJsonFile is run too and compared (mismatch = `err other`).
//                                     DUMP = the shared layout syntax, except record keys: (rec N (keys (k B...)...) ...)
//        -> (id ok (fail incomplete|invalid|builder))   the call threw std::invalid_argument; the sub-class is read
//                                     off the message of json.cpp's do_parse (reported for statistics only: the
//                                     harness treats every `fail` as the single class "error")
//   (id build-events (opts INITIAL RESIZE_PERCENT) (at0 0|1) (events EV...))
//        EV ::= null | (bool 0|1) | (int N) | (real N|nan|inf|-inf|f:HEX) | (str B...) | beginlist | endlist
//             | beginrecord | (field B...) | endrecord
//        -> (id ok (res DUMP))        awkward::ArrayBuilder fed directly, snapshot (item 0 of it when at0 = 1)
//        -> (id ok (fail builder))    a builder call threw std::invalid_argument
//
// LAYOUT is the shared syntax of drv_common.h plus (npc complex128|complex64 (shape...) (re im re im ...)),
// allowed below lo / la / reg / ixo / ix / rec / unm nodes.
// Only public headers of /repo/include are used.
#include "drv_common.h"
#include "awkward/builder/ArrayBuilder.h"
#include "awkward/builder/ArrayBuilderOptions.h"
#include "awkward/io/json.h"

#include <complex>
#include <cstdio>
#include <unistd.h>

using namespace drv;

struct Mismatch : std::exception {
  std::string w;
  explicit Mismatch(const std::string& s) : w(s) {}
  const char* what() const noexcept override { return w.c_str(); }
};

// ---------------------------------------------------------------- scratch directory (under the build dir)
static std::string g_scratch;

static void cleanup_scratch() {
  if (!g_scratch.empty()) {
    std::remove((g_scratch + "/out.json").c_str());
    std::remove((g_scratch + "/in.json").c_str());
    rmdir(g_scratch.c_str());
  }
}

static const std::string& scratch() {
  if (g_scratch.empty()) {
    char buf[4096];
    ssize_t n = readlink("/proc/self/exe", buf, sizeof buf - 1);
    std::string dir = ".";
    if (n > 0) {
      buf[n] = 0;
      dir = buf;
      size_t p = dir.rfind('/');
      if (p != std::string::npos) dir = dir.substr(0, p);
    }
    g_scratch = dir + "/scratch-" + std::to_string((long)getpid());
    std::string cmd = "mkdir -p '" + g_scratch + "'";
    if (std::system(cmd.c_str()) != 0) throw std::logic_error("cannot create " + g_scratch);
    std::atexit(cleanup_scratch);
  }
  return g_scratch;
}

// ---------------------------------------------------------------- helpers
static std::string bytes_from(const Sx& c, size_t from) {
  std::string s;
  for (size_t i = from; i < c.size(); i++) s.push_back((char)(unsigned char)to_i64(c[i]));
  return s;
}

static std::string dump_bytes(const std::string& s) {
  std::string o = "(bytes";
  for (unsigned char ch : s) { o += " "; o += std::to_string((int)ch); }
  return o + ")";
}

// (name none) -> absent ; (name B...) -> present
struct OptStr {
  bool present = false;
  std::string s;
  const char* ptr() const { return present ? s.c_str() : nullptr; }
};
static OptStr optstr(const Sx& x, const char* name) {
  if (x.head() != name) throw std::logic_error(std::string("option ") + name + " expected, got " + x.str());
  OptStr o;
  if (x.size() == 2 && x[1].is("none")) return o;
  o.present = true;
  o.s = bytes_from(x, 1);
  if (o.s.find('\0') != std::string::npos) throw std::logic_error("option strings are C strings: no NUL");
  return o;
}

template <typename T>
static ContentPtr mkcomplex(util::dtype d, const std::vector<int64_t>& shape, const Sx& data) {
  int64_t n = (int64_t)data.size() / 2;
  int64_t itemsize = (int64_t)sizeof(std::complex<T>);
  std::shared_ptr<void> ptr = kernel::malloc<void>(kernel::lib::cpu, (n > 0 ? n : 1) * itemsize);
  std::complex<T>* p = reinterpret_cast<std::complex<T>*>(ptr.get());
  for (int64_t i = 0; i < n; i++) p[i] = std::complex<T>((T)to_f64(data[2 * i]), (T)to_f64(data[2 * i + 1]));
  std::vector<ssize_t> sh, st(shape.size(), 0);
  for (auto s : shape) sh.push_back((ssize_t)s);
  ssize_t acc = (ssize_t)itemsize;
  for (int64_t k = (int64_t)shape.size() - 1; k >= 0; k--) { st[k] = acc; acc *= (ssize_t)shape[k]; }
  return std::make_shared<NumpyArray>(Identities::none(), util::Parameters(), ptr, sh, st, 0, (ssize_t)itemsize,
                                      util::dtype_to_format(d), d, kernel::lib::cpu);
}

static bool mentions_npc(const Sx& x) {
  if (x.atom) return false;
  if (x.head() == "npc") return true;
  for (auto& e : x.l) if (mentions_npc(e)) return true;
  return false;
}

// the shared builder, extended by complex leaves
static ContentPtr build15(const Sx& x) {
  if (!mentions_npc(x)) return build(x);
  const std::string h = x.head();
  const util::Parameters np;
  IdentitiesPtr noid = Identities::none();
  if (h == "npc") {
    auto shape = to_i64s(x[2]);
    if (x[1].a == "complex128") return mkcomplex<double>(util::dtype::complex128, shape, x[3]);
    if (x[1].a == "complex64") return mkcomplex<float>(util::dtype::complex64, shape, x[3]);
    throw std::logic_error("npc dtype " + x[1].a);
  }
  if (h == "lo") return std::make_shared<ListOffsetArray64>(noid, np, mkindex<int64_t>(to_i64s(x[2])), build15(x[3]));
  if (h == "la") return std::make_shared<ListArray64>(noid, np, mkindex<int64_t>(to_i64s(x[2])),
                                                      mkindex<int64_t>(to_i64s(x[3])), build15(x[4]));
  if (h == "reg") return std::make_shared<RegularArray>(noid, np, build15(x[3]), to_i64(x[1]), to_i64(x[2]));
  if (h == "ixo") return std::make_shared<IndexedOptionArray64>(noid, np, mkindex<int64_t>(to_i64s(x[2])), build15(x[3]));
  if (h == "ix") return std::make_shared<IndexedArray64>(noid, np, mkindex<int64_t>(to_i64s(x[2])), build15(x[3]));
  if (h == "unm") return std::make_shared<UnmaskedArray>(noid, np, build15(x[1]));
  if (h == "rec") {
    util::RecordLookupPtr lookup(nullptr);
    if (!x[2].is("tuple")) {
      lookup = std::make_shared<util::RecordLookup>();
      for (auto& k : x[2].l) lookup->push_back(k.a);
    }
    ContentPtrVec cs;
    for (size_t i = 3; i < x.size(); i++) cs.push_back(build15(x[i]));
    return std::make_shared<RecordArray>(noid, np, cs, lookup, to_i64(x[1]));
  }
  throw std::logic_error("npc below unsupported node " + h);
}

static std::string read_file(const std::string& path) {
  FILE* f = std::fopen(path.c_str(), "rb");
  if (!f) throw std::logic_error("cannot read " + path);
  std::string s;
  char buf[4096];
  size_t n;
  while ((n = std::fread(buf, 1, sizeof buf, f)) > 0) s.append(buf, n);
  std::fclose(f);
  return s;
}

// ---------------------------------------------------------------- dumping with record keys as byte lists
// (keys read from JSON texts may contain blanks, parentheses or bytes that are not UTF-8)
static std::string dump15(const ContentPtr& c);

static std::string keybytes(const std::string& k) {
  std::string o = "(k";
  for (unsigned char ch : k) { o += " "; o += std::to_string((int)ch); }
  return o + ")";
}

static std::string dump15_raw(const Content* c) {
#define LO15(T, W) if (const T* r = dynamic_cast<const T*>(c)) return std::string("(lo " W " ") + dump_index(r->offsets()) + " " + dump15(r->content()) + ")";
  LO15(ListOffsetArray32, "i32") LO15(ListOffsetArrayU32, "u32") LO15(ListOffsetArray64, "i64")
#define LA15(T, W) if (const T* r = dynamic_cast<const T*>(c)) return std::string("(la " W " ") + dump_index(r->starts()) + " " + dump_index(r->stops()) + " " + dump15(r->content()) + ")";
  LA15(ListArray32, "i32") LA15(ListArrayU32, "u32") LA15(ListArray64, "i64")
  if (const RegularArray* r = dynamic_cast<const RegularArray*>(c))
    return "(reg " + std::to_string(r->size()) + " " + std::to_string(r->length()) + " " + dump15(r->content()) + ")";
#define IX15(T, H, W) if (const T* r = dynamic_cast<const T*>(c)) return std::string("(" H " " W " ") + dump_index(r->index()) + " " + dump15(r->content()) + ")";
  IX15(IndexedArray32, "ix", "i32") IX15(IndexedArrayU32, "ix", "u32") IX15(IndexedArray64, "ix", "i64")
  IX15(IndexedOptionArray32, "ixo", "i32") IX15(IndexedOptionArray64, "ixo", "i64")
  if (const ByteMaskedArray* r = dynamic_cast<const ByteMaskedArray*>(c))
    return "(bym " + dump_index(r->mask()) + " " + (r->valid_when() ? "1" : "0") + " " + dump15(r->content()) + ")";
  if (const BitMaskedArray* r = dynamic_cast<const BitMaskedArray*>(c))
    return "(bim " + dump_index(r->mask()) + " " + (r->valid_when() ? "1" : "0") + " " + (r->lsb_order() ? "1" : "0")
           + " " + std::to_string(r->length()) + " " + dump15(r->content()) + ")";
  if (const UnmaskedArray* r = dynamic_cast<const UnmaskedArray*>(c)) return "(unm " + dump15(r->content()) + ")";
#define UN15(T, W) if (const T* r = dynamic_cast<const T*>(c)) { std::string o = std::string("(un " W " ") + dump_index(r->tags()) + " " + dump_index(r->index()); \
    for (auto& k : r->contents()) o += " " + dump15(k); return o + ")"; }
  UN15(UnionArray8_32, "i32") UN15(UnionArray8_U32, "u32") UN15(UnionArray8_64, "i64")
  if (const RecordArray* r = dynamic_cast<const RecordArray*>(c)) {
    std::string o = "(rec " + std::to_string(r->length()) + " ";
    if (r->istuple()) o += "tuple";
    else {
      o += "(keys";
      for (auto& k : *r->recordlookup()) o += " " + keybytes(k);
      o += ")";
    }
    for (auto& k : r->contents()) o += " " + dump15(k);
    return o + ")";
  }
  if (const Record* r = dynamic_cast<const Record*>(c))
    return "(record " + std::to_string(r->at()) + " " + dump15(r->array()->shallow_copy()) + ")";
  return dump_raw(c);      // NumpyArray, EmptyArray, None: no children
}

static std::string dump15(const ContentPtr& c) {
  std::string raw = dump15_raw(c.get());
  if (dynamic_cast<const Record*>(c.get()) || dynamic_cast<const None*>(c.get())) return raw;
  util::Parameters ps = c->parameters();
  std::string arr = "none", rec = "none";
  auto ia = ps.find("__array__");
  if (ia != ps.end() && ia->second != "null") arr = unquote(ia->second);
  auto ir = ps.find("__record__");
  if (ir != ps.end() && ir->second != "null") rec = unquote(ir->second);
  if (arr == "none" && rec == "none") return raw;
  return "(par " + arr + " " + rec + " " + raw + ")";
}

// ---------------------------------------------------------------- tojson
static std::string do_tojson(const Sx& cs) {
  const Sx& o = cs[2];
  if (o.head() != "opts" || o.size() != 8) throw std::logic_error("tojson opts");
  bool pretty = to_i64(o[1]) != 0;
  int64_t maxdecimals = to_i64(o[2]);
  OptStr nan = optstr(o[3], "nan"), inf = optstr(o[4], "inf"), minf = optstr(o[5], "minf"),
         creal = optstr(o[6], "creal"), cimag = optstr(o[7], "cimag");
  ContentPtr c = build15(cs[3]);
  // string form
  bool threw1 = false;
  std::string cls1, text1;
  try {
    text1 = c->tojson(pretty, maxdecimals, nan.ptr(), inf.ptr(), minf.ptr(), creal.ptr(), cimag.ptr());
  } catch (std::invalid_argument&) { threw1 = true; cls1 = "value"; }
  catch (std::runtime_error&) { threw1 = true; cls1 = "runtime"; }
  // FILE* form
  std::string path = scratch() + "/out.json";
  FILE* f = std::fopen(path.c_str(), "wb");
  if (!f) throw std::logic_error("cannot write " + path);
  bool threw2 = false;
  std::string cls2;
  try {
    c->tojson(f, pretty, maxdecimals, 7, nan.ptr(), inf.ptr(), minf.ptr(), creal.ptr(), cimag.ptr());
  } catch (std::invalid_argument&) { threw2 = true; cls2 = "value"; }
  catch (std::runtime_error&) { threw2 = true; cls2 = "runtime"; }
  std::fclose(f);
  if (threw1 != threw2 || cls1 != cls2) throw Mismatch("string form and FILE* form differ in outcome");
  if (threw1) {
    if (cls1 == "value") throw std::invalid_argument("tojson");
    throw std::runtime_error("tojson");
  }
  std::string text2 = read_file(path);
  if (text1 != text2) throw Mismatch("string form and FILE* form differ in text");
  return dump_bytes(text1);
}

// ---------------------------------------------------------------- fromjson
static std::string classify(const std::string& msg) {
  if (msg.compare(0, 22, "incomplete JSON object") == 0) return "(fail incomplete)";
  if (msg.compare(0, 23, "JSON File error at char") == 0) return "(fail invalid)";
  return "(fail builder)";
}

static std::string do_fromjson(const Sx& cs) {
  const Sx& o = cs[2];
  if (o.head() != "opts" || o.size() != 7) throw std::logic_error("fromjson opts");
  OptStr nan = optstr(o[1], "nan"), inf = optstr(o[2], "inf"), minf = optstr(o[3], "minf");
  int64_t initial = to_i64(o[4]);
  double resize = (double)to_i64(o[5]) / 100.0;
  int64_t buffersize = to_i64(o[6]);
  if (cs[3].head() != "text") throw std::logic_error("text expected");
  std::string text = bytes_from(cs[3], 1);
  if (text.find('\0') != std::string::npos) throw std::logic_error("texts are C strings: no NUL");
  ArrayBuilderOptions options(initial, resize);
  std::string r1, r2;
  try {
    ContentPtr out = FromJsonString(text.c_str(), options, nan.ptr(), inf.ptr(), minf.ptr());
    r1 = "(res " + dump15(out) + ")";
  } catch (std::invalid_argument& e) { r1 = classify(e.what()); }
  std::string path = scratch() + "/in.json";
  FILE* f = std::fopen(path.c_str(), "wb");
  if (!f) throw std::logic_error("cannot write " + path);
  if (!text.empty() && std::fwrite(text.data(), 1, text.size(), f) != text.size()) { std::fclose(f); throw std::logic_error("short write"); }
  std::fclose(f);
  f = std::fopen(path.c_str(), "rb");
  if (!f) throw std::logic_error("cannot reopen " + path);
  try {
    ContentPtr out = FromJsonFile(f, options, buffersize, nan.ptr(), inf.ptr(), minf.ptr());
    r2 = "(res " + dump15(out) + ")";
  } catch (std::invalid_argument& e) { r2 = classify(e.what()); }
  catch (...) { std::fclose(f); throw; }
  std::fclose(f);
  if (r1 != r2) throw Mismatch("FromJsonString and FromJsonFile differ: " + r1 + " vs " + r2);
  return r1;
}

// ---------------------------------------------------------------- builder fed directly
static void apply_event(ArrayBuilder& b, const Sx& c) {
  if (c.atom) {
    if (c.a == "null") { b.null(); return; }
    if (c.a == "beginlist") { b.beginlist(); return; }
    if (c.a == "endlist") { b.endlist(); return; }
    if (c.a == "beginrecord") { b.beginrecord(); return; }
    if (c.a == "endrecord") { b.endrecord(); return; }
    throw std::logic_error("unknown event " + c.a);
  }
  const std::string h = c.head();
  if (h == "bool") { b.boolean(to_i64(c[1]) != 0); return; }
  if (h == "int") { b.integer(to_i64(c[1])); return; }
  if (h == "real") { b.real(to_f64(c[1])); return; }
  if (h == "str") { b.string(bytes_from(c, 1)); return; }
  if (h == "field") { b.field_check(bytes_from(c, 1)); return; }
  throw std::logic_error("unknown event " + c.str());
}

static std::string do_build(const Sx& cs) {
  const Sx& o = cs[2];
  if (o.head() != "opts" || o.size() != 3) throw std::logic_error("build-events opts");
  if (cs[3].head() != "at0") throw std::logic_error("at0 expected");
  bool at0 = to_i64(cs[3][1]) != 0;
  const Sx& evs = cs[4];
  if (evs.head() != "events") throw std::logic_error("events expected");
  ArrayBuilder b(ArrayBuilderOptions(to_i64(o[1]), (double)to_i64(o[2]) / 100.0));
  try {
    for (size_t i = 1; i < evs.size(); i++) apply_event(b, evs[i]);
  } catch (std::logic_error& e) {
    if (dynamic_cast<std::invalid_argument*>(&e)) return "(fail builder)";
    throw;
  }
  ContentPtr s = b.snapshot();
  if (at0) {
    if (s->length() < 1) throw std::logic_error("at0 on an empty snapshot");
    return "(res " + dump15(s->getitem_at_nowrap(0)) + ")";
  }
  return "(res " + dump15(s) + ")";
}

static std::string handle(const Sx& cs) {
  const std::string op = cs[1].a;
  if (op == "tojson") return do_tojson(cs);
  if (op == "fromjson") return do_fromjson(cs);
  if (op == "build-events") return do_build(cs);
  throw std::logic_error("unknown op " + op);
}

int main() { return run_cases(handle); }
