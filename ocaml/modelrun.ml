(* modelrun: evaluates the extracted Rocq model and the value-level spec on the
   same cases the implementation ran, and compares observations.
   input : (id OP args... layout... (impl ok RESULT | err CLASS | crash))
   output: (id VERDICT ...) with VERDICT in
     agree | viol | modeldiff | skip | crash                                     *)
open Model
open Sx
open Rd

type opres = {
  model : obs;               (* extracted algorithm model, observed *)
  spec : obs;                (* value-level specification *)
  inputs_valid : bool;
  mutable note : string;
  unsupported : string;      (* non-empty: outside the specified fragment -> skip *)
}

let valid_all (cs : content list) = List.for_all valid_b cs

let z = z_of_sx

(* operation given as layout-level model + (type,value)-level spec *)
let ax_op (model : content -> content res) (spec : ty -> value list -> value list res) (l : Sx.t) : opres =
  let c = content_of_sx l in
  let t = type_of c in
  let spec_o = (match to_list c with Ok vs -> obs_of_list (spec t vs) | Err _ -> OBad "input-to_list") in
  { model = obs_of_content (model c); spec = spec_o; inputs_valid = valid_b c; note = "";
    unsupported = (if has_union t then "union" else "") }

let opt_z = function A "none" -> None | x -> Some (z_of_sx x)
let item_of_sx (x : Sx.t) : item =
  match x with
  | L [A "at"; i] -> IAt (z_of_sx i)
  | L [A "rng"; a; b; s] -> IRange (opt_z a, opt_z b, opt_z s)
  | A "ell" -> IEllipsis
  | A "newaxis" -> INewAxis
  | L [A "arr"; L [_]; ix] -> IArray (zs_of_sx ix)
  | L [A "fld"; A k] -> IField (name_of_string k)
  | L (A "flds" :: ks) -> IFields (List.map (function A k -> name_of_string k | _ -> bad "flds") ks)
  | _ -> bad ("unsupported-item " ^ Sx.to_string x)

(* ---- array-like slice items of Ops_GetitemAdv.v (no layout-level model: model = nomodel) ----
   (arr (d1 .. dk) (i ...))   k <> 1: n-d integer array, row-major
   (barr (d1 .. dk) (0|1 ...)) rectilinear boolean array
   (lay LAYOUT)               an awkward array used as an index (converted by Content::asslice on the implementation side,
                              read here as its nested-list value: 1-d with missing values, or jagged) *)
let is_adv_item (x : Sx.t) : bool =
  match x with
  | L [A "arr"; L sh; _] -> List.length sh <> 1
  | L (A ("barr" | "lay" | "miss" | "jag") :: _) -> true
  | _ -> false
type advres = Adv of advitem | AdvErr | AdvUnspecified | AdvInvalid | AdvUnion
let adv_of_sx (x : Sx.t) : advres =
  match x with
  | L [A "arr"; sh; ix] -> Adv (ANd (zs_of_sx sh, zs_of_sx ix))
  | L [A "barr"; sh; bits] -> Adv (ABool (zs_of_sx sh, List.map (fun b -> b <> Z0) (zs_of_sx bits)))
  | L [A "lay"; l] ->
    let c = content_of_sx l in
    if not (valid_b c) then AdvInvalid
    else if has_union (type_of c) then AdvUnion
    else (match to_list c with
        | Ok vs -> (match jag_of_value (type_of c) vs with
            | Ok (d, j) -> Adv (AIdx (d, (match type_of c with TOpt _ -> true | _ -> false), j))
            | Err EFuel -> AdvUnspecified
            | Err _ -> AdvErr)
        | Err _ -> AdvInvalid)
  | _ -> AdvUnspecified       (* raw (miss ..) / (jag ..) items: no value-level reading here *)

let getitemx (items : Sx.t list) (l : Sx.t) : opres =
  let rec split pre = (function
      | [] -> (List.rev pre, None, [])
      | x :: tl when is_adv_item x -> (List.rev pre, Some x, tl)
      | x :: tl -> split (x :: pre) tl) in
  let pre, adv, post = split [] items in
  let c = content_of_sx l in
  let t = type_of c in
  let unsupported = if has_union t then "union" else "" in
  let mk spec valid unsup = { model = OBad "fuel"; spec = spec; inputs_valid = valid; note = ""; unsupported = unsup } in
  match adv with
  | None -> bad "getitemx: no array-like item"
  | Some _ when List.exists is_adv_item post -> mk (OBad "fuel") (valid_b c) unsupported   (* two array-like items: unspecified *)
  | Some a ->
    (match adv_of_sx a with
     | AdvInvalid -> mk (OBad "fuel") false unsupported
     | AdvUnion -> mk (OBad "fuel") (valid_b c) "union"
     | AdvUnspecified -> mk (OBad "fuel") (valid_b c) unsupported
     | AdvErr -> mk OErr (valid_b c) unsupported
     | Adv a ->
       let spec = (match to_list c with
           | Ok vs -> obs_of_res (getitem_adv_spec (List.map item_of_sx pre) a (List.map item_of_sx post) t vs)
           | Err _ -> OBad "input-to_list") in
       mk spec (valid_b c) unsupported)

(* each op: args (without id/op/impl) -> opres *)
let run_op (op : string) (args : Sx.t list) : opres =
  match op, args with
  | ("getitem" | "getitemx"), [L items; l] when List.exists is_adv_item items -> getitemx items l
  | "id", [l] ->
    let c = content_of_sx l in
    let o = obs_of_list (to_list c) in
    { model = o; spec = o; inputs_valid = valid_b c; note = ""; unsupported = "" }
  | "num", [a; l] -> ax_op (num_model (z a)) (num_spec (z a)) l
  | "flatten", [a; l] -> ax_op (flatten_model (z a)) (flatten_spec (z a)) l
  | "combinations", [n; r; a; l] ->
    ax_op (comb_model (z n) (bool_of_sx r) (z a)) (comb_spec (z n) (bool_of_sx r) (z a)) l
  | "fillna", [l; v] ->
    let vc = content_of_sx v in
    let r = ax_op (fillna_model vc) (fun t vs -> match to_list vc with Ok v0s -> fillna_spec v0s t vs | Err e -> Err e) l in
    { r with inputs_valid = r.inputs_valid && valid_b vc;
             unsupported = (if has_union (type_of vc) then "union" else r.unsupported) }
  | "reduce", [A rn; a; mk; kd; l] ->
    let r = (match rn with
        | "count" -> RCount | "count_nonzero" -> RCountNonzero | "sum" -> RSum | "prod" -> RProd
        | "any" -> RAny | "all" -> RAll | "min" -> RMin | "max" -> RMax | "argmin" -> RArgmin | "argmax" -> RArgmax
        | _ -> bad ("reducer " ^ rn)) in
    let mask = bool_of_sx mk and keep = bool_of_sx kd in
    let res = ax_op (reduce_model r (z a) mask keep) (reduce_spec r (z a) mask keep) l in
    (* axis 0 without keepdims yields a single value, not an array *)
    let c = content_of_sx l in
    let whole = (match resolve_axis (type_of c) Z0 (z a) with Ok Z0 -> true | _ -> false) in
    if whole && not keep then
      let first o = (match o with OVal (VList [v]) -> OVal v | OVal _ -> OBad "axis0-shape" | o -> o) in
      { res with model = first res.model; spec = first res.spec }
    else res
  | ("sort" | "argsort"), [a; asc; _stable; l] ->
    ax_op (sort_model_all (bool_of_sx asc) (op = "argsort") (z a)) (sort_spec (bool_of_sx asc) (op = "argsort") (z a)) l
  | "getitem", [L items; l] ->
    let its = List.map item_of_sx items in
    let res = ax_op (getitem_model its) (getitem_spec its) l in
    let first o = (match o with OVal (VList [v]) -> OVal v | OVal _ -> OBad "getitem-shape" | o -> o) in
    (* the specification types the result of a range over a regular dimension as variable-length; the regular size it
       loses is observable in one place only: a further integer/array item re-applied below a record (the rest of a
       slice continues on the records) is then judged by the data instead of by the type.  Such slices are marked
       and, when the implementation refuses where the specification answers, counted as unspecified. *)
    let rec reg_below_rec inrec t = (match t with
        | TList (Some _, _, t') -> inrec || reg_below_rec inrec t'
        | TList (None, _, t') | TOpt t' -> reg_below_rec inrec t'
        | TRec (_, ts) -> List.exists (reg_below_rec true) ts
        | TUnion ts -> List.exists (reg_below_rec inrec) ts
        | _ -> false) in
    let rec after_range seen = (function
        | [] -> false
        | IRange (_, _, _) :: tl -> after_range true tl
        | (IAt _ | IArray _) :: tl -> seen || after_range seen tl
        | _ :: tl -> after_range seen tl) in
    let note = if after_range false its && reg_below_rec false (type_of (content_of_sx l)) then "regular-after-range-below-record" else "" in
    { res with model = first res.model; spec = first res.spec; note = note }
  | "field", [A k; l] ->
    (* Content::getitem_field(key) called directly: same specification as the slice ((fld key)) *)
    let its = [IField (name_of_string k)] in
    let res = ax_op (getitem_model its) (getitem_spec its) l in
    let first o = (match o with OVal (VList [v]) -> OVal v | OVal _ -> OBad "getitem-shape" | o -> o) in
    { res with model = first res.model; spec = first res.spec }
  | "fields", [L ks; l] ->
    let its = [IFields (List.map (function A k -> name_of_string k | _ -> bad "fields") ks)] in
    let res = ax_op (getitem_model its) (getitem_spec its) l in
    let first o = (match o with OVal (VList [v]) -> OVal v | OVal _ -> OBad "getitem-shape" | o -> o) in
    { res with model = first res.model; spec = first res.spec }
  | "setfield", [A k; l; w] ->
    let key = name_of_string k in
    let wc = content_of_sx w in
    let r = ax_op (fun c -> setfield_model key c wc)
        (fun t vs -> match to_list wc with Ok ws -> setfield_spec key t vs ws | Err e -> Err e) l in
    { r with inputs_valid = r.inputs_valid && valid_b wc;
             unsupported = (if has_union (type_of wc) then "union" else r.unsupported) }
  | "setfieldat", [wh; l; w] ->
    (* RecordArray::setitem_field(int64_t where, what): the new field goes to POSITION where (named records: under the
       name str(where)); beyond the last field it is appended.  Stated here on the values (no layout-level model):
       every record gets the new value at that position, everything else unchanged; lengths must agree; where < 0 errs. *)
    let c = content_of_sx l and wc = content_of_sx w in
    let wz = z_of_sx wh in
    let wi = small_int_of_z wz in
    let rec insert_at i x = (function
        | [] -> [x]
        | y :: r -> if i <= 0 then x :: y :: r else y :: insert_at (i - 1) x r) in
    let spec_o =
      (match c, to_list c, to_list wc with
       | Record (_, _, _), Ok vs, Ok ws ->
         if wi < 0 || List.length vs <> List.length ws then OErr
         else OVal (VList (List.map2 (fun v x -> match v with
             | VRec fs -> VRec (insert_at wi (name_of_string (string_of_int wi), x) fs)
             | VTup xs -> VTup (insert_at wi x xs)
             | other -> other) vs ws))
       | Record (_, _, _), _, _ -> OBad "input-to_list"
       | _ -> OErr) in
    { model = OBad "fuel"; spec = spec_o; inputs_valid = valid_b c && valid_b wc; note = "";
      unsupported = (if has_union (type_of c) || has_union (type_of wc) then "union" else "") }
  | "localindex", [a; l] -> ax_op (localindex_model (z a)) (localindex_spec (z a)) l
  | "rpad", [tg; a; l] -> ax_op (rpad_model (z tg) (z a)) (rpad_spec (z tg) (z a)) l
  | "rpadclip", [tg; a; l] -> ax_op (rpadclip_model (z tg) (z a)) (rpadclip_spec (z tg) (z a)) l
  | _ -> bad ("unknown op " ^ op)

let split_last l =
  match List.rev l with
  | last :: rest -> (List.rev rest, last)
  | [] -> bad "empty case"

let verdict id op args impl =
  match op with
  | "survive" | "survivejson" ->
    (* C12: the call only has to return; any crash/hang/sanitizer report is the violation *)
    (match impl with
     | ICrash w -> Printf.sprintf "(%s crash %s)" id w
     | _ -> Printf.sprintf "(%s agree survived)" id)
  | "valid" ->
    (* exactness of the validity check: impl answer vs valid_b (= Valid, Theorem validity_exact) *)
    let c = (match args with [l] -> content_of_sx l | _ -> bad "valid args") in
    let m = valid_b c in
    (match impl with
     | IOk (A a) ->
       let i = (a = "1") in
       if i = m then Printf.sprintf "(%s agree %s)" id (if m then "valid" else "invalid")
       else Printf.sprintf "(%s viol (impl %s) (model %s))" id a (if m then "1" else "0")
     | IOk _ -> Printf.sprintf "(%s viol (impl weird))" id
     | IErr c ->
       (* the constructor (or the check) refused the array with an exception: counts as "reported invalid" *)
       if not m then Printf.sprintf "(%s agree invalid-rejected)" id
       else Printf.sprintf "(%s viol (impl err %s) (model 1))" id c
     | ICrash w -> Printf.sprintf "(%s crash %s (model %s))" id w (if m then "1" else "0"))
  | _ ->
    let r = run_op op args in
    (* closure (C11) does not need a specification: on valid inputs a returned layout must itself be valid, also for
       the operations / types (unions, ...) the value-level specification leaves out *)
    let result_invalid = (match impl with
        | IOk d ->
          let bare_chars = (match d with L [A "par"; A ("char" | "byte"); _; L (A "np" :: _)] -> true | _ -> false) in
          is_layout_dump d && not bare_chars && not (try valid_b (content_of_sx d) with Bad _ -> false)
        | _ -> false) in
    if not r.inputs_valid then Printf.sprintf "(%s skip invalid-input)" id
    else if (r.unsupported <> "" || r.spec = OBad "fuel") && result_invalid then
      Printf.sprintf "(%s viol closure (impl invalid-result) (spec %s))" id (if r.unsupported <> "" then "unsupported-" ^ r.unsupported else "unspecified")
    else if r.unsupported <> "" then Printf.sprintf "(%s skip unsupported-%s)" id r.unsupported
    else if r.spec = OBad "fuel" then Printf.sprintf "(%s skip unspecified)" id
    else begin
      match impl with
      | ICrash w -> Printf.sprintf "(%s crash %s (spec %s))" id w (string_of_obs r.spec)
      | IErr "value" when r.note = "regular-after-range-below-record" && (match r.spec with OVal _ -> true | _ -> false) ->
        Printf.sprintf "(%s skip unspecified regular-after-range-below-record)" id
      | _ ->
        let i, closure_ok = (match impl with
            | IOk d ->
              let o = obs_of_dump d in
              let bare_chars = (match d with L [A "par"; A ("char" | "byte"); _; L (A "np" :: _)] -> true | _ -> false) in
              let ok = if is_layout_dump d && not bare_chars then (try valid_b (content_of_sx d) with Bad _ -> false) else true in
              (o, ok)
            | IErr "value" | IErr "runtime" -> (OErr, true)
            | IErr c -> (OBad ("impl-exception-" ^ c), true)
            | ICrash _ -> (OBad "crash", true)) in
        let nomodel = (r.model = OBad "fuel") in
        let sm = nomodel || obs_eq r.model r.spec in
        let is_ = obs_eq i r.spec in
        if is_ && sm && closure_ok then
          Printf.sprintf "(%s agree %s%s)" id (match i with OErr -> "err" | _ -> "ok") (if nomodel then " nomodel" else "")
        else if is_ && sm then
          Printf.sprintf "(%s viol closure (impl %s))" id (string_of_obs i)
        else if not is_ then
          Printf.sprintf "(%s viol value (impl %s) (spec %s) (model %s))" id
            (string_of_obs i) (string_of_obs r.spec) (string_of_obs r.model)
        else
          Printf.sprintf "(%s modeldiff (impl %s) (spec %s) (model %s))" id
            (string_of_obs i) (string_of_obs r.spec) (string_of_obs r.model)
    end

let () =
  try
    while true do
      let line = input_line stdin in
      if String.length line > 0 && line.[0] <> '#' then begin
        let id = ref "?" in
        (try
           match Sx.parse line with
           | L [A i; A "val"; d] ->
             (* canonical value of a dumped result (used to compare implementation results with each other) *)
             Printf.printf "(%s value %s)\n" i (string_of_obs (obs_of_dump d))
           | L (A i :: A op :: rest) ->
             id := i;
             let args, impl = split_last rest in
             print_endline (verdict i op args (impl_of_sx impl))
           | _ -> bad "case syntax"
         with
         | Bad s -> Printf.printf "(%s bad (%s))\n" !id s
         | Sx.Parse s -> Printf.printf "(%s bad (parse %s))\n" !id s
         | Stack_overflow -> Printf.printf "(%s bad (stack overflow))\n" !id
         | Not_found -> Printf.printf "(%s bad (not found))\n" !id)
      end
    done
  with End_of_file -> ()
