(** sort / argsort.  Spec on (type, value) for every axis ("column sort" for a
    non-innermost axis); model on layouts for the innermost axis (the leaf level),
    following the C++: keys gathered through option/indexed nodes, stable sort with the
    kernel's comparator (NaN first in both directions), missing values last. *)
From AwkV Require Export AtAxis Carry.

Inductive key := KNum (d : datum) | KBool (b : bool) | KStr (isstr : bool) (s : list Z).

(* the comparator of awkward_sort.cpp: less(l, r) = !isnan(r) && (isnan(l) || l < r) *)
Definition datum_lt (a b : datum) : bool :=
  match a, b with
  | _, DNaN => false
  | DNaN, _ => true
  | DZ x, DZ y => x <? y
  | DInf true, DInf true => false
  | DInf true, _ => true
  | _, DInf true => false
  | DInf false, _ => false
  | _, DInf false => true
  end.
Fixpoint bytes_lt (a b : list Z) : bool :=
  match a, b with
  | _, [] => false
  | [], _ :: _ => true
  | x :: xs, y :: ys => if x <? y then true else if y <? x then false else bytes_lt xs ys
  end.
Definition key_lt (a b : key) : bool :=
  match a, b with
  | KNum x, KNum y => datum_lt x y
  | KBool x, KBool y => negb x && y
  | KStr _ x, KStr _ y => bytes_lt x y
  | _, _ => false
  end.
(* descending: less(l, r) = !isnan(r) && (isnan(l) || l > r) *)
Definition key_before (asc : bool) (a b : key) : bool :=
  if asc then key_lt a b
  else match a, b with
       | KNum _, KNum DNaN => false
       | KNum DNaN, KNum _ => true
       | _, _ => key_lt b a
       end.

(* stable insertion sort: x goes before the first element it is strictly before *)
Fixpoint insert_by {A} (before : A -> A -> bool) (x : A) (l : list A) : list A :=
  match l with
  | [] => [x]
  | y :: ys => if before x y then x :: l else y :: insert_by before x ys
  end.
Definition sort_by {A} (before : A -> A -> bool) (l : list A) : list A :=
  fold_left (fun acc x => insert_by before x acc) l [].

Definition key_of_value (v : value) : res key :=
  match v with
  | VNum d => Ok (KNum d)
  | VBool b => Ok (KBool b)
  | VStr i s => Ok (KStr i s)
  | _ => Err EValue
  end.
Definition value_of_key (k : key) : value :=
  match k with KNum d => VNum d | KBool b => VBool b | KStr i s => VStr i s end.

(* one list of leaves: (position, value) -> sorted valid ones, then the missing ones *)
Definition sort_leaves (asc argsort : bool) (l : list (Z * value)) : res (list value) :=
  let valid := filter (fun jv : Z * value => match snd jv with VNone => false | _ => true end) l in
  let nones := filter (fun jv : Z * value => match snd jv with VNone => true | _ => false end) l in
  do keyed <- mapM (fun jv : Z * value => do k <- key_of_value (snd jv); Ok (fst jv, k)) valid;
  let sorted := sort_by (fun a b : Z * key => key_before asc (snd a) (snd b)) keyed in
  if argsort
  then Ok (map (fun jk : Z * key => VNum (DZ (fst jk))) sorted ++ map (fun jv : Z * value => VNum (DZ (fst jv))) nones)
  else Ok (map (fun jk : Z * key => value_of_key (snd jk)) sorted ++ map (fun _ => VNone) nones).

Fixpoint is_leaf_ty (t : ty) : bool :=
  match t with
  | TNum _ => true
  | TList _ (Some _) _ => true
  | TOpt t' => is_leaf_ty t'
  | _ => false
  end.

Definition enumv (l : list value) : list (Z * value) := zip (iota (zlen l)) l.

Definition sort_f (asc argsort : bool) (_ : ty) (l : list value) : res value :=
  rmap VList (sort_leaves asc argsort (enumv l)).

(* sortable: every branch ends in numbers or strings (no records / unions / unknown) *)
Fixpoint sortable (t : ty) : bool :=
  match t with
  | TNum _ => true
  | TUnk => true
  | TList _ (Some _) _ => true
  | TList _ None t' | TOpt t' => sortable t'
  | TRec _ _ | TUnion _ => false
  end.

(* innermost axis only here; [None] = not the innermost axis (specified by sortcols below) *)
Definition sort_spec_inner (asc argsort : bool) (axis : Z) (t : ty) (vs : list value) : res (list value) :=
  do ax <- resolve_axis t 0 axis;
  if negb (sortable t) then Err EValue
  else if ax =? 0 then (if is_leaf_ty t then sort_leaves asc argsort (enumv vs) else Err EFuel)
  else spec_ax (sort_f asc argsort) true is_leaf_ty true t ax vs.

(* ---- model: innermost axis ---- *)
(* keys of a leaf-level content, None for missing *)
Fixpoint leaf_keys (p : option akind) (c : content) {struct c} : res (list (option key)) :=
  match c with
  | Numpy dt [_] data =>
      Ok (map (fun d => Some (match dt with
                              | DBool => KBool (match d with DZ z => negb (z =? 0) | _ => true end)
                              | _ => KNum d end)) (take (clen c) data))
  | Numpy _ _ _ => Err EValue
  | Empty => Ok []
  | Indexed _ ix c' => do ks <- leaf_keys None c'; mapM (get ks) ix
  | IndexedOption _ _ c' | ByteMasked _ _ c' | BitMasked _ _ _ _ c' | Unmasked c' =>
      do oi <- option_index c;
      do ks <- leaf_keys None c';
      mapM (fun i => if i <? 0 then Ok None else get ks i) (fst oi)
  | ListOffset _ _ c' | ListA _ _ _ c' | Regular c' _ _ =>
      match strflag p with
      | None => Err EValue
      | Some isstr =>
          do bc <- list_bounds c;
          match strip c' with
          | Numpy DUInt8 [_] data =>
              mapM (fun ab : Z * Z =>
                      do ds <- (if fst ab =? snd ab then Ok [] else slice data (fst ab) (snd ab));
                      do bs <- mapM (fun d => match d with DZ z => Ok z | _ => Err EValue end) ds;
                      Ok (Some (KStr isstr bs))) (fst bc)
          | _ => Err EValue
          end
      end
  | Par a _ c' => leaf_keys a c'
  | _ => Err EValue
  end.

Definition leaf_dtype (c : content) : dtype :=
  (fix go (c : content) : dtype :=
     match c with
     | Numpy dt _ _ => dt
     | Indexed _ _ c' | IndexedOption _ _ c' | ByteMasked _ _ c' | BitMasked _ _ _ _ c' | Unmasked c' | Par _ _ c' => go c'
     | _ => DFloat64
     end) c.

(* rebuild a leaf-level layout from (possibly missing) keys *)
Definition content_of_keys (dt : dtype) (ks : list (option key)) : content :=
  let valid := flat_map (fun o => match o with Some k => [k] | None => [] end) ks in
  let index := (fix go (ks : list (option key)) (n : Z) : list Z :=
                  match ks with
                  | [] => []
                  | Some _ :: r => n :: go r (n + 1)
                  | None :: r => -1 :: go r n
                  end) ks 0 in
  let isstr := existsb (fun k => match k with KStr _ _ => true | _ => false end) valid in
  let inner :=
    if isstr then
      let strs := map (fun k => match k with KStr _ s => s | _ => [] end) valid in
      let i := match valid with KStr i _ :: _ => i | _ => true end in
      Par (Some (if i then AString else ABytestring)) None
        (ListOffset I64 (offsets_from 0 (map zlen strs))
           (Par (Some (if i then AChar else AByte)) None
              (Numpy DUInt8 [zlen (concat strs)] (map DZ (concat strs)))))
    else
      Numpy dt [zlen valid]
        (map (fun k => match k with KNum d => d | KBool b => DZ (if b then 1 else 0) | _ => DZ 0 end) valid) in
  if existsb (fun o => match o with None => true | Some _ => false end) ks
  then IndexedOption I64 index inner else inner.

Definition sort_keys (asc argsort : bool) (dt : dtype) (ks : list (option key)) : list (option key) :=
  let l := zip (iota (zlen ks)) ks in
  let valid := flat_map (fun jk : Z * option key => match snd jk with Some k => [(fst jk, k)] | None => [] end) l in
  let nones := flat_map (fun jk : Z * option key => match snd jk with None => [fst jk] | Some _ => [] end) l in
  let sorted := sort_by (fun a b : Z * key => key_before asc (snd a) (snd b)) valid in
  if argsort
  then map (fun jk : Z * key => Some (KNum (DZ (fst jk)))) sorted ++ map (fun j => Some (KNum (DZ j))) nones
  else map (fun jk : Z * key => Some (snd jk)) sorted ++ map (fun _ => None) nones.

Definition sort_g (asc argsort : bool) (_ : option akind) (c : content) : res content :=
  do bc <- list_bounds c;
  do ks <- leaf_keys None (snd bc);
  do per <- mapM (fun ab : Z * Z =>
                    do seg <- (if fst ab =? snd ab then Ok [] else slice ks (fst ab) (snd ab));
                    Ok (sort_keys asc argsort (leaf_dtype (snd bc)) seg)) (fst bc);
  Ok (ListOffset I64 (offsets_from 0 (map zlen per))
        (content_of_keys (if argsort then DInt64 else leaf_dtype (snd bc)) (concat per))).

Definition sort_model (asc argsort : bool) (axis : Z) (c : content) : res content :=
  let t := type_of c in
  do ax <- resolve_axis t 0 axis;
  if negb (sortable t) then Err EValue
  else if ax =? 0 then
    (if is_leaf_ty t
     then do ks <- leaf_keys None (expand c);
          Ok (content_of_keys (if argsort then DInt64 else leaf_dtype c)
                (sort_keys asc argsort (leaf_dtype c) ks))
     else Err EFuel)
  else
    (* the at-axis descent reaches the list holding the leaves only if the axis is the innermost one;
       a shallower axis makes sort_g fail on non-leaf content: reported as "not modelled" *)
    match model_ax (sort_g asc argsort) (Ok Empty) true c ax with
    | Ok r => Ok r
    | Err EValue => (match check_ax true is_leaf_ty true t 0 ax with
                     | Ok _ => Err EValue
                     | Err _ => (match check_ax true (fun _ => true) true t 0 ax with
                                 | Ok _ => Err EFuel      (* legal but non-innermost axis *)
                                 | Err e => Err e
                                 end)
                     end)
    | Err e => Err e
    end.

(* ---- spec for every axis: sort the columns ---- *)
Fixpoint assocZ {A} (j : Z) (l : list (Z * A)) : res A :=
  match l with
  | [] => Err EValue
  | (k, v) :: r => if j =? k then Ok v else assocZ j r
  end.

Fixpoint sortcols (asc argsort : bool) (t : ty) (rows : list (Z * value)) {struct t} : res (list (Z * value)) :=
  if is_leaf_ty t then
    do vs <- sort_leaves asc argsort rows;
    Ok (zip (map fst rows) vs)
  else
    match t with
    | TOpt t' =>
        (* missing lists go last, like missing leaves *)
        let present := filter (fun jv : Z * value => match snd jv with VNone => false | _ => true end) rows in
        let nones := filter (fun jv : Z * value => match snd jv with VNone => true | _ => false end) rows in
        do out <- sortcols asc argsort t' present;
        Ok (zip (map fst rows) (map snd out ++ map snd nones))
    | TList _ None t' =>
        do ls <- mapM (fun jv : Z * value =>
                         match snd jv with VList l => Ok (fst jv, l) | _ => Err EValue end) rows;
        let maxlen := fold_left Z.max (map (fun jl : Z * list value => zlen (snd jl)) ls) 0 in
        do cols <- mapM (fun p =>
                           sortcols asc argsort t'
                             (flat_map (fun jl : Z * list value =>
                                          match get (snd jl) p with Ok v => [(fst jl, v)] | Err _ => [] end) ls))
                        (iota maxlen);
        mapM (fun jl : Z * list value =>
                do vs <- mapM (fun pc : Z * list (Z * value) => assocZ (fst jl) (snd pc))
                              (zip (iota (zlen (snd jl))) cols);
                Ok (fst jl, VList vs)) ls
    | TUnk => match rows with [] => Ok [] | _ => Err EValue end
    | _ => Err EValue
    end.

Definition sortcols_f (asc argsort : bool) (t : ty) (l : list value) : res value :=
  do out <- sortcols asc argsort t (enumv l); Ok (VList (map snd out)).

Definition sort_spec (asc argsort : bool) (axis : Z) (t : ty) (vs : list value) : res (list value) :=
  do ax <- resolve_axis t 0 axis;
  if negb (sortable t) then Err EValue
  else if ax =? 0 then do out <- sortcols asc argsort t (enumv vs); Ok (map snd out)
  else spec_ax (sortcols_f asc argsort) true sortable true t ax vs.
